package main

// reassemblergen.go: go-libaudit's reassembler.go -- THIRD-PARTY code, the module /repo/go.mod pins -- as programs of
// the IR of coq/Model/ReassemblerIR.v (coq/Gen/ReassemblerProg.v).
//
// The module directory is resolved the way `go list -m` does: the import path processors/auditd/auditd.go uses
// (…/go-libaudit/v2), its version from go.mod's require, go.mod's replace (to another module path + version, or to a
// local directory), then vendor/ or the module cache (GOMODCACHE, GOPATH/pkg/mod, ~/go/pkg/mod).  For a module taken
// from the cache the h1: directory hash is recomputed and compared with go.sum.
//
// Translated, statement by statement: eventList.Put / CleanUp / Clear / remove, event.Add / IsExpired,
// sequenceNumSlice.Less, abs, Reassembler.PushMessage / Maintain / Close / callback; checked: sequenceNumSlice.Sort is
// sort.Sort(p), Len is len(p), Swap swaps.  Struct fields are identified by their declared TYPE (role), so renaming a
// field changes nothing; functions and types are looked up by name.  auparse's record-type constants and maxSortRange
// are evaluated.  Anything else becomes an identifier UNSUPPORTED_line_<n> that does not exist in Coq (fail closed).
// Go standard library only.

import (
	"crypto/sha256"
	"encoding/base64"
	"fmt"
	"go/ast"
	"go/parser"
	"go/token"
	"io"
	"os"
	"path/filepath"
	"sort"
	"strconv"
	"strings"
)

func init() { generators = append(generators, genReassembler) }

// ---------------------------------------------------------------------------------------------
// module resolution

type raModule struct {
	importPath string // what the repo imports
	modPath    string // after replace
	version    string // after replace ("" for a local directory)
	dir        string
	how        string
	sumOK      string // "true" | "false" | "n/a"
}

func raEscape(p string) string {
	var sb strings.Builder
	for _, r := range p {
		if r >= 'A' && r <= 'Z' {
			sb.WriteByte('!')
			sb.WriteRune(r + ('a' - 'A'))
		} else {
			sb.WriteRune(r)
		}
	}
	return sb.String()
}

func raIsDir(p string) bool {
	fi, err := os.Stat(p)
	return err == nil && fi.IsDir()
}

// raGoModLines returns the directives of go.mod with block forms flattened: each entry is the fields of one
// directive line with its keyword first ("require", "replace", ...).
func raGoModLines(src string) [][]string {
	var out [][]string
	block := ""
	for _, ln := range strings.Split(src, "\n") {
		if i := strings.Index(ln, "//"); i >= 0 {
			ln = ln[:i]
		}
		f := strings.Fields(ln)
		if len(f) == 0 {
			continue
		}
		if block != "" {
			if f[0] == ")" {
				block = ""
				continue
			}
			out = append(out, append([]string{block}, f...))
			continue
		}
		if len(f) == 2 && f[1] == "(" {
			block = f[0]
			continue
		}
		out = append(out, f)
	}
	return out
}

func raImportOfRepo(repo string) string {
	const dflt = "github.com/elastic/go-libaudit/v2"
	path := filepath.Join(repo, "processors/auditd/auditd.go")
	f, err := parser.ParseFile(token.NewFileSet(), path, nil, parser.ImportsOnly)
	if err != nil {
		return dflt
	}
	for _, im := range f.Imports {
		p, err := strconv.Unquote(im.Path.Value)
		if err == nil && strings.HasSuffix(p, "/go-libaudit/v2") {
			return p
		}
	}
	return dflt
}

func raResolveModule(repo string) (*raModule, error) {
	m := &raModule{importPath: raImportOfRepo(repo), sumOK: "n/a"}
	b, err := os.ReadFile(filepath.Join(repo, "go.mod"))
	if err != nil {
		return nil, err
	}
	lines := raGoModLines(string(b))
	version := ""
	for _, f := range lines {
		if f[0] == "require" && len(f) >= 3 && f[1] == m.importPath {
			version = f[2]
		}
	}
	if version == "" {
		return nil, fmt.Errorf("go.mod does not require %s", m.importPath)
	}
	m.modPath, m.version = m.importPath, version
	localDir := ""
	for _, f := range lines {
		if f[0] != "replace" {
			continue
		}
		arrow := -1
		for i, x := range f {
			if x == "=>" {
				arrow = i
			}
		}
		if arrow < 2 || arrow+1 >= len(f) || f[1] != m.importPath {
			continue
		}
		if arrow == 3 && f[2] != version {
			continue // a replace for another version
		}
		target := f[arrow+1]
		if strings.HasPrefix(target, "./") || strings.HasPrefix(target, "../") || strings.HasPrefix(target, "/") {
			if filepath.IsAbs(target) {
				localDir = target
			} else {
				localDir = filepath.Join(repo, target)
			}
			m.modPath, m.version = target, ""
		} else if arrow+2 < len(f) {
			m.modPath, m.version = target, f[arrow+2]
		}
	}
	if localDir != "" {
		if !raIsDir(localDir) {
			return nil, fmt.Errorf("replace target %s is not a directory", localDir)
		}
		m.dir, m.how = localDir, "local directory named by go.mod's replace"
		return m, nil
	}
	if d := filepath.Join(repo, "vendor", m.importPath); raIsDir(d) {
		m.dir, m.how = d, "vendor/"
		return m, nil
	}
	var roots []string
	if v := os.Getenv("GOMODCACHE"); v != "" {
		roots = append(roots, v)
	}
	if v := os.Getenv("GOPATH"); v != "" {
		for _, p := range filepath.SplitList(v) {
			roots = append(roots, filepath.Join(p, "pkg", "mod"))
		}
	}
	if h, err := os.UserHomeDir(); err == nil {
		roots = append(roots, filepath.Join(h, "go", "pkg", "mod"))
	}
	for _, r := range roots {
		if d := filepath.Join(r, raEscape(m.modPath)+"@"+m.version); raIsDir(d) {
			m.dir, m.how = d, "module cache"
			break
		}
	}
	if m.dir == "" {
		return nil, fmt.Errorf("module %s@%s not found in vendor/ or the module cache", m.modPath, m.version)
	}
	// go.sum: h1 of the module directory
	m.sumOK = "false"
	if sum, err := os.ReadFile(filepath.Join(repo, "go.sum")); err == nil {
		want := ""
		for _, ln := range strings.Split(string(sum), "\n") {
			f := strings.Fields(ln)
			if len(f) == 3 && f[0] == m.modPath && f[1] == m.version {
				want = f[2]
			}
		}
		if got, err := raDirHash(m.dir, m.modPath+"@"+m.version); err == nil && want != "" && got == want {
			m.sumOK = "true"
		}
	}
	return m, nil
}

// raDirHash is golang.org/x/mod/sumdb/dirhash.Hash1 over the files of dir, named prefix/<relative path>.
func raDirHash(dir, prefix string) (string, error) {
	var files []string
	err := filepath.Walk(dir, func(p string, info os.FileInfo, err error) error {
		if err != nil {
			return err
		}
		if info.IsDir() {
			return nil
		}
		rel, err := filepath.Rel(dir, p)
		if err != nil {
			return err
		}
		files = append(files, filepath.ToSlash(rel))
		return nil
	})
	if err != nil {
		return "", err
	}
	sort.Strings(files)
	h := sha256.New()
	for _, rel := range files {
		f, err := os.Open(filepath.Join(dir, rel))
		if err != nil {
			return "", err
		}
		hf := sha256.New()
		_, err = io.Copy(hf, f)
		f.Close()
		if err != nil {
			return "", err
		}
		fmt.Fprintf(h, "%x  %s\n", hf.Sum(nil), prefix+"/"+rel)
	}
	return "h1:" + base64.StdEncoding.EncodeToString(h.Sum(nil)), nil
}

// ---------------------------------------------------------------------------------------------
// translation context

type raField struct {
	role string // Coq constructor of Model/ReassemblerIR.v's [field]
	typ  string // canonical type string
}

type raCtx struct {
	fset    *token.FileSet
	src     []byte
	structs map[string]map[string]raField // struct name -> field name -> role, type
	mutex   map[string]bool               // struct embeds sync.Mutex
	consts  map[string]int64              // package constants (evaluated)
	auConst map[string]int64              // auparse constants
	errVars map[string]bool               // package-level error variables
	funcs   map[string]*ast.FuncDecl      // "Recv.Name" or "Name"
	iface   map[string]bool               // methods of the Stream interface
	auAlias string                        // local name of the auparse import
	scopes  []map[string]string           // local variable types
	notes   []string
}

func (c *raCtx) line(n ast.Node) int { return c.fset.Position(n.Pos()).Line }

func (c *raCtx) text(n ast.Node) string {
	a, b := c.fset.Position(n.Pos()).Offset, c.fset.Position(n.End()).Offset
	if a < 0 || b > len(c.src) || a > b {
		return "?"
	}
	return string(c.src[a:b])
}

func (c *raCtx) flat(n ast.Node) string { return strings.Join(strings.Fields(c.text(n)), "") }

// unsup renders a construct the translator does not understand: an identifier unknown to Coq + a comment
func (c *raCtx) unsup(n ast.Node, why string) string {
	t := strings.Join(strings.Fields(c.text(n)), " ")
	if len(t) > 90 {
		t = t[:90] + "…"
	}
	t = strings.ReplaceAll(strings.ReplaceAll(t, "(*", "( *"), "*)", "* )")
	c.notes = append(c.notes, fmt.Sprintf("line %d: %s", c.line(n), why))
	return fmt.Sprintf("UNSUPPORTED_line_%d (* %s: %s *)", c.line(n), why, t)
}

func (c *raCtx) push()                 { c.scopes = append(c.scopes, map[string]string{}) }
func (c *raCtx) pop()                  { c.scopes = c.scopes[:len(c.scopes)-1] }
func (c *raCtx) declare(x, typ string) { c.scopes[len(c.scopes)-1][x] = typ }
func (c *raCtx) lookup(x string) (string, bool) {
	for i := len(c.scopes) - 1; i >= 0; i-- {
		if t, ok := c.scopes[i][x]; ok {
			return t, true
		}
	}
	return "", false
}

func raQ(s string) string { return `"` + strings.ReplaceAll(s, `"`, `""`) + `"` }

// canonical type strings
func (c *raCtx) typeStr(e ast.Expr) string {
	s := c.flat(e)
	if c.auAlias != "" {
		s = strings.ReplaceAll(s, c.auAlias+".", "auparse.")
	}
	return s
}

var raKnownFuncs = map[string]string{
	"eventList.Put": "FnPut", "event.Add": "FnAdd", "event.IsExpired": "FnIsExpired", "eventList.CleanUp": "FnCleanUp",
	"eventList.Clear": "FnClear", "eventList.remove": "FnRemove", "sequenceNumSlice.Less": "FnLess", "abs": "FnAbs",
	"Reassembler.PushMessage": "FnPushMessage", "Reassembler.Maintain": "FnMaintain", "Reassembler.Close": "FnClose",
	"Reassembler.callback": "FnCallback",
}

// result types of the translated functions
func (c *raCtx) resultTypes(key string) []string {
	fd := c.funcs[key]
	if fd == nil || fd.Type.Results == nil {
		return nil
	}
	var out []string
	for _, f := range fd.Type.Results.List {
		n := len(f.Names)
		if n == 0 {
			n = 1
		}
		for i := 0; i < n; i++ {
			out = append(out, c.typeStr(f.Type))
		}
	}
	return out
}

func raBase(t string) string { return strings.TrimPrefix(t, "*") }

// ---------------------------------------------------------------------------------------------
// constants

func (c *raCtx) constInt(e ast.Expr, env map[string]int64) (int64, bool) {
	switch v := e.(type) {
	case *ast.ParenExpr:
		return c.constInt(v.X, env)
	case *ast.BasicLit:
		if v.Kind == token.INT {
			n, err := strconv.ParseInt(v.Value, 0, 64)
			return n, err == nil
		}
	case *ast.Ident:
		n, ok := env[v.Name]
		return n, ok
	case *ast.UnaryExpr:
		if v.Op == token.SUB {
			n, ok := c.constInt(v.X, env)
			return -n, ok
		}
	case *ast.BinaryExpr:
		a, ok1 := c.constInt(v.X, env)
		b, ok2 := c.constInt(v.Y, env)
		if !ok1 || !ok2 {
			return 0, false
		}
		switch v.Op {
		case token.ADD:
			return a + b, true
		case token.SUB:
			return a - b, true
		case token.MUL:
			return a * b, true
		case token.SHL:
			if b >= 0 && b < 62 {
				return a << uint(b), true
			}
		}
	}
	return 0, false
}

// raDirConsts: integer constants declared with a literal value in the non-test files of a package directory
func raDirConsts(dir string) map[string]int64 {
	out := map[string]int64{}
	ents, err := os.ReadDir(dir)
	if err != nil {
		return out
	}
	c := &raCtx{}
	for _, e := range ents {
		n := e.Name()
		if e.IsDir() || !strings.HasSuffix(n, ".go") || strings.HasSuffix(n, "_test.go") {
			continue
		}
		fset := token.NewFileSet()
		f, err := parser.ParseFile(fset, filepath.Join(dir, n), nil, 0)
		if err != nil {
			continue
		}
		for _, d := range f.Decls {
			gd, ok := d.(*ast.GenDecl)
			if !ok || gd.Tok != token.CONST {
				continue
			}
			for _, sp := range gd.Specs {
				vs, ok := sp.(*ast.ValueSpec)
				if !ok || len(vs.Names) != len(vs.Values) {
					continue
				}
				for i, nm := range vs.Names {
					if v, ok := c.constInt(vs.Values[i], out); ok {
						out[nm.Name] = v
					}
				}
			}
		}
	}
	return out
}

// ---------------------------------------------------------------------------------------------
// expressions: (Coq term, canonical Go type)

var raCmpOps = map[token.Token]string{token.EQL: "OEq", token.NEQ: "ONe", token.LSS: "OLt", token.LEQ: "OLe", token.GTR: "OGt", token.GEQ: "OGe"}

func raZ(n int64) string {
	if n < 0 {
		return fmt.Sprintf("(%d)", n)
	}
	return fmt.Sprint(n)
}

func (c *raCtx) fieldOf(x ast.Expr, sel *ast.Ident, n ast.Node) (string, string) {
	xs, xt := c.expr(x)
	st := c.structs[raBase(xt)]
	if st == nil {
		return c.unsup(n, "field of a value whose type ("+xt+") is not one of the translated structs"), "?"
	}
	f, ok := st[sel.Name]
	if !ok || f.role == "" {
		return c.unsup(n, "field without a role"), "?"
	}
	return fmt.Sprintf("(XField %s %s)", xs, f.role), f.typ
}

// isValueExpr: not a bare identifier that names no local variable (i.e. not a package name)
func (c *raCtx) isValueExpr(e ast.Expr) bool {
	if id, ok := e.(*ast.Ident); ok {
		_, found := c.lookup(id.Name)
		return found
	}
	return true
}

// callTarget recognises a call of one of the translated functions: key, receiver term ("None" / "(Some ..)")
func (c *raCtx) callTarget(call *ast.CallExpr) (string, string, bool) {
	switch f := call.Fun.(type) {
	case *ast.Ident:
		if _, ok := raKnownFuncs[f.Name]; ok && c.funcs[f.Name] != nil {
			if _, shadow := c.lookup(f.Name); !shadow {
				return f.Name, "None", true
			}
		}
	case *ast.SelectorExpr:
		if !c.isValueExpr(f.X) {
			return "", "", false
		}
		rs, rt := c.expr(f.X)
		key := raBase(rt) + "." + f.Sel.Name
		if _, ok := raKnownFuncs[key]; ok && c.funcs[key] != nil {
			return key, "(Some " + rs + ")", true
		}
	}
	return "", "", false
}

func (c *raCtx) expr(e ast.Expr) (string, string) {
	switch v := e.(type) {
	case *ast.ParenExpr:
		return c.expr(v.X)
	case *ast.Ident:
		if t, ok := c.lookup(v.Name); ok {
			return "(XVar " + raQ(v.Name) + ")", t
		}
		switch v.Name {
		case "true":
			return "(XBool true)", "bool"
		case "false":
			return "(XBool false)", "bool"
		case "nil":
			return "XNilE", "nil"
		}
		if n, ok := c.consts[v.Name]; ok {
			if v.Name == "maxSortRange" {
				return "(XInt gen_maxSortRange)", "untyped int"
			}
			return "(XInt " + raZ(n) + ")", "untyped int"
		}
		if c.errVars[v.Name] {
			return "(XErrVar " + raQ(v.Name) + ")", "error"
		}
		return c.unsup(e, "identifier that is not a local, a constant or a package-level error"), "?"
	case *ast.BasicLit:
		if v.Kind == token.INT {
			if n, err := strconv.ParseInt(v.Value, 0, 64); err == nil {
				return "(XInt " + raZ(n) + ")", "untyped int"
			}
		}
		return c.unsup(e, "literal"), "?"
	case *ast.SelectorExpr:
		if id, ok := v.X.(*ast.Ident); ok && id.Name == c.auAlias {
			if _, local := c.lookup(id.Name); !local {
				n, ok := c.auConst[v.Sel.Name]
				if !ok {
					return c.unsup(e, "auparse name that is not an integer constant"), "?"
				}
				switch v.Sel.Name {
				case "AUDIT_EOE", "AUDIT_PROCTITLE", "AUDIT_LAST_DAEMON", "AUDIT_ANOM_LOGIN_FAILURES":
					return "(XInt gen_" + v.Sel.Name + ")", "auparse.AuditMessageType"
				}
				return fmt.Sprintf("(XInt %s (* auparse.%s *))", raZ(n), v.Sel.Name), "auparse.AuditMessageType"
			}
		}
		return c.fieldOf(v.X, v.Sel, e)
	case *ast.UnaryExpr:
		if v.Op == token.AND {
			if cl, ok := v.X.(*ast.CompositeLit); ok {
				return c.newEvent(cl)
			}
			return c.unsup(e, "address of something other than an event literal"), "?"
		}
		xs, xt := c.expr(v.X)
		switch v.Op {
		case token.SUB:
			return "(XNeg " + xs + ")", xt
		case token.NOT:
			return "(XNot " + xs + ")", "bool"
		}
		return c.unsup(e, "unary operator"), "?"
	case *ast.BinaryExpr:
		xs, xt := c.expr(v.X)
		ys, yt := c.expr(v.Y)
		if op, ok := raCmpOps[v.Op]; ok {
			return fmt.Sprintf("(XCmp %s %s %s)", op, xs, ys), "bool"
		}
		switch v.Op {
		case token.SUB:
			t := xt
			if t == "untyped int" {
				t = yt
			}
			return fmt.Sprintf("(XSub %s %s)", xs, ys), t
		case token.LOR:
			return fmt.Sprintf("(XOr %s %s)", xs, ys), "bool"
		case token.LAND:
			return fmt.Sprintf("(XAnd %s %s)", xs, ys), "bool"
		}
		return c.unsup(e, "binary operator "+v.Op.String()), "?"
	case *ast.IndexExpr:
		xs, xt := c.expr(v.X)
		is, _ := c.expr(v.Index)
		switch {
		case strings.HasPrefix(xt, "map["):
			return fmt.Sprintf("(XMapGet %s %s)", xs, is), "*event"
		case xt == "sequenceNumSlice":
			return fmt.Sprintf("(XIndex %s %s)", xs, is), "sequenceNum"
		case xt == "[]*event":
			return fmt.Sprintf("(XIndex %s %s)", xs, is), "*event"
		}
		return c.unsup(e, "index into a value of type "+xt), "?"
	case *ast.SliceExpr:
		xs, xt := c.expr(v.X)
		if v.Low != nil && v.High == nil && v.Max == nil && !v.Slice3 && xt == "sequenceNumSlice" {
			ls, _ := c.expr(v.Low)
			return fmt.Sprintf("(XSliceFrom %s %s)", xs, ls), xt
		}
		return c.unsup(e, "slice expression (only s[lo:] on the sequence slice is translated)"), "?"
	case *ast.CallExpr:
		return c.callExpr(v)
	}
	return c.unsup(e, fmt.Sprintf("expression form %T", e)), "?"
}

func (c *raCtx) newEvent(cl *ast.CompositeLit) (string, string) {
	if c.typeStr(cl.Type) != "event" {
		return c.unsup(cl, "composite literal of a type other than event"), "?"
	}
	exp, done := "None", "None"
	for _, el := range cl.Elts {
		kv, ok := el.(*ast.KeyValueExpr)
		if !ok {
			return c.unsup(cl, "positional composite literal"), "?"
		}
		k, ok := kv.Key.(*ast.Ident)
		if !ok {
			return c.unsup(cl, "composite literal key"), "?"
		}
		f := c.structs["event"][k.Name]
		switch f.role {
		case "FExpire":
			s, t := c.expr(kv.Value)
			if t != "time.Time" {
				return c.unsup(kv.Value, "expiry that is not a time.Time"), "?"
			}
			exp = "(Some " + s + ")"
		case "FComplete":
			s, _ := c.expr(kv.Value)
			done = "(Some " + s + ")"
		case "FMsgs":
			// make([]*auparse.AuditMessage, 0, n): an empty slice; the capacity has no meaning
			mk, ok := kv.Value.(*ast.CallExpr)
			okMake := ok && len(mk.Args) >= 2 && c.flat(mk.Fun) == "make" && c.typeStr(mk.Args[0]) == "[]*auparse.AuditMessage" && c.flat(mk.Args[1]) == "0"
			if !okMake && c.flat(kv.Value) != "nil" {
				return c.unsup(kv.Value, "initial records of a new event (only an empty slice is translated)"), "?"
			}
		default:
			return c.unsup(kv, "field of the event literal"), "?"
		}
	}
	return fmt.Sprintf("(XNewEvent %s %s)", exp, done), "*event"
}

func (c *raCtx) callExpr(call *ast.CallExpr) (string, string) {
	if call.Ellipsis.IsValid() {
		return c.unsup(call, "variadic call"), "?"
	}
	fn := c.flat(call.Fun)
	if id, ok := call.Fun.(*ast.Ident); ok {
		if _, shadow := c.lookup(id.Name); !shadow {
			switch id.Name {
			case "len":
				if len(call.Args) == 1 {
					s, _ := c.expr(call.Args[0])
					return "(XLen " + s + ")", "int"
				}
			case "append":
				if len(call.Args) == 2 {
					a, at := c.expr(call.Args[0])
					x, _ := c.expr(call.Args[1])
					return fmt.Sprintf("(XAppend %s %s)", a, x), at
				}
				return c.unsup(call, "append with other than two arguments"), "?"
			case "int", "int64", "sequenceNum":
				if len(call.Args) == 1 {
					s, _ := c.expr(call.Args[0])
					ct := map[string]string{"int": "TInt", "int64": "TInt64", "sequenceNum": "TSeqNum"}[id.Name]
					return fmt.Sprintf("(XConv %s %s)", ct, s), id.Name
				}
			}
		}
	}
	switch fn {
	case "time.Now":
		if len(call.Args) == 0 {
			return "XNow", "time.Time"
		}
	case "atomic.LoadInt32":
		if len(call.Args) == 1 {
			if u, ok := call.Args[0].(*ast.UnaryExpr); ok && u.Op == token.AND {
				s, t := c.expr(u.X)
				if t == "int32" {
					return "(XAtomicLoad " + s + ")", "int32"
				}
			}
		}
		return c.unsup(call, "atomic.LoadInt32 of something other than &<int32 field>"), "?"
	}
	if sel, ok := call.Fun.(*ast.SelectorExpr); ok {
		// methods of time.Time
		if c.isValueExpr(sel.X) {
			xs, xt := c.expr(sel.X)
			if xt == "time.Time" {
				switch {
				case sel.Sel.Name == "Add" && len(call.Args) == 1:
					d, dt := c.expr(call.Args[0])
					if dt == "time.Duration" {
						return fmt.Sprintf("(XTimeAdd %s %s)", xs, d), "time.Time"
					}
				case sel.Sel.Name == "After" && len(call.Args) == 1:
					y, yt := c.expr(call.Args[0])
					if yt == "time.Time" {
						return fmt.Sprintf("(XTimeAfter %s %s)", xs, y), "bool"
					}
				}
				return c.unsup(call, "method of time.Time other than Add(duration) / After(time)"), "?"
			}
		}
	}
	if key, recv, ok := c.callTarget(call); ok {
		rts := c.resultTypes(key)
		if len(rts) != 1 || len(call.Args) > 1 {
			return c.unsup(call, "call in expression position with other than one result / more than one argument"), "?"
		}
		arg := "None"
		if len(call.Args) == 1 {
			s, _ := c.expr(call.Args[0])
			arg = "(Some " + s + ")"
		}
		return fmt.Sprintf("(XCall %s %s %s)", recv, raKnownFuncs[key], arg), rts[0]
	}
	return c.unsup(call, "call of a function that is not translated"), "?"
}

// ---------------------------------------------------------------------------------------------
// statements

func (c *raCtx) block(b *ast.BlockStmt, ind string) string {
	c.push()
	defer c.pop()
	return c.stmts(b.List, ind)
}

func (c *raCtx) stmts(list []ast.Stmt, ind string) string {
	var parts []string
	for _, s := range list {
		parts = append(parts, c.stmt(s, ind+"  "))
	}
	if len(parts) == 0 {
		return "{[ ]}"
	}
	return "{[\n" + ind + "  " + strings.Join(parts, ";\n"+ind+"  ") + "]}"
}

func (c *raCtx) exprList(es []ast.Expr) string {
	var parts []string
	for _, e := range es {
		s, _ := c.expr(e)
		parts = append(parts, s)
	}
	return "[" + strings.Join(parts, "; ") + "]"
}

func (c *raCtx) ctypeOf(t string) (string, bool) {
	switch t {
	case "int":
		return "TInt", true
	case "int64":
		return "TInt64", true
	case "sequenceNum":
		return "TSeqNum", true
	case "[]*event":
		return "TEvSlice", true
	}
	return "", false
}

func (c *raCtx) stmt(s ast.Stmt, ind string) string {
	switch v := s.(type) {
	case *ast.DeclStmt:
		gd, ok := v.Decl.(*ast.GenDecl)
		if ok && gd.Tok == token.VAR && len(gd.Specs) == 1 {
			vs := gd.Specs[0].(*ast.ValueSpec)
			if len(vs.Names) == 1 && len(vs.Values) == 0 && vs.Type != nil {
				t := c.typeStr(vs.Type)
				if ct, ok := c.ctypeOf(t); ok {
					c.declare(vs.Names[0].Name, t)
					return fmt.Sprintf("SVar %s %s", raQ(vs.Names[0].Name), ct)
				}
			}
		}
		return c.unsup(s, "declaration form")
	case *ast.AssignStmt:
		return c.assign(v)
	case *ast.ExprStmt:
		call, ok := v.X.(*ast.CallExpr)
		if !ok {
			return c.unsup(s, "expression statement")
		}
		return c.callStmt(call, nil, s)
	case *ast.DeferStmt:
		if sel, ok := v.Call.Fun.(*ast.SelectorExpr); ok && sel.Sel.Name == "Unlock" && len(v.Call.Args) == 0 {
			xs, xt := c.expr(sel.X)
			if c.mutex[raBase(xt)] {
				return "SDeferUnlock " + xs
			}
		}
		return c.unsup(s, "defer other than  defer <list>.Unlock()")
	case *ast.IfStmt:
		if v.Init != nil {
			return c.unsup(s, "if with an init statement")
		}
		th := c.block(v.Body, ind)
		el := "{[ ]}"
		switch e := v.Else.(type) {
		case nil:
		case *ast.BlockStmt:
			el = c.block(e, ind)
		case *ast.IfStmt:
			c.push()
			el = "{[\n" + ind + "  " + c.stmt(e, ind+"  ") + "]}"
			c.pop()
		default:
			return c.unsup(s, "else form")
		}
		if call, ok := v.Cond.(*ast.CallExpr); ok && c.flat(call.Fun) == "atomic.CompareAndSwapInt32" {
			if len(call.Args) == 3 {
				if u, ok := call.Args[0].(*ast.UnaryExpr); ok && u.Op == token.AND {
					if sel, ok := u.X.(*ast.SelectorExpr); ok {
						os, ot := c.expr(sel.X)
						f := c.structs[raBase(ot)][sel.Sel.Name]
						o, ok1 := c.constInt(call.Args[1], c.consts)
						n, ok2 := c.constInt(call.Args[2], c.consts)
						if f.role != "" && f.typ == "int32" && ok1 && ok2 {
							return fmt.Sprintf("SIfCas %s %s %s %s %s %s", os, f.role, raZ(o), raZ(n), th, el)
						}
					}
				}
			}
			return c.unsup(s, "atomic.CompareAndSwapInt32 form")
		}
		cs, _ := c.expr(v.Cond)
		return fmt.Sprintf("SIf %s %s %s", cs, th, el)
	case *ast.ForStmt:
		if v.Init != nil || v.Cond != nil || v.Post != nil {
			return c.unsup(s, "for with a clause (only  for { .. }  is translated)")
		}
		return "SFor " + c.block(v.Body, ind)
	case *ast.RangeStmt:
		k, kok := v.Key.(*ast.Ident)
		x, xok := v.Value.(*ast.Ident)
		if !kok || k.Name != "_" || !xok || v.Tok != token.DEFINE {
			return c.unsup(s, "range form (only  for _, x := range <[]*event>  is translated)")
		}
		es, et := c.expr(v.X)
		if et != "[]*event" {
			return c.unsup(s, "range over a value of type "+et)
		}
		c.push()
		c.declare(x.Name, "*event")
		body := c.block(v.Body, ind)
		c.pop()
		return fmt.Sprintf("SRange %s %s %s", raQ(x.Name), es, body)
	case *ast.BranchStmt:
		if v.Label == nil && v.Tok == token.BREAK {
			return "SBreak"
		}
		if v.Label == nil && v.Tok == token.CONTINUE {
			return "SContinue"
		}
		return c.unsup(s, "branch statement")
	case *ast.ReturnStmt:
		return "SReturn " + c.exprList(v.Results)
	case *ast.BlockStmt:
		return c.unsup(s, "nested block")
	}
	return c.unsup(s, fmt.Sprintf("statement form %T", s))
}

// callStmt: a call as a statement, or as the right-hand side of  rets := call
func (c *raCtx) callStmt(call *ast.CallExpr, rets []string, n ast.Node) string {
	if call.Ellipsis.IsValid() {
		return c.unsup(n, "variadic call")
	}
	if id, ok := call.Fun.(*ast.Ident); ok && id.Name == "delete" && rets == nil && len(call.Args) == 2 {
		if _, shadow := c.lookup("delete"); !shadow {
			ms, mt := c.expr(call.Args[0])
			ks, _ := c.expr(call.Args[1])
			if strings.HasPrefix(mt, "map[") {
				return fmt.Sprintf("SDelete %s %s", ms, ks)
			}
			return c.unsup(n, "delete on a value of type "+mt)
		}
	}
	if sel, ok := call.Fun.(*ast.SelectorExpr); ok && rets == nil {
		// the mutex
		if (sel.Sel.Name == "Lock") && len(call.Args) == 0 {
			xs, xt := c.expr(sel.X)
			if c.mutex[raBase(xt)] {
				return "SLock " + xs
			}
			return c.unsup(n, "Lock on a value of type "+xt)
		}
		if sel.Sel.Name == "Unlock" {
			return c.unsup(n, "Unlock as a statement (only  defer <list>.Unlock()  is translated)")
		}
		// l.seqs.Sort()
		if sel.Sel.Name == "Sort" && len(call.Args) == 0 {
			if in, ok := sel.X.(*ast.SelectorExpr); ok {
				os, ot := c.expr(in.X)
				f := c.structs[raBase(ot)][in.Sel.Name]
				if f.role == "FSeqs" {
					return fmt.Sprintf("SSort %s %s", os, f.role)
				}
			}
			return c.unsup(n, "Sort on something other than the list's sequence slice")
		}
		// the Stream
		if c.iface[sel.Sel.Name] && len(call.Args) == 1 {
			xs, xt := c.expr(sel.X)
			if xt == "Stream" {
				as, _ := c.expr(call.Args[0])
				switch sel.Sel.Name {
				case "ReassemblyComplete":
					return fmt.Sprintf("SStreamComplete %s %s", xs, as)
				case "EventsLost":
					return fmt.Sprintf("SStreamLost %s %s", xs, as)
				}
			}
		}
	}
	if key, recv, ok := c.callTarget(call); ok {
		rts := c.resultTypes(key)
		if rets != nil && len(rts) != len(rets) {
			return c.unsup(n, "number of results")
		}
		for i, r := range rets {
			c.declare(r, rts[i])
		}
		var rq []string
		for _, r := range rets {
			rq = append(rq, raQ(r))
		}
		return fmt.Sprintf("SCall [%s] %s %s %s", strings.Join(rq, "; "), recv, raKnownFuncs[key], c.exprList(call.Args))
	}
	return c.unsup(n, "call of a function that is not translated")
}

func (c *raCtx) assign(v *ast.AssignStmt) string {
	switch v.Tok {
	case token.DEFINE:
		var names []string
		for _, l := range v.Lhs {
			id, ok := l.(*ast.Ident)
			if !ok || id.Name == "_" {
				return c.unsup(v, "left-hand side of :=")
			}
			names = append(names, id.Name)
		}
		if len(v.Rhs) != 1 {
			return c.unsup(v, ":= with several right-hand sides")
		}
		// x, ok := m[k]
		if ix, ok := v.Rhs[0].(*ast.IndexExpr); ok && len(names) == 2 {
			ms, mt := c.expr(ix.X)
			ks, _ := c.expr(ix.Index)
			if strings.HasPrefix(mt, "map[") {
				c.declare(names[0], "*event")
				c.declare(names[1], "bool")
				return fmt.Sprintf("SDefineOk %s %s %s %s", raQ(names[0]), raQ(names[1]), ms, ks)
			}
			return c.unsup(v, "comma-ok on a value of type "+mt)
		}
		if call, ok := v.Rhs[0].(*ast.CallExpr); ok {
			if _, _, known := c.callTarget(call); known {
				return c.callStmt(call, names, v)
			}
		}
		if len(names) != 1 {
			return c.unsup(v, ":= with several names")
		}
		es, et := c.expr(v.Rhs[0])
		c.declare(names[0], et)
		return fmt.Sprintf("SDefine %s %s", raQ(names[0]), es)
	case token.ASSIGN:
		if len(v.Lhs) != 1 || len(v.Rhs) != 1 {
			return c.unsup(v, "parallel assignment")
		}
		switch l := v.Lhs[0].(type) {
		case *ast.Ident:
			if _, ok := c.lookup(l.Name); !ok {
				return c.unsup(v, "assignment to something that is not a local variable")
			}
			es, _ := c.expr(v.Rhs[0])
			return fmt.Sprintf("SAssign %s %s", raQ(l.Name), es)
		case *ast.SelectorExpr:
			os, ot := c.expr(l.X)
			f := c.structs[raBase(ot)][l.Sel.Name]
			if f.role == "" {
				return c.unsup(v, "assignment to a field without a role")
			}
			es, _ := c.expr(v.Rhs[0])
			return fmt.Sprintf("SSetField %s %s %s", os, f.role, es)
		case *ast.IndexExpr:
			ms, mt := c.expr(l.X)
			if !strings.HasPrefix(mt, "map[") {
				return c.unsup(v, "assignment to an element of a value of type "+mt)
			}
			ks, _ := c.expr(l.Index)
			es, _ := c.expr(v.Rhs[0])
			return fmt.Sprintf("SMapSet %s %s %s", ms, ks, es)
		}
		return c.unsup(v, "assignment target")
	case token.ADD_ASSIGN:
		if id, ok := v.Lhs[0].(*ast.Ident); ok && len(v.Rhs) == 1 {
			if _, ok := c.lookup(id.Name); ok {
				es, _ := c.expr(v.Rhs[0])
				return fmt.Sprintf("SAddAssign %s %s", raQ(id.Name), es)
			}
		}
	}
	return c.unsup(v, "assignment form "+v.Tok.String())
}

// ---------------------------------------------------------------------------------------------
// functions

func (c *raCtx) function(key, coqName string) string {
	fd := c.funcs[key]
	if fd == nil || fd.Body == nil {
		return fmt.Sprintf("Definition %s : rfunc := UNSUPPORTED_%s_not_found.\n", coqName, strings.ReplaceAll(key, ".", "_"))
	}
	c.scopes = nil
	c.push()
	recv := "None"
	if fd.Recv != nil && len(fd.Recv.List) == 1 && len(fd.Recv.List[0].Names) == 1 {
		nm := fd.Recv.List[0].Names[0].Name
		c.declare(nm, c.typeStr(fd.Recv.List[0].Type))
		recv = "Some " + raQ(nm)
	} else if fd.Recv != nil {
		recv = "UNSUPPORTED_receiver_without_a_name"
	}
	var params []string
	for _, p := range fd.Type.Params.List {
		if len(p.Names) == 0 {
			params = append(params, "UNSUPPORTED_parameter_without_a_name")
		}
		for _, nm := range p.Names {
			c.declare(nm.Name, c.typeStr(p.Type))
			params = append(params, raQ(nm.Name))
		}
	}
	body := c.stmts(fd.Body.List, "  ")
	return fmt.Sprintf("Definition %s : rfunc := {|\n  rf_recv := %s;\n  rf_params := [%s];\n  rf_body := %s |}.\n",
		coqName, recv, strings.Join(params, "; "), body)
}

// the sort.Interface methods other than Less
func (c *raCtx) sortIface() (string, string, string) {
	un := func(what string) string { return "UNSUPPORTED_sequenceNumSlice_" + what + "_has_another_shape" }
	srt, ln, sw := un("Sort"), un("Len"), un("Swap")
	recvName := func(fd *ast.FuncDecl) string {
		if fd != nil && fd.Recv != nil && len(fd.Recv.List) == 1 && len(fd.Recv.List[0].Names) == 1 && c.flat(fd.Recv.List[0].Type) == "sequenceNumSlice" {
			return fd.Recv.List[0].Names[0].Name
		}
		return ""
	}
	if fd := c.funcs["sequenceNumSlice.Sort"]; fd != nil && fd.Body != nil && len(fd.Body.List) == 1 && len(fd.Type.Params.List) == 0 {
		if p := recvName(fd); p != "" && c.flat(fd.Body.List[0]) == "sort.Sort("+p+")" {
			srt = "true"
		}
	}
	if fd := c.funcs["sequenceNumSlice.Len"]; fd != nil && fd.Body != nil && len(fd.Body.List) == 1 {
		if p := recvName(fd); p != "" && c.flat(fd.Body.List[0]) == "returnlen("+p+")" {
			ln = "true"
		}
	}
	if fd := c.funcs["sequenceNumSlice.Swap"]; fd != nil && fd.Body != nil && len(fd.Body.List) == 1 && len(fd.Type.Params.List) >= 1 {
		var ps []string
		for _, f := range fd.Type.Params.List {
			for _, n := range f.Names {
				ps = append(ps, n.Name)
			}
		}
		if p := recvName(fd); p != "" && len(ps) == 2 {
			i, j := ps[0], ps[1]
			if c.flat(fd.Body.List[0]) == fmt.Sprintf("%s[%s],%s[%s]=%s[%s],%s[%s]", p, i, p, j, p, j, p, i) {
				sw = "true"
			}
		}
	}
	return srt, ln, sw
}

func (c *raCtx) collect(f *ast.File, auDir string) {
	c.structs = map[string]map[string]raField{}
	c.mutex = map[string]bool{}
	c.consts = map[string]int64{}
	c.errVars = map[string]bool{}
	c.funcs = map[string]*ast.FuncDecl{}
	c.iface = map[string]bool{}
	for _, im := range f.Imports {
		p, _ := strconv.Unquote(im.Path.Value)
		if strings.HasSuffix(p, "/auparse") {
			c.auAlias = "auparse"
			if im.Name != nil {
				c.auAlias = im.Name.Name
			}
		}
	}
	roleByType := map[string]map[string]string{
		"eventList":   {"sequenceNumSlice": "FSeqs", "map[sequenceNum]*event": "FEvents", "sequenceNum": "FLastSeq", "int": "FMaxSize", "time.Duration": "FTimeout"},
		"event":       {"time.Time": "FExpire", "[]*auparse.AuditMessage": "FMsgs", "bool": "FComplete"},
		"Reassembler": {"int32": "FClosed", "*eventList": "FList", "Stream": "FStream"},
	}
	for _, d := range f.Decls {
		switch x := d.(type) {
		case *ast.FuncDecl:
			key := x.Name.Name
			if x.Recv != nil && len(x.Recv.List) == 1 {
				key = strings.TrimPrefix(c.flat(x.Recv.List[0].Type), "*") + "." + key
			}
			c.funcs[key] = x
		case *ast.GenDecl:
			for _, sp := range x.Specs {
				switch s := sp.(type) {
				case *ast.TypeSpec:
					switch t := s.Type.(type) {
					case *ast.StructType:
						fields := map[string]raField{}
						seen := map[string]int{}
						for _, fl := range t.Fields.List {
							ts := c.typeStr(fl.Type)
							if len(fl.Names) == 0 && ts == "sync.Mutex" {
								c.mutex[s.Name.Name] = true
								continue
							}
							for _, n := range fl.Names {
								role := roleByType[s.Name.Name][ts]
								if role != "" {
									seen[role]++
								}
								fields[n.Name] = raField{role: role, typ: ts}
							}
						}
						for n, fd := range fields {
							if fd.role != "" && seen[fd.role] > 1 {
								fields[n] = raField{typ: fd.typ} // two fields of one role type: no role
							}
						}
						c.structs[s.Name.Name] = fields
					case *ast.InterfaceType:
						if s.Name.Name == "Stream" {
							for _, m := range t.Methods.List {
								for _, n := range m.Names {
									c.iface[n.Name] = true
								}
							}
						}
					}
				case *ast.ValueSpec:
					if x.Tok == token.CONST && len(s.Names) == len(s.Values) {
						for i, n := range s.Names {
							if v, ok := c.constInt(s.Values[i], c.consts); ok {
								c.consts[n.Name] = v
							}
						}
					}
					if x.Tok == token.VAR && len(s.Names) == 1 && len(s.Values) == 1 && strings.HasPrefix(c.flat(s.Values[0]), "errors.New(") {
						c.errVars[s.Names[0].Name] = true
					}
				}
			}
		}
	}
	// auparse.AuditMessage: Sequence uint32, RecordType AuditMessageType (exported names of the library's API)
	c.structs["auparse.AuditMessage"] = map[string]raField{}
	if af, err := parser.ParseFile(token.NewFileSet(), filepath.Join(auDir, "auparse.go"), nil, 0); err == nil {
		for _, d := range af.Decls {
			gd, ok := d.(*ast.GenDecl)
			if !ok {
				continue
			}
			for _, sp := range gd.Specs {
				ts, ok := sp.(*ast.TypeSpec)
				if !ok || ts.Name.Name != "AuditMessage" {
					continue
				}
				if st, ok := ts.Type.(*ast.StructType); ok {
					for _, fl := range st.Fields.List {
						tn := ""
						if id, ok := fl.Type.(*ast.Ident); ok {
							tn = id.Name
						}
						for _, n := range fl.Names {
							if n.Name == "Sequence" && tn == "uint32" {
								c.structs["auparse.AuditMessage"]["Sequence"] = raField{role: "FSequence", typ: "uint32"}
							}
							if n.Name == "RecordType" && tn == "AuditMessageType" {
								c.structs["auparse.AuditMessage"]["RecordType"] = raField{role: "FRecordType", typ: "auparse.AuditMessageType"}
							}
						}
					}
				}
			}
		}
	}
	c.auConst = raDirConsts(auDir)
}

func genReassembler(repo, out string) error {
	var sb strings.Builder
	fail := func(why string) error {
		sb.Reset()
		sb.WriteString("(* GENERATED by tools/go2v (reassemblergen.go).  Do not edit. *)\n")
		sb.WriteString("From AM Require Import Model.ReassemblerIR.\n")
		fmt.Fprintf(&sb, "(* %s *)\nDefinition gen_reassembler : rprogs := UNSUPPORTED_reassembler_source_not_available.\n", strings.ReplaceAll(why, "*)", "* )"))
		return os.WriteFile(filepath.Join(out, "ReassemblerProg.v"), []byte(sb.String()), 0o644)
	}
	m, err := raResolveModule(repo)
	if err != nil {
		return fail(err.Error())
	}
	path := filepath.Join(m.dir, "reassembler.go")
	src, err := os.ReadFile(path)
	if err != nil {
		return fail(err.Error())
	}
	fset := token.NewFileSet()
	f, err := parser.ParseFile(fset, path, src, 0)
	if err != nil {
		return fail(err.Error())
	}
	c := &raCtx{fset: fset, src: src}
	c.collect(f, filepath.Join(m.dir, "auparse"))

	sb.WriteString("(* GENERATED by tools/go2v (reassemblergen.go) from reassembler.go of the go-libaudit module /repo/go.mod pins.\n")
	sb.WriteString("   Do not edit.  THIRD-PARTY code: eventList.Put / CleanUp / Clear / remove, event.Add / IsExpired,\n")
	sb.WriteString("   sequenceNumSlice.Less, abs, Reassembler.PushMessage / Maintain / Close / callback statement by statement, in the\n")
	sb.WriteString("   IR of Model/ReassemblerIR.v.\n")
	fmt.Fprintf(&sb, "   imported as %s; resolved to %s %s (%s)",
		m.importPath, m.modPath, m.version, m.how)
	if m.sumOK != "n/a" {
		fmt.Fprintf(&sb, "; h1 hash of the directory equals go.sum's: %s", m.sumOK)
	}
	sb.WriteString(" *)\n")
	sb.WriteString("From Coq Require Import String List ZArith.\nImport ListNotations.\nFrom AM Require Import Model.ReassemblerIR.\nOpen Scope string_scope.\n\n")
	fmt.Fprintf(&sb, "Definition gen_reassembler_import : string := %s.\n", raQ(m.importPath))
	fmt.Fprintf(&sb, "Definition gen_reassembler_module : string := %s.\n", raQ(m.modPath))
	fmt.Fprintf(&sb, "Definition gen_reassembler_version : string := %s.\n", raQ(m.version))
	fmt.Fprintf(&sb, "Definition gen_reassembler_source : string := %s.\n", raQ(m.how))
	fmt.Fprintf(&sb, "Definition gen_reassembler_gosum_verified : string := %s.\n\n", raQ(m.sumOK))

	sb.WriteString("(* auparse record types used by Put and Add, read from the module's auparse package *)\n")
	for _, n := range []string{"AUDIT_EOE", "AUDIT_PROCTITLE", "AUDIT_LAST_DAEMON", "AUDIT_ANOM_LOGIN_FAILURES"} {
		if v, ok := c.auConst[n]; ok {
			fmt.Fprintf(&sb, "Definition gen_%s : Z := %s.\n", n, raZ(v))
		} else {
			fmt.Fprintf(&sb, "Definition gen_%s : Z := UNSUPPORTED_auparse_%s_not_found.\n", n, n)
		}
	}
	if v, ok := c.consts["maxSortRange"]; ok {
		fmt.Fprintf(&sb, "(* const maxSortRange, evaluated *)\nDefinition gen_maxSortRange : Z := %s.\n\n", raZ(v))
	} else {
		sb.WriteString("Definition gen_maxSortRange : Z := UNSUPPORTED_maxSortRange_not_found.\n\n")
	}
	srt, ln, sw := c.sortIface()
	sb.WriteString("(* func (p sequenceNumSlice) Sort() { sort.Sort(p) }, Len() int { return len(p) }, Swap(i, j int) { p[i], p[j] = p[j], p[i] } *)\n")
	fmt.Fprintf(&sb, "Definition gen_sort_iface : sort_iface := {|\n  si_sort_is_sort_Sort := %s; si_len_is_len := %s; si_swap_is_swap := %s |}.\n\n", srt, ln, sw)

	order := []struct{ key, coq string }{
		{"Reassembler.PushMessage", "gen_PushMessage"}, {"Reassembler.Maintain", "gen_Maintain"}, {"Reassembler.Close", "gen_Close"},
		{"Reassembler.callback", "gen_callback"}, {"sequenceNumSlice.Less", "gen_Less"}, {"abs", "gen_abs"},
		{"event.Add", "gen_Add"}, {"event.IsExpired", "gen_IsExpired"}, {"eventList.remove", "gen_remove"},
		{"eventList.Clear", "gen_Clear"}, {"eventList.Put", "gen_Put"}, {"eventList.CleanUp", "gen_CleanUp"},
	}
	for _, o := range order {
		sb.WriteString(c.function(o.key, o.coq))
		sb.WriteString("\n")
	}
	sb.WriteString("Definition gen_reassembler : rprogs := {|\n  pg_Put := gen_Put; pg_Add := gen_Add; pg_IsExpired := gen_IsExpired; pg_CleanUp := gen_CleanUp;\n")
	sb.WriteString("  pg_Clear := gen_Clear; pg_remove := gen_remove; pg_Less := gen_Less; pg_abs := gen_abs;\n")
	sb.WriteString("  pg_PushMessage := gen_PushMessage; pg_Maintain := gen_Maintain; pg_Close := gen_Close;\n  pg_callback := gen_callback |}.\n")
	if len(c.notes) > 0 {
		sb.WriteString("\n(* NOT UNDERSTOOD:\n")
		for _, n := range c.notes {
			sb.WriteString("   " + strings.ReplaceAll(n, "*)", "* )") + "\n")
		}
		sb.WriteString("*)\n")
	}
	return os.WriteFile(filepath.Join(out, "ReassemblerProg.v"), []byte(sb.String()), 0o644)
}
