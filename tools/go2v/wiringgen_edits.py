#!/usr/bin/env python3
"""The source edits of WIRINGGEN_EDITS.md: each is applied to a scratch copy of /repo and must compile (go build ./..., go vet);
then go2v is run on the edited tree and Props/C08.vo, Props/C18.vo are rebuilt in a scratch copy of the Coq tree.
`--apply E04` only applies an edit (for a whole `VERIF_REPO=<scratch> bin/check C08`)."""
import os, re, shutil, subprocess, sys, json

# SCR: scratch copy of /repo (a git work tree, restored with git checkout between edits); COQ: scratch copy of /verif/coq
# (built); GO2V: the built translator; PRISTINE: the Gen directory generated from the unedited tree.
SCR = os.environ.get("EDITS_REPO", "/tmp/ws/D/repo_scratch")
COQ = os.environ.get("EDITS_COQ", "/tmp/ws/D/coqtmp")
GO2V = os.environ.get("EDITS_GO2V", "/tmp/ws/D/go2v")
GEN = os.environ.get("EDITS_GEN", "/tmp/ws/D/gen_edit")
PRISTINE = os.environ.get("EDITS_PRISTINE", "/tmp/ws/D/verif/coq/Gen")
OUT = os.environ.get("EDITS_OUT", "/tmp/ws/D/edits_result.json")
ENV = dict(os.environ, GOFLAGS="-mod=mod", GOPROXY="off", GOSUMDB="off", GOTOOLCHAIN="local")

def sh(cmd, cwd=None, timeout=900):
    p = subprocess.run(cmd, cwd=cwd, env=ENV, shell=isinstance(cmd, str), stdout=subprocess.PIPE, stderr=subprocess.STDOUT, timeout=timeout)
    return p.returncode, p.stdout.decode("utf-8", "replace")

def sub(path, old, new, count=1):
    p = os.path.join(SCR, path)
    s = open(p).read()
    assert old in s, (path, old)
    s = s.replace(old, new, count)
    open(p, "w").write(s)

def sub_nth(path, old, new, nth):
    p = os.path.join(SCR, path)
    s = open(p).read()
    idx = -1
    for _ in range(nth):
        idx = s.index(old, idx + 1)
    s = s[:idx] + new + s[idx + len(old):]
    open(p, "w").write(s)

EDITS = []
def edit(name, desc):
    def deco(f):
        EDITS.append((name, desc, f))
        return f
    return deco

@edit("E01", "register a component nobody marks: h.AddReadiness(\"metrics-server\") before handleMetricsAndHealth")
def _():
    sub("cmd/namedpipe.go", "\thandleMetricsAndHealth(groupCtx,", "\th.AddReadiness(\"metrics-server\")\n\thandleMetricsAndHealth(groupCtx,")

@edit("E02", "mark a name nobody registered: Auditd.Read calls OnReady(\"auditd\") instead of the constant")
def _():
    sub("processors/auditd/auditd.go", "o.Health.OnReady(AuditdProcessorComponentName)", "o.Health.OnReady(\"auditd\")")

@edit("E03", "exit 0 on error: main only logs the error (log.Println) and falls off the end")
def _():
    sub("main.go", "log.Fatalln(\"fatal:\", err)", "log.Println(\"fatal:\", err)")

@edit("E04", "exit 0 on error, explicitly: log.Println then os.Exit(0)")
def _():
    sub("main.go", "log.Fatalln(\"fatal:\", err)", "log.Println(\"fatal:\", err)\n\t\tos.Exit(0)")

@edit("E05", "drop SIGTERM from the signal list")
def _():
    sub("main.go", "os.Interrupt, syscall.SIGTERM)", "os.Interrupt)")
    sub("main.go", "\t\"syscall\"\n", "")

@edit("E06", "start a worker outside the errgroup: a second audit-pipe reader with a bare `go`")
def _():
    sub("cmd/namedpipe.go", "\th.AddReadiness(auditd.AuditdProcessorComponentName)\n",
        "\tgo func() {\n\t\tnp := namedpipe.NewNamedPipeIngester(logger, h)\n\t\t_ = np.Ingest(groupCtx, auditdLogFilePath, '\\n', func(context.Context, string) error { return nil })\n\t}()\n\n"
        "\th.AddReadiness(auditd.AuditdProcessorComponentName)\n")

@edit("E07", "main.go builds the health object with NewSingleReadinessHealth(\"boot\") (a registration nobody marks)")
def _():
    sub("main.go", "health.NewHealth()", "health.NewSingleReadinessHealth(\"boot\")")

@edit("E08", "the runner swallows RunNamedPipe's error (_ = cmd.RunNamedPipe(...); return nil)")
def _():
    sub("main.go", "return cmd.RunNamedPipe(ctx, os.Args, health.NewHealth(), nil)",
        "_ = cmd.RunNamedPipe(ctx, os.Args, health.NewHealth(), nil)\n\treturn nil")

@edit("E09", "registration moved after the start of its worker (a mark may precede it and be reset)")
def _():
    p = os.path.join(SCR, "cmd/namedpipe.go")
    s = open(p).read()
    reg = "\th.AddReadiness(auditd.AuditdProcessorComponentName)\n"
    assert reg in s
    s = s.replace(reg, "")
    s = s.replace("\tif err := eg.Wait(); err != nil {", reg + "\n\tif err := eg.Wait(); err != nil {")
    open(p, "w").write(s)

@edit("E10", "the audit ingester is given another health object (health.NewHealth()): its mark never reaches /readyz")
def _():
    sub("cmd/namedpipe.go", "np := namedpipe.NewNamedPipeIngester(logger, h)", "np := namedpipe.NewNamedPipeIngester(logger, health.NewHealth())")

@edit("E11", "flag default: -metrics defaults to true (an optional worker outside the model runs by default)")
def _():
    sub("cmd/namedpipe.go", "\"metrics\", false,", "\"metrics\", true,")

@edit("E12", "the ingester's mark made conditional (if filePath != \"\" { OnReady })")
def _():
    sub("ingesters/namedpipe/namedpipeingester.go", "\tn.Health.OnReady(NamedPipeProcessorComponentName)\n",
        "\tif filePath != \"\" {\n\t\tn.Health.OnReady(NamedPipeProcessorComponentName)\n\t}\n")

@edit("E13", "RunNamedPipe is handed a context the signals do not cancel (context.WithoutCancel(ctx))")
def _():
    sub("main.go", "cmd.RunNamedPipe(ctx,", "cmd.RunNamedPipe(context.WithoutCancel(ctx),")

@edit("E14", "an extra mark from the per-line callback: SyslogIngester.Process calls OnReady(\"sshd-lines\")")
def _():
    sub("ingesters/syslog/syslogingester.go", "\tsm := s.ParseSyslogMessage(", "\ts.namedPipeIngester.Health.OnReady(\"sshd-lines\")\n\tsm := s.ParseSyslogMessage(")

@edit("E15", "exit status 3 on error (log.Println; os.Exit(3)): non-zero, but not the status the model and harness state")
def _():
    sub("main.go", "log.Fatalln(\"fatal:\", err)", "log.Println(\"fatal:\", err)\n\t\tos.Exit(3)")

@edit("E16", "the HTTP helper marks a component (h.OnReady(\"http\") in handleMetricsAndHealth)")
def _():
    sub("cmd/cmd.go", "\tif mc.enableMetrics {\n", "\th.OnReady(\"http\")\n\n\tif mc.enableMetrics {\n")

@edit("E17", "one registration removed (the second AddReadiness of named-pipe-processor)")
def _():
    sub_nth("cmd/namedpipe.go", "\th.AddReadiness(namedpipe.NamedPipeProcessorComponentName)\n", "", 2)

@edit("E18", "the audit processor's literal gets no Health field value from h (Health: health.NewHealth())")
def _():
    sub("cmd/namedpipe.go", "Health: h,", "Health: health.NewHealth(),")

@edit("E19", "main defers a recover that hides a panic exit path (defer func(){ recover() }())")
def _():
    sub("main.go", "\terr := mainWithError()", "\tdefer func() { _ = recover() }()\n\terr := mainWithError()")

@edit("E20", "the constant behind the registration is changed but not the one marked (AddReadiness(\"named-pipe\"))")
def _():
    sub_nth("cmd/namedpipe.go", "h.AddReadiness(namedpipe.NamedPipeProcessorComponentName)", "h.AddReadiness(\"named-pipe\")", 1)


def restore():
    sh("git checkout -q -- . && git clean -fdq", cwd=SCR)

def first_error(log):
    m = re.search(r'File "\./([^"]+)", line (\d+)[^\n]*\n(Error:[^\n]*(?:\n[^\n]*){0,3})', log)
    if not m:
        return log[-300:]
    return "%s:%s %s" % (m.group(1), m.group(2), " ".join(m.group(3).split())[:260])

def main():
    if len(sys.argv) >= 2 and sys.argv[1] == "--apply":
        restore()
        for name, desc, f in EDITS:
            if name in sys.argv[2:]:
                f()
        return
    only = sys.argv[1:]
    rows = []
    for name, desc, f in EDITS:
        if only and name not in only:
            continue
        restore()
        f()
        rc, out = sh("go build ./... && go vet ./cmd/ . ./ingesters/... ./processors/auditd/ 2>&1 | tail -3", cwd=SCR)
        compiles = rc == 0
        shutil.rmtree(GEN, ignore_errors=True); os.makedirs(GEN)
        rc2, out2 = sh([GO2V, "-repo", SCR, "-out", GEN])
        changed = []
        for fn in sorted(os.listdir(GEN)):
            new = open(os.path.join(GEN, fn), "rb").read()
            dst = os.path.join(COQ, "Gen", fn)
            pristine = os.path.join(PRISTINE, fn)
            if not os.path.exists(pristine) or open(pristine, "rb").read() != new:
                changed.append(fn)
            if not os.path.exists(dst) or open(dst, "rb").read() != new:
                open(dst, "wb").write(new)
        uns = re.findall(r"UNSUPPORTED_\w+", open(os.path.join(GEN, "DaemonWiring.v")).read() + open(os.path.join(GEN, "DaemonMain.v")).read())
        res = {}
        for prop in ("C08", "C18"):
            rc3, out3 = sh("timeout 600 make -k Props/%s.vo 2>&1" % prop, cwd=COQ)
            res[prop] = "ok" if rc3 == 0 else first_error(out3)
        rows.append(dict(name=name, desc=desc, compiles=compiles, build_log=out[-300:] if not compiles else "", changed=changed, unsupported=sorted(set(uns)), res=res))
        print(json.dumps(rows[-1], indent=1), flush=True)
    restore()
    # put the pristine generated files back and rebuild
    shutil.rmtree(GEN, ignore_errors=True); os.makedirs(GEN)
    sh([GO2V, "-repo", SCR, "-out", GEN])
    for fn in sorted(os.listdir(GEN)):
        shutil.copy(os.path.join(GEN, fn), os.path.join(COQ, "Gen", fn))
    rc, out = sh("timeout 900 make Props/C08.vo Props/C18.vo 2>&1 | tail -3", cwd=COQ)
    print("pristine rebuild rc", rc)
    json.dump(rows, open(OUT, "w"), indent=1)

main()
