package main

// handlers.go: what the sshd log handlers do, extracted from their Go source (-> Gen/SshdHandlers.v).
//
// Every handler reachable from ProcessEntry / userTypeLogAuditFn is run through a small symbolic
// evaluator (environment: Go identifier -> symbolic value).  The evaluator understands exactly the
// statement and expression forms the handlers are written in; package helpers (userLogToAuditEvent,
// addEventInfoForUnknownUser, extraDataWithCA, getCertificateInvalidReason, ...) are inlined with
// parameter binding.  Conditions that depend on the input (no regex match, Atoi failure, "the match
// is the whole line", "the second regex does not match the rest") fork the evaluation, so that the
// result is a decision tree (hprog) whose leaves are the event that is written, the metric
// increments before the write and the login that is handed on.  Trees of the plain shape
// (match; build; write) are additionally emitted as flat sketches (hsketch).
// Anything not understood makes the handler's entry UNSUPPORTED (an identifier that does not
// type-check in Coq).

import (
	"fmt"
	"go/ast"
	"go/parser"
	"go/token"
	"os"
	"path/filepath"
	"sort"
	"strconv"
	"strings"
)

func init() { generators = append(generators, genHandlers) }

// handlers that are allowed to have no flat sketch (they still must have a decision tree)
var hsNoSketchAllowed = map[string]bool{
	"processAcceptPublicKeyEntry":    true, // three outcomes, second regex, data payload
	"processCertificateInvalidEntry": true, // uses no regular expression
}

// ---------------------------------------------------------------------------------------------
// symbolic values

// hsInt: line*len(config.logEntry) + match0*len(matches[0]) + k
type hsInt struct {
	line, match0, k int
	coq             string // rendering of k when the value is a pure constant
}

func (i hsInt) pure() bool { return i.line == 0 && i.match0 == 0 }

type hsSrc struct {
	kind      string // cap | const | pid | node | mid | match0 | lineslice | linefrom
	re, group string
	second    bool // cap: group of the handler's second regex
	s         string
	n         hsInt // lineslice: lower bound; linefrom: length skipped
}

func (f hsSrc) plain() bool {
	switch f.kind {
	case "cap":
		return !f.second
	case "const", "pid", "node", "mid":
		return true
	}
	return false
}

func (f hsSrc) coq() string {
	switch f.kind {
	case "cap":
		if f.second {
			return "FCap2 " + f.re + "_" + f.group
		}
		return "FCap " + f.re + "_" + f.group
	case "const":
		q, ok := coqStringLit([]byte(f.s))
		if !ok {
			return "UNSUPPORTED_non_printable_string_constant"
		}
		return "FConst " + q
	case "pid":
		return "FCfgPid"
	case "node":
		return "FCfgNode"
	case "mid":
		return "FCfgMachineID"
	case "linefrom":
		q, ok := coqStringLit([]byte(f.s))
		if !ok || !f.n.pure() || f.n.coq == "" {
			return "UNSUPPORTED_line_from"
		}
		return "FLineFrom " + f.n.coq + " " + q
	}
	return "UNSUPPORTED_fsrc_" + f.kind
}

type hsKV struct {
	k string
	v hsSrc
}

type hsEvent struct {
	action, component, srcType string
	ok                         bool
	srcValue                   hsSrc
	srcExtra, subjects         []hsKV
	target                     []hsKV
	targetSet                  bool
	metaExtra                  []hsKV
	data                       []hsKV // keys sorted as json.Marshal of a map sorts them
	dataSet                    bool
}

func (e *hsEvent) clone() *hsEvent {
	n := *e
	n.srcExtra = append([]hsKV{}, e.srcExtra...)
	n.subjects = append([]hsKV{}, e.subjects...)
	n.target = append([]hsKV{}, e.target...)
	n.metaExtra = append([]hsKV{}, e.metaExtra...)
	n.data = append([]hsKV{}, e.data...)
	return &n
}

type hsValue interface{}

type (
	hsVStr     struct{ src hsSrc } // a string whose origin is known
	hsVMatches struct {            // RE.FindStringSubmatch(...)
		re     string
		second bool
	}
	hsVIdx      struct{ re, group string } // RE.SubexpIndex(<name of an existing group>)
	hsVCfg      struct{}                   // the *SshdProcessorer parameter
	hsVLogEntry struct{}                   // config.logEntry
	hsVWhen     struct{}                   // config.when
	hsVNil      struct{}
	hsVInt      struct{ i hsInt }
	hsVPidInt   struct{}              // the int of strconv.Atoi(config.pid)
	hsVErr      struct{ of string }   // error value of "atoi" | "marshal"
	hsVOutcome  struct{ ok bool }     // auditevent.OutcomeSucceeded / OutcomeFailed
	hsVMetric   struct{ name string } // metrics.<name>
	hsVLogger   struct{}              // a *zap.SugaredLogger local (only ever logged to)
	hsVMap      struct {              // map literal with constant keys
		ty  string
		kvs []hsKV
	}
	hsVJSON   struct{ kvs []hsKV } // json.Marshal of a map[string]string: object with sorted keys
	hsVSource struct {             // auditevent.EventSource literal
		typ   string
		value hsSrc
		extra []hsKV
	}
	hsVEvt   struct{ e *hsEvent } // *auditevent.AuditEvent (pointer identity matters)
	hsVLogin struct {             // common.RemoteUserLogin literal
		e    *hsEvent
		cred hsSrc
	}
)

type hsUnsupported string

func (u hsUnsupported) Error() string { return string(u) }

// ---------------------------------------------------------------------------------------------
// package context

type hsCtx struct {
	repo, modPath string
	fset          *token.FileSet
	funcs         map[string]*ast.FuncDecl
	fileOf        map[string]*ast.File
	srcOf         map[*ast.File][]byte
	consts        map[string]string // package-level string constants of processors/sshd
	vars          map[string]bool   // package-level variables of processors/sshd
	regexes       map[string]*regexDef
	extConsts     map[string]map[string]string // import path -> string constants declared there
	extNames      map[string]map[string]bool   // import path -> all constant names declared there
}

// what has happened on the path being evaluated
type hsState struct {
	re         string // regex handed to FindStringSubmatch(config.logEntry)
	matchGuard bool   // "if matches == nil { ...; return nil }" seen
	re2        string // second regex, applied to config.logEntry[len(matches[0])+skip:]
	skip       int
	match2     string // "" not decided yet | "nil" | "some"
	atoi       bool   // pid, err := strconv.Atoi(config.pid) seen
	atoiGuard  bool   // "if err != nil { ...; return nil }" seen
	metrics    [][2]string
	written    *hsEvent
	forward    *hsSrc // CredUserID of the RemoteUserLogin handed to config.logins
	done       bool   // a final return was evaluated
}

type hsFrame struct {
	env      map[string]hsValue
	file     *ast.File
	helper   bool   // evaluating an inlined helper: no early returns, no effects
	sig      string // helper: result signature
	ret      []hsValue
	returned bool
	depth    int
}

// clone copies the evaluation state for the other branch of a fork (events are copied, and the
// copies are substituted consistently)
func hsCloneWorld(fr *hsFrame, st *hsState) (*hsFrame, *hsState) {
	m := map[*hsEvent]*hsEvent{}
	cp := func(e *hsEvent) *hsEvent {
		if e == nil {
			return nil
		}
		if n, ok := m[e]; ok {
			return n
		}
		n := e.clone()
		m[e] = n
		return n
	}
	nf := *fr
	nf.env = map[string]hsValue{}
	for k, v := range fr.env {
		if ev, ok := v.(hsVEvt); ok {
			nf.env[k] = hsVEvt{cp(ev.e)}
		} else {
			nf.env[k] = v
		}
	}
	ns := *st
	ns.metrics = append([][2]string{}, st.metrics...)
	ns.written = cp(st.written)
	return &nf, &ns
}

func (c *hsCtx) text(fr *hsFrame, n ast.Node) string {
	src := c.srcOf[fr.file]
	s := string(src[c.fset.Position(n.Pos()).Offset:c.fset.Position(n.End()).Offset])
	s = strings.Join(strings.Fields(s), " ")
	if len(s) > 120 {
		s = s[:120] + "..."
	}
	return s
}

func (c *hsCtx) unsup(fr *hsFrame, n ast.Node, why string) error {
	return hsUnsupported(fmt.Sprintf("%s: `%s` (line %d)", why, c.text(fr, n), c.fset.Position(n.Pos()).Line))
}

// importPath resolves a package qualifier of the current file.
func (c *hsCtx) importPath(fr *hsFrame, name string) (string, bool) {
	if _, local := fr.env[name]; local {
		return "", false
	}
	for _, im := range fr.file.Imports {
		p, err := strconv.Unquote(im.Path.Value)
		if err != nil {
			continue
		}
		local := p[strings.LastIndex(p, "/")+1:]
		if im.Name != nil {
			local = im.Name.Name
		}
		if local == name {
			return p, true
		}
	}
	return "", false
}

// qualified: e is <pkg>.<name> with pkg imported from path
func (c *hsCtx) qualified(fr *hsFrame, e ast.Expr, path, name string) bool {
	sel, ok := e.(*ast.SelectorExpr)
	if !ok || sel.Sel.Name != name {
		return false
	}
	q, ok := sel.X.(*ast.Ident)
	if !ok {
		return false
	}
	p, ok := c.importPath(fr, q.Name)
	return ok && p == path
}

// loadExt reads the constants of a package of this module.
func (c *hsCtx) loadExt(path string) error {
	if _, ok := c.extNames[path]; ok {
		return nil
	}
	if !strings.HasPrefix(path, c.modPath+"/") {
		return hsUnsupported("package outside the module: " + path)
	}
	dir := filepath.Join(c.repo, strings.TrimPrefix(path, c.modPath+"/"))
	pkgs, err := parser.ParseDir(token.NewFileSet(), dir, func(fi os.FileInfo) bool { return !strings.HasSuffix(fi.Name(), "_test.go") }, 0)
	if err != nil {
		return hsUnsupported("cannot parse " + dir + ": " + err.Error())
	}
	strs, names := map[string]string{}, map[string]bool{}
	for _, pkg := range pkgs {
		for _, f := range pkg.Files {
			hsCollectConsts(f, strs, names)
		}
	}
	c.extConsts[path], c.extNames[path] = strs, names
	return nil
}

func hsCollectConsts(f *ast.File, strs map[string]string, names map[string]bool) {
	for _, d := range f.Decls {
		gd, ok := d.(*ast.GenDecl)
		if !ok || gd.Tok != token.CONST {
			continue
		}
		for _, sp := range gd.Specs {
			vs := sp.(*ast.ValueSpec)
			for i, n := range vs.Names {
				names[n.Name] = true
				if i < len(vs.Values) {
					if lit, ok := vs.Values[i].(*ast.BasicLit); ok && lit.Kind == token.STRING {
						if s, err := strconv.Unquote(lit.Value); err == nil {
							strs[n.Name] = s
						}
					}
				}
			}
		}
	}
}

func hsIsIdent(e ast.Expr, name string) bool {
	id, ok := e.(*ast.Ident)
	return ok && id.Name == name
}

// selector path a.b.c as strings; ok=false if the expression is not a pure selector chain
func hsSelPath(e ast.Expr) ([]string, bool) {
	switch v := e.(type) {
	case *ast.Ident:
		return []string{v.Name}, true
	case *ast.SelectorExpr:
		p, ok := hsSelPath(v.X)
		if !ok {
			return nil, false
		}
		return append(p, v.Sel.Name), true
	}
	return nil, false
}

func hsTypeString(e ast.Expr) string {
	switch v := e.(type) {
	case *ast.Ident:
		return v.Name
	case *ast.SelectorExpr:
		return hsTypeString(v.X) + "." + v.Sel.Name
	case *ast.MapType:
		return "map[" + hsTypeString(v.Key) + "]" + hsTypeString(v.Value)
	case *ast.StarExpr:
		return "*" + hsTypeString(v.X)
	}
	return "?"
}

func hsResultSig(fd *ast.FuncDecl) string {
	if fd.Type.Results == nil {
		return ""
	}
	var ts []string
	for _, f := range fd.Type.Results.List {
		if len(f.Names) != 0 {
			return "?named"
		}
		ts = append(ts, hsTypeString(f.Type))
	}
	return strings.Join(ts, ",")
}

// ---------------------------------------------------------------------------------------------
// expressions

func (c *hsCtx) evalStr(fr *hsFrame, st *hsState, e ast.Expr) (hsSrc, error) {
	v, err := c.eval(fr, st, e)
	if err != nil {
		return hsSrc{}, err
	}
	s, ok := v.(hsVStr)
	if !ok {
		return hsSrc{}, c.unsup(fr, e, "expected a string of known origin")
	}
	return s.src, nil
}

// evalField: a string that is put into the event (not every string value can be)
func (c *hsCtx) evalField(fr *hsFrame, st *hsState, e ast.Expr) (hsSrc, error) {
	s, err := c.evalStr(fr, st, e)
	if err != nil {
		return s, err
	}
	switch s.kind {
	case "match0", "lineslice":
		return s, c.unsup(fr, e, "string kind that the event description cannot carry")
	}
	return s, nil
}

func (c *hsCtx) evalInt(fr *hsFrame, st *hsState, e ast.Expr) (hsInt, error) {
	v, err := c.eval(fr, st, e)
	if err != nil {
		return hsInt{}, err
	}
	i, ok := v.(hsVInt)
	if !ok {
		return hsInt{}, c.unsup(fr, e, "expected an integer built from len() and literals")
	}
	return i.i, nil
}

func (c *hsCtx) evalMap(fr *hsFrame, st *hsState, cl *ast.CompositeLit) ([]hsKV, error) {
	var kvs []hsKV
	seen := map[string]bool{}
	for _, el := range cl.Elts {
		kv, ok := el.(*ast.KeyValueExpr)
		if !ok {
			return nil, c.unsup(fr, el, "map element without key")
		}
		k, err := c.evalStr(fr, st, kv.Key)
		if err != nil {
			return nil, err
		}
		if k.kind != "const" {
			return nil, c.unsup(fr, kv.Key, "map key is not a constant")
		}
		if seen[k.s] {
			return nil, c.unsup(fr, kv.Key, "duplicate map key")
		}
		seen[k.s] = true
		v, err := c.evalField(fr, st, kv.Value)
		if err != nil {
			return nil, err
		}
		kvs = append(kvs, hsKV{k.s, v})
	}
	return kvs, nil
}

func (c *hsCtx) eval(fr *hsFrame, st *hsState, e ast.Expr) (hsValue, error) {
	switch v := e.(type) {
	case *ast.ParenExpr:
		return c.eval(fr, st, v.X)
	case *ast.BasicLit:
		switch v.Kind {
		case token.STRING:
			s, err := strconv.Unquote(v.Value)
			if err != nil {
				return nil, c.unsup(fr, e, "bad string literal")
			}
			return hsVStr{hsSrc{kind: "const", s: s}}, nil
		case token.INT:
			n, err := strconv.Atoi(v.Value)
			if err != nil || n < 0 {
				return nil, c.unsup(fr, e, "integer literal")
			}
			return hsVInt{hsInt{k: n, coq: strconv.Itoa(n)}}, nil
		}
		return nil, c.unsup(fr, e, "literal of unsupported kind")
	case *ast.Ident:
		if v.Name == "nil" {
			return hsVNil{}, nil
		}
		if val, ok := fr.env[v.Name]; ok {
			return val, nil
		}
		if s, ok := c.consts[v.Name]; ok {
			return hsVStr{hsSrc{kind: "const", s: s}}, nil
		}
		return nil, c.unsup(fr, e, "identifier with no known value")
	case *ast.UnaryExpr:
		// &rawmsg: the pointer to the marshalled object stands for the object
		if v.Op == token.AND {
			if id, ok := v.X.(*ast.Ident); ok {
				if j, ok := fr.env[id.Name].(hsVJSON); ok {
					return j, nil
				}
			}
		}
		return nil, c.unsup(fr, e, "unary expression not understood")
	case *ast.BinaryExpr:
		if v.Op == token.ADD {
			a, err := c.evalInt(fr, st, v.X)
			if err != nil {
				return nil, err
			}
			b, err := c.evalInt(fr, st, v.Y)
			if err != nil {
				return nil, err
			}
			r := hsInt{line: a.line + b.line, match0: a.match0 + b.match0, k: a.k + b.k}
			if a.coq != "" && b.coq != "" {
				r.coq = "(" + a.coq + " + " + b.coq + ")"
			}
			return hsVInt{r}, nil
		}
		return nil, c.unsup(fr, e, "binary expression not understood")
	case *ast.SelectorExpr:
		x, isId := v.X.(*ast.Ident)
		if !isId {
			return nil, c.unsup(fr, e, "selector on a non-identifier")
		}
		if val, ok := fr.env[x.Name]; ok {
			if _, isCfg := val.(hsVCfg); isCfg {
				switch v.Sel.Name {
				case "pid":
					return hsVStr{hsSrc{kind: "pid"}}, nil
				case "nodeName":
					return hsVStr{hsSrc{kind: "node"}}, nil
				case "machineID":
					return hsVStr{hsSrc{kind: "mid"}}, nil
				case "logEntry":
					return hsVLogEntry{}, nil
				case "when":
					return hsVWhen{}, nil
				}
			}
			return nil, c.unsup(fr, e, "field read that is not understood")
		}
		if c.vars[x.Name] || c.consts[x.Name] != "" {
			return nil, c.unsup(fr, e, "selector on a package-level name")
		}
		path, ok := c.importPath(fr, x.Name)
		if !ok {
			return nil, c.unsup(fr, e, "unknown qualifier")
		}
		switch {
		case path == "github.com/metal-toolbox/auditevent" && v.Sel.Name == "OutcomeSucceeded":
			return hsVOutcome{true}, nil
		case path == "github.com/metal-toolbox/auditevent" && v.Sel.Name == "OutcomeFailed":
			return hsVOutcome{false}, nil
		case strings.HasPrefix(path, c.modPath+"/"):
			if err := c.loadExt(path); err != nil {
				return nil, c.unsup(fr, e, err.Error())
			}
			if path == c.modPath+"/internal/metrics" {
				if !c.extNames[path][v.Sel.Name] {
					return nil, c.unsup(fr, e, "metric label not declared in internal/metrics")
				}
				return hsVMetric{v.Sel.Name}, nil
			}
			if s, ok := c.extConsts[path][v.Sel.Name]; ok {
				return hsVStr{hsSrc{kind: "const", s: s}}, nil
			}
			return nil, c.unsup(fr, e, "not a string constant of "+path)
		}
		return nil, c.unsup(fr, e, "qualified name that is not understood")
	case *ast.SliceExpr:
		// config.logEntry[lo:]   (panics when lo > len(config.logEntry))
		if v.High != nil || v.Max != nil || v.Low == nil {
			return nil, c.unsup(fr, e, "slice expression other than s[lo:]")
		}
		x, err := c.eval(fr, st, v.X)
		if err != nil {
			return nil, err
		}
		if _, ok := x.(hsVLogEntry); !ok {
			return nil, c.unsup(fr, e, "slice of something other than the log entry")
		}
		lo, err := c.evalInt(fr, st, v.Low)
		if err != nil {
			return nil, err
		}
		if len(st.metrics) != 0 || st.written != nil {
			return nil, c.unsup(fr, e, "slice (may panic) after an effect")
		}
		return hsVStr{hsSrc{kind: "lineslice", n: lo}}, nil
	case *ast.IndexExpr:
		x, err := c.eval(fr, st, v.X)
		if err != nil {
			return nil, err
		}
		m, ok := x.(hsVMatches)
		if !ok {
			return nil, c.unsup(fr, e, "index into something that is not a sub-match slice")
		}
		if (!m.second && !st.matchGuard) || (m.second && st.match2 != "some") {
			return nil, c.unsup(fr, e, "sub-match used where the match is not known to have succeeded")
		}
		if lit, ok := v.Index.(*ast.BasicLit); ok && lit.Kind == token.INT && lit.Value == "0" && !m.second {
			return hsVStr{hsSrc{kind: "match0"}}, nil
		}
		i, err := c.eval(fr, st, v.Index)
		if err != nil {
			return nil, err
		}
		idx, ok := i.(hsVIdx)
		if !ok {
			return nil, c.unsup(fr, e, "sub-match index is not a SubexpIndex result")
		}
		if idx.re != m.re {
			return nil, c.unsup(fr, e, "index of "+idx.re+" used on the sub-matches of "+m.re)
		}
		return hsVStr{hsSrc{kind: "cap", re: idx.re, group: idx.group, second: m.second}}, nil
	case *ast.CompositeLit:
		ty := hsTypeString(v.Type)
		switch ty {
		case "map[string]string", "map[string]any":
			kvs, err := c.evalMap(fr, st, v)
			if err != nil {
				return nil, err
			}
			return hsVMap{ty, kvs}, nil
		}
		switch {
		case c.qualified(fr, v.Type, "github.com/metal-toolbox/auditevent", "EventSource"):
			return c.evalSource(fr, st, v)
		case c.qualified(fr, v.Type, c.modPath+"/internal/common", "RemoteUserLogin"):
			return c.evalLogin(fr, st, v)
		}
		return nil, c.unsup(fr, e, "composite literal of unsupported type "+ty)
	case *ast.CallExpr:
		return c.evalCall(fr, st, v)
	}
	return nil, c.unsup(fr, e, "expression form not understood")
}

func (c *hsCtx) evalSource(fr *hsFrame, st *hsState, cl *ast.CompositeLit) (hsValue, error) {
	var src hsVSource
	seen := map[string]bool{}
	for _, el := range cl.Elts {
		kv, ok := el.(*ast.KeyValueExpr)
		if !ok {
			return nil, c.unsup(fr, el, "positional EventSource field")
		}
		k, ok := kv.Key.(*ast.Ident)
		if !ok || seen[k.Name] {
			return nil, c.unsup(fr, el, "EventSource field")
		}
		seen[k.Name] = true
		switch k.Name {
		case "Type":
			s, err := c.evalStr(fr, st, kv.Value)
			if err != nil {
				return nil, err
			}
			if s.kind != "const" {
				return nil, c.unsup(fr, kv.Value, "source type is not a constant")
			}
			src.typ = s.s
		case "Value":
			s, err := c.evalField(fr, st, kv.Value)
			if err != nil {
				return nil, err
			}
			src.value = s
		case "Extra":
			m, err := c.eval(fr, st, kv.Value)
			if err != nil {
				return nil, err
			}
			mm, ok := m.(hsVMap)
			if !ok {
				return nil, c.unsup(fr, kv.Value, "source extra is not a map literal")
			}
			src.extra = mm.kvs
		default:
			return nil, c.unsup(fr, el, "unknown EventSource field")
		}
	}
	if !seen["Type"] || !seen["Value"] {
		return nil, c.unsup(fr, cl, "EventSource without Type or Value")
	}
	return src, nil
}

func (c *hsCtx) evalLogin(fr *hsFrame, st *hsState, cl *ast.CompositeLit) (hsValue, error) {
	var lg hsVLogin
	seen := map[string]bool{}
	for _, el := range cl.Elts {
		kv, ok := el.(*ast.KeyValueExpr)
		if !ok {
			return nil, c.unsup(fr, el, "positional RemoteUserLogin field")
		}
		k, ok := kv.Key.(*ast.Ident)
		if !ok || seen[k.Name] {
			return nil, c.unsup(fr, el, "RemoteUserLogin field")
		}
		seen[k.Name] = true
		val, err := c.eval(fr, st, kv.Value)
		if err != nil {
			return nil, err
		}
		switch k.Name {
		case "Source":
			ev, ok := val.(hsVEvt)
			if !ok {
				return nil, c.unsup(fr, kv.Value, "login source is not the event")
			}
			lg.e = ev.e
		case "PID":
			if _, ok := val.(hsVPidInt); !ok {
				return nil, c.unsup(fr, kv.Value, "login PID is not Atoi(config.pid)")
			}
			if !st.atoiGuard {
				return nil, c.unsup(fr, kv.Value, "Atoi result used before its error check")
			}
		case "CredUserID":
			s, ok := val.(hsVStr)
			if !ok || s.src.kind == "match0" || s.src.kind == "lineslice" {
				return nil, c.unsup(fr, kv.Value, "CredUserID of unknown origin")
			}
			lg.cred = s.src
		default:
			return nil, c.unsup(fr, el, "unknown RemoteUserLogin field")
		}
	}
	if !seen["Source"] || !seen["PID"] || !seen["CredUserID"] {
		return nil, c.unsup(fr, cl, "RemoteUserLogin with a field left at its zero value")
	}
	return lg, nil
}

func (c *hsCtx) evalCall(fr *hsFrame, st *hsState, call *ast.CallExpr) (hsValue, error) {
	if call.Ellipsis != token.NoPos {
		return nil, c.unsup(fr, call, "variadic call")
	}
	if id, ok := call.Fun.(*ast.Ident); ok {
		if _, shadow := fr.env[id.Name]; shadow {
			return nil, c.unsup(fr, call, "call of a local value")
		}
		fd := c.funcs[id.Name]
		// builtin len
		if fd == nil && id.Name == "len" && len(call.Args) == 1 {
			a, err := c.eval(fr, st, call.Args[0])
			if err != nil {
				return nil, err
			}
			switch x := a.(type) {
			case hsVLogEntry:
				return hsVInt{hsInt{line: 1}}, nil
			case hsVStr:
				switch x.src.kind {
				case "match0":
					return hsVInt{hsInt{match0: 1}}, nil
				case "const":
					q, ok := coqStringLit([]byte(x.src.s))
					if !ok {
						return nil, c.unsup(fr, call, "len of a non-printable constant")
					}
					return hsVInt{hsInt{k: len(x.src.s), coq: "(String.length " + q + ")"}}, nil
				}
			}
			return nil, c.unsup(fr, call, "len of something that is not understood")
		}
		if fd == nil {
			return nil, c.unsup(fr, call, "call of an unknown function")
		}
		// package-level helper: inline it
		vals, err := c.inline(fr, st, call, fd)
		if err != nil {
			return nil, err
		}
		if len(vals) != 1 {
			return nil, c.unsup(fr, call, "helper used as a single value does not return one")
		}
		return vals[0], nil
	}
	sel, ok := call.Fun.(*ast.SelectorExpr)
	if !ok {
		return nil, c.unsup(fr, call, "call form not understood")
	}
	// json.RawMessage(raw): conversion
	if c.qualified(fr, call.Fun, "encoding/json", "RawMessage") && len(call.Args) == 1 {
		a, err := c.eval(fr, st, call.Args[0])
		if err != nil {
			return nil, err
		}
		if j, ok := a.(hsVJSON); ok {
			return j, nil
		}
		return nil, c.unsup(fr, call, "json.RawMessage of something that is not a marshalled map")
	}
	// RE.FindStringSubmatch / RE.SubexpIndex on a package-level regex
	if x, ok := sel.X.(*ast.Ident); ok {
		if _, local := fr.env[x.Name]; !local {
			if rd, isRe := c.regexes[x.Name]; isRe {
				if rd.err != nil {
					return nil, c.unsup(fr, call, "regex "+x.Name+" itself is unsupported")
				}
				switch sel.Sel.Name {
				case "FindStringSubmatch":
					if fr.helper {
						return nil, c.unsup(fr, call, "regex match inside a helper")
					}
					if len(call.Args) != 1 {
						return nil, c.unsup(fr, call, "FindStringSubmatch arity")
					}
					a, err := c.eval(fr, st, call.Args[0])
					if err != nil {
						return nil, err
					}
					if _, ok := a.(hsVLogEntry); ok {
						if st.re != "" {
							return nil, c.unsup(fr, call, "second FindStringSubmatch on the log entry")
						}
						st.re = x.Name
						return hsVMatches{x.Name, false}, nil
					}
					if s, ok := a.(hsVStr); ok && s.src.kind == "lineslice" {
						lo := s.src.n
						if lo.line != 0 || lo.match0 != 1 || lo.k < 0 {
							return nil, c.unsup(fr, call, "second regex applied to a slice that does not start at len(matches[0]) + constant")
						}
						if !st.matchGuard || st.re2 != "" {
							return nil, c.unsup(fr, call, "second regex: first match not checked, or a third match")
						}
						st.re2, st.skip = x.Name, lo.k
						return hsVMatches{x.Name, true}, nil
					}
					return nil, c.unsup(fr, call, "FindStringSubmatch on something other than config.logEntry or its tail")
				case "SubexpIndex":
					if len(call.Args) != 1 {
						return nil, c.unsup(fr, call, "SubexpIndex arity")
					}
					g, err := c.evalStr(fr, st, call.Args[0])
					if err != nil {
						return nil, err
					}
					if g.kind != "const" {
						return nil, c.unsup(fr, call, "group name is not a constant")
					}
					n := 0
					for i, name := range rd.groups {
						if i > 0 && name == g.s {
							n++
						}
					}
					if n != 1 {
						return nil, c.unsup(fr, call, fmt.Sprintf("regex %s has %d groups named %q (SubexpIndex would not identify one)", x.Name, n, g.s))
					}
					return hsVIdx{x.Name, g.s}, nil
				}
				return nil, c.unsup(fr, call, "regex method not understood")
			}
		}
	}
	// <event>.WithTarget(map) / <event>.WithData(json)
	if sel.Sel.Name == "WithTarget" || sel.Sel.Name == "WithData" {
		x, err := c.eval(fr, st, sel.X)
		if err != nil {
			return nil, err
		}
		ev, ok := x.(hsVEvt)
		if !ok {
			return nil, c.unsup(fr, call, sel.Sel.Name+" on something that is not the event")
		}
		if len(call.Args) != 1 {
			return nil, c.unsup(fr, call, sel.Sel.Name+" arity")
		}
		m, err := c.eval(fr, st, call.Args[0])
		if err != nil {
			return nil, err
		}
		if st.written == ev.e {
			return nil, c.unsup(fr, call, "event changed after it was written")
		}
		if sel.Sel.Name == "WithTarget" {
			mm, ok := m.(hsVMap)
			if !ok || mm.ty != "map[string]string" {
				return nil, c.unsup(fr, call, "target is not a map[string]string literal")
			}
			if ev.e.targetSet {
				return nil, c.unsup(fr, call, "target set twice")
			}
			ev.e.target, ev.e.targetSet = mm.kvs, true
		} else {
			j, ok := m.(hsVJSON)
			if !ok {
				return nil, c.unsup(fr, call, "data is not a marshalled map[string]string")
			}
			if ev.e.dataSet {
				return nil, c.unsup(fr, call, "data set twice")
			}
			ev.e.data, ev.e.dataSet = j.kvs, true
		}
		return ev, nil // both return their receiver
	}
	// auditevent.NewAuditEvent(action, source, outcome, subjects, component)
	if c.qualified(fr, call.Fun, "github.com/metal-toolbox/auditevent", "NewAuditEvent") {
		if len(call.Args) != 5 {
			return nil, c.unsup(fr, call, "NewAuditEvent arity")
		}
		ev := &hsEvent{}
		a, err := c.evalStr(fr, st, call.Args[0])
		if err != nil {
			return nil, err
		}
		if a.kind != "const" {
			return nil, c.unsup(fr, call.Args[0], "event type is not a constant")
		}
		ev.action = a.s
		s, err := c.eval(fr, st, call.Args[1])
		if err != nil {
			return nil, err
		}
		src, ok := s.(hsVSource)
		if !ok {
			return nil, c.unsup(fr, call.Args[1], "source is not an EventSource literal")
		}
		ev.srcType, ev.srcValue, ev.srcExtra = src.typ, src.value, src.extra
		o, err := c.eval(fr, st, call.Args[2])
		if err != nil {
			return nil, err
		}
		oc, ok := o.(hsVOutcome)
		if !ok {
			return nil, c.unsup(fr, call.Args[2], "outcome is not OutcomeSucceeded/OutcomeFailed")
		}
		ev.ok = oc.ok
		m, err := c.eval(fr, st, call.Args[3])
		if err != nil {
			return nil, err
		}
		mm, ok := m.(hsVMap)
		if !ok || mm.ty != "map[string]string" {
			return nil, c.unsup(fr, call.Args[3], "subjects is not a map[string]string literal")
		}
		ev.subjects = mm.kvs
		comp, err := c.evalStr(fr, st, call.Args[4])
		if err != nil {
			return nil, err
		}
		if comp.kind != "const" {
			return nil, c.unsup(fr, call.Args[4], "component is not a constant")
		}
		ev.component = comp.s
		return hsVEvt{ev}, nil
	}
	return nil, c.unsup(fr, call, "call not understood")
}

// inline evaluates a package helper with its parameters bound to the argument values and returns
// the values of its return statement (none for a procedure).
func (c *hsCtx) inline(fr *hsFrame, st *hsState, call *ast.CallExpr, fd *ast.FuncDecl) ([]hsValue, error) {
	if fr.depth >= 4 {
		return nil, c.unsup(fr, call, "helper nesting too deep")
	}
	sig := hsResultSig(fd)
	switch sig {
	case "", "string", "*auditevent.AuditEvent", "*json.RawMessage,error":
	default:
		return nil, c.unsup(fr, call, "helper with result signature ("+sig+")")
	}
	var params []string
	for _, f := range fd.Type.Params.List {
		if len(f.Names) == 0 {
			return nil, c.unsup(fr, call, "helper with unnamed parameter")
		}
		if _, variadic := f.Type.(*ast.Ellipsis); variadic {
			return nil, c.unsup(fr, call, "variadic helper")
		}
		for _, n := range f.Names {
			params = append(params, n.Name)
		}
	}
	if len(params) != len(call.Args) {
		return nil, c.unsup(fr, call, "helper arity")
	}
	nf := &hsFrame{env: map[string]hsValue{}, file: c.fileOf[fd.Name.Name], helper: true, sig: sig, depth: fr.depth + 1}
	for i, a := range call.Args {
		v, err := c.eval(fr, st, a)
		if err != nil {
			return nil, err
		}
		switch v.(type) {
		case hsVStr, hsVEvt, hsVCfg, hsVLogEntry:
		default:
			return nil, c.unsup(fr, a, "helper argument of a kind that is not tracked")
		}
		nf.env[params[i]] = v
	}
	vals, err := c.helperBlock(nf, st, fd.Body.List)
	if err != nil {
		return nil, hsUnsupported("in helper " + fd.Name.Name + ": " + err.Error())
	}
	want := 0
	if sig != "" {
		want = len(strings.Split(sig, ","))
	}
	if len(vals) != want {
		return nil, c.unsup(fr, call, "helper "+fd.Name.Name+" does not end with a return of the declared arity")
	}
	ok := true
	switch sig {
	case "string":
		_, ok = vals[0].(hsVStr)
	case "*auditevent.AuditEvent":
		ev, isEv := vals[0].(hsVEvt)
		ok = isEv && ev.e.targetSet
	case "*json.RawMessage,error":
		_, ok1 := vals[0].(hsVJSON)
		e, ok2 := vals[1].(hsVErr)
		ok = ok1 && ok2 && e.of == "marshal"
	}
	if !ok {
		return nil, c.unsup(fr, call, "helper "+fd.Name.Name+" returns something that is not understood")
	}
	return vals, nil
}

// helperBlock: straight-line body of a helper.  The one conditional form understood is
//
//	if len(line) <= n { return "fallback" } ; ... ; return line[n:]
//
// in a string helper, which yields the "line from n, or fallback" string.
func (c *hsCtx) helperBlock(fr *hsFrame, st *hsState, stmts []ast.Stmt) ([]hsValue, error) {
	for i, s := range stmts {
		if ifs, ok := s.(*ast.IfStmt); ok && fr.sig == "string" && ifs.Init == nil && ifs.Else == nil && len(ifs.Body.List) == 1 && i < len(stmts)-1 {
			if r, ok := ifs.Body.List[0].(*ast.ReturnStmt); ok && len(r.Results) == 1 {
				be, ok := ifs.Cond.(*ast.BinaryExpr)
				if !ok || be.Op != token.LEQ {
					return nil, c.unsup(fr, s, "early return under a condition that is not `len(line) <= n`")
				}
				l, err := c.evalInt(fr, st, be.X)
				if err != nil {
					return nil, err
				}
				n, err := c.evalInt(fr, st, be.Y)
				if err != nil {
					return nil, err
				}
				if l.line != 1 || l.match0 != 0 || l.k != 0 || !n.pure() {
					return nil, c.unsup(fr, s, "early return under a condition that is not `len(line) <= n`")
				}
				a, err := c.evalStr(fr, st, r.Results[0])
				if err != nil {
					return nil, err
				}
				rest, err := c.helperBlock(fr, st, stmts[i+1:])
				if err != nil {
					return nil, err
				}
				if len(rest) != 1 {
					return nil, c.unsup(fr, s, "conditional return not followed by a single-value return")
				}
				b, ok := rest[0].(hsVStr)
				if !ok || a.kind != "const" || b.src.kind != "lineslice" || !b.src.n.pure() || b.src.n.k != n.k {
					return nil, c.unsup(fr, s, "conditional return that is not `fallback, else line[n:]` with the same n")
				}
				return []hsValue{hsVStr{hsSrc{kind: "linefrom", n: n, s: a.s}}}, nil
			}
		}
		if err := c.stmt(fr, st, s, i == len(stmts)-1); err != nil {
			return nil, err
		}
		if fr.returned {
			return fr.ret, nil
		}
	}
	return nil, nil
}

// ---------------------------------------------------------------------------------------------
// statements

var hsLogMethods = map[string]bool{"Infoln": true, "Infof": true, "Info": true, "Errorf": true, "Errorln": true, "Error": true,
	"Debugf": true, "Debugln": true, "Debug": true, "Warnf": true, "Warnln": true, "Warn": true}

func hsPureArgs(args []ast.Expr) bool {
	pure := true
	for _, a := range args {
		ast.Inspect(a, func(n ast.Node) bool {
			switch n.(type) {
			case *ast.CallExpr, *ast.FuncLit, *ast.UnaryExpr:
				pure = false
			}
			return pure
		})
	}
	return pure
}

// isLoggerExpr: the package-level logger, or a local that only ever holds a logger
func (c *hsCtx) isLoggerExpr(fr *hsFrame, e ast.Expr) bool {
	id, ok := e.(*ast.Ident)
	if !ok {
		return false
	}
	if v, local := fr.env[id.Name]; local {
		_, isLogger := v.(hsVLogger)
		return isLogger
	}
	return id.Name == "logger" && c.vars["logger"]
}

// <logger>.<Method>(args...) with call-free arguments
func (c *hsCtx) isLogCall(fr *hsFrame, s ast.Stmt) bool {
	es, ok := s.(*ast.ExprStmt)
	if !ok {
		return false
	}
	call, ok := es.X.(*ast.CallExpr)
	if !ok {
		return false
	}
	sel, ok := call.Fun.(*ast.SelectorExpr)
	return ok && c.isLoggerExpr(fr, sel.X) && hsLogMethods[sel.Sel.Name] && hsPureArgs(call.Args)
}

// isLogOnly: a statement whose only effect is on the log: log calls; dbg = logger.With(...);
// if logger.Level().Enabled(zap.X) { log-only } ; if dbg != nil { log-only } ; defer func() { log-only }()
func (c *hsCtx) isLogOnly(fr *hsFrame, s ast.Stmt) bool {
	if c.isLogCall(fr, s) {
		return true
	}
	all := func(l []ast.Stmt) bool {
		for _, b := range l {
			if !c.isLogOnly(fr, b) {
				return false
			}
		}
		return len(l) > 0
	}
	switch v := s.(type) {
	case *ast.AssignStmt:
		if v.Tok != token.ASSIGN || len(v.Lhs) != 1 || len(v.Rhs) != 1 {
			return false
		}
		id, ok := v.Lhs[0].(*ast.Ident)
		if !ok {
			return false
		}
		if _, isLogger := fr.env[id.Name].(hsVLogger); !isLogger {
			return false
		}
		call, ok := v.Rhs[0].(*ast.CallExpr)
		if !ok {
			return false
		}
		sel, ok := call.Fun.(*ast.SelectorExpr)
		return ok && c.isLoggerExpr(fr, sel.X) && sel.Sel.Name == "With" && hsPureArgs(call.Args)
	case *ast.IfStmt:
		if v.Init != nil || v.Else != nil || !all(v.Body.List) {
			return false
		}
		// dbg != nil
		if be, ok := v.Cond.(*ast.BinaryExpr); ok {
			id, isId := be.X.(*ast.Ident)
			if !isId || be.Op != token.NEQ || !hsIsIdent(be.Y, "nil") {
				return false
			}
			_, isLogger := fr.env[id.Name].(hsVLogger)
			return isLogger
		}
		// logger.Level().Enabled(zap.<Level>)
		call, ok := v.Cond.(*ast.CallExpr)
		if !ok || len(call.Args) != 1 {
			return false
		}
		if p, ok := hsSelPath(call.Args[0]); !ok || len(p) != 2 {
			return false
		} else if path, ok := c.importPath(fr, p[0]); !ok || path != "go.uber.org/zap" {
			return false
		}
		sel, ok := call.Fun.(*ast.SelectorExpr)
		if !ok || sel.Sel.Name != "Enabled" {
			return false
		}
		inner, ok := sel.X.(*ast.CallExpr)
		if !ok || len(inner.Args) != 0 {
			return false
		}
		isel, ok := inner.Fun.(*ast.SelectorExpr)
		return ok && isel.Sel.Name == "Level" && c.isLoggerExpr(fr, isel.X)
	case *ast.DeferStmt:
		fl, ok := v.Call.Fun.(*ast.FuncLit)
		return ok && len(v.Call.Args) == 0 && fl.Type.Params.NumFields() == 0 && fl.Type.Results == nil && all(fl.Body.List)
	}
	return false
}

// onlyLogsThenReturnNil: the body of a guard: log calls, then "return nil"
func (c *hsCtx) onlyLogsThenReturnNil(fr *hsFrame, body *ast.BlockStmt) error {
	if fr.helper {
		return c.unsup(fr, body, "early return inside a helper")
	}
	n := len(body.List)
	if n == 0 {
		return c.unsup(fr, body, "empty guard body")
	}
	for _, s := range body.List[:n-1] {
		if !c.isLogCall(fr, s) {
			return c.unsup(fr, s, "statement in a guard body that is not a log call")
		}
	}
	r, ok := body.List[n-1].(*ast.ReturnStmt)
	if !ok || len(r.Results) != 1 || !hsIsIdent(r.Results[0], "nil") {
		return c.unsup(fr, body.List[n-1], "guard body does not end with return nil")
	}
	return nil
}

func (c *hsCtx) effectsAllowed(fr *hsFrame, st *hsState, n ast.Node) error {
	if fr.helper {
		return c.unsup(fr, n, "effect inside a helper")
	}
	if st.done {
		return c.unsup(fr, n, "statement after the final return")
	}
	return nil
}

// earlyReturnsDone: every conditional return the path has started is decided
func (st *hsState) earlyReturnsDone() bool {
	return (st.re == "" || st.matchGuard) && (!st.atoi || st.atoiGuard) && (st.re2 == "" || st.match2 != "")
}

// stmt evaluates one non-forking statement.
func (c *hsCtx) stmt(fr *hsFrame, st *hsState, s ast.Stmt, last bool) error {
	if st.done && !fr.helper {
		return c.unsup(fr, s, "statement after the final return")
	}
	if c.isLogOnly(fr, s) {
		return nil
	}
	if st.written != nil && !fr.helper {
		// after the write only: "return nil", or the select that hands the login over
		switch s.(type) {
		case *ast.ReturnStmt, *ast.SelectStmt:
		default:
			return c.unsup(fr, s, "statement between the write and the return")
		}
	}
	switch v := s.(type) {
	case *ast.DeclStmt:
		return c.declStmt(fr, v)
	case *ast.AssignStmt:
		return c.assignStmt(fr, st, v)
	case *ast.IfStmt:
		return c.ifStmt(fr, st, v)
	case *ast.ExprStmt:
		return c.exprStmt(fr, st, v)
	case *ast.ReturnStmt:
		if !last {
			return c.unsup(fr, s, "return that is not the last statement")
		}
		if fr.helper {
			for _, r := range v.Results {
				val, err := c.eval(fr, st, r)
				if err != nil {
					return err
				}
				fr.ret = append(fr.ret, val)
			}
			fr.returned = true
			return nil
		}
		if len(v.Results) != 1 || !hsIsIdent(v.Results[0], "nil") {
			return c.unsup(fr, s, "final return is not return nil")
		}
		if st.written == nil {
			return c.unsup(fr, s, "handler returns without writing an event")
		}
		st.done = true
		return nil
	case *ast.SelectStmt:
		return c.selectStmt(fr, st, v)
	}
	return c.unsup(fr, s, "statement kind not understood")
}

// var v string ; var dbg *zap.SugaredLogger
func (c *hsCtx) declStmt(fr *hsFrame, d *ast.DeclStmt) error {
	gd, ok := d.Decl.(*ast.GenDecl)
	if !ok || gd.Tok != token.VAR {
		return c.unsup(fr, d, "declaration that is not var")
	}
	for _, sp := range gd.Specs {
		vs := sp.(*ast.ValueSpec)
		if len(vs.Values) != 0 || vs.Type == nil {
			return c.unsup(fr, d, "var declaration with a value or without a type")
		}
		var zero hsValue
		switch {
		case hsTypeString(vs.Type) == "string":
			zero = hsVStr{hsSrc{kind: "const", s: ""}}
		case hsTypeString(vs.Type) == "*zap.SugaredLogger":
			if p, ok := c.importPath(fr, "zap"); !ok || p != "go.uber.org/zap" {
				return c.unsup(fr, d, "zap is not go.uber.org/zap")
			}
			zero = hsVLogger{}
		default:
			return c.unsup(fr, d, "var declaration of an unsupported type")
		}
		for _, n := range vs.Names {
			if _, dup := fr.env[n.Name]; dup {
				return c.unsup(fr, d, "redeclaration")
			}
			fr.env[n.Name] = zero
		}
	}
	return nil
}

func (c *hsCtx) evtOf(fr *hsFrame, e ast.Expr) (*hsEvent, bool) {
	id, ok := e.(*ast.Ident)
	if !ok {
		return nil, false
	}
	ev, ok := fr.env[id.Name].(hsVEvt)
	if !ok {
		return nil, false
	}
	return ev.e, true
}

// evtField: <evt>.<a>[.<b>]
func (c *hsCtx) evtField(fr *hsFrame, e ast.Expr, path ...string) (*hsEvent, bool) {
	p, ok := hsSelPath(e)
	if !ok || len(p) != len(path)+1 {
		return nil, false
	}
	for i := range path {
		if p[i+1] != path[i] {
			return nil, false
		}
	}
	ev, ok := fr.env[p[0]].(hsVEvt)
	if !ok {
		return nil, false
	}
	return ev.e, true
}

func (c *hsCtx) freshNames(fr *hsFrame, a *ast.AssignStmt) ([]string, error) {
	var names []string
	for _, l := range a.Lhs {
		id, ok := l.(*ast.Ident)
		if !ok || id.Name == "_" || a.Tok != token.DEFINE {
			return nil, c.unsup(fr, a, "multi-value assignment that does not define fresh names")
		}
		if _, dup := fr.env[id.Name]; dup {
			return nil, c.unsup(fr, a, "multi-value assignment that does not define fresh names")
		}
		names = append(names, id.Name)
	}
	return names, nil
}

func (c *hsCtx) assignStmt(fr *hsFrame, st *hsState, a *ast.AssignStmt) error {
	if a.Tok != token.DEFINE && a.Tok != token.ASSIGN {
		return c.unsup(fr, a, "compound assignment")
	}
	if len(a.Lhs) == 2 && len(a.Rhs) == 1 {
		call, ok := a.Rhs[0].(*ast.CallExpr)
		if !ok {
			return c.unsup(fr, a, "two-value assignment not understood")
		}
		names, err := c.freshNames(fr, a)
		if err != nil {
			return err
		}
		switch {
		case c.qualified(fr, call.Fun, "strconv", "Atoi") && len(call.Args) == 1:
			// pid, err := strconv.Atoi(config.pid)
			arg, err := c.evalStr(fr, st, call.Args[0])
			if err != nil {
				return err
			}
			if arg.kind != "pid" {
				return c.unsup(fr, a, "Atoi of something other than config.pid")
			}
			if err := c.effectsAllowed(fr, st, a); err != nil {
				return err
			}
			if st.atoi {
				return c.unsup(fr, a, "second Atoi")
			}
			st.atoi = true
			fr.env[names[0]] = hsVPidInt{}
			fr.env[names[1]] = hsVErr{"atoi"}
			return nil
		case c.qualified(fr, call.Fun, "encoding/json", "Marshal") && len(call.Args) == 1:
			// raw, err := json.Marshal(<map[string]string>): an object whose keys are sorted; cannot fail
			m, err := c.eval(fr, st, call.Args[0])
			if err != nil {
				return err
			}
			mm, ok := m.(hsVMap)
			if !ok || mm.ty != "map[string]string" {
				return c.unsup(fr, a, "json.Marshal of something that is not a map[string]string with constant keys")
			}
			kvs := append([]hsKV{}, mm.kvs...)
			sort.SliceStable(kvs, func(i, j int) bool { return kvs[i].k < kvs[j].k })
			fr.env[names[0]] = hsVJSON{kvs}
			fr.env[names[1]] = hsVErr{"marshal"}
			return nil
		}
		if id, ok := call.Fun.(*ast.Ident); ok {
			if _, shadow := fr.env[id.Name]; !shadow && c.funcs[id.Name] != nil && hsResultSig(c.funcs[id.Name]) == "*json.RawMessage,error" {
				vals, err := c.inline(fr, st, call, c.funcs[id.Name])
				if err != nil {
					return err
				}
				fr.env[names[0]], fr.env[names[1]] = vals[0], vals[1]
				return nil
			}
		}
		return c.unsup(fr, a, "two-value assignment not understood")
	}
	if len(a.Lhs) != 1 || len(a.Rhs) != 1 {
		return c.unsup(fr, a, "multi-assignment")
	}
	switch l := a.Lhs[0].(type) {
	case *ast.Ident:
		if l.Name == "_" {
			return c.unsup(fr, a, "assignment to blank")
		}
		old, exists := fr.env[l.Name]
		if a.Tok == token.DEFINE && exists {
			return c.unsup(fr, a, "redefinition of a local")
		}
		if a.Tok == token.ASSIGN && !exists {
			return c.unsup(fr, a, "assignment to a name that is not a local")
		}
		v, err := c.eval(fr, st, a.Rhs[0])
		if err != nil {
			return err
		}
		if a.Tok == token.ASSIGN {
			_, oldStr := old.(hsVStr)
			_, newStr := v.(hsVStr)
			oldEv, oldIsEv := old.(hsVEvt)
			newEv, newIsEv := v.(hsVEvt)
			switch {
			case oldStr && newStr:
			case oldIsEv && newIsEv && oldEv.e == newEv.e: // evt = evt.WithData(ed)
			default:
				return c.unsup(fr, a, "re-assignment that is not string-to-string or evt = evt.With...()")
			}
		}
		switch v.(type) {
		case hsVStr, hsVMatches, hsVIdx, hsVEvt, hsVInt, hsVMap, hsVJSON:
		default:
			return c.unsup(fr, a, "local bound to a value kind that is not tracked")
		}
		fr.env[l.Name] = v
		return nil
	case *ast.SelectorExpr:
		// evt.LoggedAt = config.when
		if ev, ok := c.evtOf(fr, l.X); ok && l.Sel.Name == "LoggedAt" && a.Tok == token.ASSIGN {
			v, err := c.eval(fr, st, a.Rhs[0])
			if err != nil {
				return err
			}
			if _, ok := v.(hsVWhen); !ok {
				return c.unsup(fr, a, "LoggedAt set to something other than config.when")
			}
			if st.written == ev {
				return c.unsup(fr, a, "event changed after it was written")
			}
			return nil // the time stamp is not part of the modelled event
		}
		return c.unsup(fr, a, "field assignment not understood")
	case *ast.IndexExpr:
		if a.Tok != token.ASSIGN {
			return c.unsup(fr, a, "indexed definition")
		}
		// evt.Metadata.Extra["k"] = v   /   evt.Subjects["k"] = v
		evM, isMeta := c.evtField(fr, l.X, "Metadata", "Extra")
		evS, isSubj := c.evtField(fr, l.X, "Subjects")
		if !isMeta && !isSubj {
			return c.unsup(fr, a, "indexed assignment not understood")
		}
		k, err := c.evalStr(fr, st, l.Index)
		if err != nil {
			return err
		}
		if k.kind != "const" {
			return c.unsup(fr, a, "map key is not a constant")
		}
		v, err := c.evalField(fr, st, a.Rhs[0])
		if err != nil {
			return err
		}
		ev, list := evM, &[]hsKV{}
		if isMeta {
			list = &evM.metaExtra
		} else {
			ev, list = evS, &evS.subjects
		}
		for _, kv := range *list {
			if kv.k == k.s {
				return c.unsup(fr, a, "map key assigned twice")
			}
		}
		if st.written == ev {
			return c.unsup(fr, a, "event changed after it was written")
		}
		*list = append(*list, hsKV{k.s, v})
		return nil
	}
	return c.unsup(fr, a, "assignment target not understood")
}

func (c *hsCtx) ifStmt(fr *hsFrame, st *hsState, s *ast.IfStmt) error {
	// if ederr != nil { log } else { evt = evt.WithData(ed) }: json.Marshal of a map[string]string
	// cannot fail, so only the else branch is evaluated (the error branch may only log)
	if be, ok := s.Cond.(*ast.BinaryExpr); ok && s.Init == nil && s.Else != nil {
		if id, ok := be.X.(*ast.Ident); ok && be.Op == token.NEQ && hsIsIdent(be.Y, "nil") {
			if e, ok := fr.env[id.Name].(hsVErr); ok && e.of == "marshal" {
				for _, b := range s.Body.List {
					if !c.isLogOnly(fr, b) {
						return c.unsup(fr, b, "marshal error branch does something other than logging")
					}
				}
				eb, ok := s.Else.(*ast.BlockStmt)
				if !ok {
					return c.unsup(fr, s, "else-if after a marshal error check")
				}
				for _, b := range eb.List {
					if _, isRet := b.(*ast.ReturnStmt); isRet {
						return c.unsup(fr, b, "return inside the marshal success branch")
					}
					if err := c.stmt(fr, st, b, false); err != nil {
						return err
					}
				}
				return nil
			}
		}
	}
	if s.Else != nil {
		return c.unsup(fr, s, "if with else")
	}
	// if err := config.eventW.Write(evt); err != nil { return fmt.Errorf(...) }
	if s.Init != nil {
		as, ok := s.Init.(*ast.AssignStmt)
		if !ok || as.Tok != token.DEFINE || len(as.Lhs) != 1 || len(as.Rhs) != 1 {
			return c.unsup(fr, s, "if with an init statement that is not understood")
		}
		errId, ok := as.Lhs[0].(*ast.Ident)
		call, ok2 := as.Rhs[0].(*ast.CallExpr)
		if !ok || !ok2 || len(call.Args) != 1 {
			return c.unsup(fr, s, "if with an init statement that is not understood")
		}
		p, ok := hsSelPath(call.Fun)
		if !ok || len(p) != 3 || p[1] != "eventW" || p[2] != "Write" {
			return c.unsup(fr, s, "if-init call is not config.eventW.Write")
		}
		if _, isCfg := fr.env[p[0]].(hsVCfg); !isCfg {
			return c.unsup(fr, s, "if-init call is not config.eventW.Write")
		}
		be, ok := s.Cond.(*ast.BinaryExpr)
		if !ok || be.Op != token.NEQ || !hsIsIdent(be.X, errId.Name) || !hsIsIdent(be.Y, "nil") {
			return c.unsup(fr, s, "write error check is not `err != nil`")
		}
		if len(s.Body.List) != 1 {
			return c.unsup(fr, s, "write error branch is not a single return")
		}
		r, ok := s.Body.List[0].(*ast.ReturnStmt)
		if !ok || len(r.Results) != 1 {
			return c.unsup(fr, s, "write error branch is not a single return")
		}
		rc, ok := r.Results[0].(*ast.CallExpr)
		if !ok || !c.qualified(fr, rc.Fun, "fmt", "Errorf") {
			return c.unsup(fr, s, "write error branch does not return fmt.Errorf(...)")
		}
		if err := c.effectsAllowed(fr, st, s); err != nil {
			return err
		}
		ev, ok := c.evtOf(fr, call.Args[0])
		if !ok {
			return c.unsup(fr, s, "Write of something that is not the event")
		}
		if !ev.targetSet {
			return c.unsup(fr, s, "event written without a target")
		}
		if !st.earlyReturnsDone() {
			return c.unsup(fr, s, "write before a pending nil/error check")
		}
		st.written = ev
		return nil
	}
	be, ok := s.Cond.(*ast.BinaryExpr)
	if !ok {
		return c.unsup(fr, s, "if condition not understood")
	}
	// if evt.Metadata.Extra == nil { evt.Metadata.Extra = make(map[string]any, n) }   (no effect on the event description)
	if ev, ok := c.evtField(fr, be.X, "Metadata", "Extra"); ok && be.Op == token.EQL && hsIsIdent(be.Y, "nil") {
		if len(s.Body.List) == 1 {
			if as, ok := s.Body.List[0].(*ast.AssignStmt); ok && as.Tok == token.ASSIGN && len(as.Lhs) == 1 && len(as.Rhs) == 1 {
				ev2, ok2 := c.evtField(fr, as.Lhs[0], "Metadata", "Extra")
				if mk, ok3 := as.Rhs[0].(*ast.CallExpr); ok2 && ok3 && ev2 == ev && hsIsIdent(mk.Fun, "make") && len(mk.Args) >= 1 {
					if _, shadow := fr.env["make"]; !shadow && c.funcs["make"] == nil && hsTypeString(mk.Args[0]) == "map[string]any" {
						if len(ev.metaExtra) != 0 {
							return c.unsup(fr, s, "metadata map replaced after a key was set")
						}
						return nil
					}
				}
			}
		}
		return c.unsup(fr, s, "metadata nil-check idiom with an unexpected body")
	}
	x, err := c.eval(fr, st, be.X)
	if err != nil {
		return err
	}
	switch xv := x.(type) {
	case hsVMatches:
		// if matches == nil { log; return nil }     (the second regex's check forks: see run)
		if xv.second || be.Op != token.EQL || !hsIsIdent(be.Y, "nil") {
			return c.unsup(fr, s, "condition on the sub-matches that is not `== nil` on the first match")
		}
		if err := c.onlyLogsThenReturnNil(fr, s.Body); err != nil {
			return err
		}
		if err := c.effectsAllowed(fr, st, s); err != nil {
			return err
		}
		if len(st.metrics) != 0 || st.matchGuard {
			return c.unsup(fr, s, "no-match return after a metric increment, or repeated")
		}
		st.matchGuard = true
		return nil
	case hsVErr:
		// if err != nil { log; return nil }     (err of Atoi)
		if xv.of != "atoi" || be.Op != token.NEQ || !hsIsIdent(be.Y, "nil") {
			return c.unsup(fr, s, "error check not understood")
		}
		if err := c.onlyLogsThenReturnNil(fr, s.Body); err != nil {
			return err
		}
		if err := c.effectsAllowed(fr, st, s); err != nil {
			return err
		}
		if len(st.metrics) != 0 || st.atoiGuard {
			return c.unsup(fr, s, "bad-pid return after a metric increment, or repeated")
		}
		st.atoiGuard = true
		return nil
	case hsVIdx:
		// if idx > -1 { v = matches[idx] }: idx is the index of an existing group, so the
		// condition is true; evaluate the body.
		isMinus1 := false
		if u, ok := be.Y.(*ast.UnaryExpr); ok && u.Op == token.SUB {
			if lit, ok := u.X.(*ast.BasicLit); ok && lit.Kind == token.INT && lit.Value == "1" {
				isMinus1 = true
			}
		}
		if be.Op != token.GTR || !isMinus1 {
			return c.unsup(fr, s, "index condition that is not `> -1`")
		}
		for _, b := range s.Body.List {
			as, ok := b.(*ast.AssignStmt)
			if !ok || as.Tok != token.ASSIGN {
				return c.unsup(fr, b, "statement in an index-check body that is not a plain assignment")
			}
			if err := c.assignStmt(fr, st, as); err != nil {
				return err
			}
		}
		return nil
	}
	return c.unsup(fr, s, "if condition not understood")
}

// config.metrics.IncLogins(metrics.X, metrics.Y) ; <evt>.WithData(ed) ; procedure helper(args)
func (c *hsCtx) exprStmt(fr *hsFrame, st *hsState, es *ast.ExprStmt) error {
	call, ok := es.X.(*ast.CallExpr)
	if !ok {
		return c.unsup(fr, es, "expression statement not understood")
	}
	if id, ok := call.Fun.(*ast.Ident); ok {
		_, shadow := fr.env[id.Name]
		if fd := c.funcs[id.Name]; fd != nil && !shadow && hsResultSig(fd) == "" {
			_, err := c.inline(fr, st, call, fd)
			return err
		}
		return c.unsup(fr, es, "call statement not understood")
	}
	if sel, ok := call.Fun.(*ast.SelectorExpr); ok && sel.Sel.Name == "WithData" {
		_, err := c.evalCall(fr, st, call)
		return err
	}
	p, ok := hsSelPath(call.Fun)
	if !ok || len(p) != 3 || p[1] != "metrics" || p[2] != "IncLogins" || len(call.Args) != 2 {
		return c.unsup(fr, es, "call statement not understood")
	}
	if _, isCfg := fr.env[p[0]].(hsVCfg); !isCfg {
		return c.unsup(fr, es, "call statement not understood")
	}
	if err := c.effectsAllowed(fr, st, es); err != nil {
		return err
	}
	var lab [2]string
	for i, a := range call.Args {
		v, err := c.eval(fr, st, a)
		if err != nil {
			return err
		}
		m, ok := v.(hsVMetric)
		if !ok {
			return c.unsup(fr, a, "metric label is not a metrics constant")
		}
		lab[i] = m.name
	}
	if !st.earlyReturnsDone() {
		return c.unsup(fr, es, "metric increment before a pending nil/error check")
	}
	st.metrics = append(st.metrics, lab)
	return nil
}

// select { case <-config.ctx.Done(): return nil; case config.logins <- common.RemoteUserLogin{...}: return nil }
func (c *hsCtx) selectStmt(fr *hsFrame, st *hsState, s *ast.SelectStmt) error {
	if err := c.effectsAllowed(fr, st, s); err != nil {
		return err
	}
	if st.written == nil {
		return c.unsup(fr, s, "select before the write")
	}
	if len(s.Body.List) != 2 {
		return c.unsup(fr, s, "select with other than two cases")
	}
	sawDone, sawSend := false, false
	for _, cl := range s.Body.List {
		cc := cl.(*ast.CommClause)
		if len(cc.Body) != 1 {
			return c.unsup(fr, cc, "select case body is not a single return nil")
		}
		r, ok := cc.Body[0].(*ast.ReturnStmt)
		if !ok || len(r.Results) != 1 || !hsIsIdent(r.Results[0], "nil") {
			return c.unsup(fr, cc, "select case body is not a single return nil")
		}
		switch comm := cc.Comm.(type) {
		case *ast.ExprStmt:
			u, ok := comm.X.(*ast.UnaryExpr)
			if !ok || u.Op != token.ARROW {
				return c.unsup(fr, cc, "select case not understood")
			}
			call, ok := u.X.(*ast.CallExpr)
			if !ok || len(call.Args) != 0 {
				return c.unsup(fr, cc, "select case not understood")
			}
			p, ok := hsSelPath(call.Fun)
			if !ok || len(p) != 3 || p[1] != "ctx" || p[2] != "Done" {
				return c.unsup(fr, cc, "receive that is not <-config.ctx.Done()")
			}
			if _, isCfg := fr.env[p[0]].(hsVCfg); !isCfg || sawDone {
				return c.unsup(fr, cc, "receive that is not <-config.ctx.Done()")
			}
			sawDone = true
		case *ast.SendStmt:
			p, ok := hsSelPath(comm.Chan)
			if !ok || len(p) != 2 || p[1] != "logins" {
				return c.unsup(fr, cc, "send that is not on config.logins")
			}
			if _, isCfg := fr.env[p[0]].(hsVCfg); !isCfg || sawSend {
				return c.unsup(fr, cc, "send that is not on config.logins")
			}
			v, err := c.eval(fr, st, comm.Value)
			if err != nil {
				return err
			}
			lg, ok := v.(hsVLogin)
			if !ok {
				return c.unsup(fr, cc, "sent value is not a RemoteUserLogin literal")
			}
			if lg.e != st.written {
				return c.unsup(fr, cc, "forwarded event is not the written event")
			}
			cred := lg.cred
			st.forward = &cred
			sawSend = true
		default:
			return c.unsup(fr, cc, "select case not understood")
		}
	}
	if !sawDone || !sawSend {
		return c.unsup(fr, s, "select without both the ctx.Done and the logins case")
	}
	st.done = true
	return nil
}

// ---------------------------------------------------------------------------------------------
// decision tree of one handler

type hsNode struct {
	kind    string // write | find | atoi | ifwhole | find2
	re      string // find, find2
	skip    int    // find2
	a, b    *hsNode
	evt     *hsEvent // write
	metrics [][2]string
	forward *hsSrc
}

// forkKind recognises the input-dependent conditions that have a terminating then-branch:
//
//	len(config.logEntry) == len(matches[0])      -> "ifwhole"
//	idMatches == nil  (second regex)             -> "find2"
func (c *hsCtx) forkKind(fr *hsFrame, st *hsState, cond ast.Expr) (string, error) {
	be, ok := cond.(*ast.BinaryExpr)
	if !ok || be.Op != token.EQL {
		return "", nil
	}
	if call, ok := be.X.(*ast.CallExpr); ok && hsIsIdent(call.Fun, "len") {
		l, err := c.evalInt(fr, st, be.X)
		if err != nil {
			return "", err
		}
		r, err := c.evalInt(fr, st, be.Y)
		if err != nil {
			return "", err
		}
		if l == (hsInt{line: 1}) && r == (hsInt{match0: 1}) {
			return "ifwhole", nil
		}
		return "", c.unsup(fr, cond, "length comparison other than len(config.logEntry) == len(matches[0])")
	}
	if id, ok := be.X.(*ast.Ident); ok && hsIsIdent(be.Y, "nil") {
		if m, ok := fr.env[id.Name].(hsVMatches); ok && m.second {
			if st.match2 != "" {
				return "", c.unsup(fr, cond, "second nil check of the second match")
			}
			return "find2", nil
		}
	}
	return "", nil
}

// run evaluates the statements of a handler (or of the terminating branch of a fork) to the end.
func (c *hsCtx) run(fr *hsFrame, st *hsState, stmts []ast.Stmt) (*hsNode, error) {
	for i, s := range stmts {
		if ifs, ok := s.(*ast.IfStmt); ok && ifs.Init == nil && ifs.Else == nil && !st.done {
			kind, err := c.forkKind(fr, st, ifs.Cond)
			if err != nil {
				return nil, err
			}
			if kind != "" {
				if len(st.metrics) != 0 || st.written != nil || !st.matchGuard {
					return nil, c.unsup(fr, s, "branch on the input after an effect or before the match is checked")
				}
				fr2, st2 := hsCloneWorld(fr, st)
				if kind == "find2" {
					st2.match2, st.match2 = "nil", "some"
				}
				thenT, err := c.run(fr2, st2, ifs.Body.List)
				if err != nil {
					return nil, err
				}
				restT, err := c.run(fr, st, stmts[i+1:])
				if err != nil {
					return nil, err
				}
				return &hsNode{kind: kind, re: st.re2, skip: st.skip, a: thenT, b: restT}, nil
			}
		}
		mg, ag := st.matchGuard, st.atoiGuard
		if err := c.stmt(fr, st, s, i == len(stmts)-1); err != nil {
			return nil, err
		}
		if st.matchGuard != mg || st.atoiGuard != ag {
			node := &hsNode{kind: "atoi"}
			if st.matchGuard != mg {
				node = &hsNode{kind: "find", re: st.re}
			}
			rest, err := c.run(fr, st, stmts[i+1:])
			if err != nil {
				return nil, err
			}
			node.a = rest
			return node, nil
		}
	}
	if !st.done || st.written == nil {
		if len(stmts) > 0 {
			return nil, c.unsup(fr, stmts[len(stmts)-1], "path ends without the write and a final return nil")
		}
		return nil, hsUnsupported("path ends without the write and a final return nil")
	}
	if !st.earlyReturnsDone() {
		return nil, hsUnsupported("path ends with a pending nil/error check")
	}
	return &hsNode{kind: "write", evt: st.written, metrics: st.metrics, forward: st.forward}, nil
}

func (c *hsCtx) treeOf(name string) (*hsNode, error) {
	fd := c.funcs[name]
	if fd == nil {
		return nil, hsUnsupported("function " + name + " not found")
	}
	ps := fd.Type.Params.List
	if len(ps) != 1 || len(ps[0].Names) != 1 || hsTypeString(ps[0].Type) != "*SshdProcessorer" || hsResultSig(fd) != "error" {
		return nil, hsUnsupported("handler signature is not func(config *SshdProcessorer) error")
	}
	fr := &hsFrame{env: map[string]hsValue{ps[0].Names[0].Name: hsVCfg{}}, file: c.fileOf[name]}
	return c.run(fr, &hsState{}, fd.Body.List)
}

// plainSketch: trees of the shape  find -> write  or  atoi/find (either order) -> write+forward
// whose event has no data and only plain sources are also given as a flat sketch.
func hsPlainSketch(t *hsNode) (re string, leaf *hsNode, why string) {
	atoi := false
	for t.kind == "find" || t.kind == "atoi" {
		if t.kind == "find" {
			if re != "" {
				return "", nil, "two matches"
			}
			re = t.re
		} else {
			atoi = true
		}
		t = t.a
	}
	if t.kind != "write" {
		return "", nil, "the handler branches on the input (" + t.kind + "); see handler_prog"
	}
	if re == "" {
		return "", nil, "the handler uses no regular expression; see handler_prog"
	}
	if atoi != (t.forward != nil) {
		return "", nil, "Atoi(config.pid) and the hand-off to config.logins do not come together"
	}
	e := t.evt
	if e.dataSet {
		return "", nil, "the event carries data; see handler_prog"
	}
	srcs := []hsSrc{e.srcValue}
	for _, l := range [][]hsKV{e.srcExtra, e.subjects, e.target, e.metaExtra} {
		for _, kv := range l {
			srcs = append(srcs, kv.v)
		}
	}
	if t.forward != nil {
		srcs = append(srcs, *t.forward)
	}
	for _, s := range srcs {
		if !s.plain() {
			return "", nil, "a field source that is not a capture of the one regex, a constant or a processor field"
		}
	}
	return re, t, ""
}

// ---------------------------------------------------------------------------------------------
// output

func hsKVList(kvs []hsKV) string {
	var ps []string
	for _, kv := range kvs {
		q, ok := coqStringLit([]byte(kv.k))
		if !ok {
			q = "UNSUPPORTED_non_printable_key"
		}
		ps = append(ps, fmt.Sprintf("(%s, %s)", q, kv.v.coq()))
	}
	return "[" + strings.Join(ps, "; ") + "]"
}

func hsStr(s string) string {
	q, ok := coqStringLit([]byte(s))
	if !ok {
		return "UNSUPPORTED_non_printable_string_constant"
	}
	return q
}

func hsBool(b bool) string {
	if b {
		return "true"
	}
	return "false"
}

func hsMetrics(ms [][2]string) string {
	var ps []string
	for _, m := range ms {
		ps = append(ps, fmt.Sprintf("(%s, %s)", hsStr(m[0]), hsStr(m[1])))
	}
	return "[" + strings.Join(ps, "; ") + "]"
}

func hsForward(f *hsSrc) string {
	if f == nil {
		return "None"
	}
	return "Some (" + f.coq() + ")"
}

// hsProgCoq renders a tree; leaves become separate definitions (appended to defs)
func hsProgCoq(name string, t *hsNode, path string, defs *strings.Builder, ind string) string {
	switch t.kind {
	case "write":
		ln := "leaf_" + name + path
		e := t.evt
		fmt.Fprintf(defs, "Definition %s : hleaf := {|\n  hl_event := {|\n", ln)
		fmt.Fprintf(defs, "    he_action := %s;\n    he_component := %s;\n    he_ok := %s;\n    he_source_type := %s;\n", hsStr(e.action), hsStr(e.component), hsBool(e.ok), hsStr(e.srcType))
		fmt.Fprintf(defs, "    he_source_value := %s;\n    he_source_extra := %s;\n", e.srcValue.coq(), hsKVList(e.srcExtra))
		fmt.Fprintf(defs, "    he_subjects := %s;\n    he_target := %s;\n", hsKVList(e.subjects), hsKVList(e.target))
		fmt.Fprintf(defs, "    he_meta_extra := %s;\n    he_data := %s |};\n", hsKVList(e.metaExtra), hsKVList(e.data))
		fmt.Fprintf(defs, "  hl_metrics := %s;\n  hl_forward := %s\n|}.\n\n", hsMetrics(t.metrics), hsForward(t.forward))
		return ind + "PWrite " + ln
	case "find":
		return ind + "PFind " + t.re + " (\n" + hsProgCoq(name, t.a, path, defs, ind+"  ") + ")"
	case "atoi":
		return ind + "PAtoi (\n" + hsProgCoq(name, t.a, path, defs, ind+"  ") + ")"
	case "ifwhole":
		return ind + "PIfWholeLine (\n" + hsProgCoq(name, t.a, path+"_whole", defs, ind+"  ") + ") (\n" + hsProgCoq(name, t.b, path, defs, ind+"  ") + ")"
	case "find2":
		return ind + fmt.Sprintf("PFind2 %d %s (\n", t.skip, t.re) + hsProgCoq(name, t.a, path+"_nomatch2", defs, ind+"  ") + ") (\n" + hsProgCoq(name, t.b, path+"_match2", defs, ind+"  ") + ")"
	}
	return ind + "UNSUPPORTED_node"
}

// handler names, in order of first appearance in ProcessEntry and userTypeLogAuditFn
func (c *hsCtx) handlerNames() ([]string, []string) {
	var names, problems []string
	seen := map[string]bool{}
	add := func(e ast.Expr, where string) {
		id, ok := e.(*ast.Ident)
		if !ok {
			return
		}
		if id.Name == "nil" {
			return
		}
		if c.funcs[id.Name] == nil {
			problems = append(problems, where+": "+id.Name+" is not a package function")
			return
		}
		if !seen[id.Name] {
			seen[id.Name] = true
			names = append(names, id.Name)
		}
	}
	if fd := c.funcs["ProcessEntry"]; fd != nil {
		ast.Inspect(fd.Body, func(n ast.Node) bool {
			if as, ok := n.(*ast.AssignStmt); ok && len(as.Lhs) == 1 && len(as.Rhs) == 1 && hsIsIdent(as.Lhs[0], "entryFunc") {
				add(as.Rhs[0], "ProcessEntry")
			}
			return true
		})
	} else {
		problems = append(problems, "ProcessEntry not found")
	}
	if fd := c.funcs["userTypeLogAuditFn"]; fd != nil {
		ast.Inspect(fd.Body, func(n ast.Node) bool {
			if r, ok := n.(*ast.ReturnStmt); ok && len(r.Results) == 1 {
				add(r.Results[0], "userTypeLogAuditFn")
			}
			return true
		})
	} else {
		problems = append(problems, "userTypeLogAuditFn not found")
	}
	return names, problems
}

func hsComment(s string) string {
	s = strings.ReplaceAll(s, "*)", "* )")
	s = strings.ReplaceAll(s, "(*", "( *")
	return strings.ReplaceAll(s, "\"", "'") // Coq lexes string quotes inside comments
}

const hsHeader = `(* GENERATED by tools/go2v from processors/sshd/*.go (and internal/common, internal/metrics for constants).
   Do not edit.
   For every handler: what it does, obtained by symbolic evaluation of the handler body with helpers
   inlined: which regex it re-matches the line with, where each event field comes from (capture group /
   constant / processor field / tail of the line), the outcome, the metric increments, the data object,
   whether and with which credential the login is handed on, and on which conditions it branches. *)
From Coq Require Import Ascii String List.
Import ListNotations.
From AM Require Import Lib.Bytes Lib.Regex Gen.SshdRegexes Gen.SshdDispatch.
Open Scope string_scope.

(* where a string put into the event comes from *)
Inductive fsrc :=
| FCap (group_index : nat)   (* matches[i] of the handler's regex *)
| FConst (s : string)
| FCfgPid                    (* config.pid: the PID token of the log entry *)
| FCfgNode                   (* config.nodeName *)
| FCfgMachineID              (* config.machineID *)
| FCap2 (group_index : nat)  (* idMatches[i]: sub-match of the handler's second regex *)
| FLineFrom (n : nat) (fallback : string).
                             (* if len(config.logEntry) <= n then fallback else config.logEntry[n:] *)

(* ---- flat sketches: handlers of the shape  match; build the event; (metrics;) write; (hand on) ---- *)
Record hsketch := {
  hs_re : list item;                         (* the regex handed to FindStringSubmatch; no match: return nil *)
  hs_action : string;                        (* NewAuditEvent's event type *)
  hs_component : string;                     (* NewAuditEvent's component *)
  hs_ok : bool;                              (* auditevent.OutcomeSucceeded? *)
  hs_source_type : string;
  hs_source_value : fsrc;
  hs_source_extra : list (string * fsrc);
  hs_subjects : list (string * fsrc);        (* in source order *)
  hs_target : list (string * fsrc);
  hs_meta_extra : list (string * fsrc);      (* evt.Metadata.Extra[k] = v *)
  hs_metrics : list mlabel;                  (* IncLogins calls inside the handler: after the early returns, before the write *)
  hs_forward : option fsrc                   (* Some cred: Atoi(config.pid) is checked before anything else happens (failure: return nil) and,
                                                after a successful write, RemoteUserLogin{Source: the event, PID: that int, CredUserID: cred}
                                                is offered to config.logins (select with ctx.Done) *)
}.

(* ---- decision trees: every handler ---- *)
Record hevent := {
  he_action : string;
  he_component : string;
  he_ok : bool;
  he_source_type : string;
  he_source_value : fsrc;
  he_source_extra : list (string * fsrc);
  he_subjects : list (string * fsrc);        (* NewAuditEvent's map, then evt.Subjects[k] = v assignments, in source order *)
  he_target : list (string * fsrc);
  he_meta_extra : list (string * fsrc);
  he_data : list (string * fsrc)             (* WithData(json.Marshal(map[string]string{...})): keys in json.Marshal's (sorted) order.
                                                The marshal error branch (it only logs) is dropped: marshalling such a map cannot fail. *)
}.

Record hleaf := {
  hl_event : hevent;                         (* the event handed to config.eventW.Write *)
  hl_metrics : list mlabel;                  (* IncLogins calls on the path, all before the write *)
  hl_forward : option fsrc                   (* Some cred: after a successful write RemoteUserLogin{Source: the event, PID: the Atoi'd pid,
                                                CredUserID: cred} is offered to config.logins (select with ctx.Done) *)
}.

Inductive hprog :=
| PWrite (l : hleaf)                         (* count the metrics, write the event (error: return it), hand on if any, return nil *)
| PFind (re : list item) (k : hprog)         (* matches := re.FindStringSubmatch(config.logEntry); nil: return nil *)
| PAtoi (k : hprog)                          (* pid, err := strconv.Atoi(config.pid); err: return nil *)
| PIfWholeLine (k_then k_else : hprog)       (* if len(config.logEntry) == len(matches[0]) *)
| PFind2 (skip : nat) (re2 : list item) (k_none k_some : hprog).
                                             (* rest := config.logEntry[len(matches[0])+skip:]  (a slice expression: panics when out of range);
                                                idMatches := re2.FindStringSubmatch(rest); if idMatches == nil then k_none else k_some *)

`

func genHandlers(repo, out string) error {
	dir := filepath.Join(repo, "processors/sshd")
	fset := token.NewFileSet()
	pkgs, err := parser.ParseDir(fset, dir, func(fi os.FileInfo) bool { return !strings.HasSuffix(fi.Name(), "_test.go") }, 0)
	if err != nil {
		return err
	}
	c := &hsCtx{repo: repo, fset: fset, funcs: map[string]*ast.FuncDecl{}, fileOf: map[string]*ast.File{},
		srcOf: map[*ast.File][]byte{}, consts: map[string]string{}, vars: map[string]bool{}, regexes: map[string]*regexDef{},
		extConsts: map[string]map[string]string{}, extNames: map[string]map[string]bool{}}
	var fnames []string
	for _, pkg := range pkgs {
		for fname := range pkg.Files {
			fnames = append(fnames, fname)
		}
	}
	sort.Strings(fnames)
	for _, pkg := range pkgs {
		for _, fname := range fnames {
			f := pkg.Files[fname]
			if f == nil {
				continue
			}
			b, err := os.ReadFile(fname)
			if err != nil {
				return err
			}
			c.srcOf[f] = b
			hsCollectConsts(f, c.consts, map[string]bool{})
			for _, d := range f.Decls {
				switch v := d.(type) {
				case *ast.FuncDecl:
					if v.Recv == nil {
						c.funcs[v.Name.Name] = v
						c.fileOf[v.Name.Name] = f
					}
				case *ast.GenDecl:
					if v.Tok == token.VAR {
						for _, sp := range v.Specs {
							for _, n := range sp.(*ast.ValueSpec).Names {
								c.vars[n.Name] = true
							}
						}
					}
				}
			}
		}
	}
	gomod, err := os.ReadFile(filepath.Join(repo, "go.mod"))
	if err != nil {
		return err
	}
	for _, ln := range strings.Split(string(gomod), "\n") {
		if f := strings.Fields(ln); len(f) == 2 && f[0] == "module" {
			c.modPath = f[1]
		}
	}
	defs, err := readRegexes(repo)
	if err != nil {
		return err
	}
	for i := range defs {
		c.regexes[defs[i].name] = &defs[i]
	}

	var sb strings.Builder
	sb.WriteString(hsHeader)

	names, problems := c.handlerNames()
	type res struct {
		name string
		tree *hsNode
		err  error
		re   string // flat sketch, if the tree has the plain shape
		leaf *hsNode
		why  string
	}
	var results []res
	for _, h := range names {
		r := res{name: h}
		r.tree, r.err = c.treeOf(h)
		if r.tree != nil {
			r.re, r.leaf, r.why = hsPlainSketch(r.tree)
		}
		results = append(results, r)
	}
	// flat sketches
	for _, r := range results {
		if r.leaf == nil {
			continue
		}
		e := r.leaf.evt
		fmt.Fprintf(&sb, "Definition sketch_%s : hsketch := {|\n", r.name)
		fmt.Fprintf(&sb, "  hs_re := %s;\n", r.re)
		fmt.Fprintf(&sb, "  hs_action := %s;\n  hs_component := %s;\n", hsStr(e.action), hsStr(e.component))
		fmt.Fprintf(&sb, "  hs_ok := %s;\n", hsBool(e.ok))
		fmt.Fprintf(&sb, "  hs_source_type := %s;\n", hsStr(e.srcType))
		fmt.Fprintf(&sb, "  hs_source_value := %s;\n", e.srcValue.coq())
		fmt.Fprintf(&sb, "  hs_source_extra := %s;\n", hsKVList(e.srcExtra))
		fmt.Fprintf(&sb, "  hs_subjects := %s;\n", hsKVList(e.subjects))
		fmt.Fprintf(&sb, "  hs_target := %s;\n", hsKVList(e.target))
		fmt.Fprintf(&sb, "  hs_meta_extra := %s;\n", hsKVList(e.metaExtra))
		fmt.Fprintf(&sb, "  hs_metrics := %s;\n", hsMetrics(r.leaf.metrics))
		fmt.Fprintf(&sb, "  hs_forward := %s\n", hsForward(r.leaf.forward))
		sb.WriteString("|}.\n\n")
	}
	sb.WriteString("Definition handler_sketch (h : handler) : option hsketch :=\n  match h with\n")
	var sketchless []string
	for _, r := range results {
		switch {
		case r.leaf != nil:
			fmt.Fprintf(&sb, "  | h_%s => Some sketch_%s\n", r.name, r.name)
		case r.tree != nil && hsNoSketchAllowed[r.name]:
			fmt.Fprintf(&sb, "  (* no flat sketch (allowed for this handler): %s *)\n  | h_%s => None\n", hsComment(r.why), r.name)
			sketchless = append(sketchless, "h_"+r.name)
		case r.tree != nil:
			fmt.Fprintf(&sb, "  (* UNSUPPORTED: no flat sketch and not allowed to have none: %s *)\n  | h_%s => UNSUPPORTED_sketch_%s\n", hsComment(r.why), r.name, r.name)
		default:
			fmt.Fprintf(&sb, "  (* UNSUPPORTED: %s *)\n  | h_%s => UNSUPPORTED_sketch_%s\n", hsComment(r.err.Error()), r.name, r.name)
		}
	}
	sb.WriteString("  end.\n\n")
	fmt.Fprintf(&sb, "(* the handlers without a flat sketch *)\nDefinition sketchless_handlers : list handler := [%s].\n\n", strings.Join(sketchless, "; "))

	// decision trees
	for _, r := range results {
		if r.tree == nil {
			continue
		}
		var leaves strings.Builder
		body := hsProgCoq(r.name, r.tree, "", &leaves, "  ")
		sb.WriteString(leaves.String())
		fmt.Fprintf(&sb, "Definition prog_%s : hprog :=\n%s.\n\n", r.name, body)
	}
	sb.WriteString("Definition handler_prog (h : handler) : hprog :=\n  match h with\n")
	for _, r := range results {
		if r.tree != nil {
			fmt.Fprintf(&sb, "  | h_%s => prog_%s\n", r.name, r.name)
		} else {
			fmt.Fprintf(&sb, "  (* UNSUPPORTED: %s *)\n  | h_%s => UNSUPPORTED_prog_%s\n", hsComment(r.err.Error()), r.name, r.name)
		}
	}
	sb.WriteString("  end.\n")
	for _, p := range problems {
		fmt.Fprintf(&sb, "(* UNSUPPORTED: %s *)\n", hsComment(p))
	}
	if len(problems) > 0 {
		sb.WriteString("Definition handlers_unsupported : nat := UNSUPPORTED_handlers.\n")
	}
	return os.WriteFile(filepath.Join(out, "SshdHandlers.v"), []byte(sb.String()), 0o644)
}
