package main

// handlers.go: field-source sketches of the sshd log handlers (-> Gen/SshdHandlers.v).
//
// Every handler reachable from ProcessEntry / userTypeLogAuditFn is run through a small symbolic
// evaluator (environment: Go identifier -> symbolic value).  The evaluator understands exactly the
// statement and expression forms the regular handlers are written in; package helpers such as
// userLogToAuditEvent are inlined with parameter binding.  Anything else makes the handler's
// sketch UNSUPPORTED (an identifier that does not type-check in Coq), except for the handlers
// named in hsNoSketchAllowed, which get None.

import (
	"fmt"
	"go/ast"
	"go/parser"
	"go/token"
	"os"
	"path/filepath"
	"sort"
	"strconv"
	"strings"
)

func init() { generators = append(generators, genHandlers) }

// handlers that are allowed to have no sketch (their shape is modelled by hand only)
var hsNoSketchAllowed = map[string]bool{
	"processAcceptPublicKeyEntry":    true, // three branches, second regex, data payload
	"processCertificateInvalidEntry": true, // uses no regular expression
}

// ---------------------------------------------------------------------------------------------
// symbolic values

type hsSrc struct {
	kind      string // cap | const | pid | node | mid
	re, group string
	s         string
}

func (f hsSrc) coq() string {
	switch f.kind {
	case "cap":
		return "FCap " + f.re + "_" + f.group
	case "const":
		q, ok := coqStringLit([]byte(f.s))
		if !ok {
			return "UNSUPPORTED_non_printable_string_constant"
		}
		return "FConst " + q
	case "pid":
		return "FCfgPid"
	case "node":
		return "FCfgNode"
	case "mid":
		return "FCfgMachineID"
	}
	return "UNSUPPORTED_fsrc"
}

type hsKV struct {
	k string
	v hsSrc
}

type hsEvent struct {
	action, component, srcType string
	ok                         bool
	srcValue                   hsSrc
	srcExtra, subjects         []hsKV
	target                     []hsKV
	targetSet                  bool
	metaExtra                  []hsKV
}

type hsValue interface{}

type (
	hsVStr      struct{ src hsSrc }        // a string whose origin is known
	hsVMatches  struct{ re string }        // RE.FindStringSubmatch(config.logEntry)
	hsVIdx      struct{ re, group string } // RE.SubexpIndex(<name of an existing group>)
	hsVCfg      struct{}                   // the *SshdProcessorer parameter
	hsVLogEntry struct{}                   // config.logEntry
	hsVWhen     struct{}                   // config.when
	hsVNil      struct{}
	hsVPidInt   struct{}              // the int of strconv.Atoi(config.pid)
	hsVErr      struct{ of string }   // error value of "atoi"
	hsVOutcome  struct{ ok bool }     // auditevent.OutcomeSucceeded / OutcomeFailed
	hsVMetric   struct{ name string } // metrics.<name>
	hsVMap      struct{ kvs []hsKV }  // map literal with constant keys
	hsVSource   struct {              // auditevent.EventSource literal
		typ   string
		value hsSrc
		extra []hsKV
	}
	hsVEvt   struct{ e *hsEvent } // *auditevent.AuditEvent (pointer identity matters)
	hsVLogin struct {             // common.RemoteUserLogin literal
		e    *hsEvent
		cred hsSrc
	}
)

type hsUnsupported string

func (u hsUnsupported) Error() string { return string(u) }

// ---------------------------------------------------------------------------------------------
// package context

type hsCtx struct {
	repo, modPath string
	fset          *token.FileSet
	funcs         map[string]*ast.FuncDecl
	fileOf        map[string]*ast.File
	srcOf         map[*ast.File][]byte
	consts        map[string]string // package-level string constants of processors/sshd
	vars          map[string]bool   // package-level variables of processors/sshd
	regexes       map[string]*regexDef
	extConsts     map[string]map[string]string // import path -> string constants declared there
	extNames      map[string]map[string]bool   // import path -> all constant names declared there
}

// per-handler effects, in the order the model cares about
type hsState struct {
	re         string // regex handed to FindStringSubmatch
	matchGuard bool   // "if matches == nil { ...; return nil }" seen
	atoi       bool   // pid, err := strconv.Atoi(config.pid) seen
	atoiGuard  bool   // "if err != nil { ...; return nil }" seen
	metrics    [][2]string
	written    *hsEvent
	forward    *hsSrc // CredUserID of the RemoteUserLogin handed to config.logins
	done       bool   // a final return was evaluated
}

type hsFrame struct {
	env    map[string]hsValue
	file   *ast.File
	helper bool // evaluating an inlined helper: no guards, no effects, ends with "return <event>"
	depth  int
}

func (c *hsCtx) text(fr *hsFrame, n ast.Node) string {
	src := c.srcOf[fr.file]
	s := string(src[c.fset.Position(n.Pos()).Offset:c.fset.Position(n.End()).Offset])
	s = strings.Join(strings.Fields(s), " ")
	if len(s) > 120 {
		s = s[:120] + "..."
	}
	return s
}

func (c *hsCtx) unsup(fr *hsFrame, n ast.Node, why string) error {
	return hsUnsupported(fmt.Sprintf("%s: `%s` (line %d)", why, c.text(fr, n), c.fset.Position(n.Pos()).Line))
}

// importPath resolves a package qualifier of the current file.
func (c *hsCtx) importPath(fr *hsFrame, name string) (string, bool) {
	for _, im := range fr.file.Imports {
		p, err := strconv.Unquote(im.Path.Value)
		if err != nil {
			continue
		}
		local := p[strings.LastIndex(p, "/")+1:]
		if im.Name != nil {
			local = im.Name.Name
		}
		if local == name {
			return p, true
		}
	}
	return "", false
}

// loadExt reads the constants of a package of this module.
func (c *hsCtx) loadExt(path string) error {
	if _, ok := c.extNames[path]; ok {
		return nil
	}
	if !strings.HasPrefix(path, c.modPath+"/") {
		return hsUnsupported("package outside the module: " + path)
	}
	dir := filepath.Join(c.repo, strings.TrimPrefix(path, c.modPath+"/"))
	pkgs, err := parser.ParseDir(token.NewFileSet(), dir, func(fi os.FileInfo) bool { return !strings.HasSuffix(fi.Name(), "_test.go") }, 0)
	if err != nil {
		return hsUnsupported("cannot parse " + dir + ": " + err.Error())
	}
	strs, names := map[string]string{}, map[string]bool{}
	for _, pkg := range pkgs {
		for _, f := range pkg.Files {
			hsCollectConsts(f, strs, names)
		}
	}
	c.extConsts[path], c.extNames[path] = strs, names
	return nil
}

func hsCollectConsts(f *ast.File, strs map[string]string, names map[string]bool) {
	for _, d := range f.Decls {
		gd, ok := d.(*ast.GenDecl)
		if !ok || gd.Tok != token.CONST {
			continue
		}
		for _, sp := range gd.Specs {
			vs := sp.(*ast.ValueSpec)
			for i, n := range vs.Names {
				names[n.Name] = true
				if i < len(vs.Values) {
					if lit, ok := vs.Values[i].(*ast.BasicLit); ok && lit.Kind == token.STRING {
						if s, err := strconv.Unquote(lit.Value); err == nil {
							strs[n.Name] = s
						}
					}
				}
			}
		}
	}
}

// ---------------------------------------------------------------------------------------------
// expressions

func hsIsIdent(e ast.Expr, name string) bool {
	id, ok := e.(*ast.Ident)
	return ok && id.Name == name
}

// selector path a.b.c as strings; ok=false if the expression is not a pure selector chain
func hsSelPath(e ast.Expr) ([]string, bool) {
	switch v := e.(type) {
	case *ast.Ident:
		return []string{v.Name}, true
	case *ast.SelectorExpr:
		p, ok := hsSelPath(v.X)
		if !ok {
			return nil, false
		}
		return append(p, v.Sel.Name), true
	}
	return nil, false
}

func hsTypeString(e ast.Expr) string {
	switch v := e.(type) {
	case *ast.Ident:
		return v.Name
	case *ast.SelectorExpr:
		return hsTypeString(v.X) + "." + v.Sel.Name
	case *ast.MapType:
		return "map[" + hsTypeString(v.Key) + "]" + hsTypeString(v.Value)
	case *ast.StarExpr:
		return "*" + hsTypeString(v.X)
	}
	return "?"
}

func (c *hsCtx) evalStr(fr *hsFrame, st *hsState, e ast.Expr) (hsSrc, error) {
	v, err := c.eval(fr, st, e)
	if err != nil {
		return hsSrc{}, err
	}
	s, ok := v.(hsVStr)
	if !ok {
		return hsSrc{}, c.unsup(fr, e, "expected a string of known origin")
	}
	return s.src, nil
}

func (c *hsCtx) evalMap(fr *hsFrame, st *hsState, cl *ast.CompositeLit) ([]hsKV, error) {
	var kvs []hsKV
	seen := map[string]bool{}
	for _, el := range cl.Elts {
		kv, ok := el.(*ast.KeyValueExpr)
		if !ok {
			return nil, c.unsup(fr, el, "map element without key")
		}
		k, err := c.evalStr(fr, st, kv.Key)
		if err != nil {
			return nil, err
		}
		if k.kind != "const" {
			return nil, c.unsup(fr, kv.Key, "map key is not a constant")
		}
		if seen[k.s] {
			return nil, c.unsup(fr, kv.Key, "duplicate map key")
		}
		seen[k.s] = true
		v, err := c.evalStr(fr, st, kv.Value)
		if err != nil {
			return nil, err
		}
		kvs = append(kvs, hsKV{k.s, v})
	}
	return kvs, nil
}

func (c *hsCtx) eval(fr *hsFrame, st *hsState, e ast.Expr) (hsValue, error) {
	switch v := e.(type) {
	case *ast.ParenExpr:
		return c.eval(fr, st, v.X)
	case *ast.BasicLit:
		if v.Kind == token.STRING {
			s, err := strconv.Unquote(v.Value)
			if err != nil {
				return nil, c.unsup(fr, e, "bad string literal")
			}
			return hsVStr{hsSrc{kind: "const", s: s}}, nil
		}
		return nil, c.unsup(fr, e, "literal of unsupported kind")
	case *ast.Ident:
		if v.Name == "nil" {
			return hsVNil{}, nil
		}
		if val, ok := fr.env[v.Name]; ok {
			return val, nil
		}
		if s, ok := c.consts[v.Name]; ok {
			return hsVStr{hsSrc{kind: "const", s: s}}, nil
		}
		return nil, c.unsup(fr, e, "identifier with no known value")
	case *ast.SelectorExpr:
		x, isId := v.X.(*ast.Ident)
		if !isId {
			return nil, c.unsup(fr, e, "selector on a non-identifier")
		}
		if val, ok := fr.env[x.Name]; ok {
			if _, isCfg := val.(hsVCfg); isCfg {
				switch v.Sel.Name {
				case "pid":
					return hsVStr{hsSrc{kind: "pid"}}, nil
				case "nodeName":
					return hsVStr{hsSrc{kind: "node"}}, nil
				case "machineID":
					return hsVStr{hsSrc{kind: "mid"}}, nil
				case "logEntry":
					return hsVLogEntry{}, nil
				case "when":
					return hsVWhen{}, nil
				}
			}
			return nil, c.unsup(fr, e, "field read that is not understood")
		}
		if c.vars[x.Name] || c.consts[x.Name] != "" {
			return nil, c.unsup(fr, e, "selector on a package-level name")
		}
		path, ok := c.importPath(fr, x.Name)
		if !ok {
			return nil, c.unsup(fr, e, "unknown qualifier")
		}
		switch {
		case path == "github.com/metal-toolbox/auditevent" && v.Sel.Name == "OutcomeSucceeded":
			return hsVOutcome{true}, nil
		case path == "github.com/metal-toolbox/auditevent" && v.Sel.Name == "OutcomeFailed":
			return hsVOutcome{false}, nil
		case strings.HasPrefix(path, c.modPath+"/"):
			if err := c.loadExt(path); err != nil {
				return nil, c.unsup(fr, e, err.Error())
			}
			if path == c.modPath+"/internal/metrics" {
				if !c.extNames[path][v.Sel.Name] {
					return nil, c.unsup(fr, e, "metric label not declared in internal/metrics")
				}
				return hsVMetric{v.Sel.Name}, nil
			}
			if s, ok := c.extConsts[path][v.Sel.Name]; ok {
				return hsVStr{hsSrc{kind: "const", s: s}}, nil
			}
			return nil, c.unsup(fr, e, "not a string constant of "+path)
		}
		return nil, c.unsup(fr, e, "qualified name that is not understood")
	case *ast.IndexExpr:
		x, err := c.eval(fr, st, v.X)
		if err != nil {
			return nil, err
		}
		m, ok := x.(hsVMatches)
		if !ok {
			return nil, c.unsup(fr, e, "index into something that is not the sub-match slice")
		}
		if !st.matchGuard {
			return nil, c.unsup(fr, e, "sub-match used before the nil check")
		}
		i, err := c.eval(fr, st, v.Index)
		if err != nil {
			return nil, err
		}
		idx, ok := i.(hsVIdx)
		if !ok {
			return nil, c.unsup(fr, e, "sub-match index is not a SubexpIndex result")
		}
		if idx.re != m.re {
			return nil, c.unsup(fr, e, "index of "+idx.re+" used on the sub-matches of "+m.re)
		}
		return hsVStr{hsSrc{kind: "cap", re: idx.re, group: idx.group}}, nil
	case *ast.CompositeLit:
		ty := hsTypeString(v.Type)
		switch ty {
		case "map[string]string", "map[string]any", "map[string]interface{}":
			kvs, err := c.evalMap(fr, st, v)
			if err != nil {
				return nil, err
			}
			return hsVMap{kvs}, nil
		}
		if sel, ok := v.Type.(*ast.SelectorExpr); ok {
			q, _ := sel.X.(*ast.Ident)
			path := ""
			if q != nil {
				path, _ = c.importPath(fr, q.Name)
			}
			switch {
			case path == "github.com/metal-toolbox/auditevent" && sel.Sel.Name == "EventSource":
				return c.evalSource(fr, st, v)
			case path == c.modPath+"/internal/common" && sel.Sel.Name == "RemoteUserLogin":
				return c.evalLogin(fr, st, v)
			}
		}
		return nil, c.unsup(fr, e, "composite literal of unsupported type "+ty)
	case *ast.CallExpr:
		return c.evalCall(fr, st, v)
	}
	return nil, c.unsup(fr, e, "expression form not understood")
}

func (c *hsCtx) evalSource(fr *hsFrame, st *hsState, cl *ast.CompositeLit) (hsValue, error) {
	var src hsVSource
	seen := map[string]bool{}
	for _, el := range cl.Elts {
		kv, ok := el.(*ast.KeyValueExpr)
		if !ok {
			return nil, c.unsup(fr, el, "positional EventSource field")
		}
		k, ok := kv.Key.(*ast.Ident)
		if !ok || seen[k.Name] {
			return nil, c.unsup(fr, el, "EventSource field")
		}
		seen[k.Name] = true
		switch k.Name {
		case "Type":
			s, err := c.evalStr(fr, st, kv.Value)
			if err != nil {
				return nil, err
			}
			if s.kind != "const" {
				return nil, c.unsup(fr, kv.Value, "source type is not a constant")
			}
			src.typ = s.s
		case "Value":
			s, err := c.evalStr(fr, st, kv.Value)
			if err != nil {
				return nil, err
			}
			src.value = s
		case "Extra":
			m, err := c.eval(fr, st, kv.Value)
			if err != nil {
				return nil, err
			}
			mm, ok := m.(hsVMap)
			if !ok {
				return nil, c.unsup(fr, kv.Value, "source extra is not a map literal")
			}
			src.extra = mm.kvs
		default:
			return nil, c.unsup(fr, el, "unknown EventSource field")
		}
	}
	if !seen["Type"] || !seen["Value"] {
		return nil, c.unsup(fr, cl, "EventSource without Type or Value")
	}
	return src, nil
}

func (c *hsCtx) evalLogin(fr *hsFrame, st *hsState, cl *ast.CompositeLit) (hsValue, error) {
	var lg hsVLogin
	seen := map[string]bool{}
	for _, el := range cl.Elts {
		kv, ok := el.(*ast.KeyValueExpr)
		if !ok {
			return nil, c.unsup(fr, el, "positional RemoteUserLogin field")
		}
		k, ok := kv.Key.(*ast.Ident)
		if !ok || seen[k.Name] {
			return nil, c.unsup(fr, el, "RemoteUserLogin field")
		}
		seen[k.Name] = true
		val, err := c.eval(fr, st, kv.Value)
		if err != nil {
			return nil, err
		}
		switch k.Name {
		case "Source":
			ev, ok := val.(hsVEvt)
			if !ok {
				return nil, c.unsup(fr, kv.Value, "login source is not the event")
			}
			lg.e = ev.e
		case "PID":
			if _, ok := val.(hsVPidInt); !ok {
				return nil, c.unsup(fr, kv.Value, "login PID is not Atoi(config.pid)")
			}
			if !st.atoiGuard {
				return nil, c.unsup(fr, kv.Value, "Atoi result used before its error check")
			}
		case "CredUserID":
			s, ok := val.(hsVStr)
			if !ok {
				return nil, c.unsup(fr, kv.Value, "CredUserID of unknown origin")
			}
			lg.cred = s.src
		default:
			return nil, c.unsup(fr, el, "unknown RemoteUserLogin field")
		}
	}
	if !seen["Source"] || !seen["PID"] || !seen["CredUserID"] {
		return nil, c.unsup(fr, cl, "RemoteUserLogin with a field left at its zero value")
	}
	return lg, nil
}

func (c *hsCtx) evalCall(fr *hsFrame, st *hsState, call *ast.CallExpr) (hsValue, error) {
	if call.Ellipsis != token.NoPos {
		return nil, c.unsup(fr, call, "variadic call")
	}
	// package-level helper: inline it
	if id, ok := call.Fun.(*ast.Ident); ok {
		if _, shadow := fr.env[id.Name]; shadow {
			return nil, c.unsup(fr, call, "call of a local value")
		}
		fd := c.funcs[id.Name]
		if fd == nil {
			return nil, c.unsup(fr, call, "call of an unknown function")
		}
		return c.inline(fr, st, call, fd)
	}
	sel, ok := call.Fun.(*ast.SelectorExpr)
	if !ok {
		return nil, c.unsup(fr, call, "call form not understood")
	}
	// RE.FindStringSubmatch / RE.SubexpIndex on a package-level regex
	if x, ok := sel.X.(*ast.Ident); ok {
		if _, local := fr.env[x.Name]; !local {
			if rd, isRe := c.regexes[x.Name]; isRe {
				if rd.err != nil {
					return nil, c.unsup(fr, call, "regex "+x.Name+" itself is unsupported")
				}
				switch sel.Sel.Name {
				case "FindStringSubmatch":
					if fr.helper {
						return nil, c.unsup(fr, call, "regex match inside a helper")
					}
					if len(call.Args) != 1 {
						return nil, c.unsup(fr, call, "FindStringSubmatch arity")
					}
					a, err := c.eval(fr, st, call.Args[0])
					if err != nil {
						return nil, err
					}
					if _, ok := a.(hsVLogEntry); !ok {
						return nil, c.unsup(fr, call, "FindStringSubmatch on something other than config.logEntry")
					}
					if st.re != "" {
						return nil, c.unsup(fr, call, "second FindStringSubmatch in one handler")
					}
					st.re = x.Name
					return hsVMatches{x.Name}, nil
				case "SubexpIndex":
					if len(call.Args) != 1 {
						return nil, c.unsup(fr, call, "SubexpIndex arity")
					}
					g, err := c.evalStr(fr, st, call.Args[0])
					if err != nil {
						return nil, err
					}
					if g.kind != "const" {
						return nil, c.unsup(fr, call, "group name is not a constant")
					}
					n := 0
					for i, name := range rd.groups {
						if i > 0 && name == g.s {
							n++
						}
					}
					if n != 1 {
						return nil, c.unsup(fr, call, fmt.Sprintf("regex %s has %d groups named %q (SubexpIndex would not identify one)", x.Name, n, g.s))
					}
					return hsVIdx{x.Name, g.s}, nil
				}
				return nil, c.unsup(fr, call, "regex method not understood")
			}
		}
	}
	// <event>.WithTarget(map)
	if sel.Sel.Name == "WithTarget" {
		x, err := c.eval(fr, st, sel.X)
		if err != nil {
			return nil, err
		}
		ev, ok := x.(hsVEvt)
		if !ok {
			return nil, c.unsup(fr, call, "WithTarget on something that is not the event")
		}
		if len(call.Args) != 1 {
			return nil, c.unsup(fr, call, "WithTarget arity")
		}
		m, err := c.eval(fr, st, call.Args[0])
		if err != nil {
			return nil, err
		}
		mm, ok := m.(hsVMap)
		if !ok {
			return nil, c.unsup(fr, call, "target is not a map literal")
		}
		if ev.e.targetSet {
			return nil, c.unsup(fr, call, "target set twice")
		}
		if st.written == ev.e {
			return nil, c.unsup(fr, call, "event changed after it was written")
		}
		ev.e.target, ev.e.targetSet = mm.kvs, true
		return ev, nil // WithTarget returns its receiver
	}
	// auditevent.NewAuditEvent(action, source, outcome, subjects, component)
	if q, ok := sel.X.(*ast.Ident); ok {
		if _, local := fr.env[q.Name]; !local {
			if path, ok := c.importPath(fr, q.Name); ok && path == "github.com/metal-toolbox/auditevent" && sel.Sel.Name == "NewAuditEvent" {
				if len(call.Args) != 5 {
					return nil, c.unsup(fr, call, "NewAuditEvent arity")
				}
				ev := &hsEvent{}
				a, err := c.evalStr(fr, st, call.Args[0])
				if err != nil {
					return nil, err
				}
				if a.kind != "const" {
					return nil, c.unsup(fr, call.Args[0], "event type is not a constant")
				}
				ev.action = a.s
				s, err := c.eval(fr, st, call.Args[1])
				if err != nil {
					return nil, err
				}
				src, ok := s.(hsVSource)
				if !ok {
					return nil, c.unsup(fr, call.Args[1], "source is not an EventSource literal")
				}
				ev.srcType, ev.srcValue, ev.srcExtra = src.typ, src.value, src.extra
				o, err := c.eval(fr, st, call.Args[2])
				if err != nil {
					return nil, err
				}
				oc, ok := o.(hsVOutcome)
				if !ok {
					return nil, c.unsup(fr, call.Args[2], "outcome is not OutcomeSucceeded/OutcomeFailed")
				}
				ev.ok = oc.ok
				m, err := c.eval(fr, st, call.Args[3])
				if err != nil {
					return nil, err
				}
				mm, ok := m.(hsVMap)
				if !ok {
					return nil, c.unsup(fr, call.Args[3], "subjects is not a map literal")
				}
				ev.subjects = mm.kvs
				comp, err := c.evalStr(fr, st, call.Args[4])
				if err != nil {
					return nil, err
				}
				if comp.kind != "const" {
					return nil, c.unsup(fr, call.Args[4], "component is not a constant")
				}
				ev.component = comp.s
				return hsVEvt{ev}, nil
			}
		}
	}
	return nil, c.unsup(fr, call, "call not understood")
}

func (c *hsCtx) inline(fr *hsFrame, st *hsState, call *ast.CallExpr, fd *ast.FuncDecl) (hsValue, error) {
	if fr.depth >= 3 {
		return nil, c.unsup(fr, call, "helper nesting too deep")
	}
	if fd.Type.Results == nil || len(fd.Type.Results.List) != 1 || len(fd.Type.Results.List[0].Names) > 1 ||
		hsTypeString(fd.Type.Results.List[0].Type) != "*auditevent.AuditEvent" || len(fd.Type.Results.List[0].Names) != 0 {
		return nil, c.unsup(fr, call, "helper does not return exactly one unnamed *auditevent.AuditEvent")
	}
	var params []string
	for _, f := range fd.Type.Params.List {
		if len(f.Names) == 0 {
			return nil, c.unsup(fr, call, "helper with unnamed parameter")
		}
		if _, variadic := f.Type.(*ast.Ellipsis); variadic {
			return nil, c.unsup(fr, call, "variadic helper")
		}
		for _, n := range f.Names {
			params = append(params, n.Name)
		}
	}
	if len(params) != len(call.Args) {
		return nil, c.unsup(fr, call, "helper arity")
	}
	nf := &hsFrame{env: map[string]hsValue{}, file: c.fileOf[fd.Name.Name], helper: true, depth: fr.depth + 1}
	for i, a := range call.Args {
		v, err := c.eval(fr, st, a)
		if err != nil {
			return nil, err
		}
		nf.env[params[i]] = v
	}
	ret, err := c.block(nf, st, fd.Body.List)
	if err != nil {
		return nil, hsUnsupported("in helper " + fd.Name.Name + ": " + err.Error())
	}
	if ret == nil {
		return nil, c.unsup(fr, call, "helper "+fd.Name.Name+" ends without a return")
	}
	return ret, nil
}

// ---------------------------------------------------------------------------------------------
// statements

// onlyLogsThenReturnNil: the body of a guard: logger calls, then "return nil"
func (c *hsCtx) onlyLogsThenReturnNil(fr *hsFrame, body *ast.BlockStmt) error {
	if fr.helper {
		return c.unsup(fr, body, "early return inside a helper")
	}
	n := len(body.List)
	if n == 0 {
		return c.unsup(fr, body, "empty guard body")
	}
	for _, s := range body.List[:n-1] {
		if !c.isLogCall(fr, s) {
			return c.unsup(fr, s, "statement in a guard body that is not a log call")
		}
	}
	r, ok := body.List[n-1].(*ast.ReturnStmt)
	if !ok || len(r.Results) != 1 || !hsIsIdent(r.Results[0], "nil") {
		return c.unsup(fr, body.List[n-1], "guard body does not end with return nil")
	}
	return nil
}

// logger.<Method>(args...) with call-free arguments
func (c *hsCtx) isLogCall(fr *hsFrame, s ast.Stmt) bool {
	es, ok := s.(*ast.ExprStmt)
	if !ok {
		return false
	}
	call, ok := es.X.(*ast.CallExpr)
	if !ok {
		return false
	}
	sel, ok := call.Fun.(*ast.SelectorExpr)
	if !ok || !hsIsIdent(sel.X, "logger") || !c.vars["logger"] {
		return false
	}
	if _, shadow := fr.env["logger"]; shadow {
		return false
	}
	switch sel.Sel.Name {
	case "Infoln", "Infof", "Info", "Errorf", "Errorln", "Error", "Debugf", "Debugln", "Debug", "Warnf", "Warnln", "Warn":
	default:
		return false
	}
	pure := true
	for _, a := range call.Args {
		ast.Inspect(a, func(n ast.Node) bool {
			switch n.(type) {
			case *ast.CallExpr, *ast.FuncLit, *ast.UnaryExpr:
				pure = false
			}
			return pure
		})
	}
	return pure
}

func (c *hsCtx) effectsAllowed(fr *hsFrame, st *hsState, n ast.Node) error {
	if fr.helper {
		return c.unsup(fr, n, "effect inside a helper")
	}
	if st.done {
		return c.unsup(fr, n, "statement after the final return")
	}
	return nil
}

// block evaluates statements in order. It returns the value of a helper's "return <expr>".
func (c *hsCtx) block(fr *hsFrame, st *hsState, stmts []ast.Stmt) (hsValue, error) {
	for i, s := range stmts {
		if st.done && !fr.helper {
			return nil, c.unsup(fr, s, "statement after the final return")
		}
		if st.written != nil && !fr.helper {
			// after the write only: "return nil", or the select that hands the login over
			switch s.(type) {
			case *ast.ReturnStmt, *ast.SelectStmt:
			default:
				return nil, c.unsup(fr, s, "statement between the write and the return")
			}
		}
		switch v := s.(type) {
		case *ast.DeclStmt:
			if err := c.declStmt(fr, v); err != nil {
				return nil, err
			}
		case *ast.AssignStmt:
			if err := c.assignStmt(fr, st, v); err != nil {
				return nil, err
			}
		case *ast.IfStmt:
			if err := c.ifStmt(fr, st, v); err != nil {
				return nil, err
			}
		case *ast.ExprStmt:
			if c.isLogCall(fr, v) {
				continue
			}
			if err := c.metricStmt(fr, st, v); err != nil {
				return nil, err
			}
		case *ast.ReturnStmt:
			if i != len(stmts)-1 {
				return nil, c.unsup(fr, s, "return that is not the last statement")
			}
			if fr.helper {
				if len(v.Results) != 1 {
					return nil, c.unsup(fr, s, "helper return arity")
				}
				r, err := c.eval(fr, st, v.Results[0])
				if err != nil {
					return nil, err
				}
				ev, ok := r.(hsVEvt)
				if !ok || !ev.e.targetSet {
					return nil, c.unsup(fr, s, "helper does not return a complete event")
				}
				return ev, nil
			}
			if len(v.Results) != 1 || !hsIsIdent(v.Results[0], "nil") {
				return nil, c.unsup(fr, s, "final return is not return nil")
			}
			if st.written == nil {
				return nil, c.unsup(fr, s, "handler returns without writing an event")
			}
			st.done = true
		case *ast.SelectStmt:
			if err := c.selectStmt(fr, st, v); err != nil {
				return nil, err
			}
		default:
			return nil, c.unsup(fr, s, "statement kind not understood")
		}
	}
	return nil, nil
}

// var v string
func (c *hsCtx) declStmt(fr *hsFrame, d *ast.DeclStmt) error {
	gd, ok := d.Decl.(*ast.GenDecl)
	if !ok || gd.Tok != token.VAR {
		return c.unsup(fr, d, "declaration that is not var")
	}
	for _, sp := range gd.Specs {
		vs := sp.(*ast.ValueSpec)
		if len(vs.Values) != 0 || vs.Type == nil || hsTypeString(vs.Type) != "string" {
			return c.unsup(fr, d, "var declaration other than `var v string`")
		}
		for _, n := range vs.Names {
			if _, dup := fr.env[n.Name]; dup {
				return c.unsup(fr, d, "redeclaration")
			}
			fr.env[n.Name] = hsVStr{hsSrc{kind: "const", s: ""}} // zero value
		}
	}
	return nil
}

func (c *hsCtx) evtOf(fr *hsFrame, st *hsState, e ast.Expr) (*hsEvent, bool) {
	id, ok := e.(*ast.Ident)
	if !ok {
		return nil, false
	}
	ev, ok := fr.env[id.Name].(hsVEvt)
	if !ok {
		return nil, false
	}
	return ev.e, true
}

// isMetaExtra: <evt>.Metadata.Extra
func (c *hsCtx) isMetaExtra(fr *hsFrame, st *hsState, e ast.Expr) (*hsEvent, bool) {
	p, ok := hsSelPath(e)
	if !ok || len(p) != 3 || p[1] != "Metadata" || p[2] != "Extra" {
		return nil, false
	}
	ev, ok := fr.env[p[0]].(hsVEvt)
	if !ok {
		return nil, false
	}
	return ev.e, true
}

func (c *hsCtx) assignStmt(fr *hsFrame, st *hsState, a *ast.AssignStmt) error {
	if a.Tok != token.DEFINE && a.Tok != token.ASSIGN {
		return c.unsup(fr, a, "compound assignment")
	}
	// pid, err := strconv.Atoi(config.pid)
	if len(a.Lhs) == 2 && len(a.Rhs) == 1 {
		call, ok := a.Rhs[0].(*ast.CallExpr)
		l0, ok0 := a.Lhs[0].(*ast.Ident)
		l1, ok1 := a.Lhs[1].(*ast.Ident)
		if ok && ok0 && ok1 && a.Tok == token.DEFINE && len(call.Args) == 1 {
			if sel, ok := call.Fun.(*ast.SelectorExpr); ok && sel.Sel.Name == "Atoi" {
				if q, ok := sel.X.(*ast.Ident); ok {
					if _, local := fr.env[q.Name]; !local {
						if path, ok := c.importPath(fr, q.Name); ok && path == "strconv" {
							arg, err := c.evalStr(fr, st, call.Args[0])
							if err != nil {
								return err
							}
							if arg.kind != "pid" {
								return c.unsup(fr, a, "Atoi of something other than config.pid")
							}
							if err := c.effectsAllowed(fr, st, a); err != nil {
								return err
							}
							if st.atoi {
								return c.unsup(fr, a, "second Atoi")
							}
							_, d0 := fr.env[l0.Name]
							_, d1 := fr.env[l1.Name]
							if d0 || d1 || l0.Name == "_" || l1.Name == "_" {
								return c.unsup(fr, a, "Atoi results not bound to fresh names")
							}
							st.atoi = true
							fr.env[l0.Name] = hsVPidInt{}
							fr.env[l1.Name] = hsVErr{"atoi"}
							return nil
						}
					}
				}
			}
		}
		return c.unsup(fr, a, "two-value assignment not understood")
	}
	if len(a.Lhs) != 1 || len(a.Rhs) != 1 {
		return c.unsup(fr, a, "multi-assignment")
	}
	switch l := a.Lhs[0].(type) {
	case *ast.Ident:
		if l.Name == "_" {
			return c.unsup(fr, a, "assignment to blank")
		}
		old, exists := fr.env[l.Name]
		if a.Tok == token.DEFINE && exists {
			return c.unsup(fr, a, "redefinition of a local")
		}
		if a.Tok == token.ASSIGN && !exists {
			return c.unsup(fr, a, "assignment to a name that is not a local")
		}
		v, err := c.eval(fr, st, a.Rhs[0])
		if err != nil {
			return err
		}
		if a.Tok == token.ASSIGN {
			_, oldStr := old.(hsVStr)
			_, newStr := v.(hsVStr)
			if !oldStr || !newStr {
				return c.unsup(fr, a, "re-assignment of a non-string local")
			}
		}
		switch v.(type) {
		case hsVStr, hsVMatches, hsVIdx, hsVEvt:
		default:
			return c.unsup(fr, a, "local bound to a value kind that is not tracked")
		}
		fr.env[l.Name] = v
		return nil
	case *ast.SelectorExpr:
		// evt.LoggedAt = config.when
		if ev, ok := c.evtOf(fr, st, l.X); ok && l.Sel.Name == "LoggedAt" && a.Tok == token.ASSIGN {
			v, err := c.eval(fr, st, a.Rhs[0])
			if err != nil {
				return err
			}
			if _, ok := v.(hsVWhen); !ok {
				return c.unsup(fr, a, "LoggedAt set to something other than config.when")
			}
			if st.written == ev {
				return c.unsup(fr, a, "event changed after it was written")
			}
			return nil // the time stamp is not part of the modelled event
		}
		return c.unsup(fr, a, "field assignment not understood")
	case *ast.IndexExpr:
		// evt.Metadata.Extra["k"] = v
		if ev, ok := c.isMetaExtra(fr, st, l.X); ok && a.Tok == token.ASSIGN {
			k, err := c.evalStr(fr, st, l.Index)
			if err != nil {
				return err
			}
			if k.kind != "const" {
				return c.unsup(fr, a, "metadata key is not a constant")
			}
			v, err := c.evalStr(fr, st, a.Rhs[0])
			if err != nil {
				return err
			}
			for _, kv := range ev.metaExtra {
				if kv.k == k.s {
					return c.unsup(fr, a, "metadata key assigned twice")
				}
			}
			if st.written == ev {
				return c.unsup(fr, a, "event changed after it was written")
			}
			ev.metaExtra = append(ev.metaExtra, hsKV{k.s, v})
			return nil
		}
		return c.unsup(fr, a, "indexed assignment not understood")
	}
	return c.unsup(fr, a, "assignment target not understood")
}

func (c *hsCtx) ifStmt(fr *hsFrame, st *hsState, s *ast.IfStmt) error {
	if s.Else != nil {
		return c.unsup(fr, s, "if with else")
	}
	// if err := config.eventW.Write(evt); err != nil { return fmt.Errorf(...) }
	if s.Init != nil {
		as, ok := s.Init.(*ast.AssignStmt)
		if !ok || as.Tok != token.DEFINE || len(as.Lhs) != 1 || len(as.Rhs) != 1 {
			return c.unsup(fr, s, "if with an init statement that is not understood")
		}
		errId, ok := as.Lhs[0].(*ast.Ident)
		call, ok2 := as.Rhs[0].(*ast.CallExpr)
		if !ok || !ok2 || len(call.Args) != 1 {
			return c.unsup(fr, s, "if with an init statement that is not understood")
		}
		p, ok := hsSelPath(call.Fun)
		if !ok || len(p) != 3 || p[1] != "eventW" || p[2] != "Write" {
			return c.unsup(fr, s, "if-init call is not config.eventW.Write")
		}
		if _, isCfg := fr.env[p[0]].(hsVCfg); !isCfg {
			return c.unsup(fr, s, "if-init call is not config.eventW.Write")
		}
		be, ok := s.Cond.(*ast.BinaryExpr)
		if !ok || be.Op != token.NEQ || !hsIsIdent(be.X, errId.Name) || !hsIsIdent(be.Y, "nil") {
			return c.unsup(fr, s, "write error check is not `err != nil`")
		}
		if len(s.Body.List) != 1 {
			return c.unsup(fr, s, "write error branch is not a single return")
		}
		r, ok := s.Body.List[0].(*ast.ReturnStmt)
		if !ok || len(r.Results) != 1 {
			return c.unsup(fr, s, "write error branch is not a single return")
		}
		rc, ok := r.Results[0].(*ast.CallExpr)
		if !ok {
			return c.unsup(fr, s, "write error branch does not return fmt.Errorf(...)")
		}
		if rp, ok := hsSelPath(rc.Fun); !ok || len(rp) != 2 || rp[0] != "fmt" || rp[1] != "Errorf" {
			return c.unsup(fr, s, "write error branch does not return fmt.Errorf(...)")
		}
		if err := c.effectsAllowed(fr, st, s); err != nil {
			return err
		}
		ev, ok := c.evtOf(fr, st, call.Args[0])
		if !ok {
			return c.unsup(fr, s, "Write of something that is not the event")
		}
		if !ev.targetSet {
			return c.unsup(fr, s, "event written without a target")
		}
		if st.re == "" || !st.matchGuard {
			return c.unsup(fr, s, "write that is not behind a regex match")
		}
		if st.atoi && !st.atoiGuard {
			return c.unsup(fr, s, "Atoi error never checked")
		}
		st.written = ev
		return nil
	}
	be, ok := s.Cond.(*ast.BinaryExpr)
	if !ok {
		return c.unsup(fr, s, "if condition not understood")
	}
	// if evt.Metadata.Extra == nil { evt.Metadata.Extra = make(map[string]any, n) }   (no effect on the sketch)
	if ev, ok := c.isMetaExtra(fr, st, be.X); ok && be.Op == token.EQL && hsIsIdent(be.Y, "nil") {
		if len(s.Body.List) == 1 {
			if as, ok := s.Body.List[0].(*ast.AssignStmt); ok && as.Tok == token.ASSIGN && len(as.Lhs) == 1 && len(as.Rhs) == 1 {
				ev2, ok2 := c.isMetaExtra(fr, st, as.Lhs[0])
				if mk, ok3 := as.Rhs[0].(*ast.CallExpr); ok2 && ok3 && ev2 == ev && hsIsIdent(mk.Fun, "make") && len(mk.Args) >= 1 {
					if _, shadow := fr.env["make"]; !shadow && c.funcs["make"] == nil {
						switch hsTypeString(mk.Args[0]) {
						case "map[string]any", "map[string]interface{}":
							if len(ev.metaExtra) != 0 {
								return c.unsup(fr, s, "metadata map replaced after a key was set")
							}
							return nil
						}
					}
				}
			}
		}
		return c.unsup(fr, s, "metadata nil-check idiom with an unexpected body")
	}
	x, err := c.eval(fr, st, be.X)
	if err != nil {
		return err
	}
	switch xv := x.(type) {
	case hsVMatches:
		// if matches == nil { log; return nil }
		if be.Op != token.EQL || !hsIsIdent(be.Y, "nil") {
			return c.unsup(fr, s, "condition on the sub-matches that is not `== nil`")
		}
		if err := c.onlyLogsThenReturnNil(fr, s.Body); err != nil {
			return err
		}
		if err := c.effectsAllowed(fr, st, s); err != nil {
			return err
		}
		if len(st.metrics) != 0 {
			return c.unsup(fr, s, "no-match return after a metric increment")
		}
		st.matchGuard = true
		return nil
	case hsVErr:
		// if err != nil { log; return nil }     (err of Atoi)
		if xv.of != "atoi" || be.Op != token.NEQ || !hsIsIdent(be.Y, "nil") {
			return c.unsup(fr, s, "error check not understood")
		}
		if err := c.onlyLogsThenReturnNil(fr, s.Body); err != nil {
			return err
		}
		if err := c.effectsAllowed(fr, st, s); err != nil {
			return err
		}
		if len(st.metrics) != 0 {
			return c.unsup(fr, s, "bad-pid return after a metric increment")
		}
		st.atoiGuard = true
		return nil
	case hsVIdx:
		// if idx > -1 { v = matches[idx] }: idx is the index of an existing group, so the
		// condition is true; evaluate the body.
		isMinus1 := false
		if u, ok := be.Y.(*ast.UnaryExpr); ok && u.Op == token.SUB {
			if lit, ok := u.X.(*ast.BasicLit); ok && lit.Kind == token.INT && lit.Value == "1" {
				isMinus1 = true
			}
		}
		if be.Op != token.GTR || !isMinus1 {
			return c.unsup(fr, s, "index condition that is not `> -1`")
		}
		for _, b := range s.Body.List {
			as, ok := b.(*ast.AssignStmt)
			if !ok || as.Tok != token.ASSIGN {
				return c.unsup(fr, b, "statement in an index-check body that is not a plain assignment")
			}
			if err := c.assignStmt(fr, st, as); err != nil {
				return err
			}
		}
		return nil
	}
	return c.unsup(fr, s, "if condition not understood")
}

// config.metrics.IncLogins(metrics.X, metrics.Y)
func (c *hsCtx) metricStmt(fr *hsFrame, st *hsState, es *ast.ExprStmt) error {
	call, ok := es.X.(*ast.CallExpr)
	if !ok {
		return c.unsup(fr, es, "expression statement not understood")
	}
	p, ok := hsSelPath(call.Fun)
	if !ok || len(p) != 3 || p[1] != "metrics" || p[2] != "IncLogins" || len(call.Args) != 2 {
		return c.unsup(fr, es, "call statement not understood")
	}
	if _, isCfg := fr.env[p[0]].(hsVCfg); !isCfg {
		return c.unsup(fr, es, "call statement not understood")
	}
	if err := c.effectsAllowed(fr, st, es); err != nil {
		return err
	}
	var lab [2]string
	for i, a := range call.Args {
		v, err := c.eval(fr, st, a)
		if err != nil {
			return err
		}
		m, ok := v.(hsVMetric)
		if !ok {
			return c.unsup(fr, a, "metric label is not a metrics constant")
		}
		lab[i] = m.name
	}
	if st.re == "" || !st.matchGuard || (st.atoi && !st.atoiGuard) {
		return c.unsup(fr, es, "metric increment before the handler's early returns")
	}
	st.metrics = append(st.metrics, lab)
	return nil
}

// select { case <-config.ctx.Done(): return nil; case config.logins <- common.RemoteUserLogin{...}: return nil }
func (c *hsCtx) selectStmt(fr *hsFrame, st *hsState, s *ast.SelectStmt) error {
	if err := c.effectsAllowed(fr, st, s); err != nil {
		return err
	}
	if st.written == nil {
		return c.unsup(fr, s, "select before the write")
	}
	if len(s.Body.List) != 2 {
		return c.unsup(fr, s, "select with other than two cases")
	}
	sawDone, sawSend := false, false
	for _, cl := range s.Body.List {
		cc := cl.(*ast.CommClause)
		if len(cc.Body) != 1 {
			return c.unsup(fr, cc, "select case body is not a single return nil")
		}
		r, ok := cc.Body[0].(*ast.ReturnStmt)
		if !ok || len(r.Results) != 1 || !hsIsIdent(r.Results[0], "nil") {
			return c.unsup(fr, cc, "select case body is not a single return nil")
		}
		switch comm := cc.Comm.(type) {
		case *ast.ExprStmt:
			u, ok := comm.X.(*ast.UnaryExpr)
			if !ok || u.Op != token.ARROW {
				return c.unsup(fr, cc, "select case not understood")
			}
			call, ok := u.X.(*ast.CallExpr)
			if !ok || len(call.Args) != 0 {
				return c.unsup(fr, cc, "select case not understood")
			}
			p, ok := hsSelPath(call.Fun)
			if !ok || len(p) != 3 || p[1] != "ctx" || p[2] != "Done" {
				return c.unsup(fr, cc, "receive that is not <-config.ctx.Done()")
			}
			if _, isCfg := fr.env[p[0]].(hsVCfg); !isCfg || sawDone {
				return c.unsup(fr, cc, "receive that is not <-config.ctx.Done()")
			}
			sawDone = true
		case *ast.SendStmt:
			p, ok := hsSelPath(comm.Chan)
			if !ok || len(p) != 2 || p[1] != "logins" {
				return c.unsup(fr, cc, "send that is not on config.logins")
			}
			if _, isCfg := fr.env[p[0]].(hsVCfg); !isCfg || sawSend {
				return c.unsup(fr, cc, "send that is not on config.logins")
			}
			v, err := c.eval(fr, st, comm.Value)
			if err != nil {
				return err
			}
			lg, ok := v.(hsVLogin)
			if !ok {
				return c.unsup(fr, cc, "sent value is not a RemoteUserLogin literal")
			}
			if lg.e != st.written {
				return c.unsup(fr, cc, "forwarded event is not the written event")
			}
			cred := lg.cred
			st.forward = &cred
			sawSend = true
		default:
			return c.unsup(fr, cc, "select case not understood")
		}
	}
	if !sawDone || !sawSend {
		return c.unsup(fr, s, "select without both the ctx.Done and the logins case")
	}
	st.done = true
	return nil
}

// ---------------------------------------------------------------------------------------------
// one handler

type hsSketch struct {
	st  *hsState
	evt *hsEvent
}

func (c *hsCtx) sketchOf(name string) (*hsSketch, error) {
	fd := c.funcs[name]
	if fd == nil {
		return nil, hsUnsupported("function " + name + " not found")
	}
	ps := fd.Type.Params.List
	if len(ps) != 1 || len(ps[0].Names) != 1 || hsTypeString(ps[0].Type) != "*SshdProcessorer" {
		return nil, hsUnsupported("handler signature is not func(config *SshdProcessorer) error")
	}
	if fd.Type.Results == nil || len(fd.Type.Results.List) != 1 || hsTypeString(fd.Type.Results.List[0].Type) != "error" {
		return nil, hsUnsupported("handler signature is not func(config *SshdProcessorer) error")
	}
	fr := &hsFrame{env: map[string]hsValue{ps[0].Names[0].Name: hsVCfg{}}, file: c.fileOf[name]}
	st := &hsState{}
	if _, err := c.block(fr, st, fd.Body.List); err != nil {
		return nil, err
	}
	if !st.done || st.written == nil {
		return nil, hsUnsupported("handler body ends without the write and a final return nil")
	}
	if st.atoi != (st.forward != nil) {
		return nil, hsUnsupported("Atoi(config.pid) and the hand-off to config.logins do not come together")
	}
	return &hsSketch{st, st.written}, nil
}

func hsKVList(kvs []hsKV) string {
	var ps []string
	for _, kv := range kvs {
		q, ok := coqStringLit([]byte(kv.k))
		if !ok {
			q = "UNSUPPORTED_non_printable_key"
		}
		ps = append(ps, fmt.Sprintf("(%s, %s)", q, kv.v.coq()))
	}
	return "[" + strings.Join(ps, "; ") + "]"
}

func hsStr(s string) string {
	q, ok := coqStringLit([]byte(s))
	if !ok {
		return "UNSUPPORTED_non_printable_string_constant"
	}
	return q
}

// handler names, in order of first appearance in ProcessEntry and userTypeLogAuditFn
func (c *hsCtx) handlerNames() ([]string, []string) {
	var names, problems []string
	seen := map[string]bool{}
	add := func(e ast.Expr, where string) {
		id, ok := e.(*ast.Ident)
		if !ok {
			return
		}
		if id.Name == "nil" {
			return
		}
		if c.funcs[id.Name] == nil {
			problems = append(problems, where+": "+id.Name+" is not a package function")
			return
		}
		if !seen[id.Name] {
			seen[id.Name] = true
			names = append(names, id.Name)
		}
	}
	if fd := c.funcs["ProcessEntry"]; fd != nil {
		ast.Inspect(fd.Body, func(n ast.Node) bool {
			if as, ok := n.(*ast.AssignStmt); ok && len(as.Lhs) == 1 && len(as.Rhs) == 1 && hsIsIdent(as.Lhs[0], "entryFunc") {
				add(as.Rhs[0], "ProcessEntry")
			}
			return true
		})
	} else {
		problems = append(problems, "ProcessEntry not found")
	}
	if fd := c.funcs["userTypeLogAuditFn"]; fd != nil {
		ast.Inspect(fd.Body, func(n ast.Node) bool {
			if r, ok := n.(*ast.ReturnStmt); ok && len(r.Results) == 1 {
				add(r.Results[0], "userTypeLogAuditFn")
			}
			return true
		})
	} else {
		problems = append(problems, "userTypeLogAuditFn not found")
	}
	return names, problems
}

func hsComment(s string) string {
	s = strings.ReplaceAll(s, "*)", "* )")
	s = strings.ReplaceAll(s, "(*", "( *")
	return strings.ReplaceAll(s, "\"", "'") // Coq lexes string quotes inside comments
}

func genHandlers(repo, out string) error {
	dir := filepath.Join(repo, "processors/sshd")
	fset := token.NewFileSet()
	pkgs, err := parser.ParseDir(fset, dir, func(fi os.FileInfo) bool { return !strings.HasSuffix(fi.Name(), "_test.go") }, 0)
	if err != nil {
		return err
	}
	c := &hsCtx{repo: repo, fset: fset, funcs: map[string]*ast.FuncDecl{}, fileOf: map[string]*ast.File{},
		srcOf: map[*ast.File][]byte{}, consts: map[string]string{}, vars: map[string]bool{}, regexes: map[string]*regexDef{},
		extConsts: map[string]map[string]string{}, extNames: map[string]map[string]bool{}}
	var fnames []string
	for _, pkg := range pkgs {
		for fname := range pkg.Files {
			fnames = append(fnames, fname)
		}
	}
	sort.Strings(fnames)
	for _, pkg := range pkgs {
		for _, fname := range fnames {
			f := pkg.Files[fname]
			if f == nil {
				continue
			}
			b, err := os.ReadFile(fname)
			if err != nil {
				return err
			}
			c.srcOf[f] = b
			hsCollectConsts(f, c.consts, map[string]bool{})
			for _, d := range f.Decls {
				switch v := d.(type) {
				case *ast.FuncDecl:
					if v.Recv == nil {
						c.funcs[v.Name.Name] = v
						c.fileOf[v.Name.Name] = f
					}
				case *ast.GenDecl:
					if v.Tok == token.VAR {
						for _, sp := range v.Specs {
							for _, n := range sp.(*ast.ValueSpec).Names {
								c.vars[n.Name] = true
							}
						}
					}
				}
			}
		}
	}
	gomod, err := os.ReadFile(filepath.Join(repo, "go.mod"))
	if err != nil {
		return err
	}
	for _, ln := range strings.Split(string(gomod), "\n") {
		if f := strings.Fields(ln); len(f) == 2 && f[0] == "module" {
			c.modPath = f[1]
		}
	}
	defs, err := readRegexes(repo)
	if err != nil {
		return err
	}
	for i := range defs {
		c.regexes[defs[i].name] = &defs[i]
	}

	var sb strings.Builder
	sb.WriteString("(* GENERATED by tools/go2v from processors/sshd/*.go (and internal/common for constants). Do not edit.\n")
	sb.WriteString("   For every handler: which regex it re-matches the line with and, per event field, where the\n")
	sb.WriteString("   value comes from (capture group / constant / processor field), obtained by symbolic evaluation\n")
	sb.WriteString("   of the handler body with helpers inlined. *)\n")
	sb.WriteString("From Coq Require Import Ascii String List.\nImport ListNotations.\nFrom AM Require Import Lib.Bytes Lib.Regex Gen.SshdRegexes Gen.SshdDispatch.\nOpen Scope string_scope.\n\n")
	sb.WriteString("(* where a string put into the event comes from *)\n")
	sb.WriteString("Inductive fsrc :=\n| FCap (group_index : nat)   (* matches[i] of the handler's regex *)\n| FConst (s : string)\n| FCfgPid                    (* config.pid: the PID token of the log entry *)\n| FCfgNode                   (* config.nodeName *)\n| FCfgMachineID.             (* config.machineID *)\n\n")
	sb.WriteString("Record hsketch := {\n")
	sb.WriteString("  hs_re : list item;                         (* the regex handed to FindStringSubmatch; no match: return nil *)\n")
	sb.WriteString("  hs_action : string;                        (* NewAuditEvent's event type *)\n")
	sb.WriteString("  hs_component : string;                     (* NewAuditEvent's component *)\n")
	sb.WriteString("  hs_ok : bool;                              (* auditevent.OutcomeSucceeded? *)\n")
	sb.WriteString("  hs_source_type : string;\n")
	sb.WriteString("  hs_source_value : fsrc;\n")
	sb.WriteString("  hs_source_extra : list (string * fsrc);\n")
	sb.WriteString("  hs_subjects : list (string * fsrc);        (* in source order *)\n")
	sb.WriteString("  hs_target : list (string * fsrc);\n")
	sb.WriteString("  hs_meta_extra : list (string * fsrc);      (* evt.Metadata.Extra[k] = v *)\n")
	sb.WriteString("  hs_metrics : list mlabel;                  (* IncLogins calls inside the handler: after the early returns, before the write *)\n")
	sb.WriteString("  hs_forward : option fsrc                   (* Some cred: Atoi(config.pid) is checked before anything else happens (failure: return nil) and,\n")
	sb.WriteString("                                                after a successful write, RemoteUserLogin{Source: the event, PID: that int, CredUserID: cred}\n")
	sb.WriteString("                                                is offered to config.logins (select with ctx.Done) *)\n")
	sb.WriteString("}.\n\n")

	names, problems := c.handlerNames()
	type res struct {
		name string
		sk   *hsSketch
		err  error
	}
	var results []res
	for _, h := range names {
		sk, err := c.sketchOf(h)
		results = append(results, res{h, sk, err})
	}
	for _, r := range results {
		if r.sk == nil {
			continue
		}
		e := r.sk.evt
		fmt.Fprintf(&sb, "Definition sketch_%s : hsketch := {|\n", r.name)
		fmt.Fprintf(&sb, "  hs_re := %s;\n", r.sk.st.re)
		fmt.Fprintf(&sb, "  hs_action := %s;\n  hs_component := %s;\n", hsStr(e.action), hsStr(e.component))
		if e.ok {
			sb.WriteString("  hs_ok := true;\n")
		} else {
			sb.WriteString("  hs_ok := false;\n")
		}
		fmt.Fprintf(&sb, "  hs_source_type := %s;\n", hsStr(e.srcType))
		fmt.Fprintf(&sb, "  hs_source_value := %s;\n", e.srcValue.coq())
		fmt.Fprintf(&sb, "  hs_source_extra := %s;\n", hsKVList(e.srcExtra))
		fmt.Fprintf(&sb, "  hs_subjects := %s;\n", hsKVList(e.subjects))
		fmt.Fprintf(&sb, "  hs_target := %s;\n", hsKVList(e.target))
		fmt.Fprintf(&sb, "  hs_meta_extra := %s;\n", hsKVList(e.metaExtra))
		var ms []string
		for _, m := range r.sk.st.metrics {
			ms = append(ms, fmt.Sprintf("(%s, %s)", hsStr(m[0]), hsStr(m[1])))
		}
		fmt.Fprintf(&sb, "  hs_metrics := [%s];\n", strings.Join(ms, "; "))
		if r.sk.st.forward != nil {
			fmt.Fprintf(&sb, "  hs_forward := Some (%s)\n", r.sk.st.forward.coq())
		} else {
			sb.WriteString("  hs_forward := None\n")
		}
		sb.WriteString("|}.\n\n")
	}
	sb.WriteString("Definition handler_sketch (h : handler) : option hsketch :=\n  match h with\n")
	for _, r := range results {
		switch {
		case r.sk != nil:
			fmt.Fprintf(&sb, "  | h_%s => Some sketch_%s\n", r.name, r.name)
		case hsNoSketchAllowed[r.name]:
			fmt.Fprintf(&sb, "  (* no sketch (allowed for this handler): %s *)\n  | h_%s => None\n", hsComment(r.err.Error()), r.name)
		default:
			fmt.Fprintf(&sb, "  (* UNSUPPORTED: %s *)\n  | h_%s => UNSUPPORTED_sketch_%s\n", hsComment(r.err.Error()), r.name, r.name)
		}
	}
	sb.WriteString("  end.\n\n")
	var allowed []string
	for _, r := range results {
		if r.sk == nil && hsNoSketchAllowed[r.name] {
			allowed = append(allowed, "h_"+r.name)
		}
	}
	fmt.Fprintf(&sb, "(* the handlers without a sketch *)\nDefinition sketchless_handlers : list handler := [%s].\n", strings.Join(allowed, "; "))
	for _, p := range problems {
		fmt.Fprintf(&sb, "(* UNSUPPORTED: %s *)\n", hsComment(p))
	}
	if len(problems) > 0 {
		sb.WriteString("Definition handlers_unsupported : nat := UNSUPPORTED_handlers.\n")
	}
	return os.WriteFile(filepath.Join(out, "SshdHandlers.v"), []byte(sb.String()), 0o644)
}
