import subprocess, shutil, os, re, sys
ENV=dict(os.environ, GOFLAGS="-mod=mod", GOPROXY="off", GOSUMDB="off", GOTOOLCHAIN="local")
SCR="/tmp/wb/repo"
def sh(cmd, cwd=None):
    p=subprocess.run(cmd, shell=True, cwd=cwd, env=ENV, capture_output=True, text=True); return p.returncode, p.stdout+p.stderr
edits=[
 ("processor built with the process context", "cmd/namedpipe.go", r"sshd.NewSshdProcessor\(groupCtx,", "sshd.NewSshdProcessor(ctx,"),
 ("After filter set to start-up time", "cmd/namedpipe.go", r"Audits: auditLogChan,", "Audits: auditLogChan,\n\t\t\tAfter:  time.Now(),", ('"os"\n', '"os"\n\t"time"\n')),
 ("pipe paths swapped between the ingesters", "cmd/namedpipe.go", r"syslog.NewSyslogIngester\(sshdLogFilePath,", "syslog.NewSyslogIngester(auditdLogFilePath,"),
 ("audit worker swallows Read's error", "cmd/namedpipe.go", r"(err := ap.Read\(groupCtx\)\n(?:.*\n){3})\t\treturn err", r"\1\t\t_ = err\n\t\treturn nil"),
 ("syslog ingester run on the process context", "cmd/namedpipe.go", r"sli.Ingest\(groupCtx\)", "sli.Ingest(ctx)"),
 ("named-pipe check of the audit path dropped", "cmd/namedpipe.go", r"err := common.IsNamedPipe\(auditdLogFilePath\)\n(?:.*\n){4}", "var err error\n"),
 ("constructor drops the file path", "ingesters/syslog/syslogingester.go", r"FilePath:          filePath,", "FilePath:          \"/app-audit/sshd-pipe\","),
 ("constructor stores another health object", "ingesters/namedpipe/namedpipeingester.go", r"Health: h,", "Health: health.NewHealth(),"),
 ("logins channel buffered", "cmd/namedpipe.go", r"make\(chan common.RemoteUserLogin\)", "make(chan common.RemoteUserLogin, 16)"),
 ("worker retries Ingest in a loop", "cmd/namedpipe.go", r"err = sli.Ingest\(groupCtx\)", "for i := 0; i < 3; i++ {\n\t\t\terr = sli.Ingest(groupCtx)\n\t\t}"),
 ("audit processor gets its own writer", "cmd/namedpipe.go", r"EventW: eventWriter,", "EventW: auditevent.NewDefaultAuditEventWriter(auf),"),
 ("sshd processor constructor swaps node name and machine id", "processors/sshd/sshdprocessor.go", r"nodeName:  nodeName,\n\t\tmachineID: machineID,", "nodeName:  machineID,\n\t\tmachineID: nodeName,"),
 ("HARMLESS: local variable renamed", "cmd/namedpipe.go", r"\bsli\b", "ingester"),
 ("HARMLESS: literal fields reordered", "cmd/namedpipe.go", r"Audits: auditLogChan,\n\t\t\tLogins: logins,", "Logins: logins,\n\t\t\tAudits: auditLogChan,"),
 ("HARMLESS: a log line added to a worker", "cmd/namedpipe.go", r"(err = alp.Ingest\(groupCtx\))", r'logger.Infof("audit ingester starting")\n\t\t\1'),
]
rows=[]
for e in edits:
    name, f, pat, rep = e[:4]
    shutil.rmtree(SCR, ignore_errors=True); shutil.copytree("/repo", SCR, ignore=shutil.ignore_patterns(".git"))
    p=os.path.join(SCR,f); s=open(p).read(); s2,n=re.subn(pat, rep, s)
    if len(e)>4: s2=s2.replace(e[4][0], e[4][1],1)
    if n==0: rows.append((name,"PATTERN NOT FOUND","")); continue
    open(p,"w").write(s2)
    rc,out=sh("go build ./...", SCR)
    if rc!=0: rows.append((name,"does not compile", out[-200:])); continue
    shutil.rmtree("/tmp/wb/gen", ignore_errors=True); os.makedirs("/tmp/wb/gen")
    rc,out=sh("/verif/build/go2v -repo %s -out /tmp/wb/gen"%SCR)
    shutil.rmtree("/tmp/wb/coq", ignore_errors=True); os.makedirs("/tmp/wb/coq/Gen"); os.makedirs("/tmp/wb/coq/Model"); os.makedirs("/tmp/wb/coq/Proofs")
    shutil.copy("/verif/coq/Model/WorkerWiring.v","/tmp/wb/coq/Model/"); shutil.copy("/tmp/wb/gen/WorkerBodies.v","/tmp/wb/coq/Gen/"); shutil.copy("/tmp/wb/gen/Consts.v","/tmp/wb/coq/Gen/")
    shutil.copy("/verif/coq/Proofs/WorkerWiringTie.v","/tmp/wb/coq/Proofs/")
    verdict="accepted"
    for v in ["Model/WorkerWiring.v","Gen/Consts.v","Gen/WorkerBodies.v","Proofs/WorkerWiringTie.v"]:
        rc,out=sh("timeout 300 coqc -R . AM -w -notation-overridden %s"%v, "/tmp/wb/coq")
        if rc!=0:
            m=re.search(r"UNSUPPORTED_\w+", out)
            verdict="REJECTED at %s (%s)"%(v, m.group(0) if m else out.strip().splitlines()[-1][:80] if out.strip() else "error"); break
    rows.append((name,verdict,""))
for r in rows: print("| %s | %s |"%(r[0],r[1]))
shutil.rmtree(SCR, ignore_errors=True)
