// go2v: translator from the audito-maldito Go source to Coq definitions (coq/Gen/*.v).
// Go standard library only. It fails closed: a construct it does not understand is
// rendered as an UNSUPPORTED marker that does not type-check in Coq.
package main

import (
	"flag"
	"fmt"
	"os"
)

func main() {
	repo := flag.String("repo", "/repo", "path of the audito-maldito working tree")
	out := flag.String("out", "", "output directory for Gen/*.v")
	flag.Parse()
	if *out == "" {
		fmt.Fprintln(os.Stderr, "need -out")
		os.Exit(2)
	}
	rc := 0
	for _, g := range generators {
		if err := g(*repo, *out); err != nil {
			fmt.Fprintln(os.Stderr, "go2v:", err)
			rc = 1
		}
	}
	os.Exit(rc)
}

var generators []func(repo, out string) error
