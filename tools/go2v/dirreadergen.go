package main

// dirreadergen.go: the core of processors/auditd/dirreader/dirreader.go translated into the IR of
// coq/Model/DirReaderIR.v (-> Gen/DirReaderProg.v):
//   readLines, readFilePathLines, rotatingFile.read, setOffset / incOffsetBy / getOffset, loopWithError.
// (logRotationNumber and the sort comparator of the same file are translated by purefuncs.go.)
//
// Every function body is evaluated statement by statement over its AST.  The translator keeps, for every
// name in scope, what KIND of thing it is (an integer, a string, an error, a path, a message of the
// initFileDone channel, an fsnotify event, an open file, ...), decided from the declared types of parameters
// and struct fields and from the form of the defining expression; an expression is translated according to
// the kind that its position asks for.  Library calls are given an IR statement only in the exact forms
// listed in stmt()/define(); everything else -- another statement form, another callee, another argument,
// a shadowed name, a format string without exactly one %w -- makes the definition an UNSUPPORTED_...
// identifier that does not type-check in Coq.  No matching on source text.
//
// Outside (contracts of the interpreter, see Model/DirReaderIR.v): bufio.Reader.ReadString, os.File,
// filepath.Join, sync/atomic, readWithRetry/backoff, the fsnotify watcher plumbing.

import (
	"fmt"
	"go/ast"
	"go/parser"
	"go/token"
	"os"
	"path/filepath"
	"strconv"
	"strings"
)

func init() { generators = append(generators, genDirReader) }

const (
	dgSrcPath    = "processors/auditd/dirreader/dirreader.go"
	dgRotType    = "rotatingFile"
	dgMsgType    = "initialFileRead"
	dgReaderType = "LogDirReader"
)

type dgKind int

const (
	dgKNone    dgKind = iota
	dgKInt            // int / int64 local
	dgKStr            // string local (a line)
	dgKErr            // error local
	dgKPath           // a file path (string)
	dgKMsg            // an initialFileRead
	dgKEvent          // an fsnotify.Event
	dgKOp             // an fsnotify.Op
	dgKInfo           // a FileInfo
	dgKObj            // a *rotatingFile local
	dgKCtx            // the context
	dgKReader         // an io.Reader
	dgKBufio          // a *bufio.Reader
	dgKFile           // an open file (statReadSeekCloser)
	dgKFs             // a fileSystem
	dgKLines          // the channel lines are sent on
	dgKMsgChan        // the channel of initialFileRead
)

type dgFile struct {
	fset    *token.FileSet
	file    *ast.File
	imports map[string]string // local name -> import path
	pkg     map[string]bool   // package-level names of the file
	// struct field name -> role, per struct
	rotInts   map[string]bool   // int64 fields of rotatingFile
	rotOpenFn string            // its func() (statReadSeekCloser, error) field
	rotLines  string            // its chan<- string field
	msgPath   string            // initialFileRead: the string field
	msgBytes  string            // the int64 field
	msgErr    string            // the error field
	rdDir     string            // LogDirReader: dirPath (string)
	rdNames   string            // initFileNames ([]string)
	rdWatcher string            // watcher (fsWatcher)
	rdFs      string            // fs (fileSystem)
	rdLines   string            // lines (chan string)
	rdInit    string            // initFilesDone (chan struct{})
	methods   map[string]string // accessor name -> "MStore" / "MAdd" / "MLoad"
}

func (f *dgFile) errf(n ast.Node, format string, a ...interface{}) error {
	return fmt.Errorf("line %d: %s", f.fset.Position(n.Pos()).Line, fmt.Sprintf(format, a...))
}

func dgCoqStr(s string) (string, bool) {
	for i := 0; i < len(s); i++ {
		if s[i] < 0x20 || s[i] > 0x7e {
			return "", false
		}
	}
	return "\"" + strings.ReplaceAll(s, "\"", "\"\"") + "\"", true
}

func dgQ(s string) string {
	q, ok := dgCoqStr(s)
	if !ok {
		return "UNSUPPORTED_nonprintable_name"
	}
	return q
}

func dgComment(s string) string {
	return strings.ReplaceAll(strings.ReplaceAll(s, "(*", "( *"), "*)", "* )")
}

func dgIdent(s string) string {
	var sb strings.Builder
	for _, c := range s {
		if c >= 'a' && c <= 'z' || c >= 'A' && c <= 'Z' || c >= '0' && c <= '9' || c == '_' {
			sb.WriteRune(c)
		} else {
			sb.WriteByte('_')
		}
	}
	return sb.String()
}

func dgUnparen(e ast.Expr) ast.Expr {
	for {
		p, ok := e.(*ast.ParenExpr)
		if !ok {
			return e
		}
		e = p.X
	}
}

func dgIsIdent(e ast.Expr, name string) bool {
	id, ok := dgUnparen(e).(*ast.Ident)
	return ok && name != "" && name != "_" && id.Name == name
}

func dgList(ind string, items []string) string {
	if len(items) == 0 {
		return "[]"
	}
	return "[\n" + ind + "  " + strings.Join(items, ";\n"+ind+"  ") + "]"
}

// pkg.Name with pkg an import of the given path
func (f *dgFile) isPkgSel(e ast.Expr, path, name string) bool {
	sel, ok := dgUnparen(e).(*ast.SelectorExpr)
	if !ok || sel.Sel.Name != name {
		return false
	}
	id, ok := sel.X.(*ast.Ident)
	return ok && f.imports[id.Name] == path
}

// pkg.<any> with pkg an import of the given path: the selected name
func (f *dgFile) pkgSelName(e ast.Expr, path string) (string, bool) {
	sel, ok := dgUnparen(e).(*ast.SelectorExpr)
	if !ok {
		return "", false
	}
	id, ok := sel.X.(*ast.Ident)
	if !ok || f.imports[id.Name] != path {
		return "", false
	}
	return sel.Sel.Name, true
}

const dgFsnotify = "github.com/fsnotify/fsnotify"
const dgBackoff = "github.com/cenkalti/backoff/v4"

// ---------------------------------------------------------------------------------------------
// types

func (f *dgFile) isChanOf(e ast.Expr, dir ast.ChanDir, elem func(ast.Expr) bool) bool {
	ch, ok := e.(*ast.ChanType)
	return ok && ch.Dir == dir && elem(ch.Value)
}

func dgIsString(e ast.Expr) bool { return dgIsIdent(e, "string") }
func dgIsInt64(e ast.Expr) bool  { return dgIsIdent(e, "int64") }
func dgIsError(e ast.Expr) bool  { return dgIsIdent(e, "error") }

func dgIsEmptyStruct(e ast.Expr) bool {
	st, ok := e.(*ast.StructType)
	return ok && (st.Fields == nil || len(st.Fields.List) == 0)
}

// func() (statReadSeekCloser, error)
func dgIsOpenFnType(e ast.Expr) bool {
	ft, ok := e.(*ast.FuncType)
	if !ok || ft.Params != nil && len(ft.Params.List) != 0 || ft.Results == nil || len(ft.Results.List) != 2 {
		return false
	}
	return dgIsIdent(ft.Results.List[0].Type, "statReadSeekCloser") && dgIsError(ft.Results.List[1].Type) &&
		len(ft.Results.List[0].Names) == 0 && len(ft.Results.List[1].Names) == 0
}

type dgField struct {
	name string
	typ  ast.Expr
}

func (f *dgFile) structFields(name string) ([]dgField, error) {
	for _, d := range f.file.Decls {
		gd, ok := d.(*ast.GenDecl)
		if !ok || gd.Tok != token.TYPE {
			continue
		}
		for _, sp := range gd.Specs {
			ts, ok := sp.(*ast.TypeSpec)
			if !ok || ts.Name.Name != name {
				continue
			}
			st, ok := ts.Type.(*ast.StructType)
			if !ok || ts.TypeParams != nil {
				return nil, f.errf(ts, "%s is not a plain struct", name)
			}
			var out []dgField
			for _, fl := range st.Fields.List {
				if len(fl.Names) == 0 {
					return nil, f.errf(fl, "embedded field in %s", name)
				}
				for _, n := range fl.Names {
					out = append(out, dgField{n.Name, fl.Type})
				}
			}
			return out, nil
		}
	}
	return nil, fmt.Errorf("struct %s not found", name)
}

func (f *dgFile) loadStructs() error {
	set := func(dst *string, name string, n ast.Node, what string) error {
		if *dst != "" {
			return f.errf(n, "two %s fields", what)
		}
		*dst = name
		return nil
	}
	// rotatingFile
	fs, err := f.structFields(dgRotType)
	if err != nil {
		return err
	}
	f.rotInts = map[string]bool{}
	for _, fl := range fs {
		switch {
		case dgIsInt64(fl.typ):
			f.rotInts[fl.name] = true
		case dgIsOpenFnType(fl.typ):
			if err := set(&f.rotOpenFn, fl.name, fl.typ, "open function"); err != nil {
				return err
			}
		case f.isChanOf(fl.typ, ast.SEND, dgIsString):
			if err := set(&f.rotLines, fl.name, fl.typ, "chan<- string"); err != nil {
				return err
			}
		}
	}
	if f.rotOpenFn == "" || f.rotLines == "" {
		return fmt.Errorf("%s: no open function or no chan<- string field", dgRotType)
	}
	// initialFileRead
	fs, err = f.structFields(dgMsgType)
	if err != nil {
		return err
	}
	if len(fs) != 3 {
		return fmt.Errorf("%s does not have exactly three fields", dgMsgType)
	}
	for _, fl := range fs {
		switch {
		case dgIsString(fl.typ):
			err = set(&f.msgPath, fl.name, fl.typ, "string")
		case dgIsInt64(fl.typ):
			err = set(&f.msgBytes, fl.name, fl.typ, "int64")
		case dgIsError(fl.typ):
			err = set(&f.msgErr, fl.name, fl.typ, "error")
		default:
			err = f.errf(fl.typ, "field %s of %s has an unexpected type", fl.name, dgMsgType)
		}
		if err != nil {
			return err
		}
	}
	if f.msgPath == "" || f.msgBytes == "" || f.msgErr == "" {
		return fmt.Errorf("%s is not {string, int64, error}", dgMsgType)
	}
	// LogDirReader
	fs, err = f.structFields(dgReaderType)
	if err != nil {
		return err
	}
	for _, fl := range fs {
		switch {
		case dgIsString(fl.typ):
			err = set(&f.rdDir, fl.name, fl.typ, "string")
		case func() bool { a, ok := fl.typ.(*ast.ArrayType); return ok && a.Len == nil && dgIsString(a.Elt) }():
			err = set(&f.rdNames, fl.name, fl.typ, "[]string")
		case dgIsIdent(fl.typ, "fsWatcher"):
			err = set(&f.rdWatcher, fl.name, fl.typ, "fsWatcher")
		case dgIsIdent(fl.typ, "fileSystem"):
			err = set(&f.rdFs, fl.name, fl.typ, "fileSystem")
		case f.isChanOf(fl.typ, ast.SEND|ast.RECV, dgIsString):
			err = set(&f.rdLines, fl.name, fl.typ, "chan string")
		case f.isChanOf(fl.typ, ast.SEND|ast.RECV, dgIsEmptyStruct):
			// two of them (initFilesDone, done): the one closed by loopWithError is decided by name use
			if f.rdInit == "" {
				f.rdInit = fl.name
			}
		}
		if err != nil {
			return err
		}
	}
	if f.rdDir == "" || f.rdNames == "" || f.rdWatcher == "" || f.rdFs == "" || f.rdLines == "" || f.rdInit == "" {
		return fmt.Errorf("%s: a field this translator relies on is missing", dgReaderType)
	}
	return nil
}

// ---------------------------------------------------------------------------------------------
// functions and their parameters

type dgParam struct {
	name string
	typ  ast.Expr
}

func dgParams(fl *ast.FieldList) []dgParam {
	var out []dgParam
	if fl == nil {
		return nil
	}
	for _, p := range fl.List {
		if len(p.Names) == 0 {
			out = append(out, dgParam{"_", p.Type})
		}
		for _, n := range p.Names {
			out = append(out, dgParam{n.Name, p.Type})
		}
	}
	return out
}

// the function / the method of *recvType called name; recv = receiver name ("" for a function)
func (f *dgFile) fn(recvType, name string) (*ast.FuncDecl, string, error) {
	var found *ast.FuncDecl
	for _, d := range f.file.Decls {
		fd, ok := d.(*ast.FuncDecl)
		if !ok || fd.Name.Name != name {
			continue
		}
		if (fd.Recv == nil) != (recvType == "") {
			continue
		}
		if fd.Recv != nil {
			if len(fd.Recv.List) != 1 || len(fd.Recv.List[0].Names) != 1 {
				continue
			}
			st, ok := fd.Recv.List[0].Type.(*ast.StarExpr)
			if !ok || !dgIsIdent(st.X, recvType) {
				continue
			}
		}
		if found != nil {
			return nil, "", fmt.Errorf("two declarations of %s", name)
		}
		found = fd
	}
	if found == nil || found.Body == nil {
		return nil, "", fmt.Errorf("%s not found", name)
	}
	if found.Type.TypeParams != nil {
		return nil, "", f.errf(found, "type parameters")
	}
	recv := ""
	if found.Recv != nil {
		recv = found.Recv.List[0].Names[0].Name
		if recv == "_" {
			return nil, "", f.errf(found, "blank receiver")
		}
	}
	return found, recv, nil
}

// result types as a short signature: "int64,error", "error", ...
func dgResults(fd *ast.FuncDecl) string {
	var out []string
	for _, p := range dgParams(fd.Type.Results) {
		if p.name != "_" {
			return "named"
		}
		if id, ok := p.typ.(*ast.Ident); ok {
			out = append(out, id.Name)
		} else {
			out = append(out, "?")
		}
	}
	return strings.Join(out, ",")
}

// ---------------------------------------------------------------------------------------------
// translation context of one function

type dgCtx struct {
	f      *dgFile
	recv   string // receiver name, "" if none
	recvTy string // its struct type
	scopes []map[string]dgKind
	rets   string // result signature
	linesP string // readLines / readFilePathLines: the chan<- string parameter
	inLoop int    // nesting depth of for statements
}

func (c *dgCtx) push() { c.scopes = append(c.scopes, map[string]dgKind{}) }
func (c *dgCtx) pop()  { c.scopes = c.scopes[:len(c.scopes)-1] }

func (c *dgCtx) kind(name string) dgKind {
	for i := len(c.scopes) - 1; i >= 0; i-- {
		if k, ok := c.scopes[i][name]; ok {
			return k
		}
	}
	return dgKNone
}

func (c *dgCtx) identKind(e ast.Expr) (string, dgKind) {
	id, ok := dgUnparen(e).(*ast.Ident)
	if !ok || id.Name == "_" {
		return "", dgKNone
	}
	return id.Name, c.kind(id.Name)
}

// a new name in the innermost scope; shadowing an outer or package-level name is not accepted
func (c *dgCtx) declare(n ast.Node, name string, k dgKind) error {
	if name == "_" {
		return c.f.errf(n, "blank name declared")
	}
	if c.kind(name) != dgKNone || name == c.recv {
		return c.f.errf(n, "name %s is declared twice or shadows an outer declaration", name)
	}
	if c.f.pkg[name] || c.f.imports[name] != "" {
		return c.f.errf(n, "name %s shadows a package-level name or an import", name)
	}
	switch name {
	case "true", "false", "make", "close", "len", "string", "bool", "nil", "error", "int64", "int", "append", "cap", "new", "panic":
		return c.f.errf(n, "predeclared name %s is redeclared", name)
	}
	c.scopes[len(c.scopes)-1][name] = k
	return nil
}

// x in  a, x := ...: new in the innermost scope, or the same kind already there (then it is assigned)
func (c *dgCtx) defineOrReuse(n ast.Node, name string, k dgKind) error {
	if have, ok := c.scopes[len(c.scopes)-1][name]; ok {
		if have != k {
			return c.f.errf(n, "%s is redefined with another kind", name)
		}
		return nil
	}
	return c.declare(n, name, k)
}

// <recv>.<field>
func (c *dgCtx) recvField(e ast.Expr) (string, bool) {
	sel, ok := dgUnparen(e).(*ast.SelectorExpr)
	if !ok || c.recv == "" || !dgIsIdent(sel.X, c.recv) {
		return "", false
	}
	return sel.Sel.Name, true
}

// x.<field> with x a local of the given kind
func (c *dgCtx) localField(e ast.Expr, k dgKind) (string, string, bool) {
	sel, ok := dgUnparen(e).(*ast.SelectorExpr)
	if !ok {
		return "", "", false
	}
	name, kk := c.identKind(sel.X)
	if kk != k {
		return "", "", false
	}
	return name, sel.Sel.Name, true
}

// x.M(args) with x a local identifier: (x, kind of x, M, args)
func (c *dgCtx) localCall(e ast.Expr) (string, dgKind, string, []ast.Expr, bool) {
	call, ok := dgUnparen(e).(*ast.CallExpr)
	if !ok || call.Ellipsis != token.NoPos {
		return "", dgKNone, "", nil, false
	}
	sel, ok := call.Fun.(*ast.SelectorExpr)
	if !ok {
		return "", dgKNone, "", nil, false
	}
	name, k := c.identKind(sel.X)
	if k == dgKNone {
		return "", dgKNone, "", nil, false
	}
	return name, k, sel.Sel.Name, call.Args, true
}

// <recv>.M(args)
func (c *dgCtx) recvCall(e ast.Expr) (string, []ast.Expr, bool) {
	call, ok := dgUnparen(e).(*ast.CallExpr)
	if !ok || call.Ellipsis != token.NoPos || c.recv == "" {
		return "", nil, false
	}
	sel, ok := call.Fun.(*ast.SelectorExpr)
	if !ok || !dgIsIdent(sel.X, c.recv) {
		return "", nil, false
	}
	return sel.Sel.Name, call.Args, true
}

// the rotatingFile an accessor call / field assignment is about: the receiver (inside its methods) or a
// local made by &rotatingFile{...}
func (c *dgCtx) isRotObj(e ast.Expr) bool {
	if c.recvTy == dgRotType && dgIsIdent(e, c.recv) {
		return true
	}
	_, k := c.identKind(e)
	return k == dgKObj
}

// the channel the lines go to: the function's chan<- string parameter, or <LogDirReader recv>.lines,
// or <rotatingFile recv>.lines (which loopWithError sets to the former)
func (c *dgCtx) isLinesChan(e ast.Expr) bool {
	if c.linesP != "" && dgIsIdent(e, c.linesP) {
		return true
	}
	if fld, ok := c.recvField(e); ok {
		if c.recvTy == dgReaderType && fld == c.f.rdLines {
			return true
		}
		if c.recvTy == dgRotType && fld == c.f.rotLines {
			return true
		}
	}
	return false
}

func (c *dgCtx) isCtx(e ast.Expr) bool {
	_, k := c.identKind(e)
	return k == dgKCtx
}

// ctx.Done() / ctx.Err()
func (c *dgCtx) ctxCall(e ast.Expr, m string) bool {
	_, k, name, args, ok := c.localCall(e)
	return ok && k == dgKCtx && name == m && len(args) == 0
}

// ---------------------------------------------------------------------------------------------
// expressions

func dgNatLit(e ast.Expr) (int, bool) {
	bl, ok := dgUnparen(e).(*ast.BasicLit)
	if !ok || bl.Kind != token.INT {
		return 0, false
	}
	n, err := strconv.ParseInt(bl.Value, 0, 32)
	return int(n), err == nil && n >= 0
}

func (c *dgCtx) iexp(e ast.Expr) (string, error) {
	e = dgUnparen(e)
	if n, ok := dgNatLit(e); ok {
		return fmt.Sprintf("IConst %d", n), nil
	}
	switch v := e.(type) {
	case *ast.Ident:
		if c.kind(v.Name) == dgKInt {
			return "IVar " + dgQ(v.Name), nil
		}
		return "", c.f.errf(e, "identifier %s is not an integer local", v.Name)
	case *ast.BinaryExpr:
		if v.Op != token.ADD && v.Op != token.SUB {
			return "", c.f.errf(e, "integer operator %s", v.Op)
		}
		a, err := c.iexp(v.X)
		if err != nil {
			return "", err
		}
		b, err := c.iexp(v.Y)
		if err != nil {
			return "", err
		}
		if v.Op == token.ADD {
			return "IAdd (" + a + ") (" + b + ")", nil
		}
		return "ISub (" + a + ") (" + b + ")", nil
	case *ast.SelectorExpr:
		if fld, ok := c.recvField(v); ok {
			if c.recvTy == dgRotType && c.f.rotInts[fld] {
				return "IField " + dgQ(fld), nil
			}
			return "", c.f.errf(e, "field %s read as an integer", fld)
		}
		if x, fld, ok := c.localField(v, dgKMsg); ok {
			if fld == c.f.msgBytes {
				return "IMsgBytes " + dgQ(x), nil
			}
			return "", c.f.errf(e, "field %s of a message read as an integer", fld)
		}
		return "", c.f.errf(e, "selector read as an integer")
	case *ast.CallExpr:
		if v.Ellipsis != token.NoPos {
			return "", c.f.errf(e, "variadic call")
		}
		// int64(e): the integer types are not distinguished
		if (dgIsIdent(v.Fun, "int64") || dgIsIdent(v.Fun, "int")) && len(v.Args) == 1 {
			return c.iexp(v.Args[0])
		}
		if dgIsIdent(v.Fun, "len") && len(v.Args) == 1 {
			if x, k := c.identKind(v.Args[0]); k == dgKStr {
				return "ILen " + dgQ(x), nil
			}
			if fld, ok := c.recvField(v.Args[0]); ok && c.recvTy == dgReaderType && fld == c.f.rdNames {
				return "ILenNames", nil
			}
			return "", c.f.errf(e, "len of something that is neither a string local nor the initial file names")
		}
		if x, k, m, args, ok := c.localCall(v); ok && k == dgKInfo && m == "Size" && len(args) == 0 {
			return "ISize " + dgQ(x), nil
		}
		return "", c.f.errf(e, "call read as an integer")
	}
	return "", c.f.errf(e, "integer expression form %T", e)
}

func (c *dgCtx) sexp(e ast.Expr) (string, error) {
	e = dgUnparen(e)
	switch v := e.(type) {
	case *ast.Ident:
		if c.kind(v.Name) == dgKStr {
			return "SVar " + dgQ(v.Name), nil
		}
	case *ast.SliceExpr:
		x, k := c.identKind(v.X)
		if k != dgKStr || v.Slice3 || v.Low == nil || v.High == nil {
			return "", c.f.errf(e, "slice form")
		}
		lo, err := c.iexp(v.Low)
		if err != nil {
			return "", err
		}
		hi, err := c.iexp(v.High)
		if err != nil {
			return "", err
		}
		return "SSlice " + dgQ(x) + " (" + lo + ") (" + hi + ")", nil
	}
	return "", c.f.errf(e, "string expression form %T", e)
}

// filepath.Join(<recv>.dirPath, x): x
func (c *dgCtx) joinDir(e ast.Expr) (ast.Expr, bool) {
	call, ok := dgUnparen(e).(*ast.CallExpr)
	if !ok || call.Ellipsis != token.NoPos || len(call.Args) != 2 || !c.f.isPkgSel(call.Fun, "path/filepath", "Join") {
		return nil, false
	}
	if fld, ok := c.recvField(call.Args[0]); !ok || c.recvTy != dgReaderType || fld != c.f.rdDir {
		return nil, false
	}
	return call.Args[1], true
}

func (c *dgCtx) pexp(e ast.Expr) (string, error) {
	e = dgUnparen(e)
	if x, k := c.identKind(e); k == dgKPath {
		return "PVar " + dgQ(x), nil
	}
	if x, fld, ok := c.localField(e, dgKMsg); ok && fld == c.f.msgPath {
		return "PMsgPath " + dgQ(x), nil
	}
	if x, fld, ok := c.localField(e, dgKEvent); ok && fld == "Name" {
		return "PEventName " + dgQ(x), nil
	}
	if arg, ok := c.joinDir(e); ok {
		arg = dgUnparen(arg)
		if bl, ok := arg.(*ast.BasicLit); ok && bl.Kind == token.STRING {
			s, err := strconv.Unquote(bl.Value)
			if err != nil {
				return "", c.f.errf(e, "string literal")
			}
			q, ok := dgCoqStr(s)
			if !ok || strings.ContainsAny(s, "/\\") || s == "" || s == "." || s == ".." {
				return "", c.f.errf(e, "joined literal is not a plain file name")
			}
			return "PJoinDirLit " + q, nil
		}
		if ix, ok := arg.(*ast.IndexExpr); ok {
			if fld, ok := c.recvField(ix.X); ok && c.recvTy == dgReaderType && fld == c.f.rdNames {
				i, err := c.iexp(ix.Index)
				if err != nil {
					return "", err
				}
				return "PJoinDirName (" + i + ")", nil
			}
		}
		return "", c.f.errf(e, "filepath.Join of the directory with something else than a literal or an initial file name")
	}
	return "", c.f.errf(e, "path expression form %T", e)
}

// fmt.Errorf("...%w...", args...): the argument that %w wraps
func (c *dgCtx) wrapped(e ast.Expr) (ast.Expr, bool, error) {
	call, ok := dgUnparen(e).(*ast.CallExpr)
	if !ok || !c.f.isPkgSel(call.Fun, "fmt", "Errorf") {
		return nil, false, nil
	}
	if call.Ellipsis != token.NoPos || len(call.Args) < 2 {
		return nil, true, c.f.errf(e, "fmt.Errorf form")
	}
	bl, ok := dgUnparen(call.Args[0]).(*ast.BasicLit)
	if !ok || bl.Kind != token.STRING {
		return nil, true, c.f.errf(e, "fmt.Errorf format is not a literal")
	}
	format, err := strconv.Unquote(bl.Value)
	if err != nil {
		return nil, true, c.f.errf(e, "fmt.Errorf format")
	}
	verb, wAt, wCount := 0, -1, 0
	for i := 0; i < len(format); i++ {
		if format[i] != '%' {
			continue
		}
		i++
		for i < len(format) && strings.IndexByte("+-# 0123456789.", format[i]) >= 0 {
			i++
		}
		if i >= len(format) {
			return nil, true, c.f.errf(e, "fmt.Errorf format ends inside a verb")
		}
		switch format[i] {
		case '%':
		case '*', '[':
			return nil, true, c.f.errf(e, "fmt.Errorf format with * or explicit argument index")
		case 'w':
			wAt = verb
			wCount++
			verb++
		default:
			verb++
		}
	}
	if wCount != 1 || verb != len(call.Args)-1 {
		return nil, true, c.f.errf(e, "fmt.Errorf does not wrap exactly one error")
	}
	return call.Args[1+wAt], true, nil
}

func (c *dgCtx) errexp(e ast.Expr) (string, error) {
	e = dgUnparen(e)
	if dgIsIdent(e, "nil") && c.kind("nil") == dgKNone {
		return "XNil", nil
	}
	if x, k := c.identKind(e); k == dgKErr {
		return "XVar " + dgQ(x), nil
	}
	if c.ctxCall(e, "Err") {
		return "XCtxErr", nil
	}
	if x, fld, ok := c.localField(e, dgKMsg); ok && fld == c.f.msgErr {
		return "XMsgErr " + dgQ(x), nil
	}
	if w, isErrorf, err := c.wrapped(e); isErrorf {
		if err != nil {
			return "", err
		}
		if x, k := c.identKind(w); k == dgKErr {
			return "XWrap " + dgQ(x), nil
		}
		if x, fld, ok := c.localField(w, dgKMsg); ok && fld == c.f.msgErr {
			return "XWrapMsgErr " + dgQ(x), nil
		}
		return "", c.f.errf(e, "fmt.Errorf wraps something that is neither an error local nor the error of a message")
	}
	return "", c.f.errf(e, "error expression form %T", e)
}

// len(p) with p a path expression
func (c *dgCtx) pathLen(e ast.Expr) (string, bool) {
	call, ok := dgUnparen(e).(*ast.CallExpr)
	if !ok || !dgIsIdent(call.Fun, "len") || len(call.Args) != 1 {
		return "", false
	}
	p, err := c.pexp(call.Args[0])
	if err != nil {
		return "", false
	}
	return p, true
}

func (c *dgCtx) cond(e ast.Expr) (string, error) {
	e = dgUnparen(e)
	switch v := e.(type) {
	case *ast.UnaryExpr:
		if v.Op == token.NOT {
			s, err := c.cond(v.X)
			if err != nil {
				return "", err
			}
			return "CNot (" + s + ")", nil
		}
	case *ast.CallExpr:
		// errors.Is(err, io.EOF)
		if c.f.isPkgSel(v.Fun, "errors", "Is") && len(v.Args) == 2 && v.Ellipsis == token.NoPos {
			x, k := c.identKind(v.Args[0])
			if k == dgKErr && c.f.isPkgSel(v.Args[1], "io", "EOF") {
				return "CErrIsEOF " + dgQ(x), nil
			}
			return "", c.f.errf(e, "errors.Is of something else than (an error local, io.EOF)")
		}
	case *ast.BinaryExpr:
		switch v.Op {
		case token.LAND:
			a, err := c.cond(v.X)
			if err != nil {
				return "", err
			}
			b, err := c.cond(v.Y)
			if err != nil {
				return "", err
			}
			return "CAnd (" + a + ") (" + b + ")", nil
		case token.EQL, token.NEQ, token.LSS, token.LEQ, token.GTR, token.GEQ:
			// e != nil
			if dgIsIdent(v.Y, "nil") && c.kind("nil") == dgKNone {
				if v.Op != token.NEQ {
					return "", c.f.errf(e, "comparison with nil other than !=")
				}
				x, err := c.errexp(v.X)
				if err != nil {
					return "", err
				}
				return "CErrNotNil (" + x + ")", nil
			}
			if v.Op == token.EQL {
				// paths and their lengths
				if a, ok := c.pathLen(v.X); ok {
					if b, ok := c.pathLen(v.Y); ok {
						return "CPathLenEq (" + a + ") (" + b + ")", nil
					}
					return "", c.f.errf(e, "length of a path compared with something else")
				}
				if a, err := c.pexp(v.X); err == nil {
					b, err := c.pexp(v.Y)
					if err != nil {
						return "", err
					}
					return "CPathEq (" + a + ") (" + b + ")", nil
				}
			}
			a, err := c.iexp(v.X)
			if err != nil {
				return "", err
			}
			b, err := c.iexp(v.Y)
			if err != nil {
				return "", err
			}
			name := map[token.Token]string{token.EQL: "CEq", token.NEQ: "CNe", token.LSS: "CLt", token.LEQ: "CLe", token.GTR: "CGt", token.GEQ: "CGe"}[v.Op]
			return name + " (" + a + ") (" + b + ")", nil
		}
	}
	return "", c.f.errf(e, "condition form %T", e)
}

// ---------------------------------------------------------------------------------------------
// loading

func dgLoad(repo string) (*dgFile, error) {
	path := filepath.Join(repo, dgSrcPath)
	fset := token.NewFileSet()
	af, err := parser.ParseFile(fset, path, nil, 0)
	if err != nil {
		return nil, err
	}
	f := &dgFile{fset: fset, file: af, imports: map[string]string{}, pkg: map[string]bool{}, methods: map[string]string{}}
	for _, im := range af.Imports {
		p, err := strconv.Unquote(im.Path.Value)
		if err != nil {
			return nil, err
		}
		name := p[strings.LastIndex(p, "/")+1:]
		if p == dgBackoff {
			name = "backoff"
		}
		if im.Name != nil {
			name = im.Name.Name
		}
		if name == "_" || name == "." {
			return nil, fmt.Errorf("dirreader.go: blank or dot import of %s", p)
		}
		f.imports[name] = p
	}
	for _, d := range af.Decls {
		switch x := d.(type) {
		case *ast.FuncDecl:
			if x.Recv == nil {
				f.pkg[x.Name.Name] = true
			}
		case *ast.GenDecl:
			for _, sp := range x.Specs {
				switch s := sp.(type) {
				case *ast.TypeSpec:
					f.pkg[s.Name.Name] = true
				case *ast.ValueSpec:
					for _, n := range s.Names {
						f.pkg[n.Name] = true
					}
				}
			}
		}
	}
	if err := f.loadStructs(); err != nil {
		return nil, err
	}
	return f, nil
}

// ---------------------------------------------------------------------------------------------
// statements

func (c *dgCtx) stmts(list []ast.Stmt, ind string) ([]string, error) {
	var out []string
	for _, s := range list {
		t, err := c.stmt(s, ind)
		if err != nil {
			return nil, err
		}
		out = append(out, t)
	}
	return out, nil
}

// a nested block: its own scope
func (c *dgCtx) block(list []ast.Stmt, ind string) (string, error) {
	c.push()
	defer c.pop()
	out, err := c.stmts(list, ind+"  ")
	if err != nil {
		return "", err
	}
	return dgList(ind+"  ", out), nil
}

func dgElse(s *ast.IfStmt) ([]ast.Stmt, bool) {
	switch v := s.Else.(type) {
	case nil:
		return nil, true
	case *ast.BlockStmt:
		return v.List, true
	default:
		return nil, false // else if: not needed here
	}
}

func dgIdentName(e ast.Expr) (string, bool) {
	id, ok := e.(*ast.Ident)
	if !ok {
		return "", false
	}
	return id.Name, true
}

// readLines(ctx, f, <lines channel>): f
func (c *dgCtx) readLinesCall(e ast.Expr) (string, bool, error) {
	call, ok := dgUnparen(e).(*ast.CallExpr)
	if !ok || !dgIsIdent(call.Fun, "readLines") || c.kind("readLines") != dgKNone {
		return "", false, nil
	}
	if call.Ellipsis != token.NoPos || len(call.Args) != 3 || !c.isCtx(call.Args[0]) || !c.isLinesChan(call.Args[2]) {
		return "", true, c.f.errf(e, "readLines is not called with (the context, a file, the lines channel)")
	}
	x, k := c.identKind(call.Args[1])
	if k != dgKFile {
		return "", true, c.f.errf(e, "readLines is not called on an open file")
	}
	return x, true, nil
}

// x, y := <call>  /  x := <expr>
func (c *dgCtx) define(s *ast.AssignStmt, ind string) (string, error) {
	f := c.f
	var lhs []string
	for _, l := range s.Lhs {
		n, ok := dgIdentName(l)
		if !ok {
			return "", f.errf(s, "definition target form")
		}
		lhs = append(lhs, n)
	}
	if len(s.Rhs) != 1 {
		return "", f.errf(s, "definition from several expressions")
	}
	rhs := dgUnparen(s.Rhs[0])
	if len(lhs) == 2 {
		a, b := lhs[0], lhs[1]
		if a == "_" || b == "_" {
			return "", f.errf(s, "blank name in a two-valued definition")
		}
		// n, err := readLines(ctx, f, lines)
		if file, is, err := c.readLinesCall(rhs); is {
			if err != nil {
				return "", err
			}
			if c.recvTy != dgRotType {
				return "", f.errf(s, "readLines called for its results outside rotatingFile")
			}
			if err := c.defineOrReuse(s, a, dgKInt); err != nil {
				return "", err
			}
			if err := c.defineOrReuse(s, b, dgKErr); err != nil {
				return "", err
			}
			return "DCallReadLines " + dgQ(a) + " " + dgQ(b) + " " + dgQ(file), nil
		}
		// f, err := o.openFn()
		if m, args, ok := c.recvCall(rhs); ok {
			if c.recvTy == dgRotType && m == f.rotOpenFn && len(args) == 0 {
				if err := c.defineOrReuse(s, a, dgKFile); err != nil {
					return "", err
				}
				if err := c.defineOrReuse(s, b, dgKErr); err != nil {
					return "", err
				}
				return "DOpen " + dgQ(a) + " " + dgQ(b) + " OpenFn", nil
			}
			return "", f.errf(s, "two-valued call of %s.%s", c.recv, m)
		}
		if x, k, m, args, ok := c.localCall(rhs); ok {
			switch {
			case k == dgKBufio && m == "ReadString" && len(args) == 1:
				// x, err := r.ReadString('\n')
				bl, ok := dgUnparen(args[0]).(*ast.BasicLit)
				if !ok || bl.Kind != token.CHAR {
					return "", f.errf(s, "ReadString delimiter is not a character literal")
				}
				r, _, _, err := strconv.UnquoteChar(bl.Value[1:len(bl.Value)-1], '\'')
				if err != nil || r < 0 || r > 127 {
					return "", f.errf(s, "ReadString delimiter is not an ASCII character")
				}
				if err := c.defineOrReuse(s, a, dgKStr); err != nil {
					return "", err
				}
				if err := c.defineOrReuse(s, b, dgKErr); err != nil {
					return "", err
				}
				return fmt.Sprintf("DReadString %s %s %s %d", dgQ(a), dgQ(b), dgQ(x), r), nil
			case k == dgKFs && m == "Open" && len(args) == 1:
				// f, err := fsi.Open(filePath)
				p, pk := c.identKind(args[0])
				if pk != dgKPath {
					return "", f.errf(s, "Open of something else than a path local")
				}
				if err := c.defineOrReuse(s, a, dgKFile); err != nil {
					return "", err
				}
				if err := c.defineOrReuse(s, b, dgKErr); err != nil {
					return "", err
				}
				return "DOpen " + dgQ(a) + " " + dgQ(b) + " (OpenPath " + dgQ(x) + " " + dgQ(p) + ")", nil
			case k == dgKFile && m == "Stat" && len(args) == 0:
				if err := c.defineOrReuse(s, a, dgKInfo); err != nil {
					return "", err
				}
				if err := c.defineOrReuse(s, b, dgKErr); err != nil {
					return "", err
				}
				return "DStat " + dgQ(a) + " " + dgQ(b) + " " + dgQ(x), nil
			}
			return "", f.errf(s, "two-valued call of method %s", m)
		}
		return "", f.errf(s, "two-valued definition from an expression this translator gives no meaning to")
	}
	if len(lhs) != 1 || lhs[0] == "_" {
		return "", f.errf(s, "definition form")
	}
	x := lhs[0]
	switch v := rhs.(type) {
	case *ast.CallExpr:
		// bufio.NewReader(r)
		if f.isPkgSel(v.Fun, "bufio", "NewReader") && len(v.Args) == 1 {
			src, k := c.identKind(v.Args[0])
			if k != dgKReader && k != dgKFile {
				return "", f.errf(s, "bufio.NewReader of something that is not a reader")
			}
			if err := c.declare(s, x, dgKBufio); err != nil {
				return "", err
			}
			return "DNewBufio " + dgQ(x) + " " + dgQ(src), nil
		}
		// make(chan initialFileRead, n)
		if dgIsIdent(v.Fun, "make") && len(v.Args) == 2 {
			if f.isChanOf(v.Args[0], ast.SEND|ast.RECV, func(e ast.Expr) bool { return dgIsIdent(e, dgMsgType) }) {
				n, ok := dgNatLit(v.Args[1])
				if !ok {
					return "", f.errf(s, "channel capacity is not an integer literal")
				}
				if c.recvTy != dgReaderType {
					return "", f.errf(s, "message channel made outside %s", dgReaderType)
				}
				if err := c.declare(s, x, dgKMsgChan); err != nil {
					return "", err
				}
				return fmt.Sprintf("DMakeChan %s %d", dgQ(x), n), nil
			}
			return "", f.errf(s, "make of something else than a buffered chan %s", dgMsgType)
		}
		// off := o.getOffset() / x := obj.getOffset()
		if sel, ok := v.Fun.(*ast.SelectorExpr); ok && c.isRotObj(sel.X) && len(v.Args) == 0 {
			if f.methods[sel.Sel.Name] == "MLoad" {
				if err := c.declare(s, x, dgKInt); err != nil {
					return "", err
				}
				return "DDefCall " + dgQ(x) + " " + dgQ(sel.Sel.Name), nil
			}
			return "", f.errf(s, "value of %s(), which is not a translated load accessor", sel.Sel.Name)
		}
		// err := mainLog.readWithRetry(ctx, event.Op)
		if obj, k, m, args, ok := c.localCall(v); ok && k == dgKObj && m == "readWithRetry" {
			if len(args) != 2 || !c.isCtx(args[0]) {
				return "", f.errf(s, "readWithRetry argument form")
			}
			ev, fld, ok := c.localField(args[1], dgKEvent)
			if !ok || fld != "Op" {
				return "", f.errf(s, "readWithRetry is not called with the Op of the received event")
			}
			if err := c.declare(s, x, dgKErr); err != nil {
				return "", err
			}
			return "DReadWithRetry " + dgQ(x) + " " + dgQ(obj) + " " + dgQ(ev), nil
		}
		// a path
		if _, ok := c.joinDir(v); ok {
			p, err := c.pexp(v)
			if err != nil {
				return "", err
			}
			if err := c.declare(s, x, dgKPath); err != nil {
				return "", err
			}
			return "DDefPath " + dgQ(x) + " (" + p + ")", nil
		}
	case *ast.UnaryExpr:
		// &rotatingFile{...}
		if v.Op == token.AND {
			if cl, ok := v.X.(*ast.CompositeLit); ok && dgIsIdent(cl.Type, dgRotType) {
				p, err := c.newRotating(cl)
				if err != nil {
					return "", err
				}
				if err := c.declare(s, x, dgKObj); err != nil {
					return "", err
				}
				return "DNewRotating " + dgQ(x) + " (" + p + ")", nil
			}
		}
	}
	// an integer
	e, err := c.iexp(rhs)
	if err != nil {
		return "", err
	}
	if err := c.declare(s, x, dgKInt); err != nil {
		return "", err
	}
	return "DDefInt " + dgQ(x) + " (" + e + ")", nil
}

// &rotatingFile{openFn: func() (statReadSeekCloser, error) { return o.fs.Open(p) }, lines: o.lines,
//
//	boConf: backoff.NewExponentialBackOff(), boFn: backoff.Retry}: p
func (c *dgCtx) newRotating(cl *ast.CompositeLit) (string, error) {
	f := c.f
	if c.recvTy != dgReaderType {
		return "", f.errf(cl, "%s made outside %s", dgRotType, dgReaderType)
	}
	path := ""
	seenLines := false
	for _, el := range cl.Elts {
		kv, ok := el.(*ast.KeyValueExpr)
		if !ok {
			return "", f.errf(el, "positional field in the %s literal", dgRotType)
		}
		key, ok := dgIdentName(kv.Key)
		if !ok {
			return "", f.errf(el, "field key form")
		}
		switch {
		case key == f.rotOpenFn:
			fl, ok := kv.Value.(*ast.FuncLit)
			if !ok || !dgIsOpenFnType(fl.Type) || len(fl.Body.List) != 1 {
				return "", f.errf(el, "open function is not a one-statement function literal")
			}
			rs, ok := fl.Body.List[0].(*ast.ReturnStmt)
			if !ok || len(rs.Results) != 1 {
				return "", f.errf(el, "open function does not return a single call")
			}
			call, ok := rs.Results[0].(*ast.CallExpr)
			if !ok || len(call.Args) != 1 || call.Ellipsis != token.NoPos {
				return "", f.errf(el, "open function does not return <fs>.Open(path)")
			}
			sel, ok := call.Fun.(*ast.SelectorExpr)
			if !ok || sel.Sel.Name != "Open" {
				return "", f.errf(el, "open function does not return <fs>.Open(path)")
			}
			if fld, ok := c.recvField(sel.X); !ok || fld != f.rdFs {
				return "", f.errf(el, "open function does not open through %s.%s", c.recv, f.rdFs)
			}
			p, k := c.identKind(call.Args[0])
			if k != dgKPath {
				return "", f.errf(el, "open function opens something else than a path local")
			}
			path = "PVar " + dgQ(p)
		case key == f.rotLines:
			if fld, ok := c.recvField(kv.Value); !ok || fld != f.rdLines {
				return "", f.errf(el, "the lines of the %s do not go to %s.%s", dgRotType, c.recv, f.rdLines)
			}
			seenLines = true
		case f.rotInts[key]:
			return "", f.errf(el, "integer field %s initialised in the literal", key)
		case key == "boConf":
			call, ok := kv.Value.(*ast.CallExpr)
			if !ok || len(call.Args) != 0 || !f.isPkgSel(call.Fun, dgBackoff, "NewExponentialBackOff") {
				return "", f.errf(el, "boConf is not backoff.NewExponentialBackOff()")
			}
		case key == "boFn":
			if !f.isPkgSel(kv.Value, dgBackoff, "Retry") {
				return "", f.errf(el, "boFn is not backoff.Retry")
			}
		default:
			return "", f.errf(el, "field %s in the %s literal", key, dgRotType)
		}
	}
	if path == "" || !seenLines {
		return "", f.errf(cl, "%s literal without open function or without lines channel", dgRotType)
	}
	return path, nil
}

// <chan> <- initialFileRead{filePath: p, numBytesRead: n, err: e}: (p, n, e) identifiers; zero literal: ok2
func (c *dgCtx) msgLit(e ast.Expr) (p, n, er string, zero bool, ok bool) {
	cl, isLit := dgUnparen(e).(*ast.CompositeLit)
	if !isLit || !dgIsIdent(cl.Type, dgMsgType) {
		return "", "", "", false, false
	}
	if len(cl.Elts) == 0 {
		return "", "", "", true, true
	}
	if len(cl.Elts) != 3 {
		return "", "", "", false, false
	}
	got := map[string]string{}
	for _, el := range cl.Elts {
		kv, isKv := el.(*ast.KeyValueExpr)
		if !isKv {
			return "", "", "", false, false
		}
		k, ok1 := dgIdentName(kv.Key)
		v, ok2 := dgIdentName(dgUnparen(kv.Value))
		if !ok1 || !ok2 {
			return "", "", "", false, false
		}
		if _, dup := got[k]; dup {
			return "", "", "", false, false
		}
		got[k] = v
	}
	p, ok1 := got[c.f.msgPath]
	n, ok2 := got[c.f.msgBytes]
	er, ok3 := got[c.f.msgErr]
	return p, n, er, false, ok1 && ok2 && ok3
}

// go func() { n, err := readFilePathLines(ctx, o.fs, p, o.lines); ch <- initialFileRead{p, n, err} }()
func (c *dgCtx) goReadFile(s *ast.GoStmt) (string, error) {
	f := c.f
	bad := func() (string, error) {
		return "", f.errf(s, "goroutine is not  go func() { n, err := readFilePathLines(ctx, fs, p, lines); ch <- %s{p, n, err} }()", dgMsgType)
	}
	if c.recvTy != dgReaderType || len(s.Call.Args) != 0 {
		return bad()
	}
	fl, ok := s.Call.Fun.(*ast.FuncLit)
	if !ok || len(dgParams(fl.Type.Params)) != 0 || fl.Type.Results != nil || len(fl.Body.List) != 2 {
		return bad()
	}
	as, ok := fl.Body.List[0].(*ast.AssignStmt)
	if !ok || as.Tok != token.DEFINE || len(as.Lhs) != 2 || len(as.Rhs) != 1 {
		return bad()
	}
	nv, ok1 := dgIdentName(as.Lhs[0])
	ev, ok2 := dgIdentName(as.Lhs[1])
	call, ok3 := as.Rhs[0].(*ast.CallExpr)
	if !ok1 || !ok2 || !ok3 || nv == "_" || ev == "_" || nv == ev || c.kind(nv) != dgKNone || c.kind(ev) != dgKNone ||
		f.pkg[nv] || f.pkg[ev] || f.imports[nv] != "" || f.imports[ev] != "" {
		return bad()
	}
	if !dgIsIdent(call.Fun, "readFilePathLines") || c.kind("readFilePathLines") != dgKNone || len(call.Args) != 4 || call.Ellipsis != token.NoPos {
		return bad()
	}
	if !c.isCtx(call.Args[0]) || !c.isLinesChan(call.Args[3]) {
		return bad()
	}
	if fld, ok := c.recvField(call.Args[1]); !ok || fld != f.rdFs {
		return bad()
	}
	p, k := c.identKind(call.Args[2])
	if k != dgKPath {
		return bad()
	}
	snd, ok := fl.Body.List[1].(*ast.SendStmt)
	if !ok {
		return bad()
	}
	ch, k := c.identKind(snd.Chan)
	if k != dgKMsgChan {
		return bad()
	}
	mp, mn, me, zero, ok := c.msgLit(snd.Value)
	if !ok || zero || mp != p || mn != nv || me != ev {
		return "", f.errf(s, "the message sent is not {%s: the path read, %s: the count returned, %s: the error returned}", f.msgPath, f.msgBytes, f.msgErr)
	}
	return "DGoReadFile (PVar " + dgQ(p) + ") " + dgQ(ch), nil
}

func (c *dgCtx) stmt(s ast.Stmt, ind string) (string, error) {
	f := c.f
	switch v := s.(type) {
	case *ast.DeclStmt:
		gd, ok := v.Decl.(*ast.GenDecl)
		if !ok || gd.Tok != token.VAR || len(gd.Specs) != 1 {
			return "", f.errf(s, "declaration form")
		}
		vs, ok := gd.Specs[0].(*ast.ValueSpec)
		if !ok || len(vs.Names) != 1 || len(vs.Values) != 0 {
			return "", f.errf(s, "declaration form")
		}
		x := vs.Names[0].Name
		switch {
		case dgIsInt64(vs.Type) || dgIsIdent(vs.Type, "int"):
			if err := c.declare(s, x, dgKInt); err != nil {
				return "", err
			}
			return "DVarInt " + dgQ(x), nil
		case dgIsString(vs.Type):
			if err := c.declare(s, x, dgKStr); err != nil {
				return "", err
			}
			return "DVarStr " + dgQ(x), nil
		}
		return "", f.errf(s, "declaration of a variable that is neither an integer nor a string")
	case *ast.AssignStmt:
		switch v.Tok {
		case token.DEFINE:
			return c.define(v, ind)
		case token.ADD_ASSIGN:
			if len(v.Lhs) != 1 || len(v.Rhs) != 1 {
				return "", f.errf(s, "+= form")
			}
			x, k := c.identKind(v.Lhs[0])
			if k != dgKInt {
				return "", f.errf(s, "+= on something that is not an integer local")
			}
			e, err := c.iexp(v.Rhs[0])
			if err != nil {
				return "", err
			}
			return "DAddAssign " + dgQ(x) + " (" + e + ")", nil
		case token.ASSIGN:
			// _, err = f.Seek(off, io.SeekStart)
			if len(v.Lhs) == 2 && len(v.Rhs) == 1 {
				if id, ok := v.Lhs[0].(*ast.Ident); !ok || id.Name != "_" {
					return "", f.errf(s, "two-valued assignment form")
				}
				ev, k := c.identKind(v.Lhs[1])
				file, fk, m, args, ok := c.localCall(v.Rhs[0])
				if k != dgKErr || !ok || fk != dgKFile || m != "Seek" || len(args) != 2 || !f.isPkgSel(args[1], "io", "SeekStart") {
					return "", f.errf(s, "two-valued assignment that is not  _, err = f.Seek(off, io.SeekStart)")
				}
				off, err := c.iexp(args[0])
				if err != nil {
					return "", err
				}
				return "DSeek " + dgQ(ev) + " " + dgQ(file) + " (" + off + ")", nil
			}
			if len(v.Lhs) != 1 || len(v.Rhs) != 1 {
				return "", f.errf(s, "assignment form")
			}
			lhs := dgUnparen(v.Lhs[0])
			if x, k := c.identKind(lhs); k == dgKStr {
				e, err := c.sexp(v.Rhs[0])
				if err != nil {
					return "", err
				}
				return "DSetStr " + dgQ(x) + " (" + e + ")", nil
			}
			if sel, ok := lhs.(*ast.SelectorExpr); ok {
				// <rotatingFile>.f = e
				if c.isRotObj(sel.X) {
					if !f.rotInts[sel.Sel.Name] {
						return "", f.errf(s, "assignment to field %s of the %s", sel.Sel.Name, dgRotType)
					}
					e, err := c.iexp(v.Rhs[0])
					if err != nil {
						return "", err
					}
					return "DSetField " + dgQ(sel.Sel.Name) + " (" + e + ")", nil
				}
				// o.initFileNames = nil
				if fld, ok := c.recvField(sel); ok && c.recvTy == dgReaderType && fld == f.rdNames {
					if dgIsIdent(v.Rhs[0], "nil") && c.kind("nil") == dgKNone {
						return "DClearNames", nil
					}
					return "", f.errf(s, "the initial file names are assigned something else than nil")
				}
			}
			return "", f.errf(s, "assignment target form")
		}
		return "", f.errf(s, "assignment operator %s", v.Tok)
	case *ast.IncDecStmt:
		x, k := c.identKind(v.X)
		if k != dgKInt || v.Tok != token.INC {
			return "", f.errf(s, "++/-- form")
		}
		return "DIncr " + dgQ(x), nil
	case *ast.IfStmt:
		if v.Init != nil {
			return "", f.errf(s, "if with init statement")
		}
		cond, err := c.cond(v.Cond)
		if err != nil {
			return "", err
		}
		th, err := c.block(v.Body.List, ind)
		if err != nil {
			return "", err
		}
		els, ok := dgElse(v)
		if !ok {
			return "", f.errf(s, "else if")
		}
		el, err := c.block(els, ind)
		if err != nil {
			return "", err
		}
		return "DIf (" + cond + ") " + th + " " + el, nil
	case *ast.ForStmt:
		if v.Init != nil || v.Cond != nil || v.Post != nil {
			return "", f.errf(s, "for with a clause")
		}
		c.inLoop++
		body, err := c.block(v.Body.List, ind)
		c.inLoop--
		if err != nil {
			return "", err
		}
		return "DLoop " + body, nil
	case *ast.BranchStmt:
		if v.Tok == token.CONTINUE && v.Label == nil && c.inLoop > 0 {
			return "DContinue", nil
		}
		return "", f.errf(s, "branch statement %s", v.Tok)
	case *ast.ReturnStmt:
		switch c.rets {
		case "error":
			if len(v.Results) != 1 {
				return "", f.errf(s, "return form")
			}
			e, err := c.errexp(v.Results[0])
			if err != nil {
				return "", err
			}
			return "DReturn None (" + e + ")", nil
		case "int64,error":
			if len(v.Results) == 1 {
				// return readLines(ctx, f, l)
				file, is, err := c.readLinesCall(v.Results[0])
				if !is {
					return "", f.errf(s, "single-expression return that is not a call of readLines")
				}
				if err != nil {
					return "", err
				}
				return "DReturnReadLines " + dgQ(file), nil
			}
			if len(v.Results) != 2 {
				return "", f.errf(s, "return form")
			}
			n, err := c.iexp(v.Results[0])
			if err != nil {
				return "", err
			}
			e, err := c.errexp(v.Results[1])
			if err != nil {
				return "", err
			}
			return "DReturn (Some (" + n + ")) (" + e + ")", nil
		}
		return "", f.errf(s, "return in a function with results (%s)", c.rets)
	case *ast.DeferStmt:
		if x, k, m, args, ok := c.localCall(v.Call); ok && k == dgKFile && m == "Close" && len(args) == 0 {
			return "DDeferClose " + dgQ(x), nil
		}
		return "", f.errf(s, "defer of something else than <file>.Close()")
	case *ast.ExprStmt:
		call, ok := v.X.(*ast.CallExpr)
		if !ok || call.Ellipsis != token.NoPos {
			return "", f.errf(s, "expression statement form")
		}
		// close(o.initFilesDone)
		if dgIsIdent(call.Fun, "close") && c.kind("close") == dgKNone && len(call.Args) == 1 {
			if fld, ok := c.recvField(call.Args[0]); ok && c.recvTy == dgReaderType && fld == f.rdInit {
				return "DCloseInitDone", nil
			}
			return "", f.errf(s, "close of something else than %s.%s", c.recv, f.rdInit)
		}
		// <rotatingFile>.setOffset(e) / incOffsetBy(e)
		if sel, ok := call.Fun.(*ast.SelectorExpr); ok && c.isRotObj(sel.X) {
			kind, ok := f.methods[sel.Sel.Name]
			if !ok {
				return "", f.errf(s, "call of %s, which is not a translated accessor of %s", sel.Sel.Name, dgRotType)
			}
			want := 1
			if kind == "MLoad" {
				want = 0
			}
			if len(call.Args) != want {
				return "", f.errf(s, "argument count of %s", sel.Sel.Name)
			}
			var args []string
			for _, a := range call.Args {
				e, err := c.iexp(a)
				if err != nil {
					return "", err
				}
				args = append(args, e)
			}
			return "DCallMethod " + dgQ(sel.Sel.Name) + " [" + strings.Join(args, "; ") + "]", nil
		}
		return "", f.errf(s, "call statement this translator gives no meaning to")
	case *ast.SendStmt:
		ch, k := c.identKind(v.Chan)
		if k == dgKMsgChan {
			if _, _, _, zero, ok := c.msgLit(v.Value); ok && zero {
				return "DSendZeroMsg " + dgQ(ch), nil
			}
		}
		return "", f.errf(s, "send that is not  <message channel> <- %s{}", dgMsgType)
	case *ast.GoStmt:
		return c.goReadFile(v)
	case *ast.SwitchStmt:
		return c.switchOp(v, ind)
	case *ast.SelectStmt:
		return c.selectStmt(v, ind)
	}
	return "", f.errf(s, "statement form %T", s)
}

// switch op { case fsnotify.A, fsnotify.B: ...; default: ... }
func (c *dgCtx) switchOp(v *ast.SwitchStmt, ind string) (string, error) {
	f := c.f
	if v.Init != nil || v.Tag == nil {
		return "", f.errf(v, "switch form")
	}
	x, k := c.identKind(v.Tag)
	if k != dgKOp {
		return "", f.errf(v, "switch on something else than the fsnotify.Op")
	}
	var cases []string
	def := ""
	seenDef := false
	seen := map[string]bool{}
	for _, cl := range v.Body.List {
		cc, ok := cl.(*ast.CaseClause)
		if !ok {
			return "", f.errf(cl, "switch clause form")
		}
		for _, st := range cc.Body {
			if br, ok := st.(*ast.BranchStmt); ok && (br.Tok == token.FALLTHROUGH || br.Tok == token.BREAK) {
				return "", f.errf(st, "%s in a switch clause", br.Tok)
			}
		}
		body, err := c.block(cc.Body, ind+"  ")
		if err != nil {
			return "", err
		}
		if cc.List == nil {
			if seenDef {
				return "", f.errf(cl, "two default clauses")
			}
			seenDef, def = true, body
			continue
		}
		var names []string
		for _, e := range cc.List {
			n, ok := f.pkgSelName(e, dgFsnotify)
			if !ok {
				return "", f.errf(e, "case that is not a constant of package fsnotify")
			}
			switch n {
			case "Create", "Write", "Remove", "Rename", "Chmod":
			default:
				return "", f.errf(e, "fsnotify.%s is not one of the five operations", n)
			}
			if seen[n] {
				return "", f.errf(e, "fsnotify.%s in two cases", n)
			}
			seen[n] = true
			names = append(names, dgQ(n))
		}
		cases = append(cases, "(["+strings.Join(names, "; ")+"], "+body+")")
	}
	if !seenDef {
		def = "[]"
	}
	return "DSwitchOp " + dgQ(x) + " " + dgList(ind+"  ", cases) + " " + def, nil
}

func (c *dgCtx) selectStmt(v *ast.SelectStmt, ind string) (string, error) {
	f := c.f
	type arm struct {
		guard string
		send  string // the value sent, for a send arm
		body  string
	}
	var arms []arm
	sends := 0
	for _, cl := range v.Body.List {
		cc, ok := cl.(*ast.CommClause)
		if !ok || cc.Comm == nil {
			return "", f.errf(cl, "select with a default arm")
		}
		c.push()
		a := arm{}
		var err error
		switch cm := cc.Comm.(type) {
		case *ast.ExprStmt:
			// <-ctx.Done()
			ue, ok := dgUnparen(cm.X).(*ast.UnaryExpr)
			if !ok || ue.Op != token.ARROW || !c.ctxCall(ue.X, "Done") {
				err = f.errf(cl, "bare receive from something else than the context's Done channel")
				break
			}
			a.guard = "GCtxDone"
		case *ast.SendStmt:
			if !c.isLinesChan(cm.Chan) {
				err = f.errf(cl, "send arm on something else than the lines channel")
				break
			}
			a.send, err = c.sexp(cm.Value)
			sends++
		case *ast.AssignStmt:
			if cm.Tok != token.DEFINE || len(cm.Lhs) != 1 || len(cm.Rhs) != 1 {
				err = f.errf(cl, "receive arm form")
				break
			}
			x, ok1 := dgIdentName(cm.Lhs[0])
			ue, ok2 := dgUnparen(cm.Rhs[0]).(*ast.UnaryExpr)
			if !ok1 || !ok2 || ue.Op != token.ARROW {
				err = f.errf(cl, "receive arm form")
				break
			}
			if ch, k := c.identKind(ue.X); k == dgKMsgChan {
				if err = c.declare(cl, x, dgKMsg); err == nil {
					a.guard = "GRecvMsg " + dgQ(x) + " " + dgQ(ch)
				}
				break
			}
			// <-o.watcher.Events()
			if call, ok := dgUnparen(ue.X).(*ast.CallExpr); ok && len(call.Args) == 0 {
				if sel, ok := call.Fun.(*ast.SelectorExpr); ok && sel.Sel.Name == "Events" {
					if fld, ok := c.recvField(sel.X); ok && c.recvTy == dgReaderType && fld == f.rdWatcher {
						if err = c.declare(cl, x, dgKEvent); err == nil {
							a.guard = "GRecvEvent " + dgQ(x)
						}
						break
					}
				}
			}
			err = f.errf(cl, "receive from something else than the message channel or the watcher's events")
		default:
			err = f.errf(cl, "select arm form")
		}
		if err == nil {
			var body []string
			body, err = c.stmts(cc.Body, ind+"    ")
			a.body = dgList(ind+"    ", body)
		}
		c.pop()
		if err != nil {
			return "", err
		}
		arms = append(arms, a)
	}
	if sends > 0 {
		// select { case <-ctx.Done(): A  case lines <- v: B }
		if len(arms) != 2 || sends != 1 {
			return "", f.errf(v, "select with a send arm that is not {context done, send on lines}")
		}
		done, snd := arms[0], arms[1]
		if done.send != "" {
			done, snd = snd, done
		}
		if done.guard != "GCtxDone" {
			return "", f.errf(v, "select with a send arm that is not {context done, send on lines}")
		}
		return "DSelectSend " + done.body + " (" + snd.send + ") " + snd.body, nil
	}
	var out []string
	seen := map[string]bool{}
	for _, a := range arms {
		g := strings.Fields(a.guard)[0]
		if seen[g] {
			return "", f.errf(v, "two select arms of the same kind")
		}
		seen[g] = true
		out = append(out, "("+a.guard+", "+a.body+")")
	}
	return "DSelectRecv " + dgList(ind+"  ", out), nil
}

// ---------------------------------------------------------------------------------------------
// the functions

// parameter kinds from the declared types
func (c *dgCtx) bindParams(fd *ast.FuncDecl) (string, error) {
	f := c.f
	var out []string
	for _, p := range dgParams(fd.Type.Params) {
		if p.name == "_" {
			return "", f.errf(fd, "blank parameter")
		}
		var k dgKind
		coq := "KHandle"
		switch {
		case f.isPkgSel(p.typ, "context", "Context"):
			k = dgKCtx
		case f.isPkgSel(p.typ, "io", "Reader"):
			k = dgKReader
		case f.isChanOf(p.typ, ast.SEND, dgIsString):
			k = dgKLines
			if c.linesP != "" {
				return "", f.errf(fd, "two chan<- string parameters")
			}
			c.linesP = p.name
		case f.isPkgSel(p.typ, dgFsnotify, "Op"):
			k, coq = dgKOp, "KOp"
		case dgIsIdent(p.typ, "fileSystem"):
			k = dgKFs
		case dgIsString(p.typ):
			k, coq = dgKPath, "KPath"
		default:
			return "", f.errf(fd, "parameter %s has a type this translator does not know", p.name)
		}
		if err := c.declare(fd, p.name, k); err != nil {
			return "", err
		}
		out = append(out, "("+dgQ(p.name)+", "+coq+")")
	}
	return "[" + strings.Join(out, "; ") + "]", nil
}

func (f *dgFile) genFunc(recvType, name, wantRets string) (string, error) {
	fd, recv, err := f.fn(recvType, name)
	if err != nil {
		return "", err
	}
	c := &dgCtx{f: f, recv: recv, recvTy: recvType, rets: dgResults(fd)}
	if c.rets != wantRets {
		return "", f.errf(fd, "results are (%s), not (%s)", c.rets, wantRets)
	}
	c.push()
	params, err := c.bindParams(fd)
	if err != nil {
		return "", err
	}
	body, err := c.stmts(fd.Body.List, "    ")
	if err != nil {
		return "", err
	}
	return "{|\n  f_params := " + params + ";\n  f_body := " + dgList("    ", body) + " |}", nil
}

// setOffset / incOffsetBy / getOffset: one sync/atomic operation on an int64 field of the receiver
func (f *dgFile) genAccessor(name string) (string, string, error) {
	fd, recv, err := f.fn(dgRotType, name)
	if err != nil {
		return "", "", err
	}
	ps := dgParams(fd.Type.Params)
	if len(fd.Body.List) != 1 {
		return "", "", f.errf(fd, "accessor with more than one statement")
	}
	var call *ast.CallExpr
	returns := false
	switch st := fd.Body.List[0].(type) {
	case *ast.ExprStmt:
		call, _ = st.X.(*ast.CallExpr)
	case *ast.ReturnStmt:
		if len(st.Results) == 1 {
			call, _ = st.Results[0].(*ast.CallExpr)
			returns = true
		}
	}
	if call == nil || call.Ellipsis != token.NoPos || len(call.Args) < 1 {
		return "", "", f.errf(fd, "accessor is not a single sync/atomic call")
	}
	op, ok := f.pkgSelName(call.Fun, "sync/atomic")
	if !ok {
		return "", "", f.errf(fd, "accessor is not a single sync/atomic call")
	}
	// &recv.field
	ue, ok := call.Args[0].(*ast.UnaryExpr)
	if !ok || ue.Op != token.AND {
		return "", "", f.errf(fd, "first argument is not the address of a field")
	}
	sel, ok := ue.X.(*ast.SelectorExpr)
	if !ok || !dgIsIdent(sel.X, recv) || !f.rotInts[sel.Sel.Name] {
		return "", "", f.errf(fd, "first argument is not the address of an int64 field of the receiver")
	}
	field := dgQ(sel.Sel.Name)
	res := dgResults(fd)
	oneInt := len(ps) == 1 && ps[0].name != "_" && dgIsInt64(ps[0].typ)
	switch op {
	case "StoreInt64":
		if oneInt && !returns && res == "" && len(call.Args) == 2 && dgIsIdent(call.Args[1], ps[0].name) {
			return "MStore " + field, "MStore", nil
		}
	case "AddInt64":
		if oneInt && returns && res == "int64" && len(call.Args) == 2 && dgIsIdent(call.Args[1], ps[0].name) {
			return "MAdd " + field, "MAdd", nil
		}
	case "LoadInt64":
		if len(ps) == 0 && returns && res == "int64" && len(call.Args) == 1 {
			return "MLoad " + field, "MLoad", nil
		}
	}
	return "", "", f.errf(fd, "accessor form (atomic.%s)", op)
}

func genDirReader(repo, out string) error {
	var sb strings.Builder
	sb.WriteString("(* GENERATED by tools/go2v (dirreadergen.go) from " + dgSrcPath + ".  Do not edit.\n")
	sb.WriteString("   readLines, readFilePathLines, rotatingFile.read and its offset accessors, loopWithError, statement by\n")
	sb.WriteString("   statement in the IR of Model/DirReaderIR.v.  Proofs/DirReaderIRTie.v proves that their interpretation\n")
	sb.WriteString("   is Model/DirReader.v. *)\n")
	sb.WriteString("From Coq Require Import String List.\nImport ListNotations.\nFrom AM Require Import Model.DirReaderIR.\nOpen Scope string_scope.\n\n")
	def := func(name, typ, body string, err error) {
		if err != nil {
			fmt.Fprintf(&sb, "(* UNSUPPORTED: %s *)\nDefinition %s : %s := UNSUPPORTED_%s.\n\n", dgComment(err.Error()), name, typ, dgIdent(name))
			return
		}
		fmt.Fprintf(&sb, "Definition %s : %s := %s.\n\n", name, typ, body)
	}
	write := func() error { return os.WriteFile(filepath.Join(out, "DirReaderProg.v"), []byte(sb.String()), 0o644) }
	f, err := dgLoad(repo)
	if err != nil {
		def("gen_dirreader_file", "nat", "", err)
		return write()
	}
	// the accessors first: the bodies refer to them by name
	var ms []string
	var merr error
	for _, name := range []string{"setOffset", "incOffsetBy", "getOffset"} {
		coq, kind, err := f.genAccessor(name)
		if err != nil {
			merr = fmt.Errorf("%s: %v", name, err)
			break
		}
		f.methods[name] = kind
		ms = append(ms, "("+dgQ(name)+", "+coq+")")
	}
	def("gen_methods", "list (string * dmeth)", dgList("", ms), merr)
	var b string
	b, err = f.genFunc("", "readLines", "int64,error")
	def("gen_readLines", "dfunc", b, err)
	b, err = f.genFunc("", "readFilePathLines", "int64,error")
	def("gen_readFilePathLines", "dfunc", b, err)
	b, err = f.genFunc(dgRotType, "read", "error")
	def("gen_read", "dfunc", b, err)
	b, err = f.genFunc(dgReaderType, "loopWithError", "error")
	def("gen_loopWithError", "dfunc", b, err)
	return write()
}
