package main

// workersgen.go: the bodies of the three worker closures RunNamedPipe hands to eg.Go, the shared objects they are
// built from, and the four constructors they call, statement by statement, as terms of the small language of
// coq/Model/WorkerWiring.v.  The Coq side inlines the constructors, substitutes the closures' local variables and
// compares the normal form with the expected wiring (Proofs/WorkerWiringTie.v: worker_wiring_from_source).
//
// Fails closed: a statement or expression outside the recognised forms becomes an UNSUPPORTED_… identifier.

import (
	"fmt"
	"go/ast"
	"go/parser"
	"go/token"
	"os"
	"path/filepath"
	"strconv"
	"strings"
)

func init() { generators = append(generators, genWorkerBodies) }

type wbCtx struct {
	fset *token.FileSet
	src  []byte
	bad  int
}

func (c *wbCtx) text(n ast.Node) string {
	return string(c.src[c.fset.Position(n.Pos()).Offset:c.fset.Position(n.End()).Offset])
}

func (c *wbCtx) unsupported(n ast.Node, what string) string {
	c.bad++
	t := strings.Join(strings.Fields(c.text(n)), " ")
	if len(t) > 120 {
		t = t[:120] + "…"
	}
	t = strings.ReplaceAll(strings.ReplaceAll(t, "(*", "( *"), "*)", "* )")
	return fmt.Sprintf("UNSUPPORTED_%s_line_%d (* %s *)", what, c.fset.Position(n.Pos()).Line, t)
}

func wbQ(s string) string {
	var b strings.Builder
	b.WriteByte('"')
	for i := 0; i < len(s); i++ {
		ch := s[i]
		switch {
		case ch == '"':
			b.WriteString("\"\"")
		case ch < 0x20 || ch > 0x7e:
			b.WriteByte('?')
		default:
			b.WriteByte(ch)
		}
	}
	b.WriteByte('"')
	return b.String()
}

func wbList(items []string) string { return "[" + strings.Join(items, "; ") + "]" }

// dotted name of a selector chain of identifiers: a.b.c
func wbDotted(e ast.Expr) (string, bool) {
	switch x := e.(type) {
	case *ast.Ident:
		return x.Name, true
	case *ast.SelectorExpr:
		if p, ok := wbDotted(x.X); ok {
			return p + "." + x.Sel.Name, true
		}
	}
	return "", false
}

// expressions: variables, field selections, calls of package-level functions, method calls, composite literals
// with keyed fields (optionally &), string / int / char literals, nil
func (c *wbCtx) exp(e ast.Expr, locals map[string]bool, pkgs map[string]bool) string {
	switch x := e.(type) {
	case *ast.ParenExpr:
		return c.exp(x.X, locals, pkgs)
	case *ast.Ident:
		if x.Name == "nil" {
			return "WNil"
		}
		return "WVar " + wbQ(x.Name)
	case *ast.BasicLit:
		switch x.Kind {
		case token.STRING:
			if s, err := strconv.Unquote(x.Value); err == nil {
				return "WStr " + wbQ(s)
			}
		case token.INT:
			if n, err := strconv.ParseInt(x.Value, 0, 64); err == nil && n >= 0 {
				return fmt.Sprintf("WInt %d", n)
			}
		case token.CHAR:
			if s, err := strconv.Unquote(x.Value); err == nil && len(s) == 1 {
				return fmt.Sprintf("WInt %d", s[0])
			}
		}
		return c.unsupported(e, "literal")
	case *ast.SelectorExpr:
		// pkg.Name (a package-level value) or value.field
		if id, ok := x.X.(*ast.Ident); ok && pkgs[id.Name] && !locals[id.Name] {
			return "WVar " + wbQ(id.Name+"."+x.Sel.Name)
		}
		return fmt.Sprintf("WSel (%s) %s", c.exp(x.X, locals, pkgs), wbQ(x.Sel.Name))
	case *ast.UnaryExpr:
		if x.Op == token.AND {
			if cl, ok := x.X.(*ast.CompositeLit); ok {
				return c.lit(cl, true, locals, pkgs)
			}
		}
		return c.unsupported(e, "unary")
	case *ast.CompositeLit:
		return c.lit(x, false, locals, pkgs)
	case *ast.CallExpr:
		if x.Ellipsis != token.NoPos {
			return c.unsupported(e, "variadic_call")
		}
		var args []string
		for _, a := range x.Args {
			args = append(args, c.exp(a, locals, pkgs))
		}
		switch f := x.Fun.(type) {
		case *ast.Ident:
			if locals[f.Name] {
				return c.unsupported(e, "call_of_local_value")
			}
			return fmt.Sprintf("WCall %s %s", wbQ(f.Name), wbList(args))
		case *ast.SelectorExpr:
			if id, ok := f.X.(*ast.Ident); ok && pkgs[id.Name] && !locals[id.Name] {
				return fmt.Sprintf("WCall %s %s", wbQ(id.Name+"."+f.Sel.Name), wbList(args))
			}
			return fmt.Sprintf("WMethod (%s) %s %s", c.exp(f.X, locals, pkgs), wbQ(f.Sel.Name), wbList(args))
		}
		return c.unsupported(e, "call")
	}
	return c.unsupported(e, "expression")
}

func (c *wbCtx) lit(cl *ast.CompositeLit, addr bool, locals, pkgs map[string]bool) string {
	ty, ok := wbDotted(cl.Type)
	if !ok {
		return c.unsupported(cl, "literal_type")
	}
	var fs []string
	for _, el := range cl.Elts {
		kv, ok := el.(*ast.KeyValueExpr)
		if !ok {
			return c.unsupported(cl, "positional_literal")
		}
		k, ok := kv.Key.(*ast.Ident)
		if !ok {
			return c.unsupported(cl, "literal_key")
		}
		fs = append(fs, fmt.Sprintf("(%s, %s)", wbQ(k.Name), c.exp(kv.Value, locals, pkgs)))
	}
	a := "false"
	if addr {
		a = "true"
	}
	return fmt.Sprintf("WLit %s %s %s", wbQ(ty), a, wbList(fs))
}

// a statement that only logs: logger.<M>(pure args…), or  if logger.Level().Enabled(…) { such statements }
func (c *wbCtx) logOnly(s ast.Stmt) bool {
	pure := func(e ast.Expr) bool {
		ok := true
		ast.Inspect(e, func(n ast.Node) bool {
			switch n.(type) {
			case *ast.CallExpr, *ast.FuncLit, *ast.UnaryExpr:
				if u, isU := n.(*ast.UnaryExpr); isU && u.Op != token.ARROW && u.Op != token.AND {
					return true
				}
				ok = false
			}
			return ok
		})
		return ok
	}
	isLoggerCall := func(e ast.Expr) bool {
		call, ok := e.(*ast.CallExpr)
		if !ok {
			return false
		}
		sel, ok := call.Fun.(*ast.SelectorExpr)
		if !ok {
			return false
		}
		id, ok := sel.X.(*ast.Ident)
		if !ok || id.Name != "logger" {
			return false
		}
		switch sel.Sel.Name {
		case "Debug", "Debugf", "Debugln", "Debugw", "Info", "Infof", "Infoln", "Infow", "Warn", "Warnf", "Warnln", "Warnw",
			"Error", "Errorf", "Errorln", "Errorw":
		default:
			return false
		}
		for _, a := range call.Args {
			if !pure(a) {
				return false
			}
		}
		return true
	}
	switch x := s.(type) {
	case *ast.ExprStmt:
		return isLoggerCall(x.X)
	case *ast.IfStmt:
		if x.Init != nil || x.Else != nil {
			return false
		}
		cond := strings.Join(strings.Fields(c.text(x.Cond)), "")
		if !strings.HasPrefix(cond, "logger.Level().Enabled(zap.") || !strings.HasSuffix(cond, "Level)") {
			return false
		}
		for _, b := range x.Body.List {
			if !c.logOnly(b) {
				return false
			}
		}
		return true
	}
	return false
}

func (c *wbCtx) stmts(list []ast.Stmt, locals, pkgs map[string]bool) []string {
	var out []string
	for _, s := range list {
		if c.logOnly(s) {
			continue
		}
		switch x := s.(type) {
		case *ast.AssignStmt:
			if len(x.Rhs) != 1 || (x.Tok != token.DEFINE && x.Tok != token.ASSIGN) {
				out = append(out, c.unsupported(s, "assignment"))
				continue
			}
			var lhs []string
			okL := true
			for _, l := range x.Lhs {
				id, ok := l.(*ast.Ident)
				if !ok {
					okL = false
					break
				}
				lhs = append(lhs, wbQ(id.Name))
			}
			if !okL {
				out = append(out, c.unsupported(s, "assignment_target"))
				continue
			}
			rhs := c.exp(x.Rhs[0], locals, pkgs)
			for _, l := range x.Lhs {
				locals[l.(*ast.Ident).Name] = true
			}
			// := and = have the same meaning for the wiring (the closures' variables are their own)
			out = append(out, fmt.Sprintf("WSet %s (%s)", wbList(lhs), rhs))
		case *ast.IfStmt:
			// if x != nil { return fmt.Errorf("… %w …", …, x) }   (or: return x)
			if x.Init != nil || x.Else != nil || len(x.Body.List) != 1 {
				out = append(out, c.unsupported(s, "if"))
				continue
			}
			be, ok := x.Cond.(*ast.BinaryExpr)
			if !ok || be.Op != token.NEQ {
				out = append(out, c.unsupported(s, "if_condition"))
				continue
			}
			v, okv := be.X.(*ast.Ident)
			n, okn := be.Y.(*ast.Ident)
			if !okv || !okn || n.Name != "nil" {
				out = append(out, c.unsupported(s, "if_condition"))
				continue
			}
			ret, ok := x.Body.List[0].(*ast.ReturnStmt)
			if !ok || len(ret.Results) != 1 {
				out = append(out, c.unsupported(s, "if_body"))
				continue
			}
			if id, ok := ret.Results[0].(*ast.Ident); ok && id.Name == v.Name {
				out = append(out, fmt.Sprintf("WIfErrReturn %s true", wbQ(v.Name)))
				continue
			}
			call, ok := ret.Results[0].(*ast.CallExpr)
			if !ok || strings.Join(strings.Fields(c.text(call.Fun)), "") != "fmt.Errorf" || len(call.Args) < 2 {
				out = append(out, c.unsupported(s, "if_return"))
				continue
			}
			last, ok := call.Args[len(call.Args)-1].(*ast.Ident)
			format, okf := call.Args[0].(*ast.BasicLit)
			if !ok || last.Name != v.Name || !okf || format.Kind != token.STRING {
				out = append(out, c.unsupported(s, "if_return"))
				continue
			}
			pureArgs := true
			for _, a := range call.Args[1 : len(call.Args)-1] {
				if _, isId := a.(*ast.Ident); !isId {
					pureArgs = false
				}
			}
			if !pureArgs {
				out = append(out, c.unsupported(s, "errorf_argument"))
				continue
			}
			wraps := "false"
			if strings.Contains(format.Value, "%w") {
				wraps = "true"
			}
			out = append(out, fmt.Sprintf("WIfErrReturn %s %s", wbQ(v.Name), wraps))
		case *ast.ReturnStmt:
			if len(x.Results) != 1 {
				out = append(out, c.unsupported(s, "return"))
				continue
			}
			out = append(out, fmt.Sprintf("WReturn (%s)", c.exp(x.Results[0], locals, pkgs)))
		default:
			out = append(out, c.unsupported(s, "statement"))
		}
	}
	return out
}

func wbImports(f *ast.File) map[string]bool {
	pk := map[string]bool{}
	for _, im := range f.Imports {
		p, err := strconv.Unquote(im.Path.Value)
		if err != nil {
			continue
		}
		name := p[strings.LastIndex(p, "/")+1:]
		if im.Name != nil {
			name = im.Name.Name
		}
		pk[name] = true
	}
	return pk
}

// a constructor: func NewX(params) T { return [&]T{field: param, …} }
func wbConstructor(repo, rel, pkg, name string) string {
	path := filepath.Join(repo, rel)
	src, err := os.ReadFile(path)
	if err != nil {
		return fmt.Sprintf("UNSUPPORTED_cannot_read_%s", strings.NewReplacer("/", "_", ".", "_").Replace(rel))
	}
	fset := token.NewFileSet()
	f, err := parser.ParseFile(fset, path, src, 0)
	if err != nil {
		return "UNSUPPORTED_parse_error"
	}
	c := &wbCtx{fset: fset, src: src}
	for _, d := range f.Decls {
		fd, ok := d.(*ast.FuncDecl)
		if !ok || fd.Recv != nil || fd.Name.Name != name || fd.Body == nil {
			continue
		}
		var params []string
		locals := map[string]bool{}
		for _, p := range fd.Type.Params.List {
			for _, n := range p.Names {
				params = append(params, wbQ(n.Name))
				locals[n.Name] = true
			}
		}
		var body []ast.Stmt
		for _, s := range fd.Body.List {
			if !c.logOnly(s) {
				body = append(body, s)
			}
		}
		if len(body) != 1 {
			return c.unsupported(fd, "constructor_body")
		}
		ret, ok := body[0].(*ast.ReturnStmt)
		if !ok || len(ret.Results) != 1 {
			return c.unsupported(fd, "constructor_body")
		}
		e := c.exp(ret.Results[0], locals, wbImports(f))
		return fmt.Sprintf("mkCtor %s %s (%s)", wbQ(pkg+"."+name), wbList(params), e)
	}
	return fmt.Sprintf("UNSUPPORTED_constructor_%s_not_found", name)
}

func genWorkerBodies(repo, out string) error {
	path := filepath.Join(repo, "cmd/namedpipe.go")
	src, err := os.ReadFile(path)
	if err != nil {
		return err
	}
	fset := token.NewFileSet()
	f, err := parser.ParseFile(fset, path, src, 0)
	if err != nil {
		return err
	}
	c := &wbCtx{fset: fset, src: src}
	pkgs := wbImports(f)
	var sb strings.Builder
	sb.WriteString("(* GENERATED by tools/go2v (workersgen.go) from cmd/namedpipe.go (RunNamedPipe: the shared objects and the\n   closures handed to eg.Go) and the constructors they call (processors/sshd, ingesters/{syslog,auditlog,namedpipe}).\n   Do not edit. *)\n")
	sb.WriteString("From Coq Require Import String List Bool ZArith.\nImport ListNotations.\nFrom AM Require Import Model.WorkerWiring.\nOpen Scope string_scope.\nOpen Scope Z_scope.\n\n")
	var fd *ast.FuncDecl
	for _, d := range f.Decls {
		if x, ok := d.(*ast.FuncDecl); ok && x.Name.Name == "RunNamedPipe" && x.Body != nil {
			fd = x
		}
	}
	if fd == nil {
		sb.WriteString("Definition gen_workers : list wworker := UNSUPPORTED_RunNamedPipe_not_found.\n")
		return os.WriteFile(filepath.Join(out, "WorkerBodies.v"), []byte(sb.String()), 0o644)
	}
	// top-level statements of RunNamedPipe: the definitions of shared objects (x := call / make / literal) and the eg.Go calls
	var shared, workers []string
	group := ""
	for _, s := range fd.Body.List {
		switch x := s.(type) {
		case *ast.AssignStmt:
			if x.Tok != token.DEFINE || len(x.Rhs) != 1 {
				continue
			}
			var lhs []string
			for _, l := range x.Lhs {
				if id, ok := l.(*ast.Ident); ok {
					lhs = append(lhs, wbQ(id.Name))
				}
			}
			call, isCall := x.Rhs[0].(*ast.CallExpr)
			if isCall && strings.Join(strings.Fields(c.text(call.Fun)), "") == "errgroup.WithContext" && len(x.Lhs) == 2 {
				group = x.Lhs[0].(*ast.Ident).Name
			}
			if isCall && strings.Join(strings.Fields(c.text(call.Fun)), "") == "make" {
				// make(chan T[, cap])
				capv := "None"
				if len(call.Args) == 2 {
					capv = "Some (" + c.exp(call.Args[1], map[string]bool{}, pkgs) + ")"
				}
				shared = append(shared, fmt.Sprintf("(%s, WMake %s (%s))", wbList(lhs), wbQ(strings.Join(strings.Fields(c.text(call.Args[0])), " ")), capv))
				continue
			}
			if _, isLit := x.Rhs[0].(*ast.BasicLit); isLit || isCall {
				// a right-hand side outside the expression forms is an opaque value: a worker that depends on it
				// cannot have the expected wiring (the tie theorem fails), one that does not is unaffected
				c2 := &wbCtx{fset: fset, src: src}
				e := c2.exp(x.Rhs[0], map[string]bool{}, pkgs)
				if c2.bad > 0 {
					e = "WOpaque " + wbQ(strings.Join(strings.Fields(c.text(x.Rhs[0])), " "))
				}
				shared = append(shared, fmt.Sprintf("(%s, %s)", wbList(lhs), e))
			}
		case *ast.ExprStmt:
			call, ok := x.X.(*ast.CallExpr)
			if !ok {
				continue
			}
			sel, ok := call.Fun.(*ast.SelectorExpr)
			if !ok || sel.Sel.Name != "Go" {
				continue
			}
			id, ok := sel.X.(*ast.Ident)
			if !ok || id.Name != group || group == "" || len(call.Args) != 1 {
				continue
			}
			fl, ok := call.Args[0].(*ast.FuncLit)
			if !ok || len(fl.Type.Params.List) != 0 {
				workers = append(workers, c.unsupported(call, "group_go_argument"))
				continue
			}
			body := c.stmts(fl.Body.List, map[string]bool{}, pkgs)
			workers = append(workers, fmt.Sprintf("mkWorker %d\n    %s", fset.Position(call.Pos()).Line, wbList(body)))
		}
	}
	fmt.Fprintf(&sb, "(* x, y := e  at the top level of RunNamedPipe (calls, literals and make only) *)\nDefinition gen_shared : list (list string * wexp) := [\n  %s].\n\n", strings.Join(shared, ";\n  "))
	fmt.Fprintf(&sb, "(* the closures handed to %s.Go, in program order; statements that only log are left out *)\nDefinition gen_workers : list wworker := [\n  %s].\n\n", group, strings.Join(workers, ";\n  "))
	ctors := []string{
		wbConstructor(repo, "processors/sshd/sshdprocessor.go", "sshd", "NewSshdProcessor"),
		wbConstructor(repo, "ingesters/syslog/syslogingester.go", "syslog", "NewSyslogIngester"),
		wbConstructor(repo, "ingesters/auditlog/auditlogingester.go", "auditlog", "NewAuditLogIngester"),
		wbConstructor(repo, "ingesters/namedpipe/namedpipeingester.go", "namedpipe", "NewNamedPipeIngester"),
	}
	fmt.Fprintf(&sb, "(* constructors: a single  return [&]T{field: parameter, …}  *)\nDefinition gen_ctors : list wctor := [\n  %s].\n", strings.Join(ctors, ";\n  "))
	return os.WriteFile(filepath.Join(out, "WorkerBodies.v"), []byte(sb.String()), 0o644)
}
