package main

import (
	"fmt"
	"go/ast"
	"go/parser"
	"go/token"
	"os"
	"path/filepath"
	"sort"
	"strings"
)

func init() { generators = append(generators, genSyncMapLocks) }

// genSyncMapLocks reads internal/common/genericsyncmap.go and every non-test file of the module:
//   - for every method of *GenericSyncMap: is its body (after an optional VerifPoint(...) hook call)
//     m.<mtx>.Lock(); defer m.<mtx>.Unlock(); ... with no other use of the mutex, i.e. one critical section?
//   - every call of a method that is NOT such a critical section (DeleteUnsafe) anywhere in the module:
//     is it lexically inside a function literal passed to Iterate / WithLockedValueDo of the SAME map
//     expression (so the map's lock is held), or inside a locked method of the map itself?
func genSyncMapLocks(repo, out string) error {
	path := filepath.Join(repo, "internal/common/genericsyncmap.go")
	src, err := os.ReadFile(path)
	if err != nil {
		return err
	}
	fset := token.NewFileSet()
	f, err := parser.ParseFile(fset, path, src, 0)
	if err != nil {
		return err
	}
	str := func(s []byte, fs *token.FileSet, n ast.Node) string {
		return strings.ReplaceAll(string(s[fs.Position(n.Pos()).Offset:fs.Position(n.End()).Offset]), " ", "")
	}
	type meth struct {
		name    string
		locked  bool
		mutex   string
		callsCB bool
	}
	var ms []meth
	locked := map[string]bool{}
	for _, d := range f.Decls {
		fd, ok := d.(*ast.FuncDecl)
		if !ok || fd.Recv == nil || len(fd.Recv.List) != 1 || fd.Body == nil {
			continue
		}
		if !strings.HasPrefix(str(src, fset, fd.Recv.List[0].Type), "*GenericSyncMap[") {
			continue
		}
		recv := "m"
		if len(fd.Recv.List[0].Names) == 1 {
			recv = fd.Recv.List[0].Names[0].Name
		}
		body := fd.Body.List
		if len(body) > 0 && strings.HasPrefix(str(src, fset, body[0]), "VerifPoint(") {
			body = body[1:]
		}
		m := meth{name: fd.Name.Name}
		if len(body) >= 2 {
			a, b := str(src, fset, body[0]), str(src, fset, body[1])
			if strings.HasPrefix(a, recv+".") && (strings.HasSuffix(a, ".Lock()")) {
				mu := strings.TrimSuffix(strings.TrimPrefix(a, recv+"."), ".Lock()")
				if b == "defer"+recv+"."+mu+".Unlock()" && !strings.ContainsAny(mu, ".(") {
					// no further Lock/Unlock of that mutex in the rest of the body
					rest := ""
					for _, st := range body[2:] {
						rest += str(src, fset, st)
					}
					if !strings.Contains(rest, recv+"."+mu+".") {
						m.locked, m.mutex = true, mu
					}
				}
			}
		}
		ast.Inspect(fd.Body, func(n ast.Node) bool {
			if c, ok := n.(*ast.CallExpr); ok {
				if id, ok := c.Fun.(*ast.Ident); ok && id.Name == "cb" {
					m.callsCB = true
				}
			}
			return true
		})
		locked[m.name] = m.locked
		ms = append(ms, m)
	}

	// calls of unlocked methods anywhere in the module
	type site struct {
		where string
		meth  string
		ok    bool
		why   string
	}
	var sites []site
	cbMethods := map[string]bool{}
	for _, m := range ms {
		if m.locked && m.callsCB {
			cbMethods[m.name] = true
		}
	}
	err = filepath.Walk(repo, func(p string, fi os.FileInfo, err error) error {
		if err != nil {
			return nil
		}
		if fi.IsDir() {
			if n := fi.Name(); n == ".git" || n == "vendor" || n == "verifharness" || n == "testdata" {
				return filepath.SkipDir
			}
			return nil
		}
		if !strings.HasSuffix(p, ".go") || strings.HasSuffix(p, "_test.go") || strings.Contains(filepath.Base(p), "verif") {
			return nil
		}
		s2, err := os.ReadFile(p)
		if err != nil {
			return nil
		}
		fs2 := token.NewFileSet()
		f2, err := parser.ParseFile(fs2, p, s2, 0)
		if err != nil {
			return nil
		}
		rel, _ := filepath.Rel(repo, p)
		for _, d := range f2.Decls {
			fd, ok := d.(*ast.FuncDecl)
			if !ok || fd.Body == nil {
				continue
			}
			inMapMethod := ""
			if fd.Recv != nil && len(fd.Recv.List) == 1 && strings.HasPrefix(str(s2, fs2, fd.Recv.List[0].Type), "*GenericSyncMap[") && rel == "internal/common/genericsyncmap.go" {
				inMapMethod = fd.Name.Name
			}
			// stack of (map expression) for enclosing locked callbacks
			var walk func(n ast.Node, held []string)
			walk = func(n ast.Node, held []string) {
				ast.Inspect(n, func(x ast.Node) bool {
					c, ok := x.(*ast.CallExpr)
					if !ok {
						return true
					}
					sel, ok := c.Fun.(*ast.SelectorExpr)
					if !ok {
						return true
					}
					recvExpr := str(s2, fs2, sel.X)
					name := sel.Sel.Name
					if cbMethods[name] {
						// arguments that are function literals run with recvExpr's lock held
						for _, a := range c.Args {
							if fl, ok := a.(*ast.FuncLit); ok {
								walk(fl.Body, append(append([]string{}, held...), recvExpr))
							} else {
								walk(a, held)
							}
						}
						walk(sel.X, held)
						return false
					}
					if lk, known := locked[name]; known && !lk && strings.HasSuffix(name, "Unsafe") {
						st := site{where: fmt.Sprintf("%s:%d %s", rel, fs2.Position(c.Pos()).Line, fd.Name.Name), meth: name}
						for _, h := range held {
							if h == recvExpr {
								st.ok, st.why = true, "inside a locked callback of "+recvExpr
							}
						}
						if !st.ok && inMapMethod != "" && locked[inMapMethod] {
							st.ok, st.why = true, "inside the locked method "+inMapMethod
						}
						if !st.ok {
							st.why = "the lock of " + recvExpr + " is not held here"
						}
						sites = append(sites, st)
					}
					return true
				})
			}
			walk(fd.Body, nil)
		}
		return nil
	})
	if err != nil {
		return err
	}
	sort.Slice(sites, func(i, j int) bool { return sites[i].where < sites[j].where })

	var sb strings.Builder
	sb.WriteString("(* GENERATED by tools/go2v (syncmap.go) from internal/common/genericsyncmap.go and every call site of its\n")
	sb.WriteString("   unlocked methods in the module. Do not edit. *)\n")
	sb.WriteString("From Coq Require Import String List Bool.\nImport ListNotations.\nOpen Scope string_scope.\n\n")
	sb.WriteString("(* method, body is  m.mtx.Lock(); defer m.mtx.Unlock(); ...  (one critical section) *)\n")
	sb.WriteString("Definition syncmap_api : list (string * bool) := [\n")
	mutexes := map[string]bool{}
	for i, m := range ms {
		sep := ";"
		if i == len(ms)-1 {
			sep = ""
		}
		if m.locked {
			mutexes[m.mutex] = true
		}
		fmt.Fprintf(&sb, "  (\"%s\", %v)%s\n", m.name, m.locked, sep)
	}
	sb.WriteString("].\n\n")
	fmt.Fprintf(&sb, "Definition syncmap_single_mutex : bool := %v.\n\n", len(mutexes) == 1)
	sb.WriteString("(* every call of an unlocked (...Unsafe) method in the module: (site, method, the map's lock is held there) *)\n")
	sb.WriteString("Definition syncmap_unsafe_calls : list (string * string * bool) := [\n")
	for i, s := range sites {
		sep := ";"
		if i == len(sites)-1 {
			sep = ""
		}
		fmt.Fprintf(&sb, "  (* %s *)\n  (\"%s\", \"%s\", %v)%s\n", strings.ReplaceAll(s.why, "*)", "* )"), s.where, s.meth, s.ok, sep)
	}
	sb.WriteString("].\n\n")
	sb.WriteString("(* a method is a critical section, or it is named ...Unsafe and only ever called with the lock held *)\n")
	sb.WriteString("Definition ends_with_unsafe (s : string) : bool :=\n  let n := String.length s in Nat.leb 6 n && String.eqb (String.substring (n - 6) 6 s) \"Unsafe\".\n")
	sb.WriteString("Definition syncmap_calls_atomic : bool :=\n  forallb (fun p => snd p || ends_with_unsafe (fst p)) syncmap_api && syncmap_single_mutex && forallb (fun c => snd c) syncmap_unsafe_calls.\n")
	return os.WriteFile(filepath.Join(out, "SyncMapLocks.v"), []byte(sb.String()), 0o644)
}
