package main

// healthgen.go: internal/health/health.go translated into the small IR of coq/Model/HealthIR.v
// (-> Gen/HealthProg.v).
//
// Every method of *Health that touches the readiness map is evaluated statement by statement over its
// AST into IR statements:
//   - which GenericSyncMap method is called matters: Store -> MStore, Len (inside the capacity of make)
//     -> CapLenPlus, Iterate(func literal) -> MIterate with the literal's body translated; any other
//     method name is UNSUPPORTED;
//   - the order of the statements (hence of the map calls) is kept;
//   - named string constants are resolved from the const declarations of the file, http.Status... from
//     GOROOT/src/net/http/status.go;
//   - receiver calls: o.IsReady() -> BIsReady, o.GetReadyzStatusMap() -> HGetStatus; anything else is
//     UNSUPPORTED;
//   - WaitForReady: the goroutine's  for { select { ... } }  is rendered arm by arm.
// It also renders what Store / Len / Iterate / NewGenericSyncMap do inside their critical section
// (internal/common/genericsyncmap.go), which functions of the package mention the map field at all,
// and how NewHealth initialises it.
// Fail closed: a statement or expression form that is not listed here makes the definition an
// UNSUPPORTED_... identifier that does not type-check in Coq.  No matching on source text.

import (
	"fmt"
	"go/ast"
	"go/parser"
	"go/token"
	"os"
	"os/exec"
	"path/filepath"
	"runtime"
	"sort"
	"strconv"
	"strings"
)

func init() { generators = append(generators, genHealth) }

const hgRecvType = "Health"

type hgFile struct {
	fset      *token.FileSet
	file      *ast.File
	imports   map[string]string // local name -> import path
	strConsts map[string]string // package-level string constants
	pkgNames  map[string]bool   // every package-level name of the file
	mapField  string            // the *common.GenericSyncMap[string, bool] field of Health
	goroot    string
}

func (f *hgFile) errf(n ast.Node, format string, a ...interface{}) error {
	return fmt.Errorf("line %d: %s", f.fset.Position(n.Pos()).Line, fmt.Sprintf(format, a...))
}

func hgCoqStr(s string) (string, bool) {
	for i := 0; i < len(s); i++ {
		if s[i] < 0x20 || s[i] > 0x7e {
			return "", false
		}
	}
	return "\"" + strings.ReplaceAll(s, "\"", "\"\"") + "\"", true
}

func hgComment(s string) string {
	return strings.ReplaceAll(strings.ReplaceAll(s, "(*", "( *"), "*)", "* )")
}

func hgIdent(s string) string {
	var sb strings.Builder
	for _, c := range s {
		if c >= 'a' && c <= 'z' || c >= 'A' && c <= 'Z' || c >= '0' && c <= '9' || c == '_' {
			sb.WriteRune(c)
		} else {
			sb.WriteByte('_')
		}
	}
	return sb.String()
}

func hgUnparen(e ast.Expr) ast.Expr {
	for {
		p, ok := e.(*ast.ParenExpr)
		if !ok {
			return e
		}
		e = p.X
	}
}

func hgIsIdent(e ast.Expr, name string) bool {
	id, ok := hgUnparen(e).(*ast.Ident)
	return ok && name != "" && name != "_" && id.Name == name
}

// pkg.Name with pkg an import of the given path
func (f *hgFile) isPkgSel(e ast.Expr, path, name string) bool {
	sel, ok := hgUnparen(e).(*ast.SelectorExpr)
	if !ok || sel.Sel.Name != name {
		return false
	}
	id, ok := sel.X.(*ast.Ident)
	return ok && f.imports[id.Name] == path
}

// pkg.<any> with pkg an import of the given path: the selected name
func (f *hgFile) pkgSelName(e ast.Expr, path string) (string, bool) {
	sel, ok := hgUnparen(e).(*ast.SelectorExpr)
	if !ok {
		return "", false
	}
	id, ok := sel.X.(*ast.Ident)
	if !ok || f.imports[id.Name] != path {
		return "", false
	}
	return sel.Sel.Name, true
}

func hgIsMapStringString(e ast.Expr) bool {
	m, ok := e.(*ast.MapType)
	return ok && hgIsIdent(m.Key, "string") && hgIsIdent(m.Value, "string")
}

// ---------------------------------------------------------------------------------------------
// translation context of one method

type hgCtx struct {
	f        *hgFile
	recv     string          // receiver name
	keyParam string          // the method's string parameter
	names    map[string]bool // every name declared in the method so far (no shadowing is accepted)
	bools    map[string]bool // local bools of the method
	resVar   string          // the result map made with make(map[string]string, ...)
	retBool  bool            // the method returns bool
	retMap   bool            // the method returns map[string]string
	// inside the Iterate callback
	inCb         bool
	cbKey, cbVal string
	cbStrs       map[string]bool
}

func (c *hgCtx) declare(n ast.Node, name string) error {
	if name == "_" {
		return c.f.errf(n, "blank name declared")
	}
	if c.names[name] || c.f.pkgNames[name] || c.f.imports[name] != "" {
		return c.f.errf(n, "name %s is declared twice or shadows a package-level name", name)
	}
	switch name {
	case "true", "false", "make", "close", "len", "string", "bool", "nil", "error":
		return c.f.errf(n, "predeclared name %s is redeclared", name)
	}
	c.names[name] = true
	return nil
}

// <recv>.<mapField>.<Method>(args)
func (c *hgCtx) mapCall(e ast.Expr) (string, []ast.Expr, bool) {
	call, ok := hgUnparen(e).(*ast.CallExpr)
	if !ok {
		return "", nil, false
	}
	sel, ok := call.Fun.(*ast.SelectorExpr)
	if !ok {
		return "", nil, false
	}
	inner, ok := sel.X.(*ast.SelectorExpr)
	if !ok || inner.Sel.Name != c.f.mapField || !hgIsIdent(inner.X, c.recv) {
		return "", nil, false
	}
	return sel.Sel.Name, call.Args, true
}

// <recv>.<Method>(args)
func (c *hgCtx) recvCall(e ast.Expr) (string, []ast.Expr, bool) {
	call, ok := hgUnparen(e).(*ast.CallExpr)
	if !ok {
		return "", nil, false
	}
	sel, ok := call.Fun.(*ast.SelectorExpr)
	if !ok || !hgIsIdent(sel.X, c.recv) {
		return "", nil, false
	}
	return sel.Sel.Name, call.Args, true
}

func hgBoolLit(e ast.Expr) (bool, bool) {
	id, ok := hgUnparen(e).(*ast.Ident)
	if !ok {
		return false, false
	}
	switch id.Name {
	case "true":
		return true, true
	case "false":
		return false, true
	}
	return false, false
}

func (c *hgCtx) bexp(e ast.Expr) (string, error) {
	e = hgUnparen(e)
	if b, ok := hgBoolLit(e); ok {
		return fmt.Sprintf("BConst %v", b), nil
	}
	switch v := e.(type) {
	case *ast.Ident:
		if c.inCb && v.Name == c.cbVal && v.Name != "_" {
			return "BEntryVal", nil
		}
		if c.bools[v.Name] {
			q, _ := hgCoqStr(v.Name)
			return "BLocal " + q, nil
		}
		return "", c.f.errf(e, "identifier %s is not a boolean this translator knows", v.Name)
	case *ast.UnaryExpr:
		if v.Op == token.NOT {
			s, err := c.bexp(v.X)
			if err != nil {
				return "", err
			}
			return "BNot (" + s + ")", nil
		}
	case *ast.CallExpr:
		if name, args, ok := c.recvCall(v); ok {
			if name == "IsReady" && len(args) == 0 {
				if c.inCb {
					return "", c.f.errf(e, "%s.IsReady() inside a locked callback (deadlock)", c.recv)
				}
				return "BIsReady", nil
			}
			return "", c.f.errf(e, "call of method %s in a condition", name)
		}
		if name, _, ok := c.mapCall(v); ok {
			return "", c.f.errf(e, "map method %s in a condition", name)
		}
	}
	return "", c.f.errf(e, "boolean expression form %T", e)
}

// a string known at translation time: literal or package-level constant
func (c *hgCtx) constStr(e ast.Expr) (string, bool) {
	e = hgUnparen(e)
	switch v := e.(type) {
	case *ast.BasicLit:
		if v.Kind == token.STRING {
			s, err := strconv.Unquote(v.Value)
			return s, err == nil
		}
	case *ast.Ident:
		if c.names[v.Name] {
			return "", false
		}
		s, ok := c.f.strConsts[v.Name]
		return s, ok
	}
	return "", false
}

func (c *hgCtx) sexp(e ast.Expr) (string, error) {
	if s, ok := c.constStr(e); ok {
		q, ok := hgCoqStr(s)
		if !ok {
			return "", c.f.errf(e, "non-printable string constant")
		}
		return "SConst " + q, nil
	}
	if id, ok := hgUnparen(e).(*ast.Ident); ok && c.inCb && c.cbStrs[id.Name] {
		q, _ := hgCoqStr(id.Name)
		return "SLocal " + q, nil
	}
	return "", c.f.errf(e, "string expression is neither a constant nor a string local of the callback")
}

func hgList(ind string, items []string) string {
	if len(items) == 0 {
		return "[]"
	}
	return "[\n" + ind + "  " + strings.Join(items, ";\n"+ind+"  ") + "]"
}

// else branch of an if statement as a statement list
func hgElse(s *ast.IfStmt) []ast.Stmt {
	switch v := s.Else.(type) {
	case nil:
		return nil
	case *ast.BlockStmt:
		return v.List
	default:
		return []ast.Stmt{v}
	}
}

// ---- the Iterate callback ----

func (c *hgCtx) cstmts(list []ast.Stmt, ind string, top bool) ([]string, error) {
	var out []string
	for _, s := range list {
		t, err := c.cstmt(s, ind, top)
		if err != nil {
			return nil, err
		}
		out = append(out, t)
	}
	return out, nil
}

func (c *hgCtx) cstmt(s ast.Stmt, ind string, top bool) (string, error) {
	switch v := s.(type) {
	case *ast.DeclStmt:
		gd, ok := v.Decl.(*ast.GenDecl)
		if !ok || gd.Tok != token.VAR || len(gd.Specs) != 1 {
			return "", c.f.errf(s, "declaration form")
		}
		vs, ok := gd.Specs[0].(*ast.ValueSpec)
		if !ok || len(vs.Names) != 1 || len(vs.Values) != 0 || !hgIsIdent(vs.Type, "string") {
			return "", c.f.errf(s, "only  var x string  is understood in the callback")
		}
		if !top {
			return "", c.f.errf(s, "declaration in a nested block of the callback")
		}
		if err := c.declare(s, vs.Names[0].Name); err != nil {
			return "", err
		}
		c.cbStrs[vs.Names[0].Name] = true
		q, _ := hgCoqStr(vs.Names[0].Name)
		return "CDeclStr " + q, nil
	case *ast.AssignStmt:
		if v.Tok != token.ASSIGN || len(v.Lhs) != 1 || len(v.Rhs) != 1 {
			return "", c.f.errf(s, "assignment form in the callback")
		}
		switch l := hgUnparen(v.Lhs[0]).(type) {
		case *ast.Ident:
			q, _ := hgCoqStr(l.Name)
			if c.bools[l.Name] {
				e, err := c.bexp(v.Rhs[0])
				if err != nil {
					return "", err
				}
				return "CSetBool " + q + " (" + e + ")", nil
			}
			if c.cbStrs[l.Name] {
				e, err := c.sexp(v.Rhs[0])
				if err != nil {
					return "", err
				}
				return "CSetStr " + q + " (" + e + ")", nil
			}
			return "", c.f.errf(s, "assignment to %s, which is neither a captured bool nor a string local", l.Name)
		case *ast.IndexExpr:
			if c.resVar == "" || !hgIsIdent(l.X, c.resVar) {
				return "", c.f.errf(s, "indexed assignment to something else than the result map")
			}
			if !hgIsIdent(l.Index, c.cbKey) {
				return "", c.f.errf(s, "result map assigned in the callback under a key that is not the callback's key parameter")
			}
			e, err := c.sexp(v.Rhs[0])
			if err != nil {
				return "", err
			}
			return "CPutEntry (" + e + ")", nil
		}
		return "", c.f.errf(s, "assignment target form in the callback")
	case *ast.IfStmt:
		if v.Init != nil {
			return "", c.f.errf(s, "if with init statement")
		}
		cond, err := c.bexp(v.Cond)
		if err != nil {
			return "", err
		}
		th, err := c.cstmts(v.Body.List, ind+"  ", false)
		if err != nil {
			return "", err
		}
		el, err := c.cstmts(hgElse(v), ind+"  ", false)
		if err != nil {
			return "", err
		}
		return "CIf (" + cond + ") " + hgList(ind+"  ", th) + " " + hgList(ind+"  ", el), nil
	case *ast.ReturnStmt:
		if len(v.Results) != 1 {
			return "", c.f.errf(s, "callback return without exactly one value")
		}
		e, err := c.bexp(v.Results[0])
		if err != nil {
			return "", err
		}
		return "CReturn (" + e + ")", nil
	case *ast.ExprStmt:
		if name, _, ok := c.mapCall(v.X); ok {
			return "", c.f.errf(s, "map method %s called inside the locked callback", name)
		}
	}
	return "", c.f.errf(s, "statement form %T in the Iterate callback", s)
}

// ---- method bodies over the map ----

func (c *hgCtx) mstmts(list []ast.Stmt, ind string, top bool) ([]string, error) {
	var out []string
	for _, s := range list {
		t, err := c.mstmt(s, ind, top)
		if err != nil {
			return nil, err
		}
		out = append(out, t)
	}
	return out, nil
}

// capacity argument of make
func (c *hgCtx) capExpr(e ast.Expr) (string, error) {
	e = hgUnparen(e)
	lenCall := func(x ast.Expr) (bool, error) {
		name, args, ok := c.mapCall(x)
		if !ok {
			return false, nil
		}
		if name != "Len" || len(args) != 0 {
			return false, c.f.errf(x, "map method %s in the capacity of make", name)
		}
		return true, nil
	}
	intLit := func(x ast.Expr) (int, bool) {
		bl, ok := hgUnparen(x).(*ast.BasicLit)
		if !ok || bl.Kind != token.INT {
			return 0, false
		}
		n, err := strconv.Atoi(bl.Value)
		return n, err == nil && n >= 0
	}
	if n, ok := intLit(e); ok {
		return fmt.Sprintf("CapConst %d", n), nil
	}
	if ok, err := lenCall(e); err != nil {
		return "", err
	} else if ok {
		return "CapLenPlus 0", nil
	}
	if b, ok := e.(*ast.BinaryExpr); ok && b.Op == token.ADD {
		okL, err := lenCall(b.X)
		if err != nil {
			return "", err
		}
		if n, okN := intLit(b.Y); okL && okN {
			return fmt.Sprintf("CapLenPlus %d", n), nil
		}
		okR, err := lenCall(b.Y)
		if err != nil {
			return "", err
		}
		if n, okN := intLit(b.X); okR && okN {
			return fmt.Sprintf("CapLenPlus %d", n), nil
		}
	}
	return "", c.f.errf(e, "capacity expression form")
}

func (c *hgCtx) mstmt(s ast.Stmt, ind string, top bool) (string, error) {
	switch v := s.(type) {
	case *ast.AssignStmt:
		if len(v.Lhs) != 1 || len(v.Rhs) != 1 {
			return "", c.f.errf(s, "multiple assignment")
		}
		if v.Tok == token.DEFINE {
			id, ok := v.Lhs[0].(*ast.Ident)
			if !ok {
				return "", c.f.errf(s, "definition target form")
			}
			if !top {
				return "", c.f.errf(s, "definition in a nested block")
			}
			q, _ := hgCoqStr(id.Name)
			if b, ok := hgBoolLit(v.Rhs[0]); ok {
				if err := c.declare(s, id.Name); err != nil {
					return "", err
				}
				c.bools[id.Name] = true
				return fmt.Sprintf("MLocalBool %s %v", q, b), nil
			}
			if call, ok := hgUnparen(v.Rhs[0]).(*ast.CallExpr); ok && hgIsIdent(call.Fun, "make") {
				if len(call.Args) < 1 || len(call.Args) > 2 || !hgIsMapStringString(call.Args[0]) {
					return "", c.f.errf(s, "make of something else than map[string]string")
				}
				if c.resVar != "" {
					return "", c.f.errf(s, "second result map")
				}
				capS := "CapConst 0"
				if len(call.Args) == 2 {
					var err error
					if capS, err = c.capExpr(call.Args[1]); err != nil {
						return "", err
					}
				}
				if err := c.declare(s, id.Name); err != nil {
					return "", err
				}
				c.resVar = id.Name
				return "MMakeResult (" + capS + ")", nil
			}
			return "", c.f.errf(s, "definition of %s from an expression that is neither a bool literal nor make(map[string]string, ..)", id.Name)
		}
		if v.Tok != token.ASSIGN {
			return "", c.f.errf(s, "assignment operator %s", v.Tok)
		}
		if l, ok := hgUnparen(v.Lhs[0]).(*ast.IndexExpr); ok && c.resVar != "" && hgIsIdent(l.X, c.resVar) {
			k, ok := c.constStr(l.Index)
			if !ok {
				return "", c.f.errf(s, "result map assigned outside the callback under a key that is not a constant")
			}
			kq, ok := hgCoqStr(k)
			if !ok {
				return "", c.f.errf(s, "non-printable key")
			}
			e, err := c.sexp(v.Rhs[0])
			if err != nil {
				return "", err
			}
			return "MPutConst " + kq + " (" + e + ")", nil
		}
		return "", c.f.errf(s, "assignment target form")
	case *ast.ExprStmt:
		if name, args, ok := c.mapCall(v.X); ok {
			switch name {
			case "Store":
				if len(args) != 2 || !hgIsIdent(args[0], c.keyParam) {
					return "", c.f.errf(s, "Store with a key that is not the method's string parameter")
				}
				b, ok := hgBoolLit(args[1])
				if !ok {
					return "", c.f.errf(s, "Store of a value that is not a bool literal")
				}
				return fmt.Sprintf("MStore KParam %v", b), nil
			case "Iterate":
				if len(args) != 1 {
					return "", c.f.errf(s, "Iterate argument count")
				}
				fl, ok := args[0].(*ast.FuncLit)
				if !ok {
					return "", c.f.errf(s, "Iterate with something else than a function literal")
				}
				return c.iterate(fl, ind)
			}
			return "", c.f.errf(s, "GenericSyncMap method %s is not one this translator gives a meaning to (Store, Len, Iterate)", name)
		}
		if name, _, ok := c.recvCall(v.X); ok {
			return "", c.f.errf(s, "call of %s.%s as a statement", c.recv, name)
		}
		return "", c.f.errf(s, "expression statement form")
	case *ast.IfStmt:
		if v.Init != nil {
			return "", c.f.errf(s, "if with init statement")
		}
		cond, err := c.bexp(v.Cond)
		if err != nil {
			return "", err
		}
		th, err := c.mstmts(v.Body.List, ind+"  ", false)
		if err != nil {
			return "", err
		}
		el, err := c.mstmts(hgElse(v), ind+"  ", false)
		if err != nil {
			return "", err
		}
		return "MIf (" + cond + ") " + hgList(ind+"  ", th) + " " + hgList(ind+"  ", el), nil
	case *ast.ReturnStmt:
		if len(v.Results) != 1 {
			return "", c.f.errf(s, "return without exactly one value")
		}
		if c.retMap {
			if c.resVar != "" && hgIsIdent(v.Results[0], c.resVar) {
				return "MReturnResult", nil
			}
			return "", c.f.errf(s, "returns something else than the result map")
		}
		if c.retBool {
			e, err := c.bexp(v.Results[0])
			if err != nil {
				return "", err
			}
			return "MReturnBool (" + e + ")", nil
		}
		return "", c.f.errf(s, "return with a value in a method without result")
	}
	return "", c.f.errf(s, "statement form %T", s)
}

func (c *hgCtx) iterate(fl *ast.FuncLit, ind string) (string, error) {
	if c.inCb {
		return "", c.f.errf(fl, "nested Iterate")
	}
	var ps []*ast.Field
	if fl.Type.Params != nil {
		ps = fl.Type.Params.List
	}
	var names []string
	var types []ast.Expr
	for _, p := range ps {
		if len(p.Names) == 0 {
			names = append(names, "_")
			types = append(types, p.Type)
		}
		for _, n := range p.Names {
			names = append(names, n.Name)
			types = append(types, p.Type)
		}
	}
	if len(names) != 2 || !hgIsIdent(types[0], "string") || !hgIsIdent(types[1], "bool") {
		return "", c.f.errf(fl, "callback is not func(string, bool) bool")
	}
	if fl.Type.Results == nil || len(fl.Type.Results.List) != 1 || len(fl.Type.Results.List[0].Names) != 0 || !hgIsIdent(fl.Type.Results.List[0].Type, "bool") {
		return "", c.f.errf(fl, "callback is not func(string, bool) bool")
	}
	for _, n := range names {
		if n != "_" {
			if err := c.declare(fl, n); err != nil {
				return "", err
			}
		}
	}
	c.inCb, c.cbKey, c.cbVal, c.cbStrs = true, names[0], names[1], map[string]bool{}
	body, err := c.cstmts(fl.Body.List, ind+"  ", true)
	// the literal's parameters and locals go out of scope
	for _, n := range names {
		delete(c.names, n)
	}
	for n := range c.cbStrs {
		delete(c.names, n)
	}
	c.inCb, c.cbKey, c.cbVal, c.cbStrs = false, "", "", nil
	if err != nil {
		return "", err
	}
	return "MIterate " + hgList(ind+"  ", body), nil
}

// ---------------------------------------------------------------------------------------------
// signatures

type hgParam struct {
	name string
	typ  ast.Expr
}

func hgParams(fl *ast.FieldList) []hgParam {
	var out []hgParam
	if fl == nil {
		return nil
	}
	for _, p := range fl.List {
		if len(p.Names) == 0 {
			out = append(out, hgParam{"_", p.Type})
		}
		for _, n := range p.Names {
			out = append(out, hgParam{n.Name, p.Type})
		}
	}
	return out
}

func (f *hgFile) method(name string) (*ast.FuncDecl, string, error) {
	var found *ast.FuncDecl
	for _, d := range f.file.Decls {
		fd, ok := d.(*ast.FuncDecl)
		if !ok || fd.Name.Name != name || fd.Recv == nil {
			continue
		}
		if found != nil {
			return nil, "", fmt.Errorf("two methods called %s", name)
		}
		found = fd
	}
	if found == nil || found.Body == nil {
		return nil, "", fmt.Errorf("method %s not found", name)
	}
	if len(found.Recv.List) != 1 || len(found.Recv.List[0].Names) != 1 {
		return nil, "", f.errf(found, "receiver form")
	}
	st, ok := found.Recv.List[0].Type.(*ast.StarExpr)
	if !ok || !hgIsIdent(st.X, hgRecvType) {
		return nil, "", f.errf(found, "receiver is not *%s", hgRecvType)
	}
	if found.Type.TypeParams != nil {
		return nil, "", f.errf(found, "type parameters")
	}
	return found, found.Recv.List[0].Names[0].Name, nil
}

func (f *hgFile) newCtx(fd *ast.FuncDecl, recv string) (*hgCtx, error) {
	c := &hgCtx{f: f, recv: recv, names: map[string]bool{}, bools: map[string]bool{}}
	if err := c.declare(fd, recv); err != nil {
		return nil, err
	}
	for _, p := range hgParams(fd.Type.Params) {
		if p.name != "_" {
			if err := c.declare(fd, p.name); err != nil {
				return nil, err
			}
		}
	}
	return c, nil
}

// AddReadiness / OnReady: func (o *Health) X(component string)
func (f *hgFile) genStoreMethod(name string) (string, error) {
	fd, recv, err := f.method(name)
	if err != nil {
		return "", err
	}
	ps := hgParams(fd.Type.Params)
	if len(ps) != 1 || ps[0].name == "_" || !hgIsIdent(ps[0].typ, "string") || fd.Type.Results != nil {
		return "", f.errf(fd, "signature is not (string)")
	}
	c, err := f.newCtx(fd, recv)
	if err != nil {
		return "", err
	}
	c.keyParam = ps[0].name
	body, err := c.mstmts(fd.Body.List, "", true)
	if err != nil {
		return "", err
	}
	return hgList("", body), nil
}

// IsReady: func (o *Health) IsReady() bool
func (f *hgFile) genIsReady() (string, error) {
	fd, recv, err := f.method("IsReady")
	if err != nil {
		return "", err
	}
	if len(hgParams(fd.Type.Params)) != 0 || fd.Type.Results == nil || len(fd.Type.Results.List) != 1 ||
		len(fd.Type.Results.List[0].Names) != 0 || !hgIsIdent(fd.Type.Results.List[0].Type, "bool") {
		return "", f.errf(fd, "signature is not () bool")
	}
	c, err := f.newCtx(fd, recv)
	if err != nil {
		return "", err
	}
	c.retBool = true
	body, err := c.mstmts(fd.Body.List, "", true)
	if err != nil {
		return "", err
	}
	return hgList("", body), nil
}

// GetReadyzStatusMap: func (o *Health) GetReadyzStatusMap() map[string]string
func (f *hgFile) genStatusMap() (string, error) {
	fd, recv, err := f.method("GetReadyzStatusMap")
	if err != nil {
		return "", err
	}
	if len(hgParams(fd.Type.Params)) != 0 || fd.Type.Results == nil || len(fd.Type.Results.List) != 1 ||
		len(fd.Type.Results.List[0].Names) != 0 || !hgIsMapStringString(fd.Type.Results.List[0].Type) {
		return "", f.errf(fd, "signature is not () map[string]string")
	}
	c, err := f.newCtx(fd, recv)
	if err != nil {
		return "", err
	}
	c.retMap = true
	body, err := c.mstmts(fd.Body.List, "", true)
	if err != nil {
		return "", err
	}
	return hgList("", body), nil
}

// ---------------------------------------------------------------------------------------------
// readyzHandler

func (f *hgFile) httpStatus(e ast.Expr) (int, error) {
	e = hgUnparen(e)
	if bl, ok := e.(*ast.BasicLit); ok && bl.Kind == token.INT {
		n, err := strconv.Atoi(bl.Value)
		if err != nil || n < 0 {
			return 0, f.errf(e, "status code literal")
		}
		return n, nil
	}
	name, ok := f.pkgSelName(e, "net/http")
	if !ok {
		return 0, f.errf(e, "status code is neither an integer literal nor a net/http constant")
	}
	if f.goroot == "" {
		return 0, f.errf(e, "GOROOT unknown: cannot resolve http.%s", name)
	}
	path := filepath.Join(f.goroot, "src", "net", "http", "status.go")
	fs := token.NewFileSet()
	sf, err := parser.ParseFile(fs, path, nil, 0)
	if err != nil {
		return 0, f.errf(e, "cannot read %s to resolve http.%s", path, name)
	}
	for _, d := range sf.Decls {
		gd, ok := d.(*ast.GenDecl)
		if !ok || gd.Tok != token.CONST {
			continue
		}
		for _, sp := range gd.Specs {
			vs, ok := sp.(*ast.ValueSpec)
			if !ok {
				continue
			}
			for i, n := range vs.Names {
				if n.Name != name || i >= len(vs.Values) {
					continue
				}
				if bl, ok := vs.Values[i].(*ast.BasicLit); ok && bl.Kind == token.INT {
					if v, err := strconv.Atoi(bl.Value); err == nil && v >= 0 {
						return v, nil
					}
				}
				return 0, f.errf(e, "http.%s is not an integer literal in %s", name, path)
			}
		}
	}
	return 0, f.errf(e, "http.%s not found in %s", name, path)
}

type hgHCtx struct {
	f     *hgFile
	c     *hgCtx
	w     string          // the http.ResponseWriter parameter
	smaps map[string]bool // variables holding a status map
}

func (h *hgHCtx) stmts(list []ast.Stmt, ind string, top bool) ([]string, error) {
	var out []string
	for _, s := range list {
		t, err := h.stmt(s, ind, top)
		if err != nil {
			return nil, err
		}
		out = append(out, t)
	}
	return out, nil
}

// json.NewEncoder(w).Encode(x)
func (h *hgHCtx) encodeCall(e ast.Expr) (string, bool) {
	call, ok := hgUnparen(e).(*ast.CallExpr)
	if !ok || len(call.Args) != 1 {
		return "", false
	}
	sel, ok := call.Fun.(*ast.SelectorExpr)
	if !ok || sel.Sel.Name != "Encode" {
		return "", false
	}
	inner, ok := sel.X.(*ast.CallExpr)
	if !ok || len(inner.Args) != 1 || !h.f.isPkgSel(inner.Fun, "encoding/json", "NewEncoder") || !hgIsIdent(inner.Args[0], h.w) {
		return "", false
	}
	id, ok := hgUnparen(call.Args[0]).(*ast.Ident)
	if !ok || !h.smaps[id.Name] {
		return "", false
	}
	return id.Name, true
}

func (h *hgHCtx) stmt(s ast.Stmt, ind string, top bool) (string, error) {
	f := h.f
	switch v := s.(type) {
	case *ast.AssignStmt:
		if len(v.Lhs) != 1 || len(v.Rhs) != 1 {
			return "", f.errf(s, "multiple assignment")
		}
		if v.Tok == token.DEFINE {
			id, ok := v.Lhs[0].(*ast.Ident)
			if !ok || !top {
				return "", f.errf(s, "definition form")
			}
			name, args, ok := h.c.recvCall(v.Rhs[0])
			if !ok || name != "GetReadyzStatusMap" || len(args) != 0 {
				return "", f.errf(s, "definition from something else than %s.GetReadyzStatusMap()", h.c.recv)
			}
			if err := h.c.declare(s, id.Name); err != nil {
				return "", err
			}
			h.smaps[id.Name] = true
			q, _ := hgCoqStr(id.Name)
			return "HGetStatus " + q, nil
		}
		// _ = json.NewEncoder(w).Encode(x)
		if id, ok := v.Lhs[0].(*ast.Ident); ok && id.Name == "_" && v.Tok == token.ASSIGN {
			if x, ok := h.encodeCall(v.Rhs[0]); ok {
				q, _ := hgCoqStr(x)
				return "HEncode " + q, nil
			}
		}
		return "", f.errf(s, "assignment form in the handler")
	case *ast.ExprStmt:
		if x, ok := h.encodeCall(v.X); ok {
			q, _ := hgCoqStr(x)
			return "HEncode " + q, nil
		}
		call, ok := v.X.(*ast.CallExpr)
		if ok {
			if sel, ok := call.Fun.(*ast.SelectorExpr); ok && hgIsIdent(sel.X, h.w) && sel.Sel.Name == "WriteHeader" && len(call.Args) == 1 {
				n, err := f.httpStatus(call.Args[0])
				if err != nil {
					return "", err
				}
				return fmt.Sprintf("HWriteHeader %d", n), nil
			}
		}
		return "", f.errf(s, "expression statement form in the handler")
	case *ast.IfStmt:
		if v.Init != nil {
			return "", f.errf(s, "if with init statement")
		}
		b, ok := hgUnparen(v.Cond).(*ast.BinaryExpr)
		if !ok || b.Op != token.EQL {
			return "", f.errf(s, "handler condition is not  x[key] == constant")
		}
		ix, ok := hgUnparen(b.X).(*ast.IndexExpr)
		if !ok {
			return "", f.errf(s, "handler condition is not  x[key] == constant")
		}
		id, ok := hgUnparen(ix.X).(*ast.Ident)
		if !ok || !h.smaps[id.Name] {
			return "", f.errf(s, "handler condition indexes something else than the status map")
		}
		key, ok1 := h.c.constStr(ix.Index)
		cst, ok2 := h.c.constStr(b.Y)
		if !ok1 || !ok2 {
			return "", f.errf(s, "handler condition: key or compared value is not a string constant")
		}
		kq, ok1 := hgCoqStr(key)
		cq, ok2 := hgCoqStr(cst)
		if !ok1 || !ok2 {
			return "", f.errf(s, "non-printable constant")
		}
		th, err := h.stmts(v.Body.List, ind+"  ", false)
		if err != nil {
			return "", err
		}
		el, err := h.stmts(hgElse(v), ind+"  ", false)
		if err != nil {
			return "", err
		}
		xq, _ := hgCoqStr(id.Name)
		return "HIfIndexEq " + xq + " " + kq + " " + cq + " " + hgList(ind+"  ", th) + " " + hgList(ind+"  ", el), nil
	}
	return "", f.errf(s, "statement form %T in the handler", s)
}

func (f *hgFile) genHandler() (string, error) {
	fd, recv, err := f.method("readyzHandler")
	if err != nil {
		return "", err
	}
	ps := hgParams(fd.Type.Params)
	if len(ps) != 2 || ps[0].name == "_" || !f.isPkgSel(ps[0].typ, "net/http", "ResponseWriter") || fd.Type.Results != nil {
		return "", f.errf(fd, "signature is not (http.ResponseWriter, *http.Request)")
	}
	if st, ok := ps[1].typ.(*ast.StarExpr); !ok || !f.isPkgSel(st.X, "net/http", "Request") {
		return "", f.errf(fd, "signature is not (http.ResponseWriter, *http.Request)")
	}
	c, err := f.newCtx(fd, recv)
	if err != nil {
		return "", err
	}
	h := &hgHCtx{f: f, c: c, w: ps[0].name, smaps: map[string]bool{}}
	body, err := h.stmts(fd.Body.List, "", true)
	if err != nil {
		return "", err
	}
	return hgList("", body), nil
}

// ---------------------------------------------------------------------------------------------
// WaitForReady

type hgWCtx struct {
	f                *hgFile
	c                *hgCtx
	ctx, out, ticker string
}

// x.Name() with x an identifier
func hgIdentCall(e ast.Expr, x, name string) bool {
	call, ok := hgUnparen(e).(*ast.CallExpr)
	if !ok || len(call.Args) != 0 {
		return false
	}
	sel, ok := call.Fun.(*ast.SelectorExpr)
	return ok && sel.Sel.Name == name && hgIsIdent(sel.X, x)
}

func (w *hgWCtx) stmts(list []ast.Stmt, ind string) ([]string, error) {
	var out []string
	for _, s := range list {
		t, err := w.stmt(s, ind)
		if err != nil {
			return nil, err
		}
		out = append(out, t)
	}
	return out, nil
}

func (w *hgWCtx) stmt(s ast.Stmt, ind string) (string, error) {
	f := w.f
	switch v := s.(type) {
	case *ast.SendStmt:
		if hgIsIdent(v.Chan, w.out) && hgIdentCall(v.Value, w.ctx, "Err") {
			return "WSendErr", nil
		}
		return "", f.errf(s, "send that is not  %s <- %s.Err()", w.out, w.ctx)
	case *ast.ExprStmt:
		if call, ok := v.X.(*ast.CallExpr); ok && hgIsIdent(call.Fun, "close") && len(call.Args) == 1 && hgIsIdent(call.Args[0], w.out) {
			return "WClose", nil
		}
		return "", f.errf(s, "expression statement form in a select arm")
	case *ast.ReturnStmt:
		if len(v.Results) == 0 {
			return "WReturn", nil
		}
		return "", f.errf(s, "return with a value inside the goroutine")
	case *ast.IfStmt:
		if v.Init != nil {
			return "", f.errf(s, "if with init statement")
		}
		cond, err := w.c.bexp(v.Cond)
		if err != nil {
			return "", err
		}
		th, err := w.stmts(v.Body.List, ind+"  ")
		if err != nil {
			return "", err
		}
		el, err := w.stmts(hgElse(v), ind+"  ")
		if err != nil {
			return "", err
		}
		return "WIf (" + cond + ") " + hgList(ind+"  ", th) + " " + hgList(ind+"  ", el), nil
	}
	return "", f.errf(s, "statement form %T in a select arm", s)
}

func (f *hgFile) genWait() (string, error) {
	fd, recv, err := f.method("WaitForReady")
	if err != nil {
		return "", err
	}
	ps := hgParams(fd.Type.Params)
	if len(ps) != 1 || ps[0].name == "_" || !f.isPkgSel(ps[0].typ, "context", "Context") {
		return "", f.errf(fd, "signature is not (context.Context) <-chan error")
	}
	isChanErr := func(e ast.Expr, dir ast.ChanDir) bool {
		ch, ok := e.(*ast.ChanType)
		return ok && ch.Dir == dir && hgIsIdent(ch.Value, "error")
	}
	if fd.Type.Results == nil || len(fd.Type.Results.List) != 1 || len(fd.Type.Results.List[0].Names) != 0 ||
		!isChanErr(fd.Type.Results.List[0].Type, ast.RECV) {
		return "", f.errf(fd, "signature is not (context.Context) <-chan error")
	}
	c, err := f.newCtx(fd, recv)
	if err != nil {
		return "", err
	}
	w := &hgWCtx{f: f, c: c, ctx: ps[0].name}
	body := fd.Body.List
	if len(body) != 3 {
		return "", f.errf(fd, "body is not  out := make(chan error); go func() {...}(); return out")
	}
	// out := make(chan error[, n])
	as, ok := body[0].(*ast.AssignStmt)
	if !ok || as.Tok != token.DEFINE || len(as.Lhs) != 1 || len(as.Rhs) != 1 {
		return "", f.errf(body[0], "first statement is not  out := make(chan error)")
	}
	outID, ok := as.Lhs[0].(*ast.Ident)
	mk, ok2 := as.Rhs[0].(*ast.CallExpr)
	if !ok || !ok2 || !hgIsIdent(mk.Fun, "make") || len(mk.Args) < 1 || len(mk.Args) > 2 || !isChanErr(mk.Args[0], ast.SEND|ast.RECV) {
		return "", f.errf(body[0], "first statement is not  out := make(chan error)")
	}
	capN := 0
	if len(mk.Args) == 2 {
		bl, ok := mk.Args[1].(*ast.BasicLit)
		if !ok || bl.Kind != token.INT {
			return "", f.errf(body[0], "channel capacity is not an integer literal")
		}
		if capN, err = strconv.Atoi(bl.Value); err != nil || capN < 0 {
			return "", f.errf(body[0], "channel capacity is not an integer literal")
		}
	}
	if err := c.declare(body[0], outID.Name); err != nil {
		return "", err
	}
	w.out = outID.Name
	// return out
	rs, ok := body[2].(*ast.ReturnStmt)
	if !ok || len(rs.Results) != 1 || !hgIsIdent(rs.Results[0], w.out) {
		return "", f.errf(body[2], "last statement is not  return %s", w.out)
	}
	// go func() { ... }()
	gs, ok := body[1].(*ast.GoStmt)
	if !ok || len(gs.Call.Args) != 0 {
		return "", f.errf(body[1], "second statement is not  go func() {...}()")
	}
	fl, ok := gs.Call.Fun.(*ast.FuncLit)
	if !ok || len(hgParams(fl.Type.Params)) != 0 || fl.Type.Results != nil {
		return "", f.errf(body[1], "second statement is not  go func() {...}()")
	}
	gb := fl.Body.List
	if len(gb) < 2 {
		return "", f.errf(fl, "goroutine body is not  ticker := time.NewTicker(..); for { select {...} }")
	}
	// ticker := time.NewTicker(d)
	ts, ok := gb[0].(*ast.AssignStmt)
	if !ok || ts.Tok != token.DEFINE || len(ts.Lhs) != 1 || len(ts.Rhs) != 1 {
		return "", f.errf(gb[0], "goroutine does not start with  ticker := time.NewTicker(..)")
	}
	tid, ok := ts.Lhs[0].(*ast.Ident)
	tc, ok2 := ts.Rhs[0].(*ast.CallExpr)
	if !ok || !ok2 || !f.isPkgSel(tc.Fun, "time", "NewTicker") || len(tc.Args) != 1 {
		return "", f.errf(gb[0], "goroutine does not start with  ticker := time.NewTicker(..)")
	}
	bad := false
	ast.Inspect(tc.Args[0], func(n ast.Node) bool {
		switch x := n.(type) {
		case *ast.CallExpr, *ast.FuncLit, *ast.UnaryExpr:
			bad = true
		case *ast.Ident:
			if c.names[x.Name] {
				bad = true
			}
		}
		return true
	})
	if bad {
		return "", f.errf(gb[0], "ticker interval is not a plain package-level value")
	}
	if err := c.declare(gb[0], tid.Name); err != nil {
		return "", err
	}
	w.ticker = tid.Name
	rest := gb[1:]
	// optional: defer ticker.Stop()
	if ds, ok := rest[0].(*ast.DeferStmt); ok {
		if !hgIdentCall(ds.Call, w.ticker, "Stop") {
			return "", f.errf(rest[0], "defer of something else than %s.Stop()", w.ticker)
		}
		rest = rest[1:]
	}
	if len(rest) != 1 {
		return "", f.errf(fl, "goroutine body is not  ticker := time.NewTicker(..); for { select {...} }")
	}
	fs, ok := rest[0].(*ast.ForStmt)
	if !ok || fs.Init != nil || fs.Cond != nil || fs.Post != nil || len(fs.Body.List) != 1 {
		return "", f.errf(rest[0], "not  for { select {...} }")
	}
	sel, ok := fs.Body.List[0].(*ast.SelectStmt)
	if !ok {
		return "", f.errf(fs.Body.List[0], "not  for { select {...} }")
	}
	var arms []string
	for _, cl := range sel.Body.List {
		cc, ok := cl.(*ast.CommClause)
		if !ok || cc.Comm == nil {
			return "", f.errf(cl, "select with a default arm")
		}
		es, ok := cc.Comm.(*ast.ExprStmt)
		if !ok {
			return "", f.errf(cl, "select arm that is not a bare receive")
		}
		ue, ok := hgUnparen(es.X).(*ast.UnaryExpr)
		if !ok || ue.Op != token.ARROW {
			return "", f.errf(cl, "select arm that is not a bare receive")
		}
		guard := ""
		if hgIdentCall(ue.X, w.ctx, "Done") {
			guard = "GCtxDone"
		} else if s2, ok := hgUnparen(ue.X).(*ast.SelectorExpr); ok && s2.Sel.Name == "C" && hgIsIdent(s2.X, w.ticker) {
			guard = "GTick"
		} else {
			return "", f.errf(cl, "select arm receives from something else than %s.Done() or %s.C", w.ctx, w.ticker)
		}
		b, err := w.stmts(cc.Body, "      ")
		if err != nil {
			return "", err
		}
		arms = append(arms, "("+guard+", "+hgList("      ", b)+")")
	}
	return fmt.Sprintf("{| w_out_cap := %d;\n   w_spawned := true;\n   w_arms := %s |}", capN, hgList("    ", arms)), nil
}

// ---------------------------------------------------------------------------------------------
// NewHealth, users of the map field

// func NewHealth() *Health { return &Health{readyMap: common.NewGenericSyncMap[string, bool]()} }
func (f *hgFile) genNewHealth() (string, error) {
	var fd *ast.FuncDecl
	for _, d := range f.file.Decls {
		if x, ok := d.(*ast.FuncDecl); ok && x.Recv == nil && x.Name.Name == "NewHealth" {
			fd = x
		}
	}
	if fd == nil || fd.Body == nil {
		return "", fmt.Errorf("NewHealth not found")
	}
	if len(hgParams(fd.Type.Params)) != 0 || len(fd.Body.List) != 1 {
		return "", f.errf(fd, "NewHealth is not a single return of a composite literal")
	}
	rs, ok := fd.Body.List[0].(*ast.ReturnStmt)
	if !ok || len(rs.Results) != 1 {
		return "", f.errf(fd, "NewHealth is not a single return of a composite literal")
	}
	ue, ok := rs.Results[0].(*ast.UnaryExpr)
	if !ok || ue.Op != token.AND {
		return "", f.errf(rs, "NewHealth does not return &%s{...}", hgRecvType)
	}
	cl, ok := ue.X.(*ast.CompositeLit)
	if !ok || !hgIsIdent(cl.Type, hgRecvType) || len(cl.Elts) != 1 {
		return "", f.errf(rs, "NewHealth does not return &%s{%s: ...}", hgRecvType, f.mapField)
	}
	kv, ok := cl.Elts[0].(*ast.KeyValueExpr)
	if !ok || !hgIsIdent(kv.Key, f.mapField) {
		return "", f.errf(rs, "NewHealth does not return &%s{%s: ...}", hgRecvType, f.mapField)
	}
	call, ok := kv.Value.(*ast.CallExpr)
	if !ok || len(call.Args) != 0 {
		return "", f.errf(rs, "map field is not initialised by common.NewGenericSyncMap[string, bool]()")
	}
	fun := call.Fun
	switch ix := fun.(type) {
	case *ast.IndexListExpr:
		if len(ix.Indices) != 2 || !hgIsIdent(ix.Indices[0], "string") || !hgIsIdent(ix.Indices[1], "bool") {
			return "", f.errf(rs, "map is not instantiated at [string, bool]")
		}
		fun = ix.X
	default:
		return "", f.errf(rs, "map field is not initialised by common.NewGenericSyncMap[string, bool]()")
	}
	if !f.isPkgSel(fun, "github.com/metal-toolbox/audito-maldito/internal/common", "NewGenericSyncMap") {
		return "", f.errf(rs, "map field is not initialised by common.NewGenericSyncMap")
	}
	return "InitEmptyMap", nil
}

// names of the functions of the package (non-test files) that mention the map field, in source order
func hgMapUsers(dir, field string) ([]string, error) {
	ents, err := os.ReadDir(dir)
	if err != nil {
		return nil, err
	}
	var files []string
	for _, e := range ents {
		if !e.IsDir() && strings.HasSuffix(e.Name(), ".go") && !strings.HasSuffix(e.Name(), "_test.go") {
			files = append(files, e.Name())
		}
	}
	sort.Strings(files)
	var out []string
	for _, name := range files {
		fs := token.NewFileSet()
		af, err := parser.ParseFile(fs, filepath.Join(dir, name), nil, 0)
		if err != nil {
			return nil, err
		}
		for _, d := range af.Decls {
			mentions := false
			ast.Inspect(d, func(n ast.Node) bool {
				switch x := n.(type) {
				case *ast.SelectorExpr:
					if x.Sel.Name == field {
						mentions = true
					}
				case *ast.KeyValueExpr:
					if hgIsIdent(x.Key, field) {
						mentions = true
					}
				}
				return true
			})
			if !mentions {
				continue
			}
			switch x := d.(type) {
			case *ast.FuncDecl:
				out = append(out, x.Name.Name)
			default:
				out = append(out, fmt.Sprintf("declaration at %s:%d", name, fs.Position(d.Pos()).Line))
			}
		}
	}
	return out, nil
}

// ---------------------------------------------------------------------------------------------
// internal/common/genericsyncmap.go: what Store / Len / Iterate / NewGenericSyncMap do to the map

func hgSyncMapSem(repo string) ([][2]string, error) {
	path := filepath.Join(repo, "internal/common/genericsyncmap.go")
	fs := token.NewFileSet()
	af, err := parser.ParseFile(fs, path, nil, 0)
	if err != nil {
		return nil, err
	}
	errf := func(n ast.Node, format string, a ...interface{}) error {
		return fmt.Errorf("genericsyncmap.go line %d: %s", fs.Position(n.Pos()).Line, fmt.Sprintf(format, a...))
	}
	// the map field of the struct
	field := ""
	for _, d := range af.Decls {
		gd, ok := d.(*ast.GenDecl)
		if !ok || gd.Tok != token.TYPE {
			continue
		}
		for _, sp := range gd.Specs {
			ts, ok := sp.(*ast.TypeSpec)
			if !ok || ts.Name.Name != "GenericSyncMap" {
				continue
			}
			st, ok := ts.Type.(*ast.StructType)
			if !ok {
				return nil, errf(ts, "GenericSyncMap is not a struct")
			}
			for _, fl := range st.Fields.List {
				if m, ok := fl.Type.(*ast.MapType); ok && hgIsIdent(m.Key, "K") && hgIsIdent(m.Value, "V") {
					if field != "" || len(fl.Names) != 1 {
						return nil, errf(fl, "more than one map[K]V field")
					}
					field = fl.Names[0].Name
				}
			}
		}
	}
	if field == "" {
		return nil, fmt.Errorf("genericsyncmap.go: no map[K]V field in GenericSyncMap")
	}
	isField := func(e ast.Expr, recv string) bool {
		sel, ok := hgUnparen(e).(*ast.SelectorExpr)
		return ok && sel.Sel.Name == field && hgIsIdent(sel.X, recv)
	}
	// body without the hook call and the lock prelude (Gen/SyncMapLocks.v is about those)
	strip := func(fd *ast.FuncDecl) []ast.Stmt {
		body := fd.Body.List
		if len(body) > 0 {
			if es, ok := body[0].(*ast.ExprStmt); ok {
				if call, ok := es.X.(*ast.CallExpr); ok && hgIsIdent(call.Fun, "VerifPoint") {
					body = body[1:]
				}
			}
		}
		if len(body) >= 2 {
			es, ok1 := body[0].(*ast.ExprStmt)
			ds, ok2 := body[1].(*ast.DeferStmt)
			if ok1 && ok2 {
				c1, ok := es.X.(*ast.CallExpr)
				if ok && len(c1.Args) == 0 && len(ds.Call.Args) == 0 {
					s1, okA := c1.Fun.(*ast.SelectorExpr)
					s2, okB := ds.Call.Fun.(*ast.SelectorExpr)
					if okA && okB && s1.Sel.Name == "Lock" && s2.Sel.Name == "Unlock" {
						body = body[2:]
					}
				}
			}
		}
		return body
	}
	want := []string{"NewGenericSyncMap", "Store", "Len", "Iterate"}
	sem := map[string]string{}
	for _, d := range af.Decls {
		fd, ok := d.(*ast.FuncDecl)
		if !ok || fd.Body == nil {
			continue
		}
		name := fd.Name.Name
		isWanted := false
		for _, w := range want {
			if w == name {
				isWanted = true
			}
		}
		if !isWanted {
			continue
		}
		if _, dup := sem[name]; dup {
			return nil, errf(fd, "%s declared twice", name)
		}
		if name == "NewGenericSyncMap" {
			// return &GenericSyncMap[K, V]{ m: make(map[K]V) }
			if fd.Recv != nil || len(fd.Body.List) != 1 {
				return nil, errf(fd, "NewGenericSyncMap form")
			}
			rs, ok := fd.Body.List[0].(*ast.ReturnStmt)
			if !ok || len(rs.Results) != 1 {
				return nil, errf(fd, "NewGenericSyncMap form")
			}
			ue, ok := rs.Results[0].(*ast.UnaryExpr)
			if !ok || ue.Op != token.AND {
				return nil, errf(fd, "NewGenericSyncMap form")
			}
			cl, ok := ue.X.(*ast.CompositeLit)
			if !ok || len(cl.Elts) != 1 {
				return nil, errf(fd, "NewGenericSyncMap form")
			}
			if ix, ok := cl.Type.(*ast.IndexListExpr); !ok || !hgIsIdent(ix.X, "GenericSyncMap") {
				return nil, errf(fd, "NewGenericSyncMap form")
			}
			kv, ok := cl.Elts[0].(*ast.KeyValueExpr)
			if !ok || !hgIsIdent(kv.Key, field) {
				return nil, errf(fd, "NewGenericSyncMap form")
			}
			mk, ok := kv.Value.(*ast.CallExpr)
			if !ok || !hgIsIdent(mk.Fun, "make") || len(mk.Args) != 1 {
				return nil, errf(fd, "NewGenericSyncMap does not start with an empty map")
			}
			if m, ok := mk.Args[0].(*ast.MapType); !ok || !hgIsIdent(m.Key, "K") || !hgIsIdent(m.Value, "V") {
				return nil, errf(fd, "NewGenericSyncMap does not start with an empty map")
			}
			sem[name] = "SemEmpty"
			continue
		}
		if fd.Recv == nil || len(fd.Recv.List) != 1 || len(fd.Recv.List[0].Names) != 1 {
			return nil, errf(fd, "receiver form")
		}
		recv := fd.Recv.List[0].Names[0].Name
		ps := hgParams(fd.Type.Params)
		body := strip(fd)
		switch name {
		case "Store":
			// m.m[key] = value
			if len(ps) != 2 || len(body) != 1 {
				return nil, errf(fd, "Store form")
			}
			as, ok := body[0].(*ast.AssignStmt)
			if !ok || as.Tok != token.ASSIGN || len(as.Lhs) != 1 || len(as.Rhs) != 1 {
				return nil, errf(fd, "Store form")
			}
			ix, ok := as.Lhs[0].(*ast.IndexExpr)
			if !ok || !isField(ix.X, recv) || !hgIsIdent(ix.Index, ps[0].name) || !hgIsIdent(as.Rhs[0], ps[1].name) {
				return nil, errf(fd, "Store is not  %s.%s[key] = value", recv, field)
			}
			sem[name] = "SemAssign"
		case "Len":
			// return len(m.m)
			if len(ps) != 0 || len(body) != 1 {
				return nil, errf(fd, "Len form")
			}
			rs, ok := body[0].(*ast.ReturnStmt)
			if !ok || len(rs.Results) != 1 {
				return nil, errf(fd, "Len form")
			}
			call, ok := rs.Results[0].(*ast.CallExpr)
			if !ok || !hgIsIdent(call.Fun, "len") || len(call.Args) != 1 || !isField(call.Args[0], recv) {
				return nil, errf(fd, "Len is not  return len(%s.%s)", recv, field)
			}
			sem[name] = "SemLen"
		case "Iterate":
			// for k, v := range m.m { if !cb(k, v) { break } }
			if len(ps) != 1 || len(body) != 1 {
				return nil, errf(fd, "Iterate form")
			}
			rg, ok := body[0].(*ast.RangeStmt)
			if !ok || rg.Tok != token.DEFINE || !isField(rg.X, recv) || len(rg.Body.List) != 1 {
				return nil, errf(fd, "Iterate form")
			}
			k, ok1 := rg.Key.(*ast.Ident)
			v, ok2 := rg.Value.(*ast.Ident)
			is, ok3 := rg.Body.List[0].(*ast.IfStmt)
			if !ok1 || !ok2 || !ok3 || is.Init != nil || is.Else != nil || len(is.Body.List) != 1 {
				return nil, errf(fd, "Iterate form")
			}
			br, ok := is.Body.List[0].(*ast.BranchStmt)
			if !ok || br.Tok != token.BREAK || br.Label != nil {
				return nil, errf(fd, "Iterate does not break out of the range on a false callback result")
			}
			ne, ok := hgUnparen(is.Cond).(*ast.UnaryExpr)
			if !ok || ne.Op != token.NOT {
				return nil, errf(fd, "Iterate does not break out of the range on a false callback result")
			}
			call, ok := hgUnparen(ne.X).(*ast.CallExpr)
			if !ok || !hgIsIdent(call.Fun, ps[0].name) || len(call.Args) != 2 || !hgIsIdent(call.Args[0], k.Name) || !hgIsIdent(call.Args[1], v.Name) {
				return nil, errf(fd, "Iterate does not call the callback with (key, value) of the entry")
			}
			sem[name] = "SemRangeUntilFalse"
		}
	}
	var out [][2]string
	for _, w := range want {
		s, ok := sem[w]
		if !ok {
			return nil, fmt.Errorf("genericsyncmap.go: %s not found", w)
		}
		out = append(out, [2]string{w, s})
	}
	return out, nil
}

// ---------------------------------------------------------------------------------------------

func hgGoroot() string {
	if r := runtime.GOROOT(); r != "" {
		if _, err := os.Stat(filepath.Join(r, "src", "net", "http", "status.go")); err == nil {
			return r
		}
	}
	if out, err := exec.Command("go", "env", "GOROOT").Output(); err == nil {
		r := strings.TrimSpace(string(out))
		if _, err := os.Stat(filepath.Join(r, "src", "net", "http", "status.go")); err == nil {
			return r
		}
	}
	return ""
}

func hgLoad(repo string) (*hgFile, error) {
	path := filepath.Join(repo, "internal/health/health.go")
	fset := token.NewFileSet()
	af, err := parser.ParseFile(fset, path, nil, 0)
	if err != nil {
		return nil, err
	}
	f := &hgFile{fset: fset, file: af, imports: map[string]string{}, strConsts: map[string]string{}, pkgNames: map[string]bool{}, goroot: hgGoroot()}
	for _, im := range af.Imports {
		p, err := strconv.Unquote(im.Path.Value)
		if err != nil {
			return nil, err
		}
		name := p[strings.LastIndex(p, "/")+1:]
		if im.Name != nil {
			name = im.Name.Name
		}
		if name == "_" || name == "." {
			return nil, fmt.Errorf("health.go: blank or dot import of %s", p)
		}
		f.imports[name] = p
	}
	for _, d := range af.Decls {
		switch x := d.(type) {
		case *ast.FuncDecl:
			if x.Recv == nil {
				f.pkgNames[x.Name.Name] = true
			}
		case *ast.GenDecl:
			for _, sp := range x.Specs {
				switch s := sp.(type) {
				case *ast.TypeSpec:
					f.pkgNames[s.Name.Name] = true
					if s.Name.Name != hgRecvType {
						continue
					}
					st, ok := s.Type.(*ast.StructType)
					if !ok {
						return nil, fmt.Errorf("health.go: %s is not a struct", hgRecvType)
					}
					for _, fl := range st.Fields.List {
						// *common.GenericSyncMap[string, bool]
						se, ok := fl.Type.(*ast.StarExpr)
						if !ok {
							continue
						}
						ix, ok := se.X.(*ast.IndexListExpr)
						if !ok || !f.isPkgSel(ix.X, "github.com/metal-toolbox/audito-maldito/internal/common", "GenericSyncMap") {
							continue
						}
						if len(ix.Indices) != 2 || !hgIsIdent(ix.Indices[0], "string") || !hgIsIdent(ix.Indices[1], "bool") || len(fl.Names) != 1 || f.mapField != "" {
							return nil, fmt.Errorf("health.go: %s does not have exactly one GenericSyncMap[string, bool] field", hgRecvType)
						}
						f.mapField = fl.Names[0].Name
					}
				case *ast.ValueSpec:
					for i, n := range s.Names {
						f.pkgNames[n.Name] = true
						if x.Tok != token.CONST || s.Type != nil || i >= len(s.Values) {
							continue
						}
						if bl, ok := s.Values[i].(*ast.BasicLit); ok && bl.Kind == token.STRING {
							if v, err := strconv.Unquote(bl.Value); err == nil {
								f.strConsts[n.Name] = v
							}
						}
					}
				}
			}
		}
	}
	if f.mapField == "" {
		return nil, fmt.Errorf("health.go: %s has no GenericSyncMap[string, bool] field", hgRecvType)
	}
	return f, nil
}

func genHealth(repo, out string) error {
	var sb strings.Builder
	sb.WriteString("(* GENERATED by tools/go2v (healthgen.go) from internal/health/health.go (and internal/common/genericsyncmap.go,\n")
	sb.WriteString("   GOROOT/src/net/http/status.go for the status codes).  Do not edit.\n")
	sb.WriteString("   Every method that touches the readiness map, statement by statement, in the IR of Model/HealthIR.v. *)\n")
	sb.WriteString("From Coq Require Import String List.\nImport ListNotations.\nFrom AM Require Import Model.HealthIR.\nOpen Scope string_scope.\n\n")
	def := func(name, typ, body string, err error) {
		if err != nil {
			fmt.Fprintf(&sb, "(* UNSUPPORTED: %s *)\nDefinition %s : %s := UNSUPPORTED_%s.\n\n", hgComment(err.Error()), name, typ, hgIdent(name))
			return
		}
		fmt.Fprintf(&sb, "Definition %s : %s := %s.\n\n", name, typ, body)
	}
	f, err := hgLoad(repo)
	if err != nil {
		def("gen_health_file", "nat", "", err)
		return os.WriteFile(filepath.Join(out, "HealthProg.v"), []byte(sb.String()), 0o644)
	}
	var b string
	b, err = f.genNewHealth()
	def("gen_NewHealth", "hinit", b, err)
	b, err = f.genStoreMethod("AddReadiness")
	def("gen_AddReadiness", "list mstmt", b, err)
	b, err = f.genStoreMethod("OnReady")
	def("gen_OnReady", "list mstmt", b, err)
	b, err = f.genIsReady()
	def("gen_IsReady", "list mstmt", b, err)
	b, err = f.genStatusMap()
	def("gen_GetReadyzStatusMap", "list mstmt", b, err)
	b, err = f.genHandler()
	def("gen_readyzHandler", "list hstmt", b, err)
	b, err = f.genWait()
	def("gen_WaitForReady", "wprog", b, err)

	users, err := hgMapUsers(filepath.Join(repo, "internal/health"), f.mapField)
	b = ""
	if err == nil {
		var qs []string
		for _, u := range users {
			q, ok := hgCoqStr(u)
			if !ok {
				err = fmt.Errorf("non-printable function name")
				break
			}
			qs = append(qs, q)
		}
		b = "[" + strings.Join(qs, "; ") + "]"
	}
	sb.WriteString("(* every function of the package (non-test files) that mentions the map field at all *)\n")
	def("gen_map_users", "list string", b, err)

	sem, err := hgSyncMapSem(repo)
	b = ""
	if err == nil {
		var qs []string
		for _, p := range sem {
			q, _ := hgCoqStr(p[0])
			qs = append(qs, "("+q+", "+p[1]+")")
		}
		b = "[" + strings.Join(qs, "; ") + "]"
	}
	sb.WriteString("(* internal/common/genericsyncmap.go: what these do besides taking the lock *)\n")
	def("gen_syncmap_sem", "list (string * smsem)", b, err)
	return os.WriteFile(filepath.Join(out, "HealthProg.v"), []byte(sb.String()), 0o644)
}
