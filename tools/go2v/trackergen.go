package main

// trackergen.go: the session correlator (processors/auditd/sessiontracker/sessiontracker.go) as a program of
// the small imperative language of coq/Model/TrackerIR.v  (-> Gen/TrackerProg.v).
//
// The four API methods of *sessionTracker are translated statement by statement from their Go AST:
// every statement form and every expression form the file is written in has one rule below; methods of
// the correlator that are called in return position and error-valued helpers of *user become named
// sub-programs, void helpers of *user are inlined, bool helpers of *user become expressions.  Statements
// that do nothing but log are dropped (the rule for "nothing but log" is tgLogOnly; it is strict).
// Two shapes of Iterate callbacks are recognised, and nothing else:
//
//	func(k, v) bool { if C { B...; return false }; return true }       -> SScanFirst  m C B
//	func(k, v) bool { if C { m.DeleteUnsafe(k) }; return true }        -> SDeleteWhere m C
//
// Anything not understood makes the program of the API method it occurs in UNSUPPORTED (an identifier
// that does not exist in Coq, with the reason in a comment); nothing is guessed.
// Self-contained: uses nothing of the other generators but the registry.

import (
	"fmt"
	"go/ast"
	"go/parser"
	"go/token"
	"os"
	"path/filepath"
	"sort"
	"strconv"
	"strings"
)

func init() { generators = append(generators, genTrackerProg) }

const (
	tgFile        = "processors/auditd/sessiontracker/sessiontracker.go"
	tgSyncMapFile = "internal/common/genericsyncmap.go"
)

// the API methods, in the order of Model.Tracker.top
var tgAPI = []string{"RemoteLogin", "AuditdEvent", "DeleteUsersWithoutLoginsBefore", "DeleteRemoteUserLoginsBefore"}

type tgUnsupported string

func (u tgUnsupported) Error() string { return string(u) }

// ---------------------------------------------------------------------------------------------
// IR text

type tgStmt struct {
	head   string     // constructor with its non-statement arguments
	blocks [][]tgStmt // statement arguments
}

func tgLeaf(format string, a ...interface{}) tgStmt { return tgStmt{head: fmt.Sprintf(format, a...)} }

func tgPrintBlock(l []tgStmt, ind string) string {
	if len(l) == 0 {
		return ind + "SSkip"
	}
	var parts []string
	for _, s := range l {
		parts = append(parts, tgPrintStmt(s, ind))
	}
	return strings.Join(parts, " ;;\n")
}

func tgPrintStmt(s tgStmt, ind string) string {
	out := ind + s.head
	for _, b := range s.blocks {
		if len(b) == 0 {
			out += "\n" + ind + "  SSkip"
			continue
		}
		inner := tgPrintBlock(b, ind+"   ")
		out += "\n" + ind + "  (" + strings.TrimPrefix(inner, ind+"   ") + ")"
	}
	return out
}

func tgQ(s string) string { return "\"" + s + "\"" }

func tgIsGoIdent(s string) bool {
	if s == "" {
		return false
	}
	for i, r := range s {
		if !(r == '_' || (r >= 'a' && r <= 'z') || (r >= 'A' && r <= 'Z') || (i > 0 && r >= '0' && r <= '9')) {
			return false
		}
	}
	return true
}

// ---------------------------------------------------------------------------------------------
// symbols

// what a Go identifier stands for
type tgSym struct {
	kind string // tracker | login | event | time | logger | user | writer | bool | err | int | iterkey | index
	expr string // login: LArg|LCur; event: EvArg|EvElem; time: TArg; bool/err/int: the variable name
	key  string // iterkey: "string" | "int"
	m    string // iterkey: the map it is a key of
}

// one Go function (func literals inside it share it: they share its variables)
type tgFn struct {
	name     string
	declared map[string]bool
}

type tgFrame struct {
	fn        *tgFn
	file      *ast.File
	env       map[string]tgSym
	result    string // "error" | "void" | "none" (no return allowed here)
	inLoop    bool   // inside `for i := range u.cached`
	elemBound bool
	depth     int
}

func (fr *tgFrame) child() *tgFrame {
	n := *fr
	n.env = map[string]tgSym{}
	for k, v := range fr.env {
		n.env[k] = v
	}
	return &n
}

func (fr *tgFrame) has(kind, expr string) bool {
	for _, v := range fr.env {
		if v.kind == kind && (expr == "" || v.expr == expr) {
			return true
		}
	}
	return false
}

type tgSub struct{ name, text string }

type tgCtx struct {
	fset    *token.FileSet
	file    *ast.File
	src     []byte
	modPath string
	funcs   map[string]*ast.FuncDecl // "<receiver type>.<name>"
	tfields map[string]string        // field of sessionTracker -> sessions | logins | writer | logger | mutex
	ufields map[string]string        // field of user -> type
	subs    []tgSub
}

func (c *tgCtx) text(n ast.Node) string {
	s := string(c.src[c.fset.Position(n.Pos()).Offset:c.fset.Position(n.End()).Offset])
	s = strings.Join(strings.Fields(s), " ")
	if len(s) > 100 {
		s = s[:100] + "..."
	}
	return s
}

func (c *tgCtx) unsup(n ast.Node, why string) error {
	return tgUnsupported(fmt.Sprintf("%s: `%s` (line %d)", why, c.text(n), c.fset.Position(n.Pos()).Line))
}

func (c *tgCtx) importPath(fr *tgFrame, name string) (string, bool) {
	if _, local := fr.env[name]; local {
		return "", false
	}
	for _, im := range c.file.Imports {
		p, err := strconv.Unquote(im.Path.Value)
		if err != nil {
			continue
		}
		local := p[strings.LastIndex(p, "/")+1:]
		if im.Name != nil {
			local = im.Name.Name
		}
		if local == name {
			return p, true
		}
	}
	return "", false
}

// <pkg>.<name> with pkg imported from path
func (c *tgCtx) qualified(fr *tgFrame, e ast.Expr, path, name string) bool {
	sel, ok := e.(*ast.SelectorExpr)
	if !ok || (name != "" && sel.Sel.Name != name) {
		return false
	}
	q, ok := sel.X.(*ast.Ident)
	if !ok {
		return false
	}
	p, ok := c.importPath(fr, q.Name)
	return ok && p == path
}

func tgTypeStr(e ast.Expr) string {
	switch v := e.(type) {
	case *ast.Ident:
		return v.Name
	case *ast.SelectorExpr:
		return tgTypeStr(v.X) + "." + v.Sel.Name
	case *ast.StarExpr:
		return "*" + tgTypeStr(v.X)
	case *ast.ArrayType:
		if v.Len == nil {
			return "[]" + tgTypeStr(v.Elt)
		}
	case *ast.IndexExpr:
		return tgTypeStr(v.X) + "[" + tgTypeStr(v.Index) + "]"
	case *ast.IndexListExpr:
		var a []string
		for _, i := range v.Indices {
			a = append(a, tgTypeStr(i))
		}
		return tgTypeStr(v.X) + "[" + strings.Join(a, ",") + "]"
	}
	return "?"
}

// the kind of value a parameter of this (spelled) type carries
func (c *tgCtx) kindOfType(fr *tgFrame, t ast.Expr) string {
	s := tgTypeStr(t)
	pkgIs := func(q, path string) bool { p, ok := c.importPath(fr, q); return ok && p == path }
	switch s {
	case "common.RemoteUserLogin":
		if pkgIs("common", c.modPath+"/internal/common") {
			return "login"
		}
	case "*aucoalesce.Event":
		if pkgIs("aucoalesce", "github.com/elastic/go-libaudit/v2/aucoalesce") {
			return "event"
		}
	case "time.Time":
		if pkgIs("time", "time") {
			return "time"
		}
	case "*zap.SugaredLogger":
		if pkgIs("zap", "go.uber.org/zap") {
			return "logger"
		}
	case "*auditevent.EventWriter":
		if pkgIs("auditevent", "github.com/metal-toolbox/auditevent") {
			return "writer"
		}
	case "*user":
		return "user"
	case "string":
		return "string"
	case "int":
		return "int"
	}
	return ""
}

func tgIsIdent(e ast.Expr, name string) bool {
	id, ok := e.(*ast.Ident)
	return ok && id.Name == name
}

func (c *tgCtx) symOf(fr *tgFrame, e ast.Expr) (tgSym, bool) {
	switch v := e.(type) {
	case *ast.ParenExpr:
		return c.symOf(fr, v.X)
	case *ast.Ident:
		s, ok := fr.env[v.Name]
		return s, ok
	case *ast.SelectorExpr:
		// o.eventWriter / o.l
		if x, ok := c.symOf(fr, v.X); ok && x.kind == "tracker" {
			switch c.tfields[v.Sel.Name] {
			case "writer":
				return tgSym{kind: "writer"}, true
			case "logger":
				return tgSym{kind: "logger"}, true
			}
		}
	case *ast.IndexExpr:
		// u.cached[i], i the index of the enclosing loop over u.cached
		if sel, ok := v.X.(*ast.SelectorExpr); ok && sel.Sel.Name == "cached" {
			if x, ok := c.symOf(fr, sel.X); ok && x.kind == "user" {
				if i, ok := c.symOf(fr, v.Index); ok && i.kind == "index" {
					return tgSym{kind: "event", expr: "EvElem"}, true
				}
			}
		}
	}
	return tgSym{}, false
}

func (c *tgCtx) isKind(fr *tgFrame, e ast.Expr, kind string) (tgSym, bool) {
	s, ok := c.symOf(fr, e)
	return s, ok && s.kind == kind
}

// o.<field> with field one of the two maps
func (c *tgCtx) mapOf(fr *tgFrame, e ast.Expr) (string, bool) {
	sel, ok := e.(*ast.SelectorExpr)
	if !ok {
		return "", false
	}
	if _, ok := c.isKind(fr, sel.X, "tracker"); !ok {
		return "", false
	}
	switch c.tfields[sel.Sel.Name] {
	case "sessions":
		return "MSessions", true
	case "logins":
		return "MLogins", true
	}
	return "", false
}

// a call  <map>.<method>(args)
func (c *tgCtx) mapCall(fr *tgFrame, e ast.Expr) (m, method string, args []ast.Expr, ok bool) {
	call, isCall := e.(*ast.CallExpr)
	if !isCall || call.Ellipsis != token.NoPos {
		return
	}
	sel, isSel := call.Fun.(*ast.SelectorExpr)
	if !isSel {
		return
	}
	m, ok = c.mapOf(fr, sel.X)
	return m, sel.Sel.Name, call.Args, ok
}

// ---------------------------------------------------------------------------------------------
// expressions

func (c *tgCtx) loginExpr(fr *tgFrame, e ast.Expr) (string, error) {
	if s, ok := c.isKind(fr, e, "login"); ok {
		return s.expr, nil
	}
	return "", c.unsup(e, "not a remote login that is tracked")
}

func (c *tgCtx) eventExpr(fr *tgFrame, e ast.Expr) (string, error) {
	if s, ok := c.isKind(fr, e, "event"); ok {
		return s.expr, nil
	}
	return "", c.unsup(e, "not an audit event that is tracked")
}

func (c *tgCtx) timeExpr(fr *tgFrame, e ast.Expr) (string, error) {
	if s, ok := c.isKind(fr, e, "time"); ok {
		return s.expr, nil
	}
	switch v := e.(type) {
	case *ast.CallExpr:
		if c.qualified(fr, v.Fun, "time", "Now") && len(v.Args) == 0 {
			return "TNow", nil
		}
	case *ast.SelectorExpr:
		if _, ok := c.isKind(fr, v.X, "user"); ok && v.Sel.Name == "added" {
			return "TUserAdded", nil
		}
		// <login>.Source.LoggedAt
		if in, ok := v.X.(*ast.SelectorExpr); ok && v.Sel.Name == "LoggedAt" && in.Sel.Name == "Source" {
			if l, ok := c.isKind(fr, in.X, "login"); ok {
				return "(TLoginLoggedAt " + l.expr + ")", nil
			}
		}
	}
	return "", c.unsup(e, "time expression not understood")
}

func (c *tgCtx) intExpr(fr *tgFrame, e ast.Expr) (string, error) {
	if s, ok := c.isKind(fr, e, "int"); ok {
		return "(IVar " + tgQ(s.expr) + ")", nil
	}
	if v, ok := e.(*ast.SelectorExpr); ok {
		if _, ok := c.isKind(fr, v.X, "user"); ok && v.Sel.Name == "srcPID" {
			return "IUserSrcPID", nil
		}
		if l, ok := c.isKind(fr, v.X, "login"); ok && v.Sel.Name == "PID" {
			return "(ILoginPID " + l.expr + ")", nil
		}
	}
	return "", c.unsup(e, "integer expression not understood")
}

// a key of map m
func (c *tgCtx) keyExpr(fr *tgFrame, e ast.Expr, m string) (string, error) {
	if s, ok := c.isKind(fr, e, "iterkey"); ok {
		if s.m != m {
			return "", c.unsup(e, "key of the other map")
		}
		return "KIterKey", nil
	}
	if m == "MSessions" {
		if v, ok := e.(*ast.SelectorExpr); ok && v.Sel.Name == "Session" {
			if ev, ok := c.isKind(fr, v.X, "event"); ok && ev.expr == "EvArg" {
				return "KEvSession", nil
			}
		}
		return "", c.unsup(e, "session key not understood")
	}
	i, err := c.intExpr(fr, e)
	if err != nil {
		return "", err
	}
	return "(KInt " + i + ")", nil
}

func tgNot(b string) string { return "(BNot " + b + ")" }

func (c *tgCtx) boolExpr(fr *tgFrame, e ast.Expr) (string, error) {
	switch v := e.(type) {
	case *ast.ParenExpr:
		return c.boolExpr(fr, v.X)
	case *ast.Ident:
		if v.Name == "true" || v.Name == "false" {
			if _, shadow := fr.env[v.Name]; !shadow {
				return "(BConst " + v.Name + ")", nil
			}
		}
		if s, ok := fr.env[v.Name]; ok && s.kind == "bool" {
			return "(BVar " + tgQ(s.expr) + ")", nil
		}
	case *ast.UnaryExpr:
		if v.Op == token.NOT {
			b, err := c.boolExpr(fr, v.X)
			if err != nil {
				return "", err
			}
			return tgNot(b), nil
		}
	case *ast.BinaryExpr:
		switch v.Op {
		case token.LAND, token.LOR:
			a, err := c.boolExpr(fr, v.X)
			if err != nil {
				return "", err
			}
			b, err := c.boolExpr(fr, v.Y)
			if err != nil {
				return "", err
			}
			if v.Op == token.LAND {
				return "(BAnd " + a + " " + b + ")", nil
			}
			return "(BOr " + a + " " + b + ")", nil
		case token.EQL, token.NEQ:
			b, err := c.equality(fr, v)
			if err != nil {
				return "", err
			}
			if v.Op == token.NEQ {
				return tgNot(b), nil
			}
			return b, nil
		}
	case *ast.SelectorExpr:
		if _, ok := c.isKind(fr, v.X, "user"); ok && v.Sel.Name == "hasRUL" {
			return "BUserHasRUL", nil
		}
	case *ast.CallExpr:
		if v.Ellipsis != token.NoPos {
			break
		}
		// <map>.Has(k)
		if m, meth, args, ok := c.mapCall(fr, v); ok && meth == "Has" && len(args) == 1 {
			k, err := c.keyExpr(fr, args[0], m)
			if err != nil {
				return "", err
			}
			return "(BHas " + m + " " + k + ")", nil
		}
		if sel, ok := v.Fun.(*ast.SelectorExpr); ok {
			// t1.Before(t2)
			if sel.Sel.Name == "Before" && len(v.Args) == 1 {
				a, err := c.timeExpr(fr, sel.X)
				if err != nil {
					return "", err
				}
				b, err := c.timeExpr(fr, v.Args[0])
				if err != nil {
					return "", err
				}
				return "(BBefore " + a + " " + b + ")", nil
			}
			// bool helper of the user object
			if _, ok := c.isKind(fr, sel.X, "user"); ok && len(v.Args) == 0 {
				return c.boolHelper(fr, v, sel.Sel.Name)
			}
		}
	}
	return "", c.unsup(e, "condition not understood")
}

// the == of a condition (the caller negates for !=)
func (c *tgCtx) equality(fr *tgFrame, v *ast.BinaryExpr) (string, error) {
	x, y := v.X, v.Y
	if tgIsIdent(x, "nil") {
		x, y = y, x
	}
	// err == nil
	if tgIsIdent(y, "nil") {
		if _, shadow := fr.env["nil"]; !shadow {
			if s, ok := c.isKind(fr, x, "err"); ok {
				return "(BErrIsNil " + tgQ(s.expr) + ")", nil
			}
		}
		return "", c.unsup(v, "comparison with nil of something that is not an error variable")
	}
	// len(u.cached) == 0
	if call, ok := x.(*ast.CallExpr); ok && tgIsIdent(call.Fun, "len") && len(call.Args) == 1 {
		if _, shadow := fr.env["len"]; !shadow {
			if sel, ok := call.Args[0].(*ast.SelectorExpr); ok && sel.Sel.Name == "cached" {
				if _, ok := c.isKind(fr, sel.X, "user"); ok {
					if lit, ok := y.(*ast.BasicLit); ok && lit.Kind == token.INT && lit.Value == "0" {
						return "BCachedIsEmpty", nil
					}
				}
			}
		}
		return "", c.unsup(v, "length comparison not understood")
	}
	if sel, ok := x.(*ast.SelectorExpr); ok {
		if ev, ok := c.isKind(fr, sel.X, "event"); ok {
			switch sel.Sel.Name {
			case "Type":
				// event.Type == auparse.<CONSTANT>
				if c.qualified(fr, y, "github.com/elastic/go-libaudit/v2/auparse", "") {
					name := y.(*ast.SelectorExpr).Sel.Name
					if !tgIsGoIdent(name) {
						return "", c.unsup(y, "constant name")
					}
					return "(BEvTypeIs " + ev.expr + " " + name + ")", nil
				}
				return "", c.unsup(v, "event type compared with something that is not an auparse constant")
			case "Session":
				if lit, ok := y.(*ast.BasicLit); ok && lit.Kind == token.STRING {
					s, err := strconv.Unquote(lit.Value)
					if err == nil && s == "" {
						return "(BEvSessionIs " + ev.expr + " SesEmpty)", nil
					}
					if err == nil && s == "unset" {
						return "(BEvSessionIs " + ev.expr + " SesUnset)", nil
					}
				}
				return "", c.unsup(v, "session compared with a text the model has no name for")
			}
		}
	}
	// integers
	a, err := c.intExpr(fr, x)
	if err != nil {
		return "", c.unsup(v, "comparison not understood")
	}
	b, err := c.intExpr(fr, y)
	if err != nil {
		return "", c.unsup(v, "comparison not understood")
	}
	return "(BIntEq " + a + " " + b + ")", nil
}

func (c *tgCtx) userMethod(name string) *ast.FuncDecl { return c.funcs["*user."+name] }

func tgRecvName(fd *ast.FuncDecl) string {
	if fd.Recv != nil && len(fd.Recv.List) == 1 && len(fd.Recv.List[0].Names) == 1 {
		return fd.Recv.List[0].Names[0].Name
	}
	return ""
}

func tgResults(fd *ast.FuncDecl) string {
	if fd.Type.Results == nil {
		return ""
	}
	var ts []string
	for _, f := range fd.Type.Results.List {
		if len(f.Names) != 0 {
			return "?named"
		}
		ts = append(ts, tgTypeStr(f.Type))
	}
	return strings.Join(ts, ",")
}

// a method of the user object without parameters that returns a bool:
//
//	return <condition>
//	for _, e := range o.cached { if <condition on e> { return true } }; return false
func (c *tgCtx) boolHelper(fr *tgFrame, call *ast.CallExpr, name string) (string, error) {
	fd := c.userMethod(name)
	if fd == nil || fd.Body == nil {
		return "", c.unsup(call, "unknown method of the user object")
	}
	recv := tgRecvName(fd)
	if recv == "" || fd.Type.Params.NumFields() != 0 || tgResults(fd) != "bool" {
		return "", c.unsup(call, "not a parameterless bool method of the user object")
	}
	if fr.depth >= 4 {
		return "", c.unsup(call, "helper nesting too deep")
	}
	hf := &tgFrame{fn: &tgFn{name: name, declared: map[string]bool{}}, env: map[string]tgSym{recv: {kind: "user"}},
		result: "none", depth: fr.depth + 1, inLoop: fr.inLoop, elemBound: fr.elemBound}
	body := fd.Body.List
	wrap := func(err error) error { return tgUnsupported("in " + name + ": " + err.Error()) }
	if len(body) == 1 {
		if r, ok := body[0].(*ast.ReturnStmt); ok && len(r.Results) == 1 {
			b, err := c.boolExpr(hf, r.Results[0])
			if err != nil {
				return "", wrap(err)
			}
			return b, nil
		}
	}
	if len(body) == 2 {
		rg, ok1 := body[0].(*ast.RangeStmt)
		r, ok2 := body[1].(*ast.ReturnStmt)
		if ok1 && ok2 && len(r.Results) == 1 && tgIsIdent(r.Results[0], "false") && rg.Tok == token.DEFINE &&
			tgIsIdent(rg.Key, "_") && rg.Value != nil && len(rg.Body.List) == 1 {
			sel, ok := rg.X.(*ast.SelectorExpr)
			val, okv := rg.Value.(*ast.Ident)
			ifs, oki := rg.Body.List[0].(*ast.IfStmt)
			if ok && okv && oki && sel.Sel.Name == "cached" && ifs.Init == nil && ifs.Else == nil && len(ifs.Body.List) == 1 {
				if _, isU := c.isKind(hf, sel.X, "user"); isU && val.Name != "_" && val.Name != recv {
					rt, ok := ifs.Body.List[0].(*ast.ReturnStmt)
					if ok && len(rt.Results) == 1 && tgIsIdent(rt.Results[0], "true") {
						if hf.elemBound {
							return "", c.unsup(call, "loop over the cached events inside a loop over the cached events")
						}
						lf := hf.child()
						lf.elemBound = true
						lf.env[val.Name] = tgSym{kind: "event", expr: "EvElem"}
						b, err := c.boolExpr(lf, ifs.Cond)
						if err != nil {
							return "", wrap(err)
						}
						return "(BAnyCached " + b + ")", nil
					}
				}
			}
		}
	}
	return "", c.unsup(call, "bool method of the user object whose body has a shape that is not understood")
}

// ---------------------------------------------------------------------------------------------
// statements that only log

var tgLogMethods = map[string]bool{"Infoln": true, "Infof": true, "Info": true, "Errorf": true, "Errorln": true, "Error": true,
	"Debugf": true, "Debugln": true, "Debug": true, "Warnf": true, "Warnln": true, "Warn": true}

// an argument of a log call: reads only.  Allowed: literals, variables, field reads, dereferences,
// len(..), <x>.String(), <x>.Error(), and bool helpers of the user object (which are expressions here).
func (c *tgCtx) logArg(fr *tgFrame, e ast.Expr) bool {
	switch v := e.(type) {
	case *ast.BasicLit:
		return true
	case *ast.Ident:
		_, ok := fr.env[v.Name]
		return ok || v.Name == "nil" || v.Name == "true" || v.Name == "false"
	case *ast.ParenExpr:
		return c.logArg(fr, v.X)
	case *ast.SelectorExpr:
		return c.logArg(fr, v.X)
	case *ast.StarExpr:
		return c.logArg(fr, v.X)
	case *ast.CallExpr:
		if v.Ellipsis != token.NoPos {
			return false
		}
		if tgIsIdent(v.Fun, "len") && len(v.Args) == 1 {
			_, shadow := fr.env["len"]
			return !shadow && c.logArg(fr, v.Args[0])
		}
		if sel, ok := v.Fun.(*ast.SelectorExpr); ok && len(v.Args) == 0 {
			if sel.Sel.Name == "String" || sel.Sel.Name == "Error" {
				return c.logArg(fr, sel.X)
			}
			if _, ok := c.isKind(fr, sel.X, "user"); ok {
				_, err := c.boolHelper(fr, v, sel.Sel.Name)
				return err == nil
			}
		}
	}
	return false
}

func (c *tgCtx) logArgs(fr *tgFrame, args []ast.Expr) bool {
	for _, a := range args {
		if !c.logArg(fr, a) {
			return false
		}
	}
	return true
}

// a logger: a logger variable, o.l, or <logger>.With(args)
func (c *tgCtx) isLogger(fr *tgFrame, e ast.Expr) bool {
	if _, ok := c.isKind(fr, e, "logger"); ok {
		return true
	}
	if call, ok := e.(*ast.CallExpr); ok && call.Ellipsis == token.NoPos {
		if sel, ok := call.Fun.(*ast.SelectorExpr); ok && sel.Sel.Name == "With" {
			return c.isLogger(fr, sel.X) && c.logArgs(fr, call.Args)
		}
	}
	return false
}

func (c *tgCtx) isLogCall(fr *tgFrame, s ast.Stmt) bool {
	es, ok := s.(*ast.ExprStmt)
	if !ok {
		return false
	}
	call, ok := es.X.(*ast.CallExpr)
	if !ok || call.Ellipsis != token.NoPos {
		return false
	}
	sel, ok := call.Fun.(*ast.SelectorExpr)
	return ok && tgLogMethods[sel.Sel.Name] && c.isLogger(fr, sel.X) && c.logArgs(fr, call.Args)
}

// a statement that does nothing but log:
//
//	<logger>.<Level>(args)                      (arguments: logArg)
//	<logger variable> = <logger>.With(args)
//	if <logger variable> != nil { only-log }
//	if <logger>.Level().Enabled(zap.<X>) { only-log }
//	if <bool variable> { only-log }
func (c *tgCtx) logOnly(fr *tgFrame, s ast.Stmt) bool {
	if c.isLogCall(fr, s) {
		return true
	}
	switch v := s.(type) {
	case *ast.AssignStmt:
		if v.Tok != token.ASSIGN || len(v.Lhs) != 1 || len(v.Rhs) != 1 {
			return false
		}
		id, ok := v.Lhs[0].(*ast.Ident)
		if !ok {
			return false
		}
		if sym, ok := fr.env[id.Name]; !ok || sym.kind != "logger" {
			return false
		}
		_, isCall := v.Rhs[0].(*ast.CallExpr)
		return isCall && c.isLogger(fr, v.Rhs[0])
	case *ast.IfStmt:
		if v.Init != nil || v.Else != nil || len(v.Body.List) == 0 {
			return false
		}
		for _, b := range v.Body.List {
			if !c.logOnly(fr, b) {
				return false
			}
		}
		switch cond := v.Cond.(type) {
		case *ast.Ident:
			sym, ok := fr.env[cond.Name]
			return ok && sym.kind == "bool"
		case *ast.BinaryExpr:
			if _, shadow := fr.env["nil"]; shadow || cond.Op != token.NEQ || !tgIsIdent(cond.Y, "nil") {
				return false
			}
			id, ok := cond.X.(*ast.Ident)
			if !ok {
				return false
			}
			sym, ok := fr.env[id.Name]
			return ok && sym.kind == "logger"
		case *ast.CallExpr:
			// <logger>.Level().Enabled(zap.<Level>)
			if len(cond.Args) != 1 || !c.qualified(fr, cond.Args[0], "go.uber.org/zap", "") {
				return false
			}
			sel, ok := cond.Fun.(*ast.SelectorExpr)
			if !ok || sel.Sel.Name != "Enabled" {
				return false
			}
			inner, ok := sel.X.(*ast.CallExpr)
			if !ok || len(inner.Args) != 0 {
				return false
			}
			isel, ok := inner.Fun.(*ast.SelectorExpr)
			return ok && isel.Sel.Name == "Level" && c.isLogger(fr, isel.X)
		}
	}
	return false
}

// ---------------------------------------------------------------------------------------------
// statements

func (c *tgCtx) declare(fr *tgFrame, n ast.Node, name string, sym tgSym) error {
	if name == "_" || !tgIsGoIdent(name) {
		return c.unsup(n, "variable name")
	}
	if fr.fn.declared[name] {
		return c.unsup(n, "a second declaration of `"+name+"` in one function (the language has one flat scope per function)")
	}
	if _, shadow := fr.env[name]; shadow {
		return c.unsup(n, "declaration of `"+name+"` shadows something")
	}
	fr.fn.declared[name] = true
	fr.env[name] = sym
	return nil
}

// <user>.<field>
func (c *tgCtx) userField(fr *tgFrame, e ast.Expr) (string, bool) {
	sel, ok := e.(*ast.SelectorExpr)
	if !ok {
		return "", false
	}
	if _, ok := c.isKind(fr, sel.X, "user"); !ok {
		return "", false
	}
	if _, ok := c.ufields[sel.Sel.Name]; !ok {
		return "", false
	}
	return sel.Sel.Name, true
}

// u.hasRUL = true  /  u.login = <login>: one half of "bind the login"
func (c *tgCtx) bindHalf(fr *tgFrame, s ast.Stmt) (field, login string, ok bool) {
	a, isA := s.(*ast.AssignStmt)
	if !isA || a.Tok != token.ASSIGN || len(a.Lhs) != 1 || len(a.Rhs) != 1 {
		return
	}
	f, isF := c.userField(fr, a.Lhs[0])
	if !isF {
		return
	}
	switch f {
	case "hasRUL":
		if _, shadow := fr.env["true"]; !shadow && tgIsIdent(a.Rhs[0], "true") {
			return f, "", true
		}
	case "login":
		if l, err := c.loginExpr(fr, a.Rhs[0]); err == nil {
			return f, l, true
		}
	}
	return
}

func (c *tgCtx) block(fr *tgFrame, list []ast.Stmt) ([]tgStmt, error) {
	var out []tgStmt
	var stmts []ast.Stmt
	for _, s := range list {
		stmts = append(stmts, s)
	}
	for i := 0; i < len(stmts); i++ {
		s := stmts[i]
		if c.logOnly(fr, s) {
			continue
		}
		// the model has ONE option for hasRUL/login: they must be set together
		if f, l, ok := c.bindHalf(fr, s); ok {
			j := i + 1
			for j < len(stmts) && c.logOnly(fr, stmts[j]) {
				j++
			}
			if j < len(stmts) {
				if f2, l2, ok2 := c.bindHalf(fr, stmts[j]); ok2 && f2 != f {
					if fr.inLoop {
						return nil, c.unsup(s, "change of the user object inside the loop over its cached events")
					}
					out = append(out, tgLeaf("SUserSetLogin %s", l+l2))
					i = j
					continue
				}
			}
			return nil, c.unsup(s, "hasRUL and login are not set together (hasRUL = true; login = <login>)")
		}
		r, err := c.stmt(fr, s)
		if err != nil {
			return nil, err
		}
		out = append(out, r...)
	}
	return out, nil
}

func (c *tgCtx) stmt(fr *tgFrame, s ast.Stmt) ([]tgStmt, error) {
	switch v := s.(type) {
	case *ast.DeclStmt:
		return c.declStmt(fr, v)
	case *ast.AssignStmt:
		return c.assignStmt(fr, v)
	case *ast.IfStmt:
		if v.Init != nil {
			return nil, c.unsup(s, "if with an init statement")
		}
		cond, err := c.boolExpr(fr, v.Cond)
		if err != nil {
			return nil, err
		}
		th, err := c.block(fr.child(), v.Body.List)
		if err != nil {
			return nil, err
		}
		var el []tgStmt
		switch e := v.Else.(type) {
		case nil:
		case *ast.BlockStmt:
			if el, err = c.block(fr.child(), e.List); err != nil {
				return nil, err
			}
		case *ast.IfStmt:
			if el, err = c.stmt(fr.child(), e); err != nil {
				return nil, err
			}
		default:
			return nil, c.unsup(s, "else form")
		}
		return []tgStmt{{head: "SIf " + cond, blocks: [][]tgStmt{th, el}}}, nil
	case *ast.ReturnStmt:
		return c.returnStmt(fr, v)
	case *ast.ExprStmt:
		return c.exprStmt(fr, v)
	case *ast.DeferStmt:
		// defer <map>.DeleteUnsafe(k)
		if m, meth, args, ok := c.mapCall(fr, v.Call); ok && meth == "DeleteUnsafe" && len(args) == 1 {
			k, err := c.keyExpr(fr, args[0], m)
			if err != nil {
				return nil, err
			}
			if fr.inLoop {
				return nil, c.unsup(s, "defer inside a loop")
			}
			return []tgStmt{tgLeaf("SDeferDelete %s %s", m, k)}, nil
		}
		return nil, c.unsup(s, "defer of something other than <map>.DeleteUnsafe(key)")
	case *ast.RangeStmt:
		// for i := range u.cached { ... }
		sel, ok := v.X.(*ast.SelectorExpr)
		idx, okk := v.Key.(*ast.Ident)
		if !ok || !okk || v.Value != nil || v.Tok != token.DEFINE || sel.Sel.Name != "cached" || idx.Name == "_" {
			return nil, c.unsup(s, "loop other than `for i := range <user>.cached`")
		}
		if _, isU := c.isKind(fr, sel.X, "user"); !isU {
			return nil, c.unsup(s, "loop other than `for i := range <user>.cached`")
		}
		if fr.inLoop || fr.elemBound {
			return nil, c.unsup(s, "nested loop over the cached events")
		}
		lf := fr.child()
		lf.inLoop, lf.elemBound = true, true
		if _, shadow := lf.env[idx.Name]; shadow {
			return nil, c.unsup(s, "loop index shadows something")
		}
		lf.env[idx.Name] = tgSym{kind: "index"}
		body, err := c.block(lf, v.Body.List)
		if err != nil {
			return nil, err
		}
		return []tgStmt{{head: "SForCached", blocks: [][]tgStmt{body}}}, nil
	}
	return nil, c.unsup(s, "statement kind not understood")
}

// var x bool | var x error | var x *zap.SugaredLogger
func (c *tgCtx) declStmt(fr *tgFrame, d *ast.DeclStmt) ([]tgStmt, error) {
	gd, ok := d.Decl.(*ast.GenDecl)
	if !ok || gd.Tok != token.VAR {
		return nil, c.unsup(d, "declaration that is not var")
	}
	var out []tgStmt
	for _, sp := range gd.Specs {
		vs := sp.(*ast.ValueSpec)
		if len(vs.Values) != 0 || vs.Type == nil {
			return nil, c.unsup(d, "var with a value or without a type")
		}
		for _, n := range vs.Names {
			switch {
			case tgTypeStr(vs.Type) == "bool":
				if err := c.declare(fr, d, n.Name, tgSym{kind: "bool", expr: n.Name}); err != nil {
					return nil, err
				}
				out = append(out, tgLeaf("SSetBool %s (BConst false)", tgQ(n.Name)))
			case tgTypeStr(vs.Type) == "error":
				if err := c.declare(fr, d, n.Name, tgSym{kind: "err", expr: n.Name}); err != nil {
					return nil, err
				}
				out = append(out, tgLeaf("SSetErrNil %s", tgQ(n.Name)))
			case c.kindOfType(fr, vs.Type) == "logger":
				if err := c.declare(fr, d, n.Name, tgSym{kind: "logger"}); err != nil {
					return nil, err
				}
			default:
				return nil, c.unsup(d, "var of a type that is not bool, error or the logger")
			}
		}
	}
	return out, nil
}

// the variable an assignment writes: declared here (:=) or before (=), of the kind wanted
func (c *tgCtx) target(fr *tgFrame, a *ast.AssignStmt, lhs ast.Expr, kind string) (string, error) {
	id, ok := lhs.(*ast.Ident)
	if !ok {
		return "", c.unsup(a, "assignment target not understood")
	}
	if a.Tok == token.DEFINE {
		if err := c.declare(fr, a, id.Name, tgSym{kind: kind, expr: id.Name}); err != nil {
			return "", err
		}
		return id.Name, nil
	}
	sym, ok := fr.env[id.Name]
	if !ok || sym.kind != kind {
		return "", c.unsup(a, "assignment to something that is not a declared "+kind+" variable")
	}
	return sym.expr, nil
}

// <writer>.Write(<user>.toAuditEvent(<event>))
func (c *tgCtx) writeCall(fr *tgFrame, e ast.Expr) (string, bool, error) {
	call, ok := e.(*ast.CallExpr)
	if !ok || call.Ellipsis != token.NoPos || len(call.Args) != 1 {
		return "", false, nil
	}
	sel, ok := call.Fun.(*ast.SelectorExpr)
	if !ok || sel.Sel.Name != "Write" {
		return "", false, nil
	}
	if _, ok := c.isKind(fr, sel.X, "writer"); !ok {
		return "", false, nil
	}
	in, ok := call.Args[0].(*ast.CallExpr)
	if !ok || in.Ellipsis != token.NoPos || len(in.Args) != 1 {
		return "", true, c.unsup(e, "Write of something other than <user>.toAuditEvent(<event>)")
	}
	isel, ok := in.Fun.(*ast.SelectorExpr)
	if !ok || isel.Sel.Name != "toAuditEvent" {
		return "", true, c.unsup(e, "Write of something other than <user>.toAuditEvent(<event>)")
	}
	if _, ok := c.isKind(fr, isel.X, "user"); !ok {
		return "", true, c.unsup(e, "toAuditEvent of something that is not the current user object")
	}
	if err := c.checkToAuditEvent(); err != nil {
		return "", true, err
	}
	ev, err := c.eventExpr(fr, in.Args[0])
	if err != nil {
		return "", true, err
	}
	return ev, true, nil
}

// toAuditEvent is the rendering (Model/ToEvent.v, tied to the source by another generator); here it only
// matters that it does not change the user object or the event: no assignment through its receiver or parameter
func (c *tgCtx) checkToAuditEvent() error {
	fd := c.userMethod("toAuditEvent")
	if fd == nil || fd.Body == nil || fd.Type.Params.NumFields() != 1 || len(fd.Type.Params.List[0].Names) != 1 {
		return tgUnsupported("toAuditEvent is not a one-parameter method of the user object")
	}
	if c.kindOfType(&tgFrame{env: map[string]tgSym{}}, fd.Type.Params.List[0].Type) != "event" || tgResults(fd) != "*auditevent.AuditEvent" {
		return tgUnsupported("toAuditEvent does not have the signature (*aucoalesce.Event) *auditevent.AuditEvent")
	}
	names := map[string]bool{tgRecvName(fd): true, fd.Type.Params.List[0].Names[0].Name: true}
	root := func(e ast.Expr) string {
		for {
			switch v := e.(type) {
			case *ast.SelectorExpr:
				e = v.X
			case *ast.IndexExpr:
				e = v.X
			case *ast.StarExpr:
				e = v.X
			case *ast.ParenExpr:
				e = v.X
			case *ast.Ident:
				return v.Name
			default:
				return ""
			}
		}
	}
	var bad ast.Node
	ast.Inspect(fd.Body, func(n ast.Node) bool {
		switch v := n.(type) {
		case *ast.AssignStmt:
			for _, l := range v.Lhs {
				if _, plain := l.(*ast.Ident); !plain && names[root(l)] {
					bad = n
				}
			}
		case *ast.IncDecStmt:
			if names[root(v.X)] {
				bad = n
			}
		}
		return bad == nil
	})
	if bad != nil {
		return c.unsup(bad, "toAuditEvent changes its receiver or its argument")
	}
	return nil
}

func (c *tgCtx) assignStmt(fr *tgFrame, a *ast.AssignStmt) ([]tgStmt, error) {
	if a.Tok != token.DEFINE && a.Tok != token.ASSIGN {
		return nil, c.unsup(a, "compound assignment")
	}
	// x, e := strconv.Atoi(event.Process.PID)   |   _, h := <map>.Load(k)
	if len(a.Lhs) == 2 && len(a.Rhs) == 1 {
		call, ok := a.Rhs[0].(*ast.CallExpr)
		if !ok || call.Ellipsis != token.NoPos || a.Tok != token.DEFINE {
			return nil, c.unsup(a, "two-value assignment not understood")
		}
		if c.qualified(fr, call.Fun, "strconv", "Atoi") && len(call.Args) == 1 {
			ok := false
			if p, isSel := call.Args[0].(*ast.SelectorExpr); isSel && p.Sel.Name == "PID" {
				if q, isSel := p.X.(*ast.SelectorExpr); isSel && q.Sel.Name == "Process" {
					if ev, isEv := c.isKind(fr, q.X, "event"); isEv && ev.expr == "EvArg" {
						ok = true
					}
				}
			}
			if !ok {
				return nil, c.unsup(a, "Atoi of something other than event.Process.PID")
			}
			x, err := c.target(fr, a, a.Lhs[0], "int")
			if err != nil {
				return nil, err
			}
			e, err := c.target(fr, a, a.Lhs[1], "err")
			if err != nil {
				return nil, err
			}
			return []tgStmt{tgLeaf("SAtoiEvPID %s %s", tgQ(x), tgQ(e))}, nil
		}
		if m, meth, args, ok := c.mapCall(fr, call); ok && meth == "Load" && len(args) == 1 && tgIsIdent(a.Lhs[0], "_") {
			k, err := c.keyExpr(fr, args[0], m)
			if err != nil {
				return nil, err
			}
			h, err := c.target(fr, a, a.Lhs[1], "bool")
			if err != nil {
				return nil, err
			}
			return []tgStmt{tgLeaf("SSetBool %s (BHas %s %s)", tgQ(h), m, k)}, nil
		}
		return nil, c.unsup(a, "two-value assignment not understood")
	}
	if len(a.Lhs) != 1 || len(a.Rhs) != 1 {
		return nil, c.unsup(a, "assignment arity")
	}
	lhs, rhs := a.Lhs[0], a.Rhs[0]
	// u.cached = append(u.cached, event) | u.cached = nil
	if f, ok := c.userField(fr, lhs); ok {
		if a.Tok != token.ASSIGN || f != "cached" {
			return nil, c.unsup(a, "assignment to a field of the user object that is not understood")
		}
		if fr.inLoop {
			return nil, c.unsup(a, "change of the user object inside the loop over its cached events")
		}
		if _, shadow := fr.env["nil"]; !shadow && tgIsIdent(rhs, "nil") {
			return []tgStmt{tgLeaf("SUserCacheClear")}, nil
		}
		if call, ok := rhs.(*ast.CallExpr); ok && tgIsIdent(call.Fun, "append") && len(call.Args) == 2 && call.Ellipsis == token.NoPos {
			_, shadow := fr.env["append"]
			f2, ok2 := c.userField(fr, call.Args[0])
			if !shadow && ok2 && f2 == "cached" && c.text(call.Args[0]) == c.text(lhs) {
				ev, err := c.eventExpr(fr, call.Args[1])
				if err != nil {
					return nil, err
				}
				return []tgStmt{tgLeaf("SUserCacheAppend %s", ev)}, nil
			}
		}
		return nil, c.unsup(a, "assignment to cached that is neither an append of one event nor nil")
	}
	id, ok := lhs.(*ast.Ident)
	if !ok {
		return nil, c.unsup(a, "assignment target not understood")
	}
	// a logger variable
	if a.Tok == token.DEFINE {
		if _, isCall := rhs.(*ast.CallExpr); isCall && c.isLogger(fr, rhs) {
			return nil, c.declare(fr, a, id.Name, tgSym{kind: "logger"})
		}
	}
	// u := &user{added: time.Now(), srcPID: <int>}
	if un, ok := rhs.(*ast.UnaryExpr); ok && un.Op == token.AND {
		cl, ok := un.X.(*ast.CompositeLit)
		if !ok || !tgIsIdent(cl.Type, "user") || a.Tok != token.DEFINE {
			return nil, c.unsup(a, "address-of that is not `x := &user{...}`")
		}
		if fr.has("user", "") {
			return nil, c.unsup(a, "a second user object while one is current")
		}
		var added, pid string
		for _, el := range cl.Elts {
			kv, ok := el.(*ast.KeyValueExpr)
			if !ok {
				return nil, c.unsup(el, "positional field of user")
			}
			k, ok := kv.Key.(*ast.Ident)
			if !ok {
				return nil, c.unsup(el, "field of user")
			}
			var err error
			switch k.Name {
			case "added":
				if added != "" {
					return nil, c.unsup(el, "field given twice")
				}
				added, err = c.timeExpr(fr, kv.Value)
			case "srcPID":
				if pid != "" {
					return nil, c.unsup(el, "field given twice")
				}
				pid, err = c.intExpr(fr, kv.Value)
			default:
				err = c.unsup(el, "a new user object with a field other than added/srcPID set")
			}
			if err != nil {
				return nil, err
			}
		}
		if added == "" || pid == "" {
			return nil, c.unsup(a, "a new user object without added or srcPID")
		}
		if err := c.declare(fr, a, id.Name, tgSym{kind: "user"}); err != nil {
			return nil, err
		}
		return []tgStmt{tgLeaf("SNewUser %s %s", added, pid)}, nil
	}
	if _, shadow := fr.env["nil"]; !shadow && tgIsIdent(rhs, "nil") && a.Tok == token.ASSIGN {
		x, err := c.target(fr, a, lhs, "err")
		if err != nil {
			return nil, err
		}
		return []tgStmt{tgLeaf("SSetErrNil %s", tgQ(x))}, nil
	}
	if call, ok := rhs.(*ast.CallExpr); ok && call.Ellipsis == token.NoPos {
		// e = <writer>.Write(<user>.toAuditEvent(<event>))
		if ev, is, err := c.writeCall(fr, rhs); is {
			if err != nil {
				return nil, err
			}
			x, err := c.target(fr, a, lhs, "err")
			if err != nil {
				return nil, err
			}
			return []tgStmt{tgLeaf("SWrite %s %s", tgQ(x), ev)}, nil
		}
		if sel, ok := call.Fun.(*ast.SelectorExpr); ok {
			// e := <login>.Validate()
			if l, isL := c.isKind(fr, sel.X, "login"); isL && sel.Sel.Name == "Validate" && len(call.Args) == 0 {
				x, err := c.target(fr, a, lhs, "err")
				if err != nil {
					return nil, err
				}
				return []tgStmt{tgLeaf("SValidate %s %s", tgQ(x), l.expr)}, nil
			}
			// e = <user>.<helper returning error>(args)
			if _, isU := c.isKind(fr, sel.X, "user"); isU {
				if fd := c.userMethod(sel.Sel.Name); fd != nil && tgResults(fd) == "error" {
					sub, err := c.callSub(fr, call, fd, "user", "helper_")
					if err != nil {
						return nil, err
					}
					if fr.inLoop {
						return nil, c.unsup(a, "helper call inside the loop over the cached events")
					}
					x, err := c.target(fr, a, lhs, "err")
					if err != nil {
						return nil, err
					}
					return []tgStmt{tgLeaf("SCallUser %s %s %s", tgQ(x), tgQ(sel.Sel.Name), sub)}, nil
				}
			}
		}
	}
	// a bool
	b, err := c.boolExpr(fr, rhs)
	if err != nil {
		return nil, c.unsup(a, "assignment not understood ("+err.Error()+")")
	}
	x, err := c.target(fr, a, lhs, "bool")
	if err != nil {
		return nil, err
	}
	return []tgStmt{tgLeaf("SSetBool %s %s", tgQ(x), b)}, nil
}

// callSub translates the body of a called method (receiver of kind recvKind) into a named sub-program
func (c *tgCtx) callSub(fr *tgFrame, call *ast.CallExpr, fd *ast.FuncDecl, recvKind, prefix string) (string, error) {
	if fr.depth >= 4 {
		return "", c.unsup(call, "call nesting too deep")
	}
	if fd.Body == nil || tgRecvName(fd) == "" || tgResults(fd) != "error" {
		return "", c.unsup(call, "callee is not a method with a named receiver and the result type error")
	}
	nf := &tgFrame{fn: &tgFn{name: fd.Name.Name, declared: map[string]bool{}}, env: map[string]tgSym{}, result: "error", depth: fr.depth + 1}
	nf.env[tgRecvName(fd)] = tgSym{kind: recvKind}
	var params []*ast.Field
	var names []string
	for _, f := range fd.Type.Params.List {
		if len(f.Names) == 0 {
			return "", c.unsup(call, "callee with an unnamed parameter")
		}
		if _, variadic := f.Type.(*ast.Ellipsis); variadic {
			return "", c.unsup(call, "variadic callee")
		}
		for _, n := range f.Names {
			params = append(params, f)
			names = append(names, n.Name)
		}
	}
	if len(params) != len(call.Args) {
		return "", c.unsup(call, "arity")
	}
	var sig []string
	for i, a := range call.Args {
		sym, ok := c.symOf(fr, a)
		if !ok {
			return "", c.unsup(a, "argument that is not tracked")
		}
		switch sym.kind {
		case "login", "event", "logger", "writer", "time":
		default:
			return "", c.unsup(a, "argument of a kind that cannot be passed")
		}
		if c.kindOfType(nf, params[i].Type) != sym.kind {
			return "", c.unsup(a, "argument does not fit the parameter type "+tgTypeStr(params[i].Type))
		}
		if sym.kind == "event" && sym.expr != "EvArg" {
			return "", c.unsup(a, "an element of the cache passed on as an argument")
		}
		if _, dup := nf.env[names[i]]; dup {
			return "", c.unsup(call, "parameter name clashes with the receiver")
		}
		nf.env[names[i]] = sym
		sig = append(sig, sym.kind+":"+sym.expr)
	}
	// what the body means depends on what is current at the call: the receiver, the arguments
	if recvKind == "tracker" {
		if fr.has("user", "") || fr.has("login", "LCur") {
			return "", c.unsup(call, "method of the correlator called while a map entry is current")
		}
	}
	body, err := c.block(nf, fd.Body.List)
	if err != nil {
		return "", tgUnsupported("in " + fd.Name.Name + ": " + err.Error())
	}
	name := prefix + fd.Name.Name
	text := tgPrintBlock(body, "  ")
	for _, s := range c.subs {
		if s.name == name {
			if s.text != text {
				return "", c.unsup(call, "the same callee means different programs at different call sites ("+strings.Join(sig, ",")+")")
			}
			return name, nil
		}
	}
	c.subs = append(c.subs, tgSub{name, text})
	return name, nil
}

// &SessionTrackerError{<flag>: true, message: <text>, inner: <error variable>}
func (c *tgCtx) trackerError(fr *tgFrame, e ast.Expr) (string, bool, error) {
	un, ok := e.(*ast.UnaryExpr)
	if !ok || un.Op != token.AND {
		return "", false, nil
	}
	cl, ok := un.X.(*ast.CompositeLit)
	if !ok || !tgIsIdent(cl.Type, "SessionTrackerError") {
		return "", false, nil
	}
	flag, inner := "", ""
	for _, el := range cl.Elts {
		kv, ok := el.(*ast.KeyValueExpr)
		if !ok {
			return "", true, c.unsup(el, "positional field")
		}
		k, ok := kv.Key.(*ast.Ident)
		if !ok {
			return "", true, c.unsup(el, "field")
		}
		switch k.Name {
		case "message":
			// fmt.Sprintf(<literal>, reads...) or <x>.Error()
			call, isCall := kv.Value.(*ast.CallExpr)
			okMsg := false
			if isCall && c.qualified(fr, call.Fun, "fmt", "Sprintf") && len(call.Args) >= 1 && call.Ellipsis == token.NoPos {
				_, isLit := call.Args[0].(*ast.BasicLit)
				okMsg = isLit && c.logArgs(fr, call.Args[1:])
			} else if isCall {
				okMsg = c.logArg(fr, kv.Value)
			}
			if !okMsg {
				return "", true, c.unsup(el, "error message not understood")
			}
		case "inner":
			s, ok := c.isKind(fr, kv.Value, "err")
			if !ok || inner != "" {
				return "", true, c.unsup(el, "inner is not an error variable")
			}
			inner = s.expr
		default:
			if _, shadow := fr.env["true"]; shadow || !tgIsIdent(kv.Value, "true") || flag != "" || !tgIsGoIdent(k.Name) {
				return "", true, c.unsup(el, "error class: expected exactly one flag set to true")
			}
			flag = k.Name
		}
	}
	if flag == "" || inner == "" {
		return "", true, c.unsup(e, "SessionTrackerError without a class flag or without inner")
	}
	return "(RTrackerError " + flag + " " + tgQ(inner) + ")", true, nil
}

func (c *tgCtx) returnStmt(fr *tgFrame, r *ast.ReturnStmt) ([]tgStmt, error) {
	if fr.result != "error" {
		return nil, c.unsup(r, "return where none is understood (body of a scan, void helper, void method)")
	}
	if fr.inLoop {
		// allowed: the loop of writeAndClearCache returns the error
	}
	if len(r.Results) != 1 {
		return nil, c.unsup(r, "return arity")
	}
	e := r.Results[0]
	if _, shadow := fr.env["nil"]; !shadow && tgIsIdent(e, "nil") {
		return []tgStmt{tgLeaf("SReturn RNil")}, nil
	}
	if s, ok := c.isKind(fr, e, "err"); ok {
		return []tgStmt{tgLeaf("SReturn (RErrVar %s)", tgQ(s.expr))}, nil
	}
	if t, is, err := c.trackerError(fr, e); is {
		if err != nil {
			return nil, err
		}
		return []tgStmt{tgLeaf("SReturn %s", t)}, nil
	}
	call, ok := e.(*ast.CallExpr)
	if !ok || call.Ellipsis != token.NoPos {
		return nil, c.unsup(r, "returned value not understood")
	}
	if fr.inLoop {
		return nil, c.unsup(r, "call in a return inside the loop over the cached events")
	}
	// return <map>.WithLockedValueDo(k, func(v) error { ... })
	if m, meth, args, ok := c.mapCall(fr, call); ok {
		if meth != "WithLockedValueDo" || len(args) != 2 {
			return nil, c.unsup(r, "returned map call not understood")
		}
		k, err := c.keyExpr(fr, args[0], m)
		if err != nil {
			return nil, err
		}
		fl, ok := args[1].(*ast.FuncLit)
		if !ok || fl.Type.Params.NumFields() != 1 || len(fl.Type.Params.List[0].Names) != 1 ||
			fl.Type.Results.NumFields() != 1 || tgTypeStr(fl.Type.Results.List[0].Type) != "error" {
			return nil, c.unsup(r, "callback of WithLockedValueDo is not a func literal (v) error")
		}
		cf := fr.child()
		p := fl.Type.Params.List[0]
		var sym tgSym
		switch {
		case m == "MSessions" && c.kindOfType(fr, p.Type) == "user":
			if fr.has("user", "") {
				return nil, c.unsup(r, "a second user object while one is current")
			}
			sym = tgSym{kind: "user"}
		case m == "MLogins" && c.kindOfType(fr, p.Type) == "login":
			if fr.has("login", "LCur") {
				return nil, c.unsup(r, "a second current login")
			}
			sym = tgSym{kind: "login", expr: "LCur"}
		default:
			return nil, c.unsup(r, "callback parameter type does not fit the map")
		}
		name := p.Names[0].Name
		if _, shadow := cf.env[name]; shadow || fr.fn.declared[name] || name == "_" {
			return nil, c.unsup(r, "callback parameter shadows something")
		}
		cf.env[name] = sym
		cf.result = "error"
		body, err := c.block(cf, fl.Body.List)
		if err != nil {
			return nil, err
		}
		return []tgStmt{{head: fmt.Sprintf("SReturnWithLocked %s %s", m, k), blocks: [][]tgStmt{body}}}, nil
	}
	// return o.<method>(args)
	if sel, ok := call.Fun.(*ast.SelectorExpr); ok {
		if _, isT := c.isKind(fr, sel.X, "tracker"); isT {
			fd := c.funcs["*sessionTracker."+sel.Sel.Name]
			if fd == nil {
				return nil, c.unsup(r, "unknown method of the correlator")
			}
			sub, err := c.callSub(fr, call, fd, "tracker", "method_")
			if err != nil {
				return nil, err
			}
			return []tgStmt{tgLeaf("SReturnCall %s %s", tgQ(sel.Sel.Name), sub)}, nil
		}
	}
	return nil, c.unsup(r, "returned call not understood")
}

func (c *tgCtx) exprStmt(fr *tgFrame, es *ast.ExprStmt) ([]tgStmt, error) {
	call, ok := es.X.(*ast.CallExpr)
	if !ok || call.Ellipsis != token.NoPos {
		return nil, c.unsup(es, "expression statement that is not a call")
	}
	if m, meth, args, ok := c.mapCall(fr, call); ok {
		switch {
		case meth == "Iterate" && len(args) == 1:
			return c.iterate(fr, es, m, args[0])
		case (meth == "DeleteUnsafe" || meth == "Delete") && len(args) == 1:
			k, err := c.keyExpr(fr, args[0], m)
			if err != nil {
				return nil, err
			}
			locking := "false"
			if meth == "Delete" {
				locking = "true"
			}
			return []tgStmt{tgLeaf("SDelete %s %s %s", m, locking, k)}, nil
		case meth == "Store" && len(args) == 2:
			k, err := c.keyExpr(fr, args[0], m)
			if err != nil {
				return nil, err
			}
			if m == "MSessions" {
				if _, ok := c.isKind(fr, args[1], "user"); !ok {
					return nil, c.unsup(es, "stored value is not the current user object")
				}
				return []tgStmt{tgLeaf("SStoreUser %s", k)}, nil
			}
			l, err := c.loginExpr(fr, args[1])
			if err != nil {
				return nil, err
			}
			return []tgStmt{tgLeaf("SStoreLogin %s %s", k, l)}, nil
		}
		return nil, c.unsup(es, "map call not understood")
	}
	// <user>.<void helper>(args): inlined
	if sel, ok := call.Fun.(*ast.SelectorExpr); ok {
		if _, isU := c.isKind(fr, sel.X, "user"); isU {
			fd := c.userMethod(sel.Sel.Name)
			if fd == nil || fd.Body == nil || tgResults(fd) != "" || tgRecvName(fd) == "" {
				return nil, c.unsup(es, "call of a method of the user object that is not a void helper")
			}
			if fr.depth >= 4 {
				return nil, c.unsup(es, "helper nesting too deep")
			}
			// no variables, no returns: the statements are the caller's
			hf := &tgFrame{fn: &tgFn{name: fd.Name.Name, declared: map[string]bool{}}, env: map[string]tgSym{}, result: "none",
				depth: fr.depth + 1, inLoop: fr.inLoop, elemBound: fr.elemBound}
			hf.env[tgRecvName(fd)] = tgSym{kind: "user"}
			var names []string
			var types []ast.Expr
			for _, f := range fd.Type.Params.List {
				for _, n := range f.Names {
					names = append(names, n.Name)
					types = append(types, f.Type)
				}
				if len(f.Names) == 0 {
					return nil, c.unsup(es, "helper with an unnamed parameter")
				}
			}
			if len(names) != len(call.Args) {
				return nil, c.unsup(es, "arity")
			}
			for i, a := range call.Args {
				sym, ok := c.symOf(fr, a)
				if !ok || (sym.kind != "login" && sym.kind != "event") || c.kindOfType(hf, types[i]) != sym.kind {
					return nil, c.unsup(a, "argument of a void helper that is not a login or an event of the right type")
				}
				if _, dup := hf.env[names[i]]; dup {
					return nil, c.unsup(es, "parameter name clashes")
				}
				hf.env[names[i]] = sym
			}
			body, err := c.block(hf, fd.Body.List)
			if err != nil {
				return nil, tgUnsupported("in " + fd.Name.Name + ": " + err.Error())
			}
			if len(hf.fn.declared) != 0 {
				return nil, c.unsup(es, "void helper that declares variables")
			}
			return body, nil
		}
	}
	return nil, c.unsup(es, "call not understood")
}

func (c *tgCtx) isReturnOf(fr *tgFrame, s ast.Stmt, lit string) bool {
	r, ok := s.(*ast.ReturnStmt)
	if !ok || len(r.Results) != 1 {
		return false
	}
	_, shadow := fr.env[lit]
	return !shadow && tgIsIdent(r.Results[0], lit)
}

// <map>.Iterate(func(k, v) bool { ... }): the two shapes
func (c *tgCtx) iterate(fr *tgFrame, es *ast.ExprStmt, m string, cb ast.Expr) ([]tgStmt, error) {
	fl, ok := cb.(*ast.FuncLit)
	if !ok || fl.Type.Params.NumFields() != 2 || fl.Type.Results.NumFields() != 1 || tgTypeStr(fl.Type.Results.List[0].Type) != "bool" {
		return nil, c.unsup(es, "callback of Iterate is not a func literal (k, v) bool")
	}
	if fr.inLoop || fr.has("iterkey", "") {
		return nil, c.unsup(es, "nested iteration")
	}
	var names []string
	var types []ast.Expr
	for _, f := range fl.Type.Params.List {
		for _, n := range f.Names {
			names = append(names, n.Name)
			types = append(types, f.Type)
		}
	}
	if len(names) != 2 || names[0] == "_" || names[1] == "_" || names[0] == names[1] {
		return nil, c.unsup(es, "callback parameters")
	}
	cf := fr.child()
	for _, n := range names {
		if _, shadow := cf.env[n]; shadow || fr.fn.declared[n] {
			return nil, c.unsup(es, "callback parameter shadows something")
		}
	}
	switch {
	case m == "MSessions" && c.kindOfType(fr, types[0]) == "string" && c.kindOfType(fr, types[1]) == "user":
		if fr.has("user", "") {
			return nil, c.unsup(es, "a second user object while one is current")
		}
		cf.env[names[0]] = tgSym{kind: "iterkey", key: "string", m: m}
		cf.env[names[1]] = tgSym{kind: "user"}
	case m == "MLogins" && c.kindOfType(fr, types[0]) == "int" && c.kindOfType(fr, types[1]) == "login":
		if fr.has("login", "LCur") {
			return nil, c.unsup(es, "a second current login")
		}
		cf.env[names[0]] = tgSym{kind: "iterkey", key: "int", m: m}
		cf.env[names[1]] = tgSym{kind: "login", expr: "LCur"}
	default:
		return nil, c.unsup(es, "callback parameter types do not fit the map")
	}
	cf.result = "none"
	var body []ast.Stmt
	for _, s := range fl.Body.List {
		if !c.logOnly(cf, s) {
			body = append(body, s)
		}
	}
	if len(body) != 2 || !c.isReturnOf(cf, body[1], "true") {
		return nil, c.unsup(es, "callback of Iterate: expected `if C {...}; return true`")
	}
	ifs, ok := body[0].(*ast.IfStmt)
	if !ok || ifs.Init != nil || ifs.Else != nil {
		return nil, c.unsup(es, "callback of Iterate: expected `if C {...}; return true`")
	}
	cond, err := c.boolExpr(cf, ifs.Cond)
	if err != nil {
		return nil, err
	}
	var inner []ast.Stmt
	for _, s := range ifs.Body.List {
		if !c.logOnly(cf, s) {
			inner = append(inner, s)
		}
	}
	if len(inner) == 0 {
		return nil, c.unsup(es, "callback of Iterate does nothing")
	}
	last := inner[len(inner)-1]
	if c.isReturnOf(cf, last, "false") {
		// act on the first entry satisfying C, then stop
		if m != "MSessions" {
			return nil, c.unsup(es, "scan for the first entry on the login map")
		}
		b, err := c.block(cf.child(), inner[:len(inner)-1])
		if err != nil {
			return nil, err
		}
		return []tgStmt{{head: fmt.Sprintf("SScanFirst %s %s", m, cond), blocks: [][]tgStmt{b}}}, nil
	}
	// delete every entry satisfying C
	if len(inner) == 1 {
		if es2, ok := inner[0].(*ast.ExprStmt); ok {
			if m2, meth, args, ok := c.mapCall(cf, es2.X); ok && m2 == m && meth == "DeleteUnsafe" && len(args) == 1 {
				if k, isK := c.isKind(cf, args[0], "iterkey"); isK && k.m == m {
					return []tgStmt{tgLeaf("SDeleteWhere %s %s", m, cond)}, nil
				}
			}
		}
	}
	return nil, c.unsup(es, "callback of Iterate: neither `if C { ...; return false }; return true` nor `if C { m.DeleteUnsafe(k) }; return true`")
}

// ---------------------------------------------------------------------------------------------
// the file

func (c *tgCtx) structFields(name string) (*ast.StructType, bool) {
	for _, d := range c.file.Decls {
		gd, ok := d.(*ast.GenDecl)
		if !ok || gd.Tok != token.TYPE {
			continue
		}
		for _, sp := range gd.Specs {
			ts := sp.(*ast.TypeSpec)
			if st, ok := ts.Type.(*ast.StructType); ok && ts.Name.Name == name && ts.TypeParams == nil {
				return st, true
			}
		}
	}
	return nil, false
}

func (c *tgCtx) load(repo string) error {
	path := filepath.Join(repo, tgFile)
	src, err := os.ReadFile(path)
	if err != nil {
		return err
	}
	c.src = src
	c.fset = token.NewFileSet()
	c.file, err = parser.ParseFile(c.fset, path, src, 0)
	if err != nil {
		return err
	}
	gomod, err := os.ReadFile(filepath.Join(repo, "go.mod"))
	if err != nil {
		return err
	}
	for _, ln := range strings.Split(string(gomod), "\n") {
		if f := strings.Fields(ln); len(f) == 2 && f[0] == "module" {
			c.modPath = f[1]
		}
	}
	c.funcs = map[string]*ast.FuncDecl{}
	for _, d := range c.file.Decls {
		fd, ok := d.(*ast.FuncDecl)
		if !ok || fd.Recv == nil || len(fd.Recv.List) != 1 {
			continue
		}
		key := tgTypeStr(fd.Recv.List[0].Type) + "." + fd.Name.Name
		if _, dup := c.funcs[key]; dup {
			return tgUnsupported("method declared twice: " + key)
		}
		c.funcs[key] = fd
	}
	c.tfields, c.ufields = map[string]string{}, map[string]string{}
	empty := &tgFrame{env: map[string]tgSym{}}
	st, ok := c.structFields("sessionTracker")
	if !ok {
		return tgUnsupported("no struct sessionTracker")
	}
	pkgIs := func(q, path string) bool { p, ok := c.importPath(empty, q); return ok && p == path }
	for _, f := range st.Fields.List {
		kind := ""
		switch t := tgTypeStr(f.Type); {
		case t == "*common.GenericSyncMap[string,*user]" && pkgIs("common", c.modPath+"/internal/common"):
			kind = "sessions"
		case t == "*common.GenericSyncMap[int,common.RemoteUserLogin]" && pkgIs("common", c.modPath+"/internal/common"):
			kind = "logins"
		case c.kindOfType(empty, f.Type) == "writer":
			kind = "writer"
		case c.kindOfType(empty, f.Type) == "logger":
			kind = "logger"
		case t == "sync.Mutex" && pkgIs("sync", "sync"):
			kind = "mutex"
		}
		for _, n := range f.Names {
			c.tfields[n.Name] = kind
		}
	}
	count := map[string]int{}
	for _, k := range c.tfields {
		count[k]++
	}
	if count["sessions"] != 1 || count["logins"] != 1 || count["writer"] != 1 {
		return tgUnsupported("sessionTracker does not have exactly one session map, one login map and one event writer")
	}
	us, ok := c.structFields("user")
	if !ok {
		return tgUnsupported("no struct user")
	}
	for _, f := range us.Fields.List {
		for _, n := range f.Names {
			c.ufields[n.Name] = tgTypeStr(f.Type)
		}
	}
	want := map[string]string{"added": "time.Time", "srcPID": "int", "hasRUL": "bool", "login": "common.RemoteUserLogin", "cached": "[]*aucoalesce.Event"}
	for k, t := range want {
		if c.ufields[k] != t {
			return tgUnsupported("field " + k + " of user is not of type " + t)
		}
	}
	if len(c.ufields) != len(want) {
		return tgUnsupported("user has fields the model does not know")
	}
	return nil
}

// o.<mutex>.Lock(); defer o.<mutex>.Unlock() at the very beginning of an API method: the whole call is one
// critical section (Gen/TrackerLocks.v records it, the concurrent model uses it); sequentially a no-op
func (c *tgCtx) skipLock(fr *tgFrame, list []ast.Stmt) []ast.Stmt {
	if len(list) < 2 {
		return list
	}
	field := func(call *ast.CallExpr, meth string) string {
		sel, ok := call.Fun.(*ast.SelectorExpr)
		if !ok || sel.Sel.Name != meth || len(call.Args) != 0 {
			return ""
		}
		in, ok := sel.X.(*ast.SelectorExpr)
		if !ok {
			return ""
		}
		if _, isT := c.isKind(fr, in.X, "tracker"); !isT || c.tfields[in.Sel.Name] != "mutex" {
			return ""
		}
		return in.Sel.Name
	}
	es, ok1 := list[0].(*ast.ExprStmt)
	df, ok2 := list[1].(*ast.DeferStmt)
	if !ok1 || !ok2 {
		return list
	}
	call, ok := es.X.(*ast.CallExpr)
	if !ok {
		return list
	}
	if f := field(call, "Lock"); f != "" && f == field(df.Call, "Unlock") {
		return list[2:]
	}
	return list
}

func (c *tgCtx) apiMethod(name string) (string, error) {
	fd := c.funcs["*sessionTracker."+name]
	if fd == nil || fd.Body == nil || tgRecvName(fd) == "" {
		return "", tgUnsupported("no method " + name + " of *sessionTracker with a named receiver")
	}
	fr := &tgFrame{fn: &tgFn{name: name, declared: map[string]bool{}}, env: map[string]tgSym{}}
	fr.env[tgRecvName(fd)] = tgSym{kind: "tracker"}
	switch tgResults(fd) {
	case "error":
		fr.result = "error"
	case "":
		fr.result = "void"
	default:
		return "", tgUnsupported(name + ": result type")
	}
	n := 0
	for _, f := range fd.Type.Params.List {
		for _, p := range f.Names {
			var sym tgSym
			switch c.kindOfType(fr, f.Type) {
			case "login":
				sym = tgSym{kind: "login", expr: "LArg"}
			case "event":
				sym = tgSym{kind: "event", expr: "EvArg"}
			case "time":
				sym = tgSym{kind: "time", expr: "TArg"}
			default:
				return "", c.unsup(f, "parameter type of an API method")
			}
			if _, dup := fr.env[p.Name]; dup || p.Name == "_" {
				return "", c.unsup(f, "parameter name")
			}
			fr.env[p.Name] = sym
			n++
		}
		if len(f.Names) == 0 {
			return "", c.unsup(f, "unnamed parameter")
		}
	}
	if n != 1 {
		return "", tgUnsupported(name + ": an API method takes exactly one argument")
	}
	body, err := c.block(fr, c.skipLock(fr, fd.Body.List))
	if err != nil {
		return "", err
	}
	return tgPrintBlock(body, "  "), nil
}

func tgComment(s string) string {
	s = strings.ReplaceAll(s, "(*", "( *")
	return strings.ReplaceAll(s, "*)", "* )")
}

const tgHeader = `(* GENERATED by tools/go2v (trackergen.go) from processors/auditd/sessiontracker/sessiontracker.go. Do not edit.
   The four API methods of the session correlator as programs of the language of Model/TrackerIR.v,
   translated statement by statement (log-only statements dropped; o.mtx.Lock(); defer o.mtx.Unlock()
   at the beginning of an API method dropped, see Gen/TrackerLocks.v).  helper_* are error-valued methods of
   the user object, method_* are methods of the correlator called in return position.
   Proofs/TrackerIRTie.v: their interpretation is Model.Tracker.tstep. *)
From Coq Require Import List Bool ZArith NArith String.
Import ListNotations.
From AM Require Import Model.Tracker Model.TrackerIR.
Open Scope string_scope.
Open Scope tir_scope.

`

func genTrackerProg(repo, out string) error {
	c := &tgCtx{}
	var sb strings.Builder
	sb.WriteString(tgHeader)
	type res struct {
		name, text string
		err        error
	}
	var results []res
	if err := c.load(repo); err != nil {
		if _, isU := err.(tgUnsupported); !isU {
			return err
		}
		for _, n := range tgAPI {
			results = append(results, res{name: n, err: err})
		}
	} else {
		for _, n := range tgAPI {
			t, err := c.apiMethod(n)
			results = append(results, res{n, t, err})
		}
	}
	if err := tgCheckSyncMap(repo); err != nil {
		fmt.Fprintf(&sb, "(* UNSUPPORTED: %s *)\nDefinition syncmap_as_assumed : unit := UNSUPPORTED_syncmap.\n\n", tgComment(err.Error()))
	} else {
		sb.WriteString("(* internal/common/genericsyncmap.go: Load/Has/Store/Delete/DeleteUnsafe/Iterate/WithLockedValueDo have the\n   bodies the interpreter's map operations stand for *)\nDefinition syncmap_as_assumed : unit := tt.\n\n")
	}
	for _, s := range c.subs {
		fmt.Fprintf(&sb, "Definition %s : stmt :=\n%s.\n\n", s.name, s.text)
	}
	for _, r := range results {
		if r.err != nil {
			fmt.Fprintf(&sb, "(* UNSUPPORTED: %s *)\nDefinition prog_%s : stmt := UNSUPPORTED_prog_%s.\n\n", tgComment(r.err.Error()), r.name, r.name)
			continue
		}
		fmt.Fprintf(&sb, "Definition prog_%s : stmt :=\n%s.\n\n", r.name, r.text)
	}
	return os.WriteFile(filepath.Join(out, "TrackerProg.v"), []byte(sb.String()), 0o644)
}

// ---------------------------------------------------------------------------------------------
// the map library: the interpreter's aget/aset/adel/filter/pick stand for these bodies

var tgSyncMapBodies = map[string]string{
	"Load":              "value, ok := m.m[key]; return value, ok",
	"Has":               "_, ok := m.m[key]; return ok",
	"Store":             "m.m[key] = value",
	"Delete":            "m.DeleteUnsafe(key)",
	"DeleteUnsafe":      "delete(m.m, key)",
	"Iterate":           "for k, v := range m.m { if !cb(k, v) { break } }",
	"WithLockedValueDo": "if v, ok := m.m[key]; ok { return cb(v) }; return nil",
}

// tgCheckSyncMap compares the bodies of the GenericSyncMap methods the correlator uses, statement by statement
// (locking and the verification hook dropped, white space normalised), with what the interpreter assumes.
func tgCheckSyncMap(repo string) error {
	path := filepath.Join(repo, tgSyncMapFile)
	src, err := os.ReadFile(path)
	if err != nil {
		return tgUnsupported("cannot read " + tgSyncMapFile)
	}
	fset := token.NewFileSet()
	f, err := parser.ParseFile(fset, path, src, 0)
	if err != nil {
		return tgUnsupported("cannot parse " + tgSyncMapFile)
	}
	txt := func(n ast.Node) string {
		return strings.Join(strings.Fields(string(src[fset.Position(n.Pos()).Offset:fset.Position(n.End()).Offset])), " ")
	}
	seen := map[string]bool{}
	for _, d := range f.Decls {
		fd, ok := d.(*ast.FuncDecl)
		if !ok || fd.Recv == nil || fd.Body == nil {
			continue
		}
		want, used := tgSyncMapBodies[fd.Name.Name]
		if !used {
			continue
		}
		if rt := tgTypeStr(fd.Recv.List[0].Type); rt != "*GenericSyncMap[K,V]" || tgRecvName(fd) != "m" {
			return tgUnsupported("receiver of " + fd.Name.Name + " is not m *GenericSyncMap[K, V]")
		}
		var parts []string
		for _, s := range fd.Body.List {
			t := txt(s)
			if t == "m.mtx.Lock()" || t == "defer m.mtx.Unlock()" || strings.HasPrefix(t, "VerifPoint(") {
				continue
			}
			parts = append(parts, t)
		}
		got := strings.Join(parts, "; ")
		if got != want {
			return tgUnsupported("GenericSyncMap." + fd.Name.Name + " is `" + got + "`, the interpreter assumes `" + want + "`")
		}
		if seen[fd.Name.Name] {
			return tgUnsupported("GenericSyncMap." + fd.Name.Name + " declared twice")
		}
		seen[fd.Name.Name] = true
	}
	var missing []string
	for n := range tgSyncMapBodies {
		if !seen[n] {
			missing = append(missing, n)
		}
	}
	sort.Strings(missing)
	if len(missing) != 0 {
		return tgUnsupported("GenericSyncMap lacks " + strings.Join(missing, ", "))
	}
	return nil
}
