package main

// auditgen.go: the audit processor translated into the IR of coq/Model/AuditIR.v (-> Gen/AuditProg.v):
//   processors/auditd/auditd.go                 Auditd.Read (set-up part and the select loop), maintainReassemblerLoop,
//                                               parseAuditLogs
//   processors/auditd/reassembler_callback.go   reassemblerCB.ReassemblyComplete, reassemblerCB.EventsLost
// Every function is rendered statement by statement, in source order, as an [afunc]: receiver name, parameter
// names, statement list.  Names are kept as they are in the source: the interpreter resolves them at run time
// through its environment, so the translator does not decide what a variable denotes; it only checks Go's
// scoping (no shadowing of package-level names, imports or predeclared identifiers; a  :=  that re-uses a
// variable of the same scope is refused once a closure has captured that variable).
// A statement or expression form that is not listed becomes  UNSUPPORTED_line_<n>  (an identifier that does not
// exist in Coq) with a comment saying what was not understood.  No matching on source text.
// Statements that do nothing but log ( logger.<Level>(args)  with arguments that are literals and reads) are
// rendered as  SLog "<Level>" , which the interpreter skips; anything else under a log-level guard is unsupported.

import (
	"fmt"
	"go/ast"
	"go/token"
	"os"
	"path/filepath"
	"regexp"
	"strconv"
	"strings"
)

func init() { generators = append(generators, agGen) }

const (
	agModule       = "github.com/metal-toolbox/audito-maldito"
	agLibauditPath = "github.com/elastic/go-libaudit/v2"
	agAuparsePath  = agLibauditPath + "/auparse"
	agCoalescePath = agLibauditPath + "/aucoalesce"
	agTrackerPath  = agModule + "/processors/auditd/sessiontracker"
	agCommonPath   = agModule + "/internal/common"
	agHealthPath   = agModule + "/internal/health"
	agEventPath    = "github.com/metal-toolbox/auditevent"
	agZapPath      = "go.uber.org/zap"
)

var agVersionElem = regexp.MustCompile(`^v[0-9]+$`)

// the package: constants, package-level names and struct types of every non-test file of processors/auditd
type agPkg struct {
	consts   map[string]ast.Expr
	constIn  map[string]*igFile
	pkgNames map[string]bool
	structs  map[string]map[string]ast.Expr
	structIn map[string]*igFile
	vars     map[string]ast.Expr // package-level variables with a declared type
	varIn    map[string]*igFile
	funcs    map[string]bool // package-level functions
}

// igLoad names an import by the last path element; a trailing major-version element (".../v2") is not the
// package name: the element before it is
func agLoad(path string) (*igFile, error) {
	f, err := igLoad(path)
	if err != nil {
		return nil, err
	}
	for _, im := range f.file.Imports {
		p, _ := strconv.Unquote(im.Path.Value)
		parts := strings.Split(p, "/")
		if im.Name == nil && len(parts) >= 2 && agVersionElem.MatchString(parts[len(parts)-1]) {
			delete(f.imports, parts[len(parts)-1])
			name := parts[len(parts)-2]
			if strings.HasPrefix(name, "go-") {
				name = name[3:]
			}
			f.imports[name] = p
		}
	}
	return f, nil
}

func agLoadPkg(dir string, files map[string]*igFile) (*agPkg, error) {
	p := &agPkg{consts: map[string]ast.Expr{}, constIn: map[string]*igFile{}, pkgNames: map[string]bool{},
		structs: map[string]map[string]ast.Expr{}, structIn: map[string]*igFile{}, vars: map[string]ast.Expr{},
		varIn: map[string]*igFile{}, funcs: map[string]bool{}}
	ents, err := os.ReadDir(dir)
	if err != nil {
		return nil, err
	}
	for _, e := range ents {
		n := e.Name()
		if e.IsDir() || !strings.HasSuffix(n, ".go") || strings.HasSuffix(n, "_test.go") {
			continue
		}
		f, ok := files[n]
		if !ok {
			if f, err = agLoad(filepath.Join(dir, n)); err != nil {
				return nil, err
			}
		}
		for k := range f.pkgNames {
			p.pkgNames[k] = true
		}
		for _, d := range f.file.Decls {
			switch x := d.(type) {
			case *ast.FuncDecl:
				if x.Recv == nil {
					p.funcs[x.Name.Name] = true
				}
			case *ast.GenDecl:
				for _, sp := range x.Specs {
					switch s := sp.(type) {
					case *ast.ValueSpec:
						for i, nm := range s.Names {
							if x.Tok == token.CONST && i < len(s.Values) {
								p.consts[nm.Name] = s.Values[i]
								p.constIn[nm.Name] = f
							}
							if x.Tok == token.VAR && s.Type != nil && len(s.Values) == 0 {
								p.vars[nm.Name] = s.Type
								p.varIn[nm.Name] = f
							}
						}
					case *ast.TypeSpec:
						if st, ok := s.Type.(*ast.StructType); ok {
							m := map[string]ast.Expr{}
							for _, fl := range st.Fields.List {
								for _, nm := range fl.Names {
									m[nm.Name] = fl.Type
								}
							}
							p.structs[s.Name.Name] = m
							p.structIn[s.Name.Name] = f
						}
					}
				}
			}
		}
	}
	return p, nil
}

// integer constant expressions: literals, time.<Unit>, package constants, * + - and unary minus
func (p *agPkg) constVal(f *igFile, e ast.Expr, depth int) (int64, bool) {
	if depth > 8 {
		return 0, false
	}
	switch v := igUnparen(e).(type) {
	case *ast.BasicLit:
		if v.Kind == token.INT {
			n, err := strconv.ParseInt(strings.ReplaceAll(v.Value, "_", ""), 0, 64)
			return n, err == nil
		}
	case *ast.Ident:
		if ex, ok := p.consts[v.Name]; ok {
			return p.constVal(p.constIn[v.Name], ex, depth+1)
		}
	case *ast.SelectorExpr:
		if x, ok := v.X.(*ast.Ident); ok && f.imports[x.Name] == "time" {
			u, ok := timeUnits[v.Sel.Name]
			return u, ok
		}
	case *ast.BinaryExpr:
		a, ok1 := p.constVal(f, v.X, depth+1)
		b, ok2 := p.constVal(f, v.Y, depth+1)
		if ok1 && ok2 {
			switch v.Op {
			case token.MUL:
				return a * b, true
			case token.ADD:
				return a + b, true
			case token.SUB:
				return a - b, true
			}
		}
	case *ast.UnaryExpr:
		if v.Op == token.SUB {
			a, ok := p.constVal(f, v.X, depth+1)
			return -a, ok
		}
	}
	return 0, false
}

func agZ(n int64) string {
	if n < 0 {
		return fmt.Sprintf("(%d)", n)
	}
	return fmt.Sprintf("%d", n)
}

// ---------------------------------------------------------------------------------------------
// one function

type agScope struct {
	parent *agScope
	names  map[string]bool
}

type agFn struct {
	f        *igFile
	pk       *agPkg
	recv     string // "" for a plain function
	scope    *agScope
	tickers  map[string]bool // locals made with time.NewTicker
	durs     map[string]bool // time.Duration parameters
	captured map[string]bool // variables a closure refers to
}

func (c *agFn) errf(n ast.Node, format string, a ...interface{}) error {
	return c.f.errf(n, format, a...)
}

func (c *agFn) push() { c.scope = &agScope{parent: c.scope, names: map[string]bool{}} }
func (c *agFn) pop()  { c.scope = c.scope.parent }

func (c *agFn) declared(name string) bool {
	for s := c.scope; s != nil; s = s.parent {
		if s.names[name] {
			return true
		}
	}
	return false
}

var agPredeclared = map[string]bool{"nil": true, "true": true, "false": true, "make": true, "close": true, "len": true, "cap": true,
	"new": true, "append": true, "panic": true, "recover": true, "string": true, "error": true, "int": true, "byte": true,
	"bool": true, "iota": true, "copy": true, "delete": true, "print": true, "println": true}

// declare a variable in the innermost scope.  reuse = it already exists there (a := with several targets
// assigns to it); that is refused once a closure has captured the variable
func (c *agFn) declare(n ast.Node, name string, allowReuse bool) error {
	if name == "_" {
		return nil
	}
	if c.f.imports[name] != "" || c.pk.pkgNames[name] || agPredeclared[name] {
		return c.errf(n, "local name %s shadows an import, a package-level name or a predeclared identifier", name)
	}
	if c.scope.names[name] {
		if !allowReuse {
			return c.errf(n, "%s is declared twice in one scope", name)
		}
		if c.captured[name] {
			return c.errf(n, "%s is assigned after a closure captured it", name)
		}
		return nil
	}
	c.scope.names[name] = true
	return nil
}

// a use of a local variable, parameter or the receiver
func (c *agFn) varName(e ast.Expr) (string, error) {
	id, ok := igUnparen(e).(*ast.Ident)
	if !ok {
		return "", c.errf(e, "expected a variable, found %T", e)
	}
	if id.Name == "_" || !c.declared(id.Name) {
		return "", c.errf(e, "%s is not a local variable, parameter or the receiver", id.Name)
	}
	return id.Name, nil
}

func (c *agFn) q(e ast.Expr) (string, error) {
	n, err := c.varName(e)
	if err != nil {
		return "", err
	}
	return igQ(n), nil
}

// <pkg>.<name> with pkg an import of the given path that no local shadows (locals never shadow imports here)
func (c *agFn) isPkgSel(e ast.Expr, path, name string) bool { return c.f.isPkgSel(e, path, name) }

// a package-level function / variable named by a bare identifier
func (c *agFn) isPkgIdent(e ast.Expr, name string) bool {
	return igIsIdent(e, name) && !c.declared(name) && c.pk.pkgNames[name]
}

func (c *agFn) isBuiltin(e ast.Expr, name string) bool {
	return igIsIdent(e, name) && !c.declared(name) && !c.pk.pkgNames[name] && c.f.imports[name] == ""
}

// recv.<field>: the field must exist in the receiver's struct type
func (c *agFn) recvField(e ast.Expr) (string, string, bool) {
	sel, ok := igUnparen(e).(*ast.SelectorExpr)
	if !ok || c.recv == "" || !igIsIdent(sel.X, c.recv) {
		return "", "", false
	}
	return c.recv, sel.Sel.Name, true
}

// ---- expressions -------------------------------------------------------------------------------

// x.M(args) with x a variable
func (c *agFn) methodOnVar(e ast.Expr, name string) (string, []ast.Expr, bool) {
	call, ok := igUnparen(e).(*ast.CallExpr)
	if !ok || call.Ellipsis != token.NoPos {
		return "", nil, false
	}
	sel, ok := call.Fun.(*ast.SelectorExpr)
	if !ok || sel.Sel.Name != name {
		return "", nil, false
	}
	id, ok := igUnparen(sel.X).(*ast.Ident)
	if !ok || !c.declared(id.Name) {
		return "", nil, false
	}
	return id.Name, call.Args, true
}

func (c *agFn) chanExpr(e ast.Expr) (string, error) {
	e = igUnparen(e)
	if x, args, ok := c.methodOnVar(e, "Done"); ok && len(args) == 0 {
		return "ChDone " + igQ(x), nil
	}
	switch v := e.(type) {
	case *ast.Ident:
		n, err := c.varName(v)
		if err != nil {
			return "", err
		}
		return "ChVar " + igQ(n), nil
	case *ast.SelectorExpr:
		if id, ok := igUnparen(v.X).(*ast.Ident); ok && c.tickers[id.Name] && c.declared(id.Name) && v.Sel.Name == "C" {
			return "ChTick " + igQ(id.Name), nil
		}
		if r, f, ok := c.recvField(v); ok {
			return "ChField " + igQ(r) + " " + igQ(f), nil
		}
	}
	return "", c.errf(e, "channel expression form")
}

// time.Now().Add(<constant>)
func (c *agFn) nowAdd(e ast.Expr) (int64, bool) {
	call, ok := igUnparen(e).(*ast.CallExpr)
	if !ok || len(call.Args) != 1 || call.Ellipsis != token.NoPos {
		return 0, false
	}
	sel, ok := call.Fun.(*ast.SelectorExpr)
	if !ok || sel.Sel.Name != "Add" {
		return 0, false
	}
	now, ok := igUnparen(sel.X).(*ast.CallExpr)
	if !ok || len(now.Args) != 0 || !c.isPkgSel(now.Fun, "time", "Now") {
		return 0, false
	}
	return c.pk.constVal(c.f, call.Args[0], 0)
}

func (c *agFn) timeExpr(e ast.Expr) (string, error) {
	e = igUnparen(e)
	if d, ok := c.nowAdd(e); ok {
		return "TNowAdd " + agZ(d), nil
	}
	switch v := e.(type) {
	case *ast.Ident:
		n, err := c.varName(v)
		if err != nil {
			return "", err
		}
		return "TVar " + igQ(n), nil
	case *ast.SelectorExpr:
		if r, f, ok := c.recvField(v); ok {
			return "TField " + igQ(r) + " " + igQ(f), nil
		}
		if id, ok := igUnparen(v.X).(*ast.Ident); ok && c.declared(id.Name) && v.Sel.Name == "Timestamp" {
			return "TTimestamp " + igQ(id.Name), nil
		}
	}
	return "", c.errf(e, "time expression form")
}

func (c *agFn) durExpr(e ast.Expr) (string, error) {
	if id, ok := igUnparen(e).(*ast.Ident); ok && c.declared(id.Name) {
		if c.durs[id.Name] {
			return "DVar " + igQ(id.Name), nil
		}
		return "", c.errf(e, "%s is not a time.Duration parameter", id.Name)
	}
	if d, ok := c.pk.constVal(c.f, e, 0); ok {
		return "DConst " + agZ(d), nil
	}
	return "", c.errf(e, "duration that is neither a constant nor a parameter")
}

// the verbs of a format string
func agVerbs(format string) []string {
	var out []string
	for i := 0; i < len(format); i++ {
		if format[i] != '%' {
			continue
		}
		j := i + 1
		for j < len(format) && strings.IndexByte("+-# 0123456789.*[]", format[j]) >= 0 {
			j++
		}
		if j < len(format) {
			if format[j] != '%' {
				out = append(out, format[i:j+1])
			}
			i = j
		}
	}
	return out
}

func agStringLit(e ast.Expr) (string, bool) {
	bl, ok := igUnparen(e).(*ast.BasicLit)
	if !ok || bl.Kind != token.STRING {
		return "", false
	}
	s, err := strconv.Unquote(bl.Value)
	return s, err == nil
}

// fmt.Sprintf("..", a, b): the arguments are variables (or x.Error()); their names
func (c *agFn) sprintfShown(e ast.Expr) ([]string, error) {
	call, ok := igUnparen(e).(*ast.CallExpr)
	if !ok || !c.isPkgSel(call.Fun, "fmt", "Sprintf") || len(call.Args) < 1 || call.Ellipsis != token.NoPos {
		return nil, c.errf(e, "message that is not fmt.Sprintf(..)")
	}
	format, ok := agStringLit(call.Args[0])
	if !ok {
		return nil, c.errf(e, "format that is not a string literal")
	}
	verbs := agVerbs(format)
	if len(verbs) != len(call.Args)-1 {
		return nil, c.errf(e, "number of verbs and arguments differ")
	}
	var shown []string
	for i, a := range call.Args[1:] {
		if verbs[i] != "%s" && verbs[i] != "%v" && verbs[i] != "%q" {
			return nil, c.errf(e, "verb %s (a message must show its arguments whole: %%s, %%v, %%q)", verbs[i])
		}
		if x, args, ok := c.methodOnVar(a, "Error"); ok && len(args) == 0 {
			shown = append(shown, igQ(x))
			continue
		}
		n, err := c.q(a)
		if err != nil {
			return nil, err
		}
		shown = append(shown, n)
	}
	return shown, nil
}

func (c *agFn) errExpr(e ast.Expr) (string, error) {
	e = igUnparen(e)
	switch v := e.(type) {
	case *ast.Ident:
		if c.isBuiltin(v, "nil") {
			return "ENil", nil
		}
		n, err := c.q(v)
		if err != nil {
			return "", err
		}
		return "EVar " + n, nil
	case *ast.CallExpr:
		if x, args, ok := c.methodOnVar(v, "Err"); ok && len(args) == 0 {
			return "ECtxErr " + igQ(x), nil
		}
		if c.isPkgSel(v.Fun, "fmt", "Errorf") && v.Ellipsis == token.NoPos {
			if len(v.Args) != 2 {
				return "", c.errf(e, "fmt.Errorf with other than one argument after the format")
			}
			format, ok := agStringLit(v.Args[0])
			verbs := agVerbs(format)
			if !ok || len(verbs) != 1 || verbs[0] != "%w" {
				return "", c.errf(e, "fmt.Errorf whose format does not have exactly one verb, %%w")
			}
			q, okq := igCoqStr(format)
			if !okq {
				return "", c.errf(e, "format with non-printable characters")
			}
			inner, err := c.errExpr(v.Args[1])
			if err != nil {
				return "", err
			}
			return "EWrap " + q + " (" + inner + ")", nil
		}
	case *ast.UnaryExpr:
		if v.Op != token.AND {
			break
		}
		cl, ok := igUnparen(v.X).(*ast.CompositeLit)
		if !ok {
			break
		}
		tn, ok := cl.Type.(*ast.Ident)
		if !ok || c.declared(tn.Name) {
			break
		}
		ctor := ""
		switch tn.Name {
		case "parseAuditLogsError":
			ctor = "EParseError"
		case "reassemblerCBError":
			ctor = "ECBError"
		default:
			return "", c.errf(e, "composite literal of type %s", tn.Name)
		}
		fields := c.pk.structs[tn.Name]
		if len(fields) != 2 || !igIsIdent(fields["message"], "string") || !igIsIdent(fields["inner"], "error") {
			return "", c.errf(e, "type %s is not struct{message string; inner error}", tn.Name)
		}
		var msg, inner ast.Expr
		for _, el := range cl.Elts {
			kv, ok := el.(*ast.KeyValueExpr)
			if !ok {
				return "", c.errf(e, "unkeyed field in %s literal", tn.Name)
			}
			switch {
			case igIsIdent(kv.Key, "message") && msg == nil:
				msg = kv.Value
			case igIsIdent(kv.Key, "inner") && inner == nil:
				inner = kv.Value
			default:
				return "", c.errf(e, "field of %s literal", tn.Name)
			}
		}
		if msg == nil || inner == nil {
			return "", c.errf(e, "%s literal without message or inner", tn.Name)
		}
		shown, err := c.sprintfShown(msg)
		if err != nil {
			return "", err
		}
		in, err := c.errExpr(inner)
		if err != nil {
			return "", err
		}
		return ctor + " [" + strings.Join(shown, "; ") + "] (" + in + ")", nil
	}
	return "", c.errf(e, "error expression form %T", e)
}

// calls whose results are bound to variables
func (c *agFn) callExpr(e ast.Expr) (string, int, error) {
	call, ok := igUnparen(e).(*ast.CallExpr)
	if !ok || call.Ellipsis != token.NoPos {
		return "", 0, c.errf(e, "expected a call")
	}
	if x, args, ok := c.methodOnVar(call, "Err"); ok && len(args) == 0 {
		return "KCtxErr " + igQ(x), 1, nil
	}
	if x, args, ok := c.methodOnVar(call, "Maintain"); ok && len(args) == 0 {
		return "KMaintain " + igQ(x), 1, nil
	}
	if x, args, ok := c.methodOnVar(call, "RemoteLogin"); ok && len(args) == 1 {
		a, err := c.q(args[0])
		if err != nil {
			return "", 0, err
		}
		return "KRemoteLogin " + igQ(x) + " " + a, 1, nil
	}
	if c.isPkgSel(call.Fun, agAuparsePath, "ParseLogLine") && len(call.Args) == 1 {
		a, err := c.q(call.Args[0])
		if err != nil {
			return "", 0, err
		}
		return "KParseLogLine " + a, 2, nil
	}
	if c.isPkgSel(call.Fun, agCoalescePath, "CoalesceMessages") && len(call.Args) == 1 {
		a, err := c.q(call.Args[0])
		if err != nil {
			return "", 0, err
		}
		return "KCoalesce " + a, 2, nil
	}
	// recv.f.AuditdEvent(ev)
	if sel, ok := call.Fun.(*ast.SelectorExpr); ok && sel.Sel.Name == "AuditdEvent" && len(call.Args) == 1 {
		if r, f, ok := c.recvField(sel.X); ok {
			a, err := c.q(call.Args[0])
			if err != nil {
				return "", 0, err
			}
			return "KAuditdEvent " + igQ(r) + " " + igQ(f) + " " + a, 1, nil
		}
	}
	return "", 0, c.errf(e, "call that is not one of ctx.Err, ParseLogLine, CoalesceMessages, <recv>.<f>.AuditdEvent, RemoteLogin, Maintain")
}

// a condition; pre = a statement to run first (a call whose result is compared with nil)
func (c *agFn) cond(e ast.Expr) (pre string, cnd string, err error) {
	e = igUnparen(e)
	switch v := e.(type) {
	case *ast.UnaryExpr:
		if v.Op == token.NOT {
			p, x, err := c.cond(v.X)
			if err != nil {
				return "", "", err
			}
			return p, "CNot (" + x + ")", nil
		}
	case *ast.BinaryExpr:
		if v.Op != token.NEQ && v.Op != token.EQL {
			break
		}
		wrapNE := func(t string) string { // t states the != form
			if v.Op == token.EQL {
				return "CNot (" + t + ")"
			}
			return t
		}
		wrapEQ := func(t string) string { // t states the == form
			if v.Op == token.NEQ {
				return "CNot (" + t + ")"
			}
			return t
		}
		if c.isBuiltin(v.Y, "nil") {
			if _, ok := igUnparen(v.X).(*ast.CallExpr); ok {
				k, n, err := c.callExpr(v.X)
				if err != nil {
					return "", "", err
				}
				if n != 1 {
					return "", "", c.errf(e, "two-valued call compared with nil")
				}
				return "SDefine [\"<cond>\"] (" + k + ")", wrapNE("CErrNotNil \"<cond>\""), nil
			}
			x, err := c.q(v.X)
			if err != nil {
				return "", "", err
			}
			return "", wrapNE("CErrNotNil " + x), nil
		}
		if s, ok := agStringLit(v.Y); ok && s == "" {
			x, err := c.q(v.X)
			if err != nil {
				return "", "", err
			}
			return "", wrapEQ("CStrEmpty " + x), nil
		}
	case *ast.CallExpr:
		if sel, ok := v.Fun.(*ast.SelectorExpr); ok && len(v.Args) == 1 && v.Ellipsis == token.NoPos &&
			(sel.Sel.Name == "Before" || sel.Sel.Name == "After") {
			a, err := c.timeExpr(sel.X)
			if err != nil {
				return "", "", err
			}
			b, err := c.timeExpr(v.Args[0])
			if err != nil {
				return "", "", err
			}
			return "", "C" + sel.Sel.Name + " (" + a + ") (" + b + ")", nil
		}
	}
	return "", "", c.errf(e, "condition form")
}

// ---- logging -----------------------------------------------------------------------------------

func (c *agFn) pureLogArg(e ast.Expr) bool {
	switch v := igUnparen(e).(type) {
	case *ast.BasicLit:
		return true
	case *ast.Ident:
		return c.declared(v.Name) || c.isBuiltin(v, "nil") || c.isBuiltin(v, "true") || c.isBuiltin(v, "false")
	case *ast.SelectorExpr:
		return c.pureLogArg(v.X)
	case *ast.StarExpr:
		return c.pureLogArg(v.X)
	case *ast.CallExpr:
		if v.Ellipsis != token.NoPos {
			return false
		}
		if c.isBuiltin(v.Fun, "len") && len(v.Args) == 1 {
			return c.pureLogArg(v.Args[0])
		}
		if sel, ok := v.Fun.(*ast.SelectorExpr); ok && len(v.Args) == 0 && (sel.Sel.Name == "String" || sel.Sel.Name == "Error") {
			return c.pureLogArg(sel.X)
		}
	}
	return false
}

// logger.<Level>(args) with logger the package-level *zap.SugaredLogger
func (c *agFn) logCall(s ast.Stmt) (string, bool) {
	es, ok := s.(*ast.ExprStmt)
	if !ok {
		return "", false
	}
	call, ok := es.X.(*ast.CallExpr)
	if !ok || call.Ellipsis != token.NoPos {
		return "", false
	}
	sel, ok := call.Fun.(*ast.SelectorExpr)
	if !ok || !tgLogMethods[sel.Sel.Name] || !c.isPkgIdent(sel.X, "logger") {
		return "", false
	}
	st, ok := c.pk.vars["logger"].(*ast.StarExpr)
	if !ok || !c.pk.varIn["logger"].isPkgSel(st.X, agZapPath, "SugaredLogger") {
		return "", false
	}
	for _, a := range call.Args {
		if !c.pureLogArg(a) {
			return "", false
		}
	}
	return sel.Sel.Name, true
}

// ---- statements --------------------------------------------------------------------------------

func (c *agFn) block(list []ast.Stmt, ind string, top bool) string {
	c.push()
	defer c.pop()
	var out []string
	for _, s := range list {
		out = append(out, c.stmt(s, ind+"  ", top))
	}
	return igList(ind, out)
}

func (c *agFn) stmt(s ast.Stmt, ind string, top bool) string {
	t, err := c.stmtE(s, ind, top)
	if err != nil {
		return fmt.Sprintf("(* UNSUPPORTED: %s *) UNSUPPORTED_line_%d", igComment(err.Error()), c.f.fset.Position(s.Pos()).Line)
	}
	return t
}

func (c *agFn) ident(e ast.Expr) (string, bool) {
	id, ok := e.(*ast.Ident)
	if !ok {
		return "", false
	}
	return id.Name, true
}

func (c *agFn) define(s *ast.AssignStmt, top bool) (string, error) {
	if s.Tok != token.DEFINE {
		return "", c.errf(s, "assignment with = (only := is translated)")
	}
	if len(s.Rhs) != 1 {
		return "", c.errf(s, "assignment with several right-hand sides")
	}
	var lhs []string
	for _, l := range s.Lhs {
		n, ok := c.ident(l)
		if !ok {
			return "", c.errf(s, "assignment target that is not a name")
		}
		lhs = append(lhs, n)
	}
	rhs := igUnparen(s.Rhs[0])
	declareAll := func() error {
		for i, n := range lhs {
			if err := c.declare(s.Lhs[i], n, len(lhs) > 1); err != nil {
				return err
			}
		}
		return nil
	}
	call, isCall := rhs.(*ast.CallExpr)
	if !isCall || call.Ellipsis != token.NoPos {
		return "", c.errf(s, "definition from something else than a call")
	}
	switch {
	case c.isBuiltin(call.Fun, "make"):
		if len(lhs) != 1 || !top {
			return "", c.errf(s, "make outside the top level or with several targets")
		}
		ch, ok := call.Args[0].(*ast.ChanType)
		if !ok || ch.Dir != ast.SEND|ast.RECV || len(call.Args) > 2 {
			return "", c.errf(s, "make of something else than a bidirectional channel")
		}
		capN := int64(0)
		if len(call.Args) == 2 {
			v, ok := c.pk.constVal(c.f, call.Args[1], 0)
			if !ok || v < 0 || v > 1000000 {
				return "", c.errf(s, "channel capacity that is not a small constant")
			}
			capN = v
		}
		if err := declareAll(); err != nil {
			return "", err
		}
		if c.isBuiltin(ch.Value, "error") {
			return fmt.Sprintf("SMakeErrChan %s %d", igQ(lhs[0]), capN), nil
		}
		if st, ok := ch.Value.(*ast.StructType); ok && len(st.Fields.List) == 0 && capN == 0 {
			return "SMakeSigChan " + igQ(lhs[0]), nil
		}
		return "", c.errf(s, "channel that is neither chan error nor an unbuffered chan struct{}")
	case c.isPkgSel(call.Fun, agTrackerPath, "NewSessionTracker"):
		if len(lhs) != 1 || !top || len(call.Args) != 2 {
			return "", c.errf(s, "NewSessionTracker form")
		}
		r, f, ok := c.recvField(call.Args[0])
		if !ok || !c.isPkgIdent(call.Args[1], "logger") {
			return "", c.errf(s, "NewSessionTracker not called as NewSessionTracker(<receiver>.<field>, logger)")
		}
		if err := declareAll(); err != nil {
			return "", err
		}
		return "SNewTracker " + igQ(lhs[0]) + " " + igQ(r) + " " + igQ(f), nil
	case c.isPkgSel(call.Fun, agLibauditPath, "NewReassembler"):
		if len(lhs) != 2 || !top || len(call.Args) != 3 {
			return "", c.errf(s, "NewReassembler form")
		}
		mx, ok1 := c.pk.constVal(c.f, call.Args[0], 0)
		tmo, ok2 := c.pk.constVal(c.f, call.Args[1], 0)
		if !ok1 || !ok2 {
			return "", c.errf(s, "NewReassembler limits that are not constants")
		}
		ue, ok := igUnparen(call.Args[2]).(*ast.UnaryExpr)
		if !ok || ue.Op != token.AND {
			return "", c.errf(s, "NewReassembler stream that is not &reassemblerCB{..}")
		}
		cl, ok := igUnparen(ue.X).(*ast.CompositeLit)
		if !ok || !c.isPkgIdent(cl.Type, "reassemblerCB") || c.pk.structs["reassemblerCB"] == nil {
			return "", c.errf(s, "NewReassembler stream that is not &reassemblerCB{..}")
		}
		vals := map[string]ast.Expr{}
		for _, el := range cl.Elts {
			kv, ok := el.(*ast.KeyValueExpr)
			if !ok {
				return "", c.errf(s, "unkeyed field in the reassemblerCB literal")
			}
			k, ok := c.ident(kv.Key)
			if !ok || vals[k] != nil || (k != "au" && k != "errors" && k != "after") {
				return "", c.errf(s, "field of the reassemblerCB literal")
			}
			vals[k] = kv.Value
		}
		if len(vals) != 3 || len(c.pk.structs["reassemblerCB"]) != 3 {
			return "", c.errf(s, "the reassemblerCB literal does not set exactly au, errors, after (all the fields of the type)")
		}
		au, err := c.q(vals["au"])
		if err != nil {
			return "", err
		}
		er, err := c.q(vals["errors"])
		if err != nil {
			return "", err
		}
		ar, af, ok := c.recvField(vals["after"])
		if !ok {
			return "", c.errf(s, "after: is not a field of the receiver")
		}
		if err := declareAll(); err != nil {
			return "", err
		}
		return fmt.Sprintf("SNewReassembler %s %s %s %s %s %s %s %s", igQ(lhs[0]), igQ(lhs[1]), agZ(mx), agZ(tmo), au, er, igQ(ar), igQ(af)), nil
	case c.isPkgSel(call.Fun, "context", "WithCancel"):
		if len(lhs) != 2 || !top || len(call.Args) != 1 {
			return "", c.errf(s, "WithCancel form")
		}
		parent, err := c.q(call.Args[0])
		if err != nil {
			return "", err
		}
		if err := declareAll(); err != nil {
			return "", err
		}
		return "SWithCancel " + igQ(lhs[0]) + " " + igQ(lhs[1]) + " " + parent, nil
	case c.isPkgSel(call.Fun, "time", "NewTicker"):
		if len(lhs) != 1 || !top || len(call.Args) != 1 {
			return "", c.errf(s, "NewTicker form")
		}
		d, err := c.durExpr(call.Args[0])
		if err != nil {
			return "", err
		}
		if err := declareAll(); err != nil {
			return "", err
		}
		c.tickers[lhs[0]] = true
		return "SNewTicker " + igQ(lhs[0]) + " (" + d + ")", nil
	}
	if d, ok := c.nowAdd(call); ok {
		if len(lhs) != 1 {
			return "", c.errf(s, "time definition with several targets")
		}
		if err := declareAll(); err != nil {
			return "", err
		}
		return "SDefineTime " + igQ(lhs[0]) + " (TNowAdd " + agZ(d) + ")", nil
	}
	k, n, err := c.callExpr(call)
	if err != nil {
		return "", err
	}
	if n != len(lhs) {
		return "", c.errf(s, "%d targets for a call with %d results", len(lhs), n)
	}
	if err := declareAll(); err != nil {
		return "", err
	}
	var qs []string
	for _, l := range lhs {
		qs = append(qs, igQ(l))
	}
	return "SDefine [" + strings.Join(qs, "; ") + "] (" + k + ")", nil
}

func (c *agFn) capture(names ...string) {
	for _, n := range names {
		c.captured[n] = true
	}
}

func (c *agFn) stmtE(s ast.Stmt, ind string, top bool) (string, error) {
	if m, ok := c.logCall(s); ok {
		return "SLog " + igQ(m), nil
	}
	switch v := s.(type) {
	case *ast.AssignStmt:
		return c.define(v, top)
	case *ast.IfStmt:
		// if logger.Level().Enabled(..) { only log calls }
		if v.Init == nil && v.Else == nil && len(v.Body.List) > 0 {
			if call, ok := igUnparen(v.Cond).(*ast.CallExpr); ok && len(call.Args) == 1 {
				if sel, ok := call.Fun.(*ast.SelectorExpr); ok && sel.Sel.Name == "Enabled" {
					if lv, ok := igUnparen(sel.X).(*ast.CallExpr); ok && len(lv.Args) == 0 {
						if ls, ok := lv.Fun.(*ast.SelectorExpr); ok && ls.Sel.Name == "Level" && c.isPkgIdent(ls.X, "logger") {
							for _, b := range v.Body.List {
								if _, ok := c.logCall(b); !ok {
									return "", c.errf(b, "statement under a log-level guard that does more than log")
								}
							}
							return "SLog \"<guarded>\"", nil
						}
					}
				}
			}
		}
		c.push() // the scope of the init statement
		defer c.pop()
		init := ""
		if v.Init != nil {
			as, ok := v.Init.(*ast.AssignStmt)
			if !ok {
				return "", c.errf(v.Init, "if with an init statement that is not a definition")
			}
			t, err := c.define(as, false)
			if err != nil {
				return "", err
			}
			init = t
		}
		pre, cnd, err := c.cond(v.Cond)
		if err != nil {
			return "", err
		}
		depth := ind
		if init != "" || pre != "" {
			depth = ind + "  "
		}
		th := c.block(v.Body.List, depth, false)
		el := c.block(igElse(v), depth, false)
		ifs := "SIf (" + cnd + ") " + th + " " + el
		if init == "" && pre == "" {
			return ifs, nil
		}
		var items []string
		if init != "" {
			items = append(items, init)
		}
		if pre != "" {
			items = append(items, pre)
		}
		items = append(items, ifs)
		return "SScope " + igList(ind, items), nil
	case *ast.ForStmt:
		if v.Init != nil || v.Cond != nil || v.Post != nil {
			return "", c.errf(s, "for with a clause (only  for { .. }  is translated)")
		}
		return "SFor " + c.block(v.Body.List, ind, false), nil
	case *ast.SelectStmt:
		var arms []string
		for _, cl := range v.Body.List {
			cc := cl.(*ast.CommClause)
			c.push()
			arm, err := c.arm(cc, ind+"  ")
			c.pop()
			if err != nil {
				arm = fmt.Sprintf("(* UNSUPPORTED: %s *) UNSUPPORTED_line_%d", igComment(err.Error()), c.f.fset.Position(cc.Pos()).Line)
			}
			arms = append(arms, arm)
		}
		return "SSelect " + igList(ind, arms), nil
	case *ast.BranchStmt:
		if v.Tok == token.CONTINUE && v.Label == nil {
			return "SContinue", nil
		}
		return "", c.errf(s, "branch statement %s", v.Tok)
	case *ast.ReturnStmt:
		switch len(v.Results) {
		case 0:
			return "SReturnVoid", nil
		case 1:
			e, err := c.errExpr(v.Results[0])
			if err != nil {
				return "", err
			}
			return "SReturn (" + e + ")", nil
		}
		return "", c.errf(s, "return of several values")
	case *ast.ExprStmt:
		call, ok := igUnparen(v.X).(*ast.CallExpr)
		if !ok || call.Ellipsis != token.NoPos {
			return "", c.errf(s, "expression statement that is not a call")
		}
		if x, args, ok := c.methodOnVar(call, "PushMessage"); ok && len(args) == 1 {
			m, err := c.q(args[0])
			if err != nil {
				return "", err
			}
			return "SPush " + igQ(x) + " " + m, nil
		}
		if c.isPkgSel(call.Fun, agCoalescePath, "ResolveIDs") && len(call.Args) == 1 {
			ev, err := c.q(call.Args[0])
			if err != nil {
				return "", err
			}
			return "SResolveIDs " + ev, nil
		}
		for name, ctor := range map[string]string{"DeleteUsersWithoutLoginsBefore": "SCleanSessions", "DeleteRemoteUserLoginsBefore": "SCleanLogins"} {
			if x, args, ok := c.methodOnVar(call, name); ok && len(args) == 1 {
				t, err := c.timeExpr(args[0])
				if err != nil {
					return "", err
				}
				return ctor + " " + igQ(x) + " (" + t + ")", nil
			}
		}
		// <receiver>.Health.OnReady(<string constant>)
		if sel, ok := call.Fun.(*ast.SelectorExpr); ok && sel.Sel.Name == "OnReady" && len(call.Args) == 1 {
			if _, f, ok := c.recvField(sel.X); ok && f == "Health" && top {
				val, okc := "", false
				switch a := igUnparen(call.Args[0]).(type) {
				case *ast.Ident:
					if !c.declared(a.Name) {
						if ex, ok := c.pk.consts[a.Name]; ok {
							val, okc = agStringLit(ex)
						}
					}
				case *ast.BasicLit:
					val, okc = agStringLit(a)
				}
				q, okq := igCoqStr(val)
				if !okc || !okq {
					return "", c.errf(s, "OnReady argument is not a string constant")
				}
				return "SOnReady " + q, nil
			}
		}
		return "", c.errf(s, "call statement that is not PushMessage, ResolveIDs, a tracker cleanup, Health.OnReady or a log call with pure arguments")
	case *ast.DeferStmt:
		if !top {
			return "", c.errf(s, "defer below the top level of the function")
		}
		if fl, ok := v.Call.Fun.(*ast.FuncLit); ok {
			// defer func() { cancel(); <-ch }()
			if len(v.Call.Args) != 0 || len(igParams(fl.Type.Params)) != 0 || fl.Type.Results != nil || len(fl.Body.List) != 2 {
				return "", c.errf(s, "deferred function literal form")
			}
			e1, ok1 := fl.Body.List[0].(*ast.ExprStmt)
			e2, ok2 := fl.Body.List[1].(*ast.ExprStmt)
			if !ok1 || !ok2 {
				return "", c.errf(s, "deferred function literal is not  cancel(); <-ch")
			}
			cc, ok1 := igUnparen(e1.X).(*ast.CallExpr)
			ue, ok2 := igUnparen(e2.X).(*ast.UnaryExpr)
			if !ok1 || !ok2 || len(cc.Args) != 0 || ue.Op != token.ARROW {
				return "", c.errf(s, "deferred function literal is not  cancel(); <-ch")
			}
			cancel, err := c.varName(cc.Fun)
			if err != nil {
				return "", err
			}
			ch, err := c.varName(ue.X)
			if err != nil {
				return "", err
			}
			c.capture(cancel, ch)
			return "SDeferJoin " + igQ(cancel) + " " + igQ(ch), nil
		}
		if x, args, ok := c.methodOnVar(v.Call, "Close"); ok && len(args) == 0 {
			return "SDeferClose " + igQ(x), nil
		}
		if x, args, ok := c.methodOnVar(v.Call, "Stop"); ok && len(args) == 0 {
			return "SDeferStop " + igQ(x), nil
		}
		return "", c.errf(s, "defer form")
	case *ast.GoStmt:
		if !top {
			return "", c.errf(s, "go below the top level of the function")
		}
		if c.isPkgIdent(v.Call.Fun, "maintainReassemblerLoop") && c.pk.funcs["maintainReassemblerLoop"] && len(v.Call.Args) == 3 {
			cx, err := c.q(v.Call.Args[0])
			if err != nil {
				return "", err
			}
			r, err := c.q(v.Call.Args[1])
			if err != nil {
				return "", err
			}
			d, err := c.durExpr(v.Call.Args[2])
			if err != nil {
				return "", err
			}
			return "SGoMaintain " + cx + " " + r + " (" + d + ")", nil
		}
		fl, ok := v.Call.Fun.(*ast.FuncLit)
		if !ok || len(v.Call.Args) != 0 || len(igParams(fl.Type.Params)) != 0 || fl.Type.Results != nil || len(fl.Body.List) != 2 {
			return "", c.errf(s, "go statement form")
		}
		// defer close(exited); done <- parseAuditLogs(ctx, recv.f, r)
		ds, ok1 := fl.Body.List[0].(*ast.DeferStmt)
		ss, ok2 := fl.Body.List[1].(*ast.SendStmt)
		if !ok1 || !ok2 || !c.isBuiltin(ds.Call.Fun, "close") || len(ds.Call.Args) != 1 {
			return "", c.errf(s, "goroutine is not  defer close(ch); done <- parseAuditLogs(..)")
		}
		exited, err := c.varName(ds.Call.Args[0])
		if err != nil {
			return "", err
		}
		done, err := c.varName(ss.Chan)
		if err != nil {
			return "", err
		}
		pc, ok := igUnparen(ss.Value).(*ast.CallExpr)
		if !ok || !c.isPkgIdent(pc.Fun, "parseAuditLogs") || !c.pk.funcs["parseAuditLogs"] || len(pc.Args) != 3 || pc.Ellipsis != token.NoPos {
			return "", c.errf(s, "goroutine does not send the result of parseAuditLogs(ctx, <receiver>.<field>, reassembler)")
		}
		cx, err := c.varName(pc.Args[0])
		if err != nil {
			return "", err
		}
		rr, rf, ok := c.recvField(pc.Args[1])
		if !ok {
			return "", c.errf(s, "parseAuditLogs' lines argument is not a field of the receiver")
		}
		r, err := c.varName(pc.Args[2])
		if err != nil {
			return "", err
		}
		c.capture(exited, done, cx, rr, r)
		return fmt.Sprintf("SGoParser %s %s %s %s %s %s", igQ(exited), igQ(done), igQ(cx), igQ(rr), igQ(rf), igQ(r)), nil
	}
	return "", c.errf(s, "statement form %T", s)
}

func (c *agFn) arm(cc *ast.CommClause, ind string) (string, error) {
	body := func() string {
		var out []string
		for _, s := range cc.Body {
			out = append(out, c.stmt(s, ind+"  ", false))
		}
		return igList(ind, out)
	}
	switch v := cc.Comm.(type) {
	case nil:
		return "SArmDefault " + body(), nil
	case *ast.ExprStmt:
		ue, ok := igUnparen(v.X).(*ast.UnaryExpr)
		if !ok || ue.Op != token.ARROW {
			return "", c.errf(cc, "select arm form")
		}
		ch, err := c.chanExpr(ue.X)
		if err != nil {
			return "", err
		}
		return "SArmRecv None (" + ch + ") " + body(), nil
	case *ast.AssignStmt:
		if v.Tok != token.DEFINE || len(v.Lhs) != 1 || len(v.Rhs) != 1 {
			return "", c.errf(cc, "receive arm that is not  x := <-ch")
		}
		ue, ok := igUnparen(v.Rhs[0]).(*ast.UnaryExpr)
		x, ok2 := c.ident(v.Lhs[0])
		if !ok || !ok2 || ue.Op != token.ARROW {
			return "", c.errf(cc, "receive arm that is not  x := <-ch")
		}
		ch, err := c.chanExpr(ue.X)
		if err != nil {
			return "", err
		}
		if err := c.declare(v, x, false); err != nil {
			return "", err
		}
		bind := "(Some " + igQ(x) + ")"
		if x == "_" {
			bind = "None"
		}
		return "SArmRecv " + bind + " (" + ch + ") " + body(), nil
	case *ast.SendStmt:
		ch, err := c.chanExpr(v.Chan)
		if err != nil {
			return "", err
		}
		e, err := c.errExpr(v.Value)
		if err != nil {
			return "", err
		}
		return "SArmSend (" + ch + ") (" + e + ") " + body(), nil
	}
	return "", c.errf(cc, "select arm form")
}

// ---------------------------------------------------------------------------------------------
// the five functions

type agSig struct {
	recvType string // "" = plain function
	name     string
	params   []func(f *igFile, t ast.Expr) bool // one check per parameter
	result   bool                               // returns error
	durParam int                                // index of a time.Duration parameter, -1 = none
}

func agPtrTo(path, name string) func(f *igFile, t ast.Expr) bool {
	return func(f *igFile, t ast.Expr) bool {
		st, ok := t.(*ast.StarExpr)
		return ok && f.isPkgSel(st.X, path, name)
	}
}

func agIsCtx(f *igFile, t ast.Expr) bool { return f.isPkgSel(t, "context", "Context") }

func agRecvChanOf(elem func(f *igFile, t ast.Expr) bool) func(f *igFile, t ast.Expr) bool {
	return func(f *igFile, t ast.Expr) bool {
		ch, ok := t.(*ast.ChanType)
		return ok && ch.Dir == ast.RECV && elem(f, ch.Value)
	}
}

func agIsString(f *igFile, t ast.Expr) bool { return igIsIdent(t, "string") }

func agFindFunc(f *igFile, sig agSig) (*ast.FuncDecl, string, error) {
	var found *ast.FuncDecl
	for _, d := range f.file.Decls {
		fd, ok := d.(*ast.FuncDecl)
		if !ok || fd.Name.Name != sig.name {
			continue
		}
		if sig.recvType == "" {
			if fd.Recv != nil {
				continue
			}
		} else {
			if fd.Recv == nil || len(fd.Recv.List) != 1 {
				continue
			}
			st, ok := fd.Recv.List[0].Type.(*ast.StarExpr)
			if !ok || !igIsIdent(st.X, sig.recvType) {
				continue
			}
		}
		if found != nil {
			return nil, "", fmt.Errorf("two functions named %s", sig.name)
		}
		found = fd
	}
	if found == nil || found.Body == nil {
		return nil, "", fmt.Errorf("function %s not found", sig.name)
	}
	if found.Type.TypeParams != nil {
		return nil, "", f.errf(found, "type parameters")
	}
	recv := ""
	if sig.recvType != "" {
		if len(found.Recv.List[0].Names) != 1 || found.Recv.List[0].Names[0].Name == "_" {
			return nil, "", f.errf(found, "receiver without a name")
		}
		recv = found.Recv.List[0].Names[0].Name
	}
	ps := igParams(found.Type.Params)
	if len(ps) != len(sig.params) {
		return nil, "", f.errf(found, "%s: %d parameters, expected %d", sig.name, len(ps), len(sig.params))
	}
	for i, p := range ps {
		if !sig.params[i](f, p.typ) {
			return nil, "", f.errf(found, "%s: type of parameter %d is not the expected one", sig.name, i+1)
		}
	}
	if sig.result != igReturnsError(found) || (!sig.result && found.Type.Results != nil) {
		return nil, "", f.errf(found, "%s: result type", sig.name)
	}
	return found, recv, nil
}

func agGenFunc(f *igFile, pk *agPkg, sig agSig) (string, error) {
	fd, recv, err := agFindFunc(f, sig)
	if err != nil {
		return "", err
	}
	c := &agFn{f: f, pk: pk, recv: recv, tickers: map[string]bool{}, durs: map[string]bool{}, captured: map[string]bool{}}
	c.push()
	if recv != "" {
		if err := c.declare(fd, recv, false); err != nil {
			return "", err
		}
	}
	var params []string
	for i, p := range igParams(fd.Type.Params) {
		if p.name != "_" {
			if err := c.declare(fd, p.name, false); err != nil {
				return "", err
			}
		}
		if i == sig.durParam {
			c.durs[p.name] = true
		}
		params = append(params, igQ(p.name))
	}
	// the body is the function's outermost block: parameters and top-level locals share a scope
	var out []string
	for _, s := range fd.Body.List {
		out = append(out, c.stmt(s, "    ", true))
	}
	r := "None"
	if recv != "" {
		r = "Some " + igQ(recv)
	}
	return "{|\n  af_recv := " + r + ";\n  af_params := [" + strings.Join(params, "; ") + "];\n  af_body := " + igList("  ", out) + " |}", nil
}

// the struct types the interpreter's field names refer to
func agCheckTypes(pk *agPkg) error {
	au := pk.structs["Auditd"]
	fa := pk.structIn["Auditd"]
	if au == nil {
		return fmt.Errorf("type Auditd not found")
	}
	isTime := func(f *igFile, t ast.Expr) bool { return f.isPkgSel(t, "time", "Time") }
	if !isTime(fa, au["After"]) {
		return fmt.Errorf("Auditd.After is not a time.Time")
	}
	if !agRecvChanOf(agIsString)(fa, au["Audits"]) {
		return fmt.Errorf("Auditd.Audits is not a <-chan string")
	}
	if !agRecvChanOf(func(f *igFile, t ast.Expr) bool { return f.isPkgSel(t, agCommonPath, "RemoteUserLogin") })(fa, au["Logins"]) {
		return fmt.Errorf("Auditd.Logins is not a <-chan common.RemoteUserLogin")
	}
	if !agPtrTo(agEventPath, "EventWriter")(fa, au["EventW"]) {
		return fmt.Errorf("Auditd.EventW is not a *auditevent.EventWriter")
	}
	if !agPtrTo(agHealthPath, "Health")(fa, au["Health"]) {
		return fmt.Errorf("Auditd.Health is not a *health.Health")
	}
	cb := pk.structs["reassemblerCB"]
	fc := pk.structIn["reassemblerCB"]
	if cb == nil {
		return fmt.Errorf("type reassemblerCB not found")
	}
	if !fc.isPkgSel(cb["au"], agTrackerPath, "Auditor") {
		return fmt.Errorf("reassemblerCB.au is not a sessiontracker.Auditor")
	}
	ch, ok := cb["errors"].(*ast.ChanType)
	if !ok || ch.Dir != ast.SEND || !igIsIdent(ch.Value, "error") {
		return fmt.Errorf("reassemblerCB.errors is not a chan<- error")
	}
	if !isTime(fc, cb["after"]) {
		return fmt.Errorf("reassemblerCB.after is not a time.Time")
	}
	return nil
}

func agGen(repo, out string) error {
	dir := filepath.Join(repo, "processors/auditd")
	var sb strings.Builder
	sb.WriteString("(* GENERATED by tools/go2v (auditgen.go) from processors/auditd/auditd.go and\n")
	sb.WriteString("   processors/auditd/reassembler_callback.go.  Do not edit.\n")
	sb.WriteString("   Auditd.Read, maintainReassemblerLoop, parseAuditLogs, reassemblerCB.ReassemblyComplete and\n")
	sb.WriteString("   reassemblerCB.EventsLost statement by statement, in the IR of Model/AuditIR.v. *)\n")
	sb.WriteString("From Coq Require Import String List ZArith.\nImport ListNotations.\nFrom AM Require Import Model.AuditIR.\nOpen Scope string_scope.\n\n")

	fa, errA := agLoad(filepath.Join(dir, "auditd.go"))
	fc, errC := agLoad(filepath.Join(dir, "reassembler_callback.go"))
	var pk *agPkg
	var errP error
	if errA == nil && errC == nil {
		pk, errP = agLoadPkg(dir, map[string]*igFile{"auditd.go": fa, "reassembler_callback.go": fc})
		if errP == nil {
			errP = agCheckTypes(pk)
		}
	}
	isReass := agPtrTo(agLibauditPath, "Reassembler")
	isDur := func(f *igFile, t ast.Expr) bool { return f.isPkgSel(t, "time", "Duration") }
	isMsgs := func(f *igFile, t ast.Expr) bool {
		at, ok := t.(*ast.ArrayType)
		return ok && at.Len == nil && agPtrTo(agAuparsePath, "AuditMessage")(f, at.Elt)
	}
	isInt := func(f *igFile, t ast.Expr) bool { return igIsIdent(t, "int") }
	type item struct {
		def  string
		file *igFile
		ferr error
		sig  agSig
	}
	items := []item{
		{"gen_Read", fa, errA, agSig{"Auditd", "Read", []func(*igFile, ast.Expr) bool{agIsCtx}, true, -1}},
		{"gen_maintainReassemblerLoop", fa, errA, agSig{"", "maintainReassemblerLoop", []func(*igFile, ast.Expr) bool{agIsCtx, isReass, isDur}, false, 2}},
		{"gen_parseAuditLogs", fa, errA, agSig{"", "parseAuditLogs", []func(*igFile, ast.Expr) bool{agIsCtx, agRecvChanOf(agIsString), isReass}, true, -1}},
		{"gen_ReassemblyComplete", fc, errC, agSig{"reassemblerCB", "ReassemblyComplete", []func(*igFile, ast.Expr) bool{isMsgs}, false, -1}},
		{"gen_EventsLost", fc, errC, agSig{"reassemblerCB", "EventsLost", []func(*igFile, ast.Expr) bool{isInt}, false, -1}},
	}
	for _, it := range items {
		err := it.ferr
		if err == nil {
			err = errP
		}
		body := ""
		if err == nil {
			body, err = agGenFunc(it.file, pk, it.sig)
		}
		if err != nil {
			fmt.Fprintf(&sb, "(* UNSUPPORTED: %s *)\nDefinition %s : afunc := UNSUPPORTED_%s.\n\n", igComment(err.Error()), it.def, it.def)
			continue
		}
		fmt.Fprintf(&sb, "Definition %s : afunc := %s.\n\n", it.def, body)
	}
	sb.WriteString("Definition gen_audit : aprogs := {|\n  pg_read := gen_Read; pg_parse := gen_parseAuditLogs; pg_maintain := gen_maintainReassemblerLoop;\n")
	sb.WriteString("  pg_complete := gen_ReassemblyComplete; pg_lost := gen_EventsLost |}.\n")
	return os.WriteFile(filepath.Join(out, "AuditProg.v"), []byte(sb.String()), 0o644)
}
