package main

import (
	"fmt"
	"go/ast"
	"go/parser"
	"go/token"
	"os"
	"path/filepath"
	"regexp/syntax"
	"sort"
	"strconv"
	"strings"
	"unicode/utf8"
)

func init() { generators = append(generators, genRegexes, genDispatch) }

type byteRange struct{ lo, hi int }

var stdClasses = []struct {
	name string
	rs   []byteRange
}{
	{"cls_dot", []byteRange{{0, 9}, {11, 255}}},
	{"cls_nonspace", []byteRange{{0, 8}, {11, 11}, {14, 31}, {33, 255}}},
	{"cls_space", []byteRange{{9, 10}, {12, 13}, {32, 32}}},
	{"cls_digit", []byteRange{{48, 57}}},
	{"cls_alnum", []byteRange{{48, 57}, {65, 90}, {97, 122}}},
	{"cls_alg", []byteRange{{32, 32}, {45, 45}, {48, 57}, {65, 90}, {95, 95}, {97, 122}}},
	{"cls_keytype", []byteRange{{45, 45}, {48, 57}, {65, 90}, {95, 95}, {97, 122}}},
}

// classBytes converts a rune class to a byte class. ok=false if the class contains some
// but not all non-ASCII runes (a byte-level matcher would then not be equivalent).
func classBytes(pairs []rune) ([]byteRange, bool) {
	var rs []byteRange
	covered := rune(0x80) // next non-ASCII rune not yet known to be covered
	anyHigh := false
	for i := 0; i+1 < len(pairs); i += 2 {
		lo, hi := pairs[i], pairs[i+1]
		if lo <= 0x7f {
			h := hi
			if h > 0x7f {
				h = 0x7f
			}
			rs = append(rs, byteRange{int(lo), int(h)})
		}
		if hi >= 0x80 {
			anyHigh = true
			l := lo
			if l < 0x80 {
				l = 0x80
			}
			if l <= covered {
				if hi+1 > covered {
					covered = hi + 1
				}
			}
		}
	}
	if anyHigh {
		// surrogates are not runes; regexp/syntax classes that mean "everything" end at 0x10FFFF
		if covered <= 0x10FFFF {
			return nil, false
		}
		rs = append(rs, byteRange{128, 255})
	}
	// merge adjacent
	sort.Slice(rs, func(i, j int) bool { return rs[i].lo < rs[j].lo })
	var out []byteRange
	for _, r := range rs {
		if n := len(out); n > 0 && r.lo <= out[n-1].hi+1 {
			if r.hi > out[n-1].hi {
				out[n-1].hi = r.hi
			}
		} else {
			out = append(out, r)
		}
	}
	return out, true
}

func coqClass(rs []byteRange) string {
	for _, sc := range stdClasses {
		if len(sc.rs) == len(rs) {
			same := true
			for i := range rs {
				if rs[i] != sc.rs[i] {
					same = false
				}
			}
			if same {
				return sc.name
			}
		}
	}
	var ps []string
	for _, r := range rs {
		ps = append(ps, fmt.Sprintf("(%d, %d)", r.lo, r.hi))
	}
	return "(mkcls [" + strings.Join(ps, "; ") + "])"
}

type flatItem struct {
	kind string // lit | one | rune | star | open | close | bol | eol
	lit  []byte
	cls  string
	high bool // the class holds the non-ASCII runes (all of them: classBytes)
	g    int
}

type unsupportedErr string

func (u unsupportedErr) Error() string { return string(u) }

// singleClass: the Coq byte class, and whether it holds the non-ASCII runes
func singleClass(re *syntax.Regexp) (string, bool, error) {
	switch re.Op {
	case syntax.OpAnyCharNotNL:
		return "cls_dot", true, nil
	case syntax.OpAnyChar:
		return "(mkcls [(0, 255)])", true, nil
	case syntax.OpCharClass:
		rs, ok := classBytes(re.Rune)
		if !ok {
			return "", false, unsupportedErr("character class with some but not all non-ASCII runes: " + re.String())
		}
		high := false
		for _, r := range rs {
			if r.hi >= 128 {
				high = true
			}
		}
		return coqClass(rs), high, nil
	case syntax.OpLiteral:
		if len(re.Rune) == 1 && re.Rune[0] < 0x80 && re.Flags&syntax.FoldCase == 0 {
			c := int(re.Rune[0])
			return coqClass([]byteRange{{c, c}}), false, nil
		}
	}
	return "", false, unsupportedErr("repetition over something that is not a single-character class: " + re.String())
}

func flatten(re *syntax.Regexp, out *[]flatItem) error {
	switch re.Op {
	case syntax.OpEmptyMatch:
		return nil
	case syntax.OpConcat:
		for _, s := range re.Sub {
			if err := flatten(s, out); err != nil {
				return err
			}
		}
		return nil
	case syntax.OpLiteral:
		if re.Flags&syntax.FoldCase != 0 {
			return unsupportedErr("case-folded literal: " + re.String())
		}
		var b []byte
		for _, r := range re.Rune {
			b = utf8.AppendRune(b, r)
		}
		*out = append(*out, flatItem{kind: "lit", lit: b})
		return nil
	case syntax.OpAnyCharNotNL, syntax.OpAnyChar, syntax.OpCharClass:
		c, high, err := singleClass(re)
		if err != nil {
			return err
		}
		*out = append(*out, flatItem{kind: "one", cls: c, high: high})
		return nil
	case syntax.OpStar, syntax.OpPlus:
		if re.Flags&syntax.NonGreedy != 0 {
			return unsupportedErr("non-greedy repetition: " + re.String())
		}
		c, high, err := singleClass(re.Sub[0])
		if err != nil {
			return err
		}
		if re.Op == syntax.OpPlus {
			*out = append(*out, flatItem{kind: "one", cls: c, high: high})
		}
		*out = append(*out, flatItem{kind: "star", cls: c, high: high})
		return nil
	case syntax.OpCapture:
		*out = append(*out, flatItem{kind: "open", g: re.Cap})
		if err := flatten(re.Sub[0], out); err != nil {
			return err
		}
		*out = append(*out, flatItem{kind: "close", g: re.Cap})
		return nil
	case syntax.OpBeginText:
		*out = append(*out, flatItem{kind: "bol"})
		return nil
	case syntax.OpEndText:
		*out = append(*out, flatItem{kind: "eol"})
		return nil
	}
	return unsupportedErr("construct outside the flat subset (" + re.Op.String() + "): " + re.String())
}

// runeItems decides, item by item, between bytes and runes.  Go's regexp consumes RUNES; the byte items of
// Lib/Regex.v consume bytes.  A single-character item over a class that holds the non-ASCII runes consumes a
// whole UTF-8 sequence in Go: it stays the byte item IOne only as the head of x+ (the IStar behind it, over a
// class with the non-ASCII runes too, takes the rest of the sequence); anywhere else it becomes IRune (one
// decoding step).
func runeItems(items []flatItem) []flatItem {
	out := append([]flatItem{}, items...)
	for i := range out {
		if out[i].kind == "one" && out[i].high && !(i+1 < len(out) && out[i+1].kind == "star" && out[i+1].high) {
			out[i].kind = "rune"
		}
	}
	return out
}

// runeSafe is the Go twin of Model/RegexSpec.v rune_safe (re-checked in Coq of the generated list all_regexes:
// Props/C06.v C06_regex_all_patterns_rune_safe).  A pattern that is not rune-safe is refused: byte-level matching
// could stop inside a UTF-8 sequence where Go's rune-level matching cannot.
//   - a greedy star over a class with the non-ASCII runes is followed (behind group marks) by an ASCII literal, one
//     byte of an ASCII-only class, $ or the end of the pattern: it can only stop at a rune boundary;
//   - a match starts at a rune boundary: the pattern is anchored or starts with an ASCII literal / ASCII-only class.
func runeSafe(items []flatItem) string {
	followOK := func(r []flatItem) bool {
		for _, it := range r {
			switch it.kind {
			case "open", "close":
				continue
			case "lit":
				return len(it.lit) > 0 && it.lit[0] < 0x80
			case "one":
				return !it.high
			case "eol":
				return true
			default:
				return false
			}
		}
		return true
	}
	for i, it := range items {
		if it.kind == "one" && it.high && !(i+1 < len(items) && items[i+1].kind == "star" && items[i+1].high) {
			return "a single byte of a class with non-ASCII runes that is not the head of x+"
		}
		if it.kind == "star" && it.high && !followOK(items[i+1:]) {
			return "a greedy repetition over a class with non-ASCII runes is followed by something that can start inside a UTF-8 sequence"
		}
	}
	for _, it := range items {
		switch it.kind {
		case "bol":
			return ""
		case "open":
			continue
		case "lit":
			if len(it.lit) > 0 && it.lit[0] < 0x80 {
				return ""
			}
		case "one":
			if !it.high {
				return ""
			}
		}
		break
	}
	return "an unanchored pattern must start with an ASCII literal or an ASCII-only class (a match must start at a rune boundary)"
}

func coqStringLit(b []byte) (string, bool) {
	for _, c := range b {
		if c < 0x20 || c > 0x7e {
			return "", false
		}
	}
	return "\"" + strings.ReplaceAll(string(b), "\"", "\"\"") + "\"", true
}

func hexOf(b []byte) string {
	const hexd = "0123456789abcdef"
	var sb strings.Builder
	for _, c := range b {
		sb.WriteByte(hexd[c>>4])
		sb.WriteByte(hexd[c&15])
	}
	return sb.String()
}

func coqItems(items []flatItem) string {
	// merge adjacent literals
	var merged []flatItem
	for _, it := range items {
		if it.kind == "lit" && len(merged) > 0 && merged[len(merged)-1].kind == "lit" {
			merged[len(merged)-1].lit = append(append([]byte{}, merged[len(merged)-1].lit...), it.lit...)
			continue
		}
		merged = append(merged, it)
	}
	// right-nested:  lits "..." ++ (IOpen 1 :: IStar c :: IClose 1 :: (lits "..." ++ ... []))
	s := "[]"
	for i := len(merged) - 1; i >= 0; i-- {
		it := merged[i]
		switch it.kind {
		case "lit":
			if q, ok := coqStringLit(it.lit); ok {
				s = fmt.Sprintf("lits %s ++ %s", q, paren(s))
			} else {
				s = fmt.Sprintf("map ILit (hx \"%s\") ++ %s", hexOf(it.lit), paren(s))
			}
		case "one":
			s = fmt.Sprintf("IOne %s :: %s", it.cls, paren(s))
		case "rune":
			s = fmt.Sprintf("IRune %s :: %s", it.cls, paren(s))
		case "star":
			s = fmt.Sprintf("IStar %s :: %s", it.cls, paren(s))
		case "open":
			s = fmt.Sprintf("IOpen %d :: %s", it.g, paren(s))
		case "close":
			s = fmt.Sprintf("IClose %d :: %s", it.g, paren(s))
		case "bol":
			s = "IBol :: " + paren(s)
		case "eol":
			s = "IEol :: " + paren(s)
		}
	}
	return s
}

func paren(s string) string {
	if s == "[]" {
		return s
	}
	return "(" + s + ")"
}

type regexDef struct {
	name   string
	src    string
	coq    string
	groups []string // index -> name ("" for unnamed); index 0 unused
	err    error
}

func readRegexes(repo string) ([]regexDef, error) {
	path := filepath.Join(repo, "processors/sshd/openssh_regex.go")
	src, err := os.ReadFile(path)
	if err != nil {
		return nil, err
	}
	fset := token.NewFileSet()
	f, err := parser.ParseFile(fset, path, src, 0)
	if err != nil {
		return nil, err
	}
	var defs []regexDef
	for _, d := range f.Decls {
		gd, ok := d.(*ast.GenDecl)
		if !ok || gd.Tok != token.VAR {
			continue
		}
		for _, sp := range gd.Specs {
			vs := sp.(*ast.ValueSpec)
			for i, n := range vs.Names {
				if i >= len(vs.Values) {
					continue
				}
				call, ok := vs.Values[i].(*ast.CallExpr)
				if !ok {
					continue
				}
				sel, ok := call.Fun.(*ast.SelectorExpr)
				if !ok || sel.Sel.Name != "MustCompile" || len(call.Args) != 1 {
					continue
				}
				lit, ok := call.Args[0].(*ast.BasicLit)
				def := regexDef{name: n.Name}
				if !ok || lit.Kind != token.STRING {
					def.err = unsupportedErr("pattern is not a string literal")
					defs = append(defs, def)
					continue
				}
				pat, err := strconv.Unquote(lit.Value)
				if err != nil {
					def.err = err
					defs = append(defs, def)
					continue
				}
				def.src = pat
				re, err := syntax.Parse(pat, syntax.Perl)
				if err != nil {
					def.err = err
					defs = append(defs, def)
					continue
				}
				def.groups = re.CapNames()
				re = re.Simplify()
				var items []flatItem
				if err := flatten(re, &items); err != nil {
					def.err = err
				} else if why := runeSafe(runeItems(items)); why != "" {
					def.err = unsupportedErr("not rune-safe (" + why + "): byte-level matching would differ from Go's rune-level matching")
				} else {
					def.coq = coqItems(runeItems(items))
				}
				defs = append(defs, def)
			}
		}
	}
	return defs, nil
}

func genRegexes(repo, out string) error {
	defs, err := readRegexes(repo)
	if err != nil {
		return err
	}
	var sb strings.Builder
	sb.WriteString("(* GENERATED by tools/go2v from processors/sshd/openssh_regex.go. Do not edit.\n")
	sb.WriteString("   Each pattern was parsed by Go's own regexp/syntax (Perl flags), simplified and flattened. *)\n")
	sb.WriteString("From Coq Require Import Ascii String List.\nImport ListNotations.\nFrom AM Require Import Lib.Bytes Lib.Regex.\nOpen Scope string_scope.\n\n")
	for _, d := range defs {
		fmt.Fprintf(&sb, "(* %s = %s *)\n", d.name, strings.ReplaceAll(d.src, "*)", "* )"))
		if d.err != nil {
			fmt.Fprintf(&sb, "(* UNSUPPORTED: %s *)\nDefinition %s : list item := UNSUPPORTED_%s.\n\n", strings.ReplaceAll(d.err.Error(), "*)", "* )"), d.name, d.name)
			continue
		}
		fmt.Fprintf(&sb, "Definition %s : list item :=\n  %s.\n", d.name, d.coq)
		for i, g := range d.groups {
			if i > 0 && g != "" {
				fmt.Fprintf(&sb, "Definition %s_%s : nat := %d.\n", d.name, g, i)
			}
		}
		sb.WriteString("\n")
	}
	var names []string
	for _, d := range defs {
		names = append(names, d.name)
	}
	fmt.Fprintf(&sb, "Definition all_regex_names : list string := [%s].\n", quoteJoin(names))
	// the patterns themselves, for facts stated of all of them (rune-safety: Props/C06.v)
	var pairs []string
	for _, d := range defs {
		pairs = append(pairs, fmt.Sprintf("(\"%s\", %s)", d.name, d.name))
	}
	fmt.Fprintf(&sb, "Definition all_regexes : list (string * list item) := [%s].\n", strings.Join(pairs, "; "))
	return os.WriteFile(filepath.Join(out, "SshdRegexes.v"), []byte(sb.String()), 0o644)
}

func quoteJoin(xs []string) string {
	var q []string
	for _, x := range xs {
		q = append(q, "\""+x+"\"")
	}
	return strings.Join(q, "; ")
}

// ---------------------------------------------------------------------------------------------
// dispatch table of ProcessEntry and userTypeLogAuditFn, and the regex each handler uses

type dispatchCase struct {
	guardKind string // prefix | match
	guardArg  string
	handler   string // function name, or "USERTYPE"
	metric    string // "" or "Method,Outcome"
}

func nodeStr(fset *token.FileSet, src []byte, n ast.Node) string {
	return string(src[fset.Position(n.Pos()).Offset:fset.Position(n.End()).Offset])
}

func genDispatch(repo, out string) error {
	var sb strings.Builder
	sb.WriteString("(* GENERATED by tools/go2v from processors/sshd/sshdprocessor.go and user_type.go. Do not edit. *)\n")
	sb.WriteString("From Coq Require Import Ascii String List.\nImport ListNotations.\nFrom AM Require Import Lib.Bytes Lib.Regex Gen.SshdRegexes.\nOpen Scope string_scope.\n\n")

	dir := filepath.Join(repo, "processors/sshd")
	fset := token.NewFileSet()
	pkgs, err := parser.ParseDir(fset, dir, func(fi os.FileInfo) bool { return !strings.HasSuffix(fi.Name(), "_test.go") }, 0)
	if err != nil {
		return err
	}
	srcs := map[string][]byte{}
	funcs := map[string]*ast.FuncDecl{}
	fileOf := map[string]string{}
	for _, pkg := range pkgs {
		for fname, f := range pkg.Files {
			b, _ := os.ReadFile(fname)
			srcs[fname] = b
			for _, d := range f.Decls {
				if fd, ok := d.(*ast.FuncDecl); ok && fd.Recv == nil {
					funcs[fd.Name.Name] = fd
					fileOf[fd.Name.Name] = fname
				}
			}
		}
	}
	problems := []string{}
	parseSwitch := func(fn string, userType bool) []dispatchCase {
		fd := funcs[fn]
		if fd == nil {
			problems = append(problems, "function "+fn+" not found")
			return nil
		}
		src := srcs[fileOf[fn]]
		var cases []dispatchCase
		nSwitch := 0
		ast.Inspect(fd.Body, func(n ast.Node) bool {
			sw, ok := n.(*ast.SwitchStmt)
			if !ok {
				return true
			}
			nSwitch++
			if sw.Tag != nil || nSwitch > 1 {
				problems = append(problems, fn+": unexpected switch shape")
				return false
			}
			for _, st := range sw.Body.List {
				cc := st.(*ast.CaseClause)
				if cc.List == nil { // default
					if userType {
						continue
					}
					problems = append(problems, fn+": default case in dispatch switch")
					continue
				}
				if len(cc.List) != 1 {
					problems = append(problems, fn+": case with several conditions")
					continue
				}
				var dc dispatchCase
				cond := strings.ReplaceAll(nodeStr(fset, src, cc.List[0]), " ", "")
				switch {
				case strings.HasPrefix(cond, "strings.HasPrefix(config.logEntry,") && strings.HasSuffix(cond, ")"):
					call := cc.List[0].(*ast.CallExpr)
					lit, ok := call.Args[1].(*ast.BasicLit)
					if !ok {
						problems = append(problems, fn+": HasPrefix with non-literal")
						continue
					}
					s, _ := strconv.Unquote(lit.Value)
					dc.guardKind, dc.guardArg = "prefix", s
				case strings.HasSuffix(cond, ".MatchString(config.logEntry)"):
					dc.guardKind, dc.guardArg = "match", strings.TrimSuffix(cond, ".MatchString(config.logEntry)")
				default:
					problems = append(problems, fn+": unrecognised guard "+cond)
					continue
				}
				for _, bs := range cc.Body {
					txt := strings.ReplaceAll(nodeStr(fset, src, bs), " ", "")
					switch {
					case strings.HasPrefix(txt, "entryFunc=userTypeLogAuditFn(config)"):
						dc.handler = "USERTYPE"
					case strings.HasPrefix(txt, "entryFunc="):
						dc.handler = strings.TrimPrefix(txt, "entryFunc=")
					case strings.HasPrefix(txt, "return") && userType:
						dc.handler = strings.TrimPrefix(txt, "return")
					case strings.HasPrefix(txt, "config.metrics.IncLogins(metrics.") && strings.HasSuffix(txt, ")"):
						a := strings.TrimSuffix(strings.TrimPrefix(txt, "config.metrics.IncLogins("), ")")
						a = strings.ReplaceAll(a, "metrics.", "")
						if dc.metric != "" {
							problems = append(problems, fn+": two metric increments in one case")
						}
						dc.metric = a
					default:
						problems = append(problems, fn+": unrecognised statement in case: "+txt)
					}
				}
				if dc.handler == "" {
					problems = append(problems, fn+": case without handler")
					continue
				}
				cases = append(cases, dc)
			}
			return false
		})
		return cases
	}
	main := parseSwitch("ProcessEntry", false)
	user := parseSwitch("userTypeLogAuditFn", true)

	// the rest of ProcessEntry must be exactly:
	//   var entryFunc func(*SshdProcessorer) error ; switch {...} ;
	//   if entryFunc != nil { <log-only> ; return entryFunc(config) } ; <log-only> ; return nil
	// where <log-only> is  if logger.Level().Enabled(...) { logger.Debug*(...) }  (calls of the package logger only):
	// the chosen handler runs exactly once and its result is returned unchanged
	if fd := funcs["ProcessEntry"]; fd != nil {
		src := srcs[fileOf["ProcessEntry"]]
		txt := func(n ast.Node) string { return strings.ReplaceAll(nodeStr(fset, src, n), " ", "") }
		var logOnly func(st ast.Stmt) bool
		logCall := func(e ast.Expr) bool {
			c, ok := e.(*ast.CallExpr)
			if !ok {
				return false
			}
			f := txt(c.Fun)
			if !strings.HasPrefix(f, "logger.Debug") && !strings.HasPrefix(f, "logger.Info") {
				return false
			}
			for _, a := range c.Args {
				switch x := a.(type) {
				case *ast.BasicLit:
				case *ast.SelectorExpr:
					if txt(x) != "config.logEntry" {
						return false
					}
				default:
					return false
				}
			}
			return true
		}
		logOnly = func(st ast.Stmt) bool {
			switch v := st.(type) {
			case *ast.ExprStmt:
				return logCall(v.X)
			case *ast.IfStmt:
				if v.Init != nil || v.Else != nil || txt(v.Cond) != "logger.Level().Enabled(zap.DebugLevel)" {
					return false
				}
				for _, b := range v.Body.List {
					if !logOnly(b) {
						return false
					}
				}
				return true
			}
			return false
		}
		body := fd.Body.List
		ok := len(body) >= 4
		if ok {
			_, isDecl := body[0].(*ast.DeclStmt)
			_, isSwitch := body[1].(*ast.SwitchStmt)
			ok = isDecl && isSwitch && txt(body[0]) == "varentryFuncfunc(*SshdProcessorer)error"
		}
		if ok {
			ifs, isIf := body[2].(*ast.IfStmt)
			ok = isIf && ifs.Init == nil && ifs.Else == nil && txt(ifs.Cond) == "entryFunc!=nil" && len(ifs.Body.List) >= 1
			if ok {
				last := ifs.Body.List[len(ifs.Body.List)-1]
				ok = txt(last) == "returnentryFunc(config)"
				for _, st := range ifs.Body.List[:len(ifs.Body.List)-1] {
					ok = ok && logOnly(st)
				}
			}
		}
		if ok {
			for _, st := range body[3 : len(body)-1] {
				ok = ok && logOnly(st)
			}
			ok = ok && txt(body[len(body)-1]) == "returnnil"
		}
		if !ok {
			problems = append(problems, "ProcessEntry: the statements around the dispatch switch are not {declare entryFunc; switch; if entryFunc != nil {log-only; return entryFunc(config)}; log-only; return nil}: the handler may run more or less than once")
		}
	}

	// handler names
	hset := map[string]bool{}
	var hnames []string
	for _, c := range append(append([]dispatchCase{}, main...), user...) {
		if c.handler != "USERTYPE" && !hset[c.handler] {
			hset[c.handler] = true
			hnames = append(hnames, c.handler)
		}
	}
	sb.WriteString("Inductive handler :=\n")
	for _, h := range hnames {
		fmt.Fprintf(&sb, "| h_%s\n", h)
	}
	sb.WriteString(".\n\n")
	sb.WriteString("Inductive guard := GPrefix (p : string) | GMatch (re : list item).\n")
	sb.WriteString("Inductive target := THandler (h : handler) | TUserType.\n")
	sb.WriteString("(* metric label incremented by the dispatch switch itself: (method, outcome) *)\n")
	sb.WriteString("Definition mlabel := (string * string)%type.\n\n")
	coqMetric := func(m string) string {
		if m == "" {
			return "None"
		}
		p := strings.Split(m, ",")
		if len(p) != 2 {
			return "UNSUPPORTED_metric"
		}
		return fmt.Sprintf("Some (\"%s\", \"%s\")", p[0], p[1])
	}
	sb.WriteString("Definition dispatch : list (guard * target * option mlabel) := [\n")
	for i, c := range main {
		g := ""
		if c.guardKind == "prefix" {
			q, _ := coqStringLit([]byte(c.guardArg))
			g = "GPrefix " + q
		} else {
			g = "GMatch " + c.guardArg
		}
		t := "THandler h_" + c.handler
		if c.handler == "USERTYPE" {
			t = "TUserType"
		}
		sep := ";"
		if i == len(main)-1 {
			sep = ""
		}
		fmt.Fprintf(&sb, "  (%s, %s, %s)%s\n", g, t, coqMetric(c.metric), sep)
	}
	sb.WriteString("].\n\n")
	sb.WriteString("Definition user_dispatch : list (list item * handler) := [\n")
	for i, c := range user {
		sep := ";"
		if i == len(user)-1 {
			sep = ""
		}
		if c.guardKind != "match" {
			problems = append(problems, "userTypeLogAuditFn: non-regex guard")
		}
		fmt.Fprintf(&sb, "  (%s, h_%s)%s\n", c.guardArg, c.handler, sep)
	}
	sb.WriteString("].\n\n")

	// which regex each handler hands to FindStringSubmatch (first such call)
	sb.WriteString("(* the regular expression each handler re-matches the line with (None: it uses none) *)\n")
	sb.WriteString("Definition handler_regex (h : handler) : option (list item) :=\n  match h with\n")
	for _, h := range hnames {
		re := ""
		if fd := funcs[h]; fd != nil {
			ast.Inspect(fd.Body, func(n ast.Node) bool {
				if re != "" {
					return false
				}
				if call, ok := n.(*ast.CallExpr); ok {
					if sel, ok := call.Fun.(*ast.SelectorExpr); ok && sel.Sel.Name == "FindStringSubmatch" {
						if id, ok := sel.X.(*ast.Ident); ok {
							re = id.Name
						}
					}
				}
				return true
			})
		} else {
			problems = append(problems, "handler "+h+" not found")
		}
		if re == "" {
			fmt.Fprintf(&sb, "  | h_%s => None\n", h)
		} else {
			fmt.Fprintf(&sb, "  | h_%s => Some %s\n", h, re)
		}
	}
	sb.WriteString("  end.\n\n")
	for _, p := range problems {
		fmt.Fprintf(&sb, "(* UNSUPPORTED: %s *)\n", strings.ReplaceAll(p, "*)", "* )"))
	}
	if len(problems) > 0 {
		sb.WriteString("Definition dispatch_unsupported : nat := UNSUPPORTED_dispatch.\n")
	}
	return os.WriteFile(filepath.Join(out, "SshdDispatch.v"), []byte(sb.String()), 0o644)
}
