package main

// optworkersgen.go: cmd/cmd.go — handleMetricsAndHealth (the HTTP server with /metrics and /readyz, started only
// with -metrics / -healthz) and handleAuditLogMetrics (the audit.log age ticker, started only with -audit-metrics),
// statement by statement, in the language of coq/Model/OptWorkers.v.  Proofs/OptWorkersTie.v derives, for every
// valuation of the flags, which endpoints are registered with which handler, which goroutines the errgroup gets and
// how each of them ends.  Fails closed (UNSUPPORTED_…).

import (
	"fmt"
	"go/ast"
	"go/parser"
	"go/token"
	"os"
	"path/filepath"
	"strings"
)

func init() { generators = append(generators, genOptWorkers) }

type owCtx struct {
	*wbCtx
	pkgs map[string]bool
}

// boolean conditions over the configuration: mc.<flag>, !c, c || c, c && c
func (c *owCtx) cond(e ast.Expr) string {
	switch x := e.(type) {
	case *ast.ParenExpr:
		return c.cond(x.X)
	case *ast.UnaryExpr:
		if x.Op == token.NOT {
			return "CNot (" + c.cond(x.X) + ")"
		}
	case *ast.BinaryExpr:
		switch x.Op {
		case token.LOR:
			return "COr (" + c.cond(x.X) + ") (" + c.cond(x.Y) + ")"
		case token.LAND:
			return "CAnd (" + c.cond(x.X) + ") (" + c.cond(x.Y) + ")"
		}
	case *ast.SelectorExpr:
		if id, ok := x.X.(*ast.Ident); ok && id.Name == "mc" {
			return "CFlag " + wbQ(x.Sel.Name)
		}
	}
	return c.unsupported(e, "condition")
}

func (c *owCtx) block(list []ast.Stmt, locals map[string]bool, group string) []string {
	var out []string
	for _, s := range list {
		if c.logOnly(s) {
			continue
		}
		out = append(out, c.stmt(s, locals, group))
	}
	return out
}

func (c *owCtx) stmt(s ast.Stmt, locals map[string]bool, group string) string {
	flat := func(n ast.Node) string { return strings.Join(strings.Fields(c.text(n)), "") }
	switch x := s.(type) {
	case *ast.AssignStmt:
		if len(x.Rhs) == 1 && (x.Tok == token.DEFINE || x.Tok == token.ASSIGN) {
			var lhs []string
			ok := true
			for _, l := range x.Lhs {
				id, isId := l.(*ast.Ident)
				if !isId {
					ok = false
					break
				}
				lhs = append(lhs, wbQ(id.Name))
			}
			if ok {
				r := c.exp(x.Rhs[0], locals, c.pkgs)
				for _, l := range x.Lhs {
					locals[l.(*ast.Ident).Name] = true
				}
				return fmt.Sprintf("OSet %s (%s)", wbList(lhs), r)
			}
		}
		return c.unsupported(s, "assignment")
	case *ast.ExprStmt:
		// <-ctx.Done()
		if un, ok := x.X.(*ast.UnaryExpr); ok && un.Op == token.ARROW && flat(un.X) == "ctx.Done()" {
			return "OWaitDone"
		}
		call, ok := x.X.(*ast.CallExpr)
		if !ok {
			return c.unsupported(s, "statement")
		}
		// <group>.Go(func() error { ... })
		if sel, ok := call.Fun.(*ast.SelectorExpr); ok && sel.Sel.Name == "Go" && flat(sel.X) == group && len(call.Args) == 1 {
			if fl, ok := call.Args[0].(*ast.FuncLit); ok && len(fl.Type.Params.List) == 0 {
				inner := map[string]bool{}
				for k, v := range locals {
					inner[k] = v
				}
				return "OGo " + wbList(c.block(fl.Body.List, inner, group))
			}
			return c.unsupported(s, "group_go_argument")
		}
		return "OCall (" + c.exp(call, locals, c.pkgs) + ")"
	case *ast.IfStmt:
		// if err := e; err != nil { return err }   /   if err != nil { log-only; continue }
		if x.Init != nil {
			as, ok := x.Init.(*ast.AssignStmt)
			if ok && as.Tok == token.DEFINE && len(as.Lhs) == 1 && len(as.Rhs) == 1 && x.Else == nil {
				if id, ok := as.Lhs[0].(*ast.Ident); ok && flat(x.Cond) == id.Name+"!=nil" && len(x.Body.List) == 1 {
					if ret, ok := x.Body.List[0].(*ast.ReturnStmt); ok && len(ret.Results) == 1 && flat(ret.Results[0]) == id.Name {
						return fmt.Sprintf("OIfErrReturnIt (%s)", c.exp(as.Rhs[0], locals, c.pkgs))
					}
				}
			}
			return c.unsupported(s, "if_with_init")
		}
		if be, ok := x.Cond.(*ast.BinaryExpr); ok && be.Op == token.NEQ && flat(be.Y) == "nil" && x.Else == nil {
			if id, ok := be.X.(*ast.Ident); ok && locals[id.Name] {
				body := c.block(x.Body.List, locals, group)
				return fmt.Sprintf("OIfErr %s %s", wbQ(id.Name), wbList(body))
			}
		}
		// a comparison used by the audit.log age check: anything with calls in it is an opaque data condition
		if _, ok := x.Cond.(*ast.BinaryExpr); ok && strings.Contains(flat(x.Cond), "(") {
			th := c.block(x.Body.List, locals, group)
			var el []string
			if x.Else != nil {
				if b, ok := x.Else.(*ast.BlockStmt); ok {
					el = c.block(b.List, locals, group)
				} else {
					return c.unsupported(s, "else_if")
				}
			}
			return fmt.Sprintf("OIfData %s %s %s", wbQ(strings.Join(strings.Fields(c.text(x.Cond)), " ")), wbList(th), wbList(el))
		}
		if x.Else != nil {
			return c.unsupported(s, "else")
		}
		return fmt.Sprintf("OIf (%s) %s", c.cond(x.Cond), wbList(c.block(x.Body.List, locals, group)))
	case *ast.ReturnStmt:
		if len(x.Results) == 0 {
			return "OReturnVoid"
		}
		if len(x.Results) == 1 {
			return "OReturn (" + c.exp(x.Results[0], locals, c.pkgs) + ")"
		}
		return c.unsupported(s, "return")
	case *ast.DeferStmt:
		return "ODefer (" + c.exp(x.Call, locals, c.pkgs) + ")"
	case *ast.BranchStmt:
		if x.Tok == token.CONTINUE && x.Label == nil {
			return "OContinue"
		}
		return c.unsupported(s, "branch")
	case *ast.ForStmt:
		// for { select { case <-ch: ... case <-ctx.Done(): ... } }
		if x.Init == nil && x.Cond == nil && x.Post == nil && len(x.Body.List) == 1 {
			if sel, ok := x.Body.List[0].(*ast.SelectStmt); ok {
				var arms []string
				for _, cl := range sel.Body.List {
					cc := cl.(*ast.CommClause)
					es, ok := cc.Comm.(*ast.ExprStmt)
					if !ok {
						arms = append(arms, c.unsupported(cc, "select_arm"))
						continue
					}
					un, ok := es.X.(*ast.UnaryExpr)
					if !ok || un.Op != token.ARROW {
						arms = append(arms, c.unsupported(cc, "select_arm"))
						continue
					}
					body := c.block(cc.Body, locals, group)
					if flat(un.X) == "ctx.Done()" {
						arms = append(arms, "ArmDone "+wbList(body))
					} else {
						arms = append(arms, fmt.Sprintf("ArmRecv %s %s", wbQ(flat(un.X)), wbList(body)))
					}
				}
				return "OLoopSelect " + wbList(arms)
			}
		}
		return c.unsupported(s, "for")
	}
	return c.unsupported(s, "statement")
}

func genOptWorkers(repo, out string) error {
	path := filepath.Join(repo, "cmd/cmd.go")
	src, err := os.ReadFile(path)
	if err != nil {
		return err
	}
	fset := token.NewFileSet()
	f, err := parser.ParseFile(fset, path, src, 0)
	if err != nil {
		return err
	}
	c := &owCtx{wbCtx: &wbCtx{fset: fset, src: src}, pkgs: wbImports(f)}
	var sb strings.Builder
	sb.WriteString("(* GENERATED by tools/go2v (optworkersgen.go) from cmd/cmd.go (handleMetricsAndHealth, handleAuditLogMetrics).\n   Do not edit. *)\n")
	sb.WriteString("From Coq Require Import String List Bool ZArith.\nImport ListNotations.\nFrom AM Require Import Model.WorkerWiring Model.OptWorkers.\nOpen Scope string_scope.\nOpen Scope Z_scope.\n\n")
	for _, name := range []string{"handleMetricsAndHealth", "handleAuditLogMetrics"} {
		var fd *ast.FuncDecl
		for _, d := range f.Decls {
			if x, ok := d.(*ast.FuncDecl); ok && x.Recv == nil && x.Name.Name == name && x.Body != nil {
				fd = x
			}
		}
		if fd == nil {
			fmt.Fprintf(&sb, "Definition gen_%s : ofunc := UNSUPPORTED_%s_not_found.\n\n", name, name)
			continue
		}
		var params []string
		group := ""
		locals := map[string]bool{}
		for _, p := range fd.Type.Params.List {
			t := strings.Join(strings.Fields(c.text(p.Type)), "")
			for _, n := range p.Names {
				params = append(params, fmt.Sprintf("(%s, %s)", wbQ(n.Name), wbQ(t)))
				locals[n.Name] = true
				if t == "*errgroup.Group" {
					group = n.Name
				}
			}
		}
		body := c.block(fd.Body.List, locals, group)
		fmt.Fprintf(&sb, "Definition gen_%s : ofunc := mkOFunc %s\n  %s.\n\n", name, wbList(params), "["+strings.Join(body, ";\n   ")+"]")
	}
	return os.WriteFile(filepath.Join(out, "OptWorkers.v"), []byte(sb.String()), 0o644)
}
