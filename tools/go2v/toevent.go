package main

// toevent.go: what (*user).toAuditEvent of processors/auditd/sessiontracker does, read from its AST
// (-> Gen/ToEventSketch.v): event type and component, the outcome rule (the switch on ae.Result), where
// each output field comes from, which of the login's maps are copied and which are passed on, the
// metadata extra keys and the guard of the conditional one.
// Every statement and expression form that is not recognised makes the sketch UNSUPPORTED (an
// identifier that does not type-check in Coq).  All top-level identifiers here start with te/Te.

import (
	"fmt"
	"go/ast"
	"go/parser"
	"go/token"
	"os"
	"path/filepath"
	"strconv"
	"strings"
)

func init() { generators = append(generators, teGen) }

const teAuditeventPath = "github.com/metal-toolbox/auditevent"

type teUnsupported string

func (u teUnsupported) Error() string { return string(u) }

// ---------------------------------------------------------------------------------------------
// symbolic values

// tePath: a field read from the login (o.login.Source.<path>) or from the audit event (ae.<path>)
type tePath struct {
	root string // login | ev
	path string // dotted, e.g. "Summary.Action"
}

var teKnownPaths = map[tePath]string{
	{"login", "Subjects"}:    "FromLoginSubjects",
	{"login", "Source"}:      "FromLoginSource",
	{"login", "Target"}:      "FromLoginTarget",
	{"ev", "Timestamp"}:      "FromEvTimestamp",
	{"ev", "Session"}:        "FromEvSession",
	{"ev", "Result"}:         "FromEvResult",
	{"ev", "Summary.Action"}: "FromEvSummaryAction",
	{"ev", "Summary.How"}:    "FromEvSummaryHow",
	{"ev", "Summary.Object"}: "FromEvSummaryObject",
	{"ev", "Process.Args"}:   "FromEvProcessArgs",
}

func (p tePath) String() string {
	if p.root == "login" {
		return "o.login.Source." + p.path
	}
	return "ae." + p.path
}

func (p tePath) coq() string {
	if c, ok := teKnownPaths[p]; ok {
		return c
	}
	q, ok := coqStringLit([]byte(p.String()))
	if !ok {
		return "UNSUPPORTED_te_path"
	}
	return "(FromOther " + q + ")"
}

type teCase struct{ lit, out string }

type (
	teVConst struct{ s string } // a string constant
	teVPath  struct{ p tePath }
	teVRule  struct { // a string variable decided by a switch on a field
		scrut tePath
		cases []teCase
		dflt  string
	}
	teVFresh struct{ m *teFreshMap } // make(map[string]string, ...)
	teVEvt   struct{ e *teEvent }
)

type teFreshMap struct {
	filled bool
	from   tePath
}

type teField struct {
	src    string // Coq te_src term
	copied bool
}

type teKV struct {
	k   string
	src string
}

type teCond struct {
	guard string // Coq te_guard term
	k     string
	src   string
}

type teEvent struct {
	typ, component           string
	outcome                  teVRule
	subjects, source, target teField
	targetSet                bool
	loggedAt, auditID        string
	extra                    []teKV
	extraSet                 bool
	cond                     []teCond
}

type teCtx struct {
	repo, modPath string
	fset          *token.FileSet
	file          *ast.File
	src           []byte
	env           map[string]interface{}
	recv, param   string
	outcomeNotes  []string // how the auditevent constants were resolved
	extConsts     map[string]map[string]string
}

func (c *teCtx) text(n ast.Node) string {
	s := string(c.src[c.fset.Position(n.Pos()).Offset:c.fset.Position(n.End()).Offset])
	s = strings.Join(strings.Fields(s), " ")
	if len(s) > 120 {
		s = s[:120] + "..."
	}
	return s
}

func (c *teCtx) unsup(n ast.Node, why string) error {
	return teUnsupported(fmt.Sprintf("%s: `%s` (line %d)", why, c.text(n), c.fset.Position(n.Pos()).Line))
}

func (c *teCtx) importPath(name string) (string, bool) {
	if _, local := c.env[name]; local || name == c.recv || name == c.param {
		return "", false
	}
	for _, im := range c.file.Imports {
		p, err := strconv.Unquote(im.Path.Value)
		if err != nil {
			continue
		}
		local := p[strings.LastIndex(p, "/")+1:]
		if im.Name != nil {
			local = im.Name.Name
		}
		if local == name {
			return p, true
		}
	}
	return "", false
}

func teSelPath(e ast.Expr) ([]string, bool) {
	switch v := e.(type) {
	case *ast.Ident:
		return []string{v.Name}, true
	case *ast.SelectorExpr:
		p, ok := teSelPath(v.X)
		if !ok {
			return nil, false
		}
		return append(p, v.Sel.Name), true
	}
	return nil, false
}

func teIsIdent(e ast.Expr, name string) bool {
	id, ok := e.(*ast.Ident)
	return ok && id.Name == name
}

func teTypeString(e ast.Expr) string {
	switch v := e.(type) {
	case *ast.Ident:
		return v.Name
	case *ast.SelectorExpr:
		return teTypeString(v.X) + "." + v.Sel.Name
	case *ast.MapType:
		return "map[" + teTypeString(v.Key) + "]" + teTypeString(v.Value)
	case *ast.StarExpr:
		return "*" + teTypeString(v.X)
	}
	return "?"
}

// string constants declared in the non-test files of a directory
func teDirConsts(dir string) (map[string]string, error) {
	pkgs, err := parser.ParseDir(token.NewFileSet(), dir, func(fi os.FileInfo) bool { return !strings.HasSuffix(fi.Name(), "_test.go") }, 0)
	if err != nil {
		return nil, err
	}
	out := map[string]string{}
	for _, pkg := range pkgs {
		for _, f := range pkg.Files {
			for _, d := range f.Decls {
				gd, ok := d.(*ast.GenDecl)
				if !ok || gd.Tok != token.CONST {
					continue
				}
				for _, sp := range gd.Specs {
					vs := sp.(*ast.ValueSpec)
					for i, n := range vs.Names {
						if i < len(vs.Values) {
							if lit, ok := vs.Values[i].(*ast.BasicLit); ok && lit.Kind == token.STRING {
								if s, err := strconv.Unquote(lit.Value); err == nil {
									out[n.Name] = s
								}
							}
						}
					}
				}
			}
		}
	}
	return out, nil
}

func teEscapeModPath(p string) string {
	var sb strings.Builder
	for _, r := range p {
		if r >= 'A' && r <= 'Z' {
			sb.WriteByte('!')
			sb.WriteRune(r + ('a' - 'A'))
		} else {
			sb.WriteRune(r)
		}
	}
	return sb.String()
}

// teModuleDir locates the source of a required module: vendor/, then the module cache
func (c *teCtx) teModuleDir(mod string) (string, string) {
	if d := filepath.Join(c.repo, "vendor", mod); teIsDir(d) {
		return d, "vendor/"
	}
	version := ""
	if b, err := os.ReadFile(filepath.Join(c.repo, "go.mod")); err == nil {
		for _, ln := range strings.Split(string(b), "\n") {
			f := strings.Fields(ln)
			if len(f) >= 2 && f[0] == mod {
				version = f[1]
			}
			if len(f) >= 3 && f[0] == "require" && f[1] == mod {
				version = f[2]
			}
		}
	}
	if version == "" {
		return "", ""
	}
	var roots []string
	if v := os.Getenv("GOMODCACHE"); v != "" {
		roots = append(roots, v)
	}
	if v := os.Getenv("GOPATH"); v != "" {
		for _, p := range filepath.SplitList(v) {
			roots = append(roots, filepath.Join(p, "pkg", "mod"))
		}
	}
	if h, err := os.UserHomeDir(); err == nil {
		roots = append(roots, filepath.Join(h, "go", "pkg", "mod"))
	}
	for _, r := range roots {
		if d := filepath.Join(r, teEscapeModPath(mod)+"@"+version); teIsDir(d) {
			return d, "module cache, " + mod + "@" + version
		}
	}
	return "", ""
}

func teIsDir(p string) bool {
	fi, err := os.Stat(p)
	return err == nil && fi.IsDir()
}

// extConst resolves <pkg>.<name> to a string constant
func (c *teCtx) extConst(n ast.Node, path, name string) (string, error) {
	if c.extConsts[path] == nil {
		switch {
		case strings.HasPrefix(path, c.modPath+"/"):
			m, err := teDirConsts(filepath.Join(c.repo, strings.TrimPrefix(path, c.modPath+"/")))
			if err != nil {
				return "", c.unsup(n, "cannot parse "+path)
			}
			c.extConsts[path] = m
		case path == teAuditeventPath:
			if dir, how := c.teModuleDir(path); dir != "" {
				m, err := teDirConsts(dir)
				if err != nil {
					return "", c.unsup(n, "cannot parse "+dir)
				}
				c.extConsts[path] = m
				c.outcomeNotes = append(c.outcomeNotes, "auditevent constants read from the "+how)
			} else {
				// ASSUMPTION (recorded in the output): Outcome<Word> = lower-case <word>
				c.extConsts[path] = map[string]string{"OutcomeSucceeded": "succeeded", "OutcomeFailed": "failed"}
				c.outcomeNotes = append(c.outcomeNotes, "ASSUMPTION: the auditevent module source was not found (no vendor/, not in the module cache); OutcomeSucceeded/OutcomeFailed are taken to be the lower-case words of their names")
			}
		default:
			return "", c.unsup(n, "constant of a package that is not read: "+path)
		}
	}
	s, ok := c.extConsts[path][name]
	if !ok {
		return "", c.unsup(n, "not a string constant of "+path)
	}
	return s, nil
}

// ---------------------------------------------------------------------------------------------
// expressions

func (c *teCtx) eval(e ast.Expr) (interface{}, error) {
	switch v := e.(type) {
	case *ast.ParenExpr:
		return c.eval(v.X)
	case *ast.BasicLit:
		if v.Kind == token.STRING {
			s, err := strconv.Unquote(v.Value)
			if err != nil {
				return nil, c.unsup(e, "bad string literal")
			}
			return teVConst{s}, nil
		}
	case *ast.Ident:
		if val, ok := c.env[v.Name]; ok {
			return val, nil
		}
		return nil, c.unsup(e, "identifier with no known value")
	case *ast.SelectorExpr:
		p, ok := teSelPath(e)
		if !ok {
			return nil, c.unsup(e, "selector on a non-identifier")
		}
		if _, local := c.env[p[0]]; local {
			return nil, c.unsup(e, "field read of a local")
		}
		switch {
		case p[0] == c.recv:
			if len(p) < 4 || p[1] != "login" || p[2] != "Source" {
				return nil, c.unsup(e, "read of the user that is not o.login.Source.<field>")
			}
			return teVPath{tePath{"login", strings.Join(p[3:], ".")}}, nil
		case p[0] == c.param:
			return teVPath{tePath{"ev", strings.Join(p[1:], ".")}}, nil
		}
		if len(p) == 2 {
			if path, ok := c.importPath(p[0]); ok {
				s, err := c.extConst(e, path, p[1])
				if err != nil {
					return nil, err
				}
				return teVConst{s}, nil
			}
		}
		return nil, c.unsup(e, "qualified name that is not understood")
	case *ast.CompositeLit:
		return nil, c.unsup(e, "composite literal outside evt.Metadata.Extra = map[string]any{...}")
	case *ast.CallExpr:
		return c.evalCall(v)
	}
	return nil, c.unsup(e, "expression form not understood")
}

// lenOfPath: len(<path>)
func (c *teCtx) lenOfPath(e ast.Expr) (tePath, bool) {
	call, ok := e.(*ast.CallExpr)
	if !ok || !teIsIdent(call.Fun, "len") || len(call.Args) != 1 {
		return tePath{}, false
	}
	if _, shadow := c.env["len"]; shadow {
		return tePath{}, false
	}
	v, err := c.eval(call.Args[0])
	if err != nil {
		return tePath{}, false
	}
	p, ok := v.(teVPath)
	return p.p, ok
}

func (c *teCtx) evalCall(call *ast.CallExpr) (interface{}, error) {
	if call.Ellipsis != token.NoPos {
		return nil, c.unsup(call, "variadic call")
	}
	// make(map[string]string[, n])
	if teIsIdent(call.Fun, "make") {
		if _, shadow := c.env["make"]; shadow || len(call.Args) < 1 || len(call.Args) > 2 || teTypeString(call.Args[0]) != "map[string]string" {
			return nil, c.unsup(call, "make of something other than map[string]string")
		}
		if len(call.Args) == 2 {
			if _, ok := c.lenOfPath(call.Args[1]); !ok {
				if lit, isLit := call.Args[1].(*ast.BasicLit); !isLit || lit.Kind != token.INT {
					return nil, c.unsup(call, "map capacity that is neither a literal nor len(<field>)")
				}
			}
		}
		return teVFresh{&teFreshMap{}}, nil
	}
	sel, ok := call.Fun.(*ast.SelectorExpr)
	if !ok {
		return nil, c.unsup(call, "call not understood")
	}
	// auditevent.NewAuditEvent(type, source, outcome, subjects, component)
	if q, ok := sel.X.(*ast.Ident); ok && sel.Sel.Name == "NewAuditEvent" {
		if path, ok := c.importPath(q.Name); ok && path == teAuditeventPath {
			if len(call.Args) != 5 {
				return nil, c.unsup(call, "NewAuditEvent arity")
			}
			ev := &teEvent{loggedAt: "FromClockNow", auditID: "FromRandomUUID"} // what NewAuditEvent itself puts there
			t, err := c.eval(call.Args[0])
			if err != nil {
				return nil, err
			}
			tc, ok := t.(teVConst)
			if !ok {
				return nil, c.unsup(call.Args[0], "event type is not a constant")
			}
			ev.typ = tc.s
			s, err := c.eval(call.Args[1])
			if err != nil {
				return nil, err
			}
			sp, ok := s.(teVPath)
			if !ok {
				return nil, c.unsup(call.Args[1], "source is not a field of the login")
			}
			ev.source = teField{sp.p.coq(), false}
			o, err := c.eval(call.Args[2])
			if err != nil {
				return nil, err
			}
			switch ov := o.(type) {
			case teVRule:
				ev.outcome = ov
			case teVConst:
				ev.outcome = teVRule{scrut: tePath{}, dflt: ov.s}
			default:
				return nil, c.unsup(call.Args[2], "outcome is neither a constant nor decided by a switch")
			}
			m, err := c.eval(call.Args[3])
			if err != nil {
				return nil, err
			}
			switch mv := m.(type) {
			case teVFresh:
				if !mv.m.filled {
					return nil, c.unsup(call.Args[3], "subjects is a fresh map that was never filled")
				}
				ev.subjects = teField{mv.m.from.coq(), true}
			case teVPath:
				ev.subjects = teField{mv.p.coq(), false}
			default:
				return nil, c.unsup(call.Args[3], "subjects of unknown origin")
			}
			comp, err := c.eval(call.Args[4])
			if err != nil {
				return nil, err
			}
			cc, ok := comp.(teVConst)
			if !ok {
				return nil, c.unsup(call.Args[4], "component is not a constant")
			}
			ev.component = cc.s
			return teVEvt{ev}, nil
		}
	}
	// <event>.WithTarget(x)
	if sel.Sel.Name == "WithTarget" && len(call.Args) == 1 {
		x, err := c.eval(sel.X)
		if err != nil {
			return nil, err
		}
		ev, ok := x.(teVEvt)
		if !ok {
			return nil, c.unsup(call, "WithTarget on something that is not the event")
		}
		if ev.e.targetSet {
			return nil, c.unsup(call, "target set twice")
		}
		t, err := c.eval(call.Args[0])
		if err != nil {
			return nil, err
		}
		switch tv := t.(type) {
		case teVPath:
			ev.e.target = teField{tv.p.coq(), false}
		case teVFresh:
			if !tv.m.filled {
				return nil, c.unsup(call, "target is a fresh map that was never filled")
			}
			ev.e.target = teField{tv.m.from.coq(), true}
		default:
			return nil, c.unsup(call, "target of unknown origin")
		}
		ev.e.targetSet = true
		return ev, nil
	}
	return nil, c.unsup(call, "call not understood")
}

// ---------------------------------------------------------------------------------------------
// statements

func (c *teCtx) evtSel(e ast.Expr, path ...string) (*teEvent, bool) {
	p, ok := teSelPath(e)
	if !ok || len(p) != len(path)+1 {
		return nil, false
	}
	for i := range path {
		if p[i+1] != path[i] {
			return nil, false
		}
	}
	ev, ok := c.env[p[0]].(teVEvt)
	if !ok {
		return nil, false
	}
	return ev.e, true
}

func (c *teCtx) srcOf(e ast.Expr) (string, error) {
	v, err := c.eval(e)
	if err != nil {
		return "", err
	}
	p, ok := v.(teVPath)
	if !ok {
		return "", c.unsup(e, "value that is not a field of the login or of the audit event")
	}
	return p.p.coq(), nil
}

func (c *teCtx) assign(a *ast.AssignStmt) error {
	if len(a.Lhs) != 1 || len(a.Rhs) != 1 || (a.Tok != token.DEFINE && a.Tok != token.ASSIGN) {
		return c.unsup(a, "assignment form not understood")
	}
	switch l := a.Lhs[0].(type) {
	case *ast.Ident:
		if a.Tok != token.DEFINE || l.Name == "_" || l.Name == c.recv || l.Name == c.param {
			return c.unsup(a, "assignment to a name that is not a fresh local")
		}
		if _, exists := c.env[l.Name]; exists {
			return c.unsup(a, "redefinition of a local")
		}
		v, err := c.eval(a.Rhs[0])
		if err != nil {
			return err
		}
		switch v.(type) {
		case teVConst, teVFresh, teVEvt:
		default:
			return c.unsup(a, "local bound to a value kind that is not tracked")
		}
		c.env[l.Name] = v
		return nil
	case *ast.SelectorExpr:
		if a.Tok != token.ASSIGN {
			return c.unsup(a, "field definition")
		}
		if ev, ok := c.evtSel(l, "LoggedAt"); ok {
			s, err := c.srcOf(a.Rhs[0])
			if err != nil {
				return err
			}
			ev.loggedAt = s
			return nil
		}
		if ev, ok := c.evtSel(l, "Metadata", "AuditID"); ok {
			s, err := c.srcOf(a.Rhs[0])
			if err != nil {
				return err
			}
			ev.auditID = s
			return nil
		}
		if ev, ok := c.evtSel(l, "Metadata", "Extra"); ok {
			cl, isLit := a.Rhs[0].(*ast.CompositeLit)
			if !isLit || teTypeString(cl.Type) != "map[string]any" {
				return c.unsup(a, "metadata extra set to something other than a map[string]any literal")
			}
			if ev.extraSet || len(ev.cond) != 0 {
				return c.unsup(a, "metadata extra replaced")
			}
			seen := map[string]bool{}
			for _, el := range cl.Elts {
				kv, ok := el.(*ast.KeyValueExpr)
				if !ok {
					return c.unsup(el, "map element without key")
				}
				k, err := c.eval(kv.Key)
				if err != nil {
					return err
				}
				kc, ok := k.(teVConst)
				if !ok || seen[kc.s] {
					return c.unsup(kv.Key, "map key that is not a fresh constant")
				}
				seen[kc.s] = true
				s, err := c.srcOf(kv.Value)
				if err != nil {
					return err
				}
				ev.extra = append(ev.extra, teKV{kc.s, s})
			}
			ev.extraSet = true
			return nil
		}
		return c.unsup(a, "field assignment not understood")
	case *ast.IndexExpr:
		// evt.Metadata.Extra["k"] = <field>     (unconditional)
		if ev, ok := c.evtSel(l.X, "Metadata", "Extra"); ok && a.Tok == token.ASSIGN {
			k, s, err := c.extraEntry(ev, l, a.Rhs[0])
			if err != nil {
				return err
			}
			ev.extra = append(ev.extra, teKV{k, s})
			return nil
		}
		return c.unsup(a, "indexed assignment not understood")
	}
	return c.unsup(a, "assignment target not understood")
}

func (c *teCtx) extraEntry(ev *teEvent, l *ast.IndexExpr, rhs ast.Expr) (string, string, error) {
	if !ev.extraSet {
		return "", "", c.unsup(l, "metadata extra written before it is created (nil map)")
	}
	k, err := c.eval(l.Index)
	if err != nil {
		return "", "", err
	}
	kc, ok := k.(teVConst)
	if !ok {
		return "", "", c.unsup(l.Index, "metadata key is not a constant")
	}
	for _, kv := range ev.extra {
		if kv.k == kc.s {
			return "", "", c.unsup(l, "metadata key written twice")
		}
	}
	for _, cd := range ev.cond {
		if cd.k == kc.s {
			return "", "", c.unsup(l, "metadata key written twice")
		}
	}
	s, err := c.srcOf(rhs)
	if err != nil {
		return "", "", err
	}
	return kc.s, s, nil
}

// outcome := CONST ; switch ae.Result { case "lit": outcome = CONST ... }
func (c *teCtx) switchStmt(s *ast.SwitchStmt) error {
	if s.Init != nil || s.Tag == nil {
		return c.unsup(s, "switch with init or without tag")
	}
	t, err := c.eval(s.Tag)
	if err != nil {
		return err
	}
	tp, ok := t.(teVPath)
	if !ok {
		return c.unsup(s.Tag, "switch on something that is not a field")
	}
	varName := ""
	rule := teVRule{scrut: tp.p}
	var prior string
	type clause struct {
		lits []string
		out  *string
		dflt bool
	}
	var clauses []clause
	for _, st := range s.Body.List {
		cc := st.(*ast.CaseClause)
		cl := clause{dflt: cc.List == nil}
		for _, e := range cc.List {
			v, err := c.eval(e)
			if err != nil {
				return err
			}
			lc, ok := v.(teVConst)
			if !ok {
				return c.unsup(e, "case that is not a string constant")
			}
			cl.lits = append(cl.lits, lc.s)
		}
		switch len(cc.Body) {
		case 0: // no-op: the variable keeps its value
		case 1:
			as, ok := cc.Body[0].(*ast.AssignStmt)
			if !ok || as.Tok != token.ASSIGN || len(as.Lhs) != 1 || len(as.Rhs) != 1 {
				return c.unsup(cc.Body[0], "case body that is not one assignment")
			}
			id, ok := as.Lhs[0].(*ast.Ident)
			if !ok || (varName != "" && id.Name != varName) {
				return c.unsup(as, "case body assigns something other than the one switch-decided variable")
			}
			old, ok := c.env[id.Name].(teVConst)
			if !ok {
				return c.unsup(as, "switch-decided variable does not hold a constant before the switch")
			}
			varName, prior = id.Name, old.s
			v, err := c.eval(as.Rhs[0])
			if err != nil {
				return err
			}
			vc, ok := v.(teVConst)
			if !ok {
				return c.unsup(as.Rhs[0], "assigned value is not a constant")
			}
			out := vc.s
			cl.out = &out
		default:
			return c.unsup(cc, "case body with more than one statement")
		}
		clauses = append(clauses, cl)
	}
	if varName == "" {
		return c.unsup(s, "switch that decides nothing")
	}
	rule.dflt = prior
	for _, cl := range clauses {
		out := prior
		if cl.out != nil {
			out = *cl.out
		}
		if cl.dflt {
			rule.dflt = out
			continue
		}
		for _, l := range cl.lits {
			rule.cases = append(rule.cases, teCase{l, out})
		}
	}
	c.env[varName] = rule
	return nil
}

// for k, v := range <login map> { fresh[k] = v }
func (c *teCtx) rangeStmt(r *ast.RangeStmt) error {
	k, ok1 := r.Key.(*ast.Ident)
	v, ok2 := r.Value.(*ast.Ident)
	if !ok1 || !ok2 || r.Tok != token.DEFINE || k.Name == "_" || v.Name == "_" || k.Name == v.Name {
		return c.unsup(r, "range that is not `for k, v := range`")
	}
	if _, s1 := c.env[k.Name]; s1 {
		return c.unsup(r, "range variable shadows a local")
	}
	if _, s2 := c.env[v.Name]; s2 {
		return c.unsup(r, "range variable shadows a local")
	}
	x, err := c.eval(r.X)
	if err != nil {
		return err
	}
	xp, ok := x.(teVPath)
	if !ok {
		return c.unsup(r.X, "range over something that is not a field")
	}
	if len(r.Body.List) != 1 {
		return c.unsup(r, "copy loop body is not a single assignment")
	}
	as, ok := r.Body.List[0].(*ast.AssignStmt)
	if !ok || as.Tok != token.ASSIGN || len(as.Lhs) != 1 || len(as.Rhs) != 1 || !teIsIdent(as.Rhs[0], v.Name) {
		return c.unsup(r, "copy loop body is not `m[k] = v`")
	}
	ix, ok := as.Lhs[0].(*ast.IndexExpr)
	if !ok || !teIsIdent(ix.Index, k.Name) {
		return c.unsup(r, "copy loop body is not `m[k] = v`")
	}
	mid, ok := ix.X.(*ast.Ident)
	if !ok {
		return c.unsup(r, "copy loop body is not `m[k] = v`")
	}
	fm, ok := c.env[mid.Name].(teVFresh)
	if !ok || fm.m.filled {
		return c.unsup(r, "copy loop target is not a fresh, still empty map")
	}
	fm.m.filled, fm.m.from = true, xp.p
	return nil
}

// if len(<field>) > 0 { evt.Metadata.Extra["k"] = <field> }
func (c *teCtx) ifStmt(s *ast.IfStmt) error {
	if s.Init != nil || s.Else != nil {
		return c.unsup(s, "if with init or else")
	}
	be, ok := s.Cond.(*ast.BinaryExpr)
	if !ok || be.Op != token.GTR {
		return c.unsup(s, "condition that is not `len(<field>) > 0`")
	}
	lit, ok := be.Y.(*ast.BasicLit)
	if !ok || lit.Kind != token.INT || lit.Value != "0" {
		return c.unsup(s, "condition that is not `len(<field>) > 0`")
	}
	gp, ok := c.lenOfPath(be.X)
	if !ok {
		return c.unsup(s, "condition that is not `len(<field>) > 0`")
	}
	if len(s.Body.List) != 1 {
		return c.unsup(s, "guarded body is not a single assignment")
	}
	as, ok := s.Body.List[0].(*ast.AssignStmt)
	if !ok || as.Tok != token.ASSIGN || len(as.Lhs) != 1 || len(as.Rhs) != 1 {
		return c.unsup(s, "guarded body is not a single assignment")
	}
	ix, ok := as.Lhs[0].(*ast.IndexExpr)
	if !ok {
		return c.unsup(s, "guarded body is not evt.Metadata.Extra[k] = v")
	}
	ev, ok := c.evtSel(ix.X, "Metadata", "Extra")
	if !ok {
		return c.unsup(s, "guarded body is not evt.Metadata.Extra[k] = v")
	}
	k, src, err := c.extraEntry(ev, ix, as.Rhs[0])
	if err != nil {
		return err
	}
	ev.cond = append(ev.cond, teCond{"(GuardNonEmpty " + gp.coq() + ")", k, src})
	return nil
}

func (c *teCtx) body(stmts []ast.Stmt) (*teEvent, error) {
	for i, s := range stmts {
		switch v := s.(type) {
		case *ast.AssignStmt:
			if err := c.assign(v); err != nil {
				return nil, err
			}
		case *ast.SwitchStmt:
			if err := c.switchStmt(v); err != nil {
				return nil, err
			}
		case *ast.RangeStmt:
			if err := c.rangeStmt(v); err != nil {
				return nil, err
			}
		case *ast.IfStmt:
			if err := c.ifStmt(v); err != nil {
				return nil, err
			}
		case *ast.ReturnStmt:
			if i != len(stmts)-1 || len(v.Results) != 1 {
				return nil, c.unsup(s, "return that is not the final single-value return")
			}
			r, err := c.eval(v.Results[0])
			if err != nil {
				return nil, err
			}
			ev, ok := r.(teVEvt)
			if !ok || !ev.e.targetSet {
				return nil, c.unsup(s, "function does not return a complete event")
			}
			return ev.e, nil
		default:
			return nil, c.unsup(s, "statement kind not understood")
		}
	}
	return nil, teUnsupported("function ends without returning the event")
}

// ---------------------------------------------------------------------------------------------
// output

func teComment(s string) string {
	s = strings.ReplaceAll(s, "*)", "* )")
	s = strings.ReplaceAll(s, "(*", "( *")
	return strings.ReplaceAll(s, "\"", "'")
}

func teStr(s string) string {
	q, ok := coqStringLit([]byte(s))
	if !ok {
		return "UNSUPPORTED_te_non_printable_string"
	}
	return q
}

func teBool(b bool) string {
	if b {
		return "true"
	}
	return "false"
}

const teHeader = `(* GENERATED by tools/go2v from processors/auditd/sessiontracker/sessiontracker.go, method
   user.toAuditEvent (constants from internal/common and the auditevent module).  Do not edit.
   What the rendering of a UserAction does, read from the AST: event type and component, the outcome
   rule, where each output field comes from, which login maps are copied entry by entry and which are
   passed on (shared with the stored login), the metadata extra keys and the guarded one. *)
From Coq Require Import String List.
Import ListNotations.
Open Scope string_scope.

(* where an output field comes from: a field of the stored login's event (o.login.Source.<..>),
   a field of the coalesced audit event (ae.<..>), or what NewAuditEvent itself puts there *)
Inductive te_src :=
| FromLoginSubjects | FromLoginSource | FromLoginTarget
| FromEvTimestamp | FromEvSession | FromEvResult
| FromEvSummaryAction | FromEvSummaryHow | FromEvSummaryObject | FromEvProcessArgs
| FromClockNow               (* NewAuditEvent: time.Now(), not overwritten *)
| FromRandomUUID             (* NewAuditEvent: uuid.New(), not overwritten *)
| FromOther (path : string). (* any other field *)

Inductive te_guard := GuardNonEmpty (x : te_src).   (* len(x) > 0 *)

Record te_sketch := {
  te_type : string;                              (* NewAuditEvent's event type *)
  te_component : string;
  te_outcome_scrutinee : te_src;                 (* switch <scrutinee> { ... } decides the outcome *)
  te_outcome_cases : list (string * string);     (* case literal -> outcome, in source order (a no-op case keeps the initial value) *)
  te_outcome_default : string;                   (* every other value *)
  te_subjects : te_src;
  te_subjects_copied : bool;                     (* true: a fresh map filled entry by entry by a range loop; false: the login's own map *)
  te_source : te_src;
  te_source_copied : bool;
  te_target : te_src;
  te_target_copied : bool;
  te_logged_at : te_src;
  te_audit_id : te_src;
  te_extra : list (string * te_src);             (* evt.Metadata.Extra = map[string]any{...} *)
  te_extra_guarded : list (te_guard * string * te_src)   (* if guard { evt.Metadata.Extra[k] = v } *)
}.

`

func teGen(repo, out string) error {
	path := filepath.Join(repo, "processors/auditd/sessiontracker/sessiontracker.go")
	src, err := os.ReadFile(path)
	if err != nil {
		return err
	}
	fset := token.NewFileSet()
	f, err := parser.ParseFile(fset, path, src, 0)
	if err != nil {
		return err
	}
	c := &teCtx{repo: repo, fset: fset, file: f, src: src, env: map[string]interface{}{}, extConsts: map[string]map[string]string{}}
	if b, err := os.ReadFile(filepath.Join(repo, "go.mod")); err == nil {
		for _, ln := range strings.Split(string(b), "\n") {
			if fl := strings.Fields(ln); len(fl) == 2 && fl[0] == "module" {
				c.modPath = fl[1]
			}
		}
	}
	var ev *teEvent
	var problem error = teUnsupported("method (*user).toAuditEvent not found")
	n := 0
	for _, d := range f.Decls {
		fd, ok := d.(*ast.FuncDecl)
		if !ok || fd.Name.Name != "toAuditEvent" || fd.Recv == nil || len(fd.Recv.List) != 1 {
			continue
		}
		n++
		rc := fd.Recv.List[0]
		ps := fd.Type.Params.List
		if teTypeString(rc.Type) != "*user" || len(rc.Names) != 1 || len(ps) != 1 || len(ps[0].Names) != 1 ||
			teTypeString(ps[0].Type) != "*aucoalesce.Event" || fd.Type.Results == nil || len(fd.Type.Results.List) != 1 ||
			teTypeString(fd.Type.Results.List[0].Type) != "*auditevent.AuditEvent" {
			problem = teUnsupported("signature is not func (o *user) toAuditEvent(ae *aucoalesce.Event) *auditevent.AuditEvent")
			continue
		}
		c.recv, c.param = rc.Names[0].Name, ps[0].Names[0].Name
		ev, problem = c.body(fd.Body.List)
	}
	if n > 1 {
		ev, problem = nil, teUnsupported("more than one toAuditEvent method")
	}

	var sb strings.Builder
	sb.WriteString(teHeader)
	if ev == nil {
		fmt.Fprintf(&sb, "(* UNSUPPORTED: %s *)\nDefinition generated_sketch : te_sketch := UNSUPPORTED_te_sketch.\n", teComment(problem.Error()))
		return os.WriteFile(filepath.Join(out, "ToEventSketch.v"), []byte(sb.String()), 0o644)
	}
	for _, note := range c.outcomeNotes {
		fmt.Fprintf(&sb, "(* %s *)\n", teComment(note))
	}
	scrut := "UNSUPPORTED_te_outcome_not_decided_by_a_switch"
	if ev.outcome.scrut != (tePath{}) {
		scrut = ev.outcome.scrut.coq()
	}
	var cases, extra, cond []string
	for _, cs := range ev.outcome.cases {
		cases = append(cases, fmt.Sprintf("(%s, %s)", teStr(cs.lit), teStr(cs.out)))
	}
	for _, kv := range ev.extra {
		extra = append(extra, fmt.Sprintf("(%s, %s)", teStr(kv.k), kv.src))
	}
	for _, cd := range ev.cond {
		cond = append(cond, fmt.Sprintf("(%s, %s, %s)", cd.guard, teStr(cd.k), cd.src))
	}
	sb.WriteString("Definition generated_sketch : te_sketch := {|\n")
	fmt.Fprintf(&sb, "  te_type := %s;\n  te_component := %s;\n", teStr(ev.typ), teStr(ev.component))
	fmt.Fprintf(&sb, "  te_outcome_scrutinee := %s;\n  te_outcome_cases := [%s];\n  te_outcome_default := %s;\n", scrut, strings.Join(cases, "; "), teStr(ev.outcome.dflt))
	fmt.Fprintf(&sb, "  te_subjects := %s;\n  te_subjects_copied := %s;\n", ev.subjects.src, teBool(ev.subjects.copied))
	fmt.Fprintf(&sb, "  te_source := %s;\n  te_source_copied := %s;\n", ev.source.src, teBool(ev.source.copied))
	fmt.Fprintf(&sb, "  te_target := %s;\n  te_target_copied := %s;\n", ev.target.src, teBool(ev.target.copied))
	fmt.Fprintf(&sb, "  te_logged_at := %s;\n  te_audit_id := %s;\n", ev.loggedAt, ev.auditID)
	fmt.Fprintf(&sb, "  te_extra := [%s];\n  te_extra_guarded := [%s]\n|}.\n", strings.Join(extra, "; "), strings.Join(cond, "; "))
	return os.WriteFile(filepath.Join(out, "ToEventSketch.v"), []byte(sb.String()), 0o644)
}
