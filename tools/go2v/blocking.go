package main

// Generator of coq/Gen/Blocking.v: the table of blocking operations of the pipeline
// workers, of the helper goroutines they start, and of the errgroup wiring of the daemon,
// extracted from the AST of the current source (C13, C08).
//
// Fail-closed conventions:
//   - a blocking operation that is not recognised as cancel-guarded gets guarded := false
//     (the obligation C13_rows_guarded then fails);
//   - a shape that is not understood at all is rendered as an UNSUPPORTED_... identifier,
//     which does not type-check.

import (
	"fmt"
	"go/ast"
	"go/parser"
	"go/token"
	"os"
	"path/filepath"
	"sort"
	"strings"
)

func init() { generators = append(generators, genBlocking) }

type blkRow struct {
	worker, thread, fn, kind, obj string
	arms                          []string // Coq terms of type arm
	guarded                       bool
	line                          int
	why                           string
}

type blkHelper struct {
	worker, parent, name string
	delivers, joined     bool
	line                 int
	why                  string
}

type blkFile struct {
	fset      *token.FileSet
	src       []byte
	file      *ast.File
	path      string
	chanField map[string]bool // struct fields of channel type declared in this file
}

func blkParse(path string) (*blkFile, error) {
	src, err := os.ReadFile(path)
	if err != nil {
		return nil, err
	}
	fset := token.NewFileSet()
	f, err := parser.ParseFile(fset, path, src, 0)
	if err != nil {
		return nil, err
	}
	bf := &blkFile{fset: fset, src: src, file: f, path: path, chanField: map[string]bool{}}
	ast.Inspect(f, func(n ast.Node) bool {
		st, ok := n.(*ast.StructType)
		if !ok {
			return true
		}
		for _, fl := range st.Fields.List {
			if _, ok := fl.Type.(*ast.ChanType); ok {
				for _, nm := range fl.Names {
					bf.chanField[nm.Name] = true
				}
			}
		}
		return true
	})
	return bf, nil
}

func (bf *blkFile) str(n ast.Node) string {
	return strings.Join(strings.Fields(string(bf.src[bf.fset.Position(n.Pos()).Offset:bf.fset.Position(n.End()).Offset])), " ")
}

func (bf *blkFile) line(n ast.Node) int { return bf.fset.Position(n.Pos()).Line }

// funcLabel is "Recv.Name" for methods, "Name" for functions.
func blkFuncLabel(fd *ast.FuncDecl) string {
	if fd.Recv != nil && len(fd.Recv.List) == 1 {
		t := fd.Recv.List[0].Type
		if s, ok := t.(*ast.StarExpr); ok {
			t = s.X
		}
		if id, ok := t.(*ast.Ident); ok {
			return id.Name + "." + fd.Name.Name
		}
	}
	return fd.Name.Name
}

func (bf *blkFile) findFunc(label string) *ast.FuncDecl {
	for _, d := range bf.file.Decls {
		if fd, ok := d.(*ast.FuncDecl); ok && fd.Body != nil && blkFuncLabel(fd) == label {
			return fd
		}
	}
	return nil
}

// ---------------------------------------------------------------------------------------
// per-function scanner

type blkScan struct {
	bf       *blkFile
	worker   string
	fnLabel  string
	ctxNames map[string]bool   // identifiers that denote the worker's context (or one derived from it)
	ctxField bool              // accept <x>.ctx.Done() (sshd: config.ctx is the per-call context)
	chans    map[string]int    // local channels: name -> capacity (0 = unbuffered)
	chanName map[string]bool   // names of channel type (params, locals, struct fields)
	cancels  map[string]string // cancel function name -> derived context name
	sends    map[string]int    // number of send statements per channel name in the function
	rows     *[]blkRow
	helpers  *[]blkHelper
	visited  map[string]bool
	nGo      int
	// idioms recognised in the function body
	closeOnCancel map[string]bool   // file identifiers closed by `go func(){ <-ctx.Done(); f.Close() }()`
	readerOf      map[string]string // bufio reader ident -> file ident
	selectDoneAnd map[string]bool   // channels c such that the function has `select { case <-ctx.Done(): ...; case <-c: }`
	joinChan      map[string]bool   // channels received in a recognised `defer func(){ cancel(); <-c }()`
	deferClose    map[string]bool   // identifiers X with a top-level `defer X.Close()`
	// loopCtx[i]: does the i-th enclosing for statement of the statement being visited look at the context itself
	// (a <ctx>.Err() / <ctx>.Done() in its condition, post statement or body, nested loops and literals not counted)
	loopCtx []bool
}

// loopLooksAtCtx: the loop's own statements (not those of nested loops or function literals) contain <ctx>.Err() or
// <ctx>.Done().  A loop that does not can only end through its own condition: when all it does is take what a
// channel holds without blocking, it spins for as long as the producer keeps the channel non-empty.
func (s *blkScan) loopLooksAtCtx(parts ...ast.Node) bool {
	found := false
	for _, p := range parts {
		if p == nil {
			continue
		}
		root := p
		ast.Inspect(p, func(m ast.Node) bool {
			if found || m == nil {
				return false
			}
			switch v := m.(type) {
			case *ast.ForStmt, *ast.RangeStmt:
				if m != root {
					return false
				}
			case *ast.FuncLit:
				return false
			case *ast.CallExpr:
				if sel, ok := v.Fun.(*ast.SelectorExpr); ok && (sel.Sel.Name == "Err" || sel.Sel.Name == "Done") && len(v.Args) == 0 && s.isCtxExpr(sel.X) {
					found = true
					return false
				}
			}
			return true
		})
	}
	return found
}

func blkBaseName(e ast.Expr) string {
	switch v := e.(type) {
	case *ast.Ident:
		return v.Name
	case *ast.SelectorExpr:
		return v.Sel.Name
	case *ast.ParenExpr:
		return blkBaseName(v.X)
	}
	return ""
}

func (s *blkScan) isCtxExpr(e ast.Expr) bool {
	switch v := e.(type) {
	case *ast.Ident:
		return s.ctxNames[v.Name]
	case *ast.SelectorExpr:
		return s.ctxField && v.Sel.Name == "ctx"
	}
	return false
}

// isDoneCall: <ctx>.Done()
func (s *blkScan) isDoneCall(e ast.Expr) bool {
	c, ok := e.(*ast.CallExpr)
	if !ok || len(c.Args) != 0 {
		return false
	}
	sel, ok := c.Fun.(*ast.SelectorExpr)
	return ok && sel.Sel.Name == "Done" && s.isCtxExpr(sel.X)
}

func blkRecvOf(e ast.Expr) (ast.Expr, bool) {
	if p, ok := e.(*ast.ParenExpr); ok {
		return blkRecvOf(p.X)
	}
	u, ok := e.(*ast.UnaryExpr)
	if ok && u.Op == token.ARROW {
		return u.X, true
	}
	return nil, false
}

func isContextType(e ast.Expr) bool {
	sel, ok := e.(*ast.SelectorExpr)
	if !ok {
		return false
	}
	x, ok := sel.X.(*ast.Ident)
	return ok && x.Name == "context" && sel.Sel.Name == "Context"
}

// prepare collects context names, local channels and the idioms of one function.
func (s *blkScan) prepare(ft *ast.FuncType, body *ast.BlockStmt) {
	if ft.Params != nil {
		for _, p := range ft.Params.List {
			for _, nm := range p.Names {
				if isContextType(p.Type) {
					s.ctxNames[nm.Name] = true
				}
				if _, ok := p.Type.(*ast.ChanType); ok {
					s.chanName[nm.Name] = true
				}
			}
		}
	}
	for k := range s.bf.chanField {
		s.chanName[k] = true
	}
	ast.Inspect(body, func(n ast.Node) bool {
		switch v := n.(type) {
		case *ast.AssignStmt:
			if len(v.Rhs) == 1 {
				if c, ok := v.Rhs[0].(*ast.CallExpr); ok {
					fs := s.bf.str(c.Fun)
					// x := make(chan T[, n])
					if fs == "make" && len(c.Args) >= 1 && len(v.Lhs) == 1 {
						if _, ok := c.Args[0].(*ast.ChanType); ok {
							if id, ok := v.Lhs[0].(*ast.Ident); ok {
								capn := 0
								if len(c.Args) == 2 {
									if n, ok := evalConst(c.Args[1]); ok {
										capn = int(n)
									} else {
										capn = -1
									}
								}
								s.chans[id.Name] = capn
								s.chanName[id.Name] = true
							}
						}
					}
					// d, cancel := context.WithCancel(<ctx>)
					if (fs == "context.WithCancel" || fs == "context.WithTimeout" || fs == "context.WithDeadline") &&
						len(v.Lhs) == 2 && len(c.Args) >= 1 && s.isCtxExpr(c.Args[0]) {
						if d, ok := v.Lhs[0].(*ast.Ident); ok {
							s.ctxNames[d.Name] = true
							if cf, ok := v.Lhs[1].(*ast.Ident); ok {
								s.cancels[cf.Name] = d.Name
							}
						}
					}
					// r := bufio.NewReader(file)
					if fs == "bufio.NewReader" && len(c.Args) == 1 && len(v.Lhs) == 1 {
						if id, ok := v.Lhs[0].(*ast.Ident); ok {
							if a, ok := c.Args[0].(*ast.Ident); ok {
								s.readerOf[id.Name] = a.Name
							}
						}
					}
				}
			}
		case *ast.SendStmt:
			s.sends[blkBaseName(v.Chan)]++
		}
		return true
	})
	// idioms that need the context names: second pass
	ast.Inspect(body, func(n ast.Node) bool {
		switch v := n.(type) {
		case *ast.GoStmt:
			// go func(){ <-ctx.Done(); f.Close() }()
			if fl, ok := v.Call.Fun.(*ast.FuncLit); ok && len(fl.Body.List) == 2 {
				if es, ok := fl.Body.List[0].(*ast.ExprStmt); ok {
					if x, ok := blkRecvOf(es.X); ok && s.isDoneCall(x) {
						if cs, ok := fl.Body.List[1].(*ast.ExprStmt); ok {
							if c, ok := cs.X.(*ast.CallExpr); ok && len(c.Args) == 0 {
								if sel, ok := c.Fun.(*ast.SelectorExpr); ok && sel.Sel.Name == "Close" {
									if id, ok := sel.X.(*ast.Ident); ok {
										s.closeOnCancel[id.Name] = true
									}
								}
							}
						}
					}
				}
			}
		case *ast.SelectStmt:
			hasDone := false
			var others []string
			for _, cl := range v.Body.List {
				cc := cl.(*ast.CommClause)
				if es, ok := cc.Comm.(*ast.ExprStmt); ok {
					if x, ok := blkRecvOf(es.X); ok {
						if s.isDoneCall(x) {
							hasDone = true
						} else if id, ok := x.(*ast.Ident); ok {
							others = append(others, id.Name)
						}
					}
				}
			}
			if hasDone {
				for _, o := range others {
					s.selectDoneAnd[o] = true
				}
			}
		}
		return true
	})
	// top-level defers of the function body
	for _, st := range body.List {
		d, ok := st.(*ast.DeferStmt)
		if !ok {
			continue
		}
		if sel, ok := d.Call.Fun.(*ast.SelectorExpr); ok && sel.Sel.Name == "Close" && len(d.Call.Args) == 0 {
			if id, ok := sel.X.(*ast.Ident); ok {
				s.deferClose[id.Name] = true
			}
		}
		// defer func(){ cancel(); <-c }()   (cancel of a context derived from the worker's context)
		if fl, ok := d.Call.Fun.(*ast.FuncLit); ok && len(fl.Body.List) == 2 {
			c1, ok1 := fl.Body.List[0].(*ast.ExprStmt)
			c2, ok2 := fl.Body.List[1].(*ast.ExprStmt)
			if ok1 && ok2 {
				if call, ok := c1.X.(*ast.CallExpr); ok && len(call.Args) == 0 {
					if id, ok := call.Fun.(*ast.Ident); ok && s.cancels[id.Name] != "" {
						if x, ok := blkRecvOf(c2.X); ok {
							if ch, ok := x.(*ast.Ident); ok {
								if _, isLocal := s.chans[ch.Name]; isLocal {
									s.joinChan[ch.Name] = true
								}
							}
						}
					}
				}
			}
		}
	}
}

func blkQ(sv string) string { return "\"" + strings.ReplaceAll(sv, "\"", "'") + "\"" }

func (s *blkScan) add(r blkRow) {
	r.worker = s.worker
	if r.fn == "" {
		r.fn = s.fnLabel
	}
	*s.rows = append(*s.rows, r)
}

var blkBlockingCalls = map[string]bool{
	"ReadString": true, "ReadBytes": true, "ReadLine": true, "ReadRune": true, "ReadByte": true, "Scan": true,
	"OpenFile": true, "Open": true, "Accept": true, "Wait": true, "Sleep": true, "ListenAndServe": true,
}

// walk visits the statements of one thread. inLoop: inside a for statement of this thread.
func (s *blkScan) walk(n ast.Node, thread string, inLoop bool, pkgFuncs func(string) (*blkFile, *ast.FuncDecl)) {
	if n == nil {
		return
	}
	var visit func(n ast.Node, inLoop bool) bool
	inspect := func(n ast.Node, inLoop bool) {
		ast.Inspect(n, func(m ast.Node) bool { return visit(m, inLoop) })
	}
	visit = func(m ast.Node, inLoop bool) bool {
		switch v := m.(type) {
		case nil:
			return false
		case *ast.ForStmt:
			if v.Init != nil {
				inspect(v.Init, inLoop)
			}
			if v.Cond != nil {
				inspect(v.Cond, true)
			}
			if v.Post != nil {
				inspect(v.Post, true)
			}
			s.loopCtx = append(s.loopCtx, s.loopLooksAtCtx(v.Cond, v.Post, v.Body))
			inspect(v.Body, true)
			s.loopCtx = s.loopCtx[:len(s.loopCtx)-1]
			return false
		case *ast.RangeStmt:
			if s.chanName[blkBaseName(v.X)] {
				s.add(blkRow{thread: thread, kind: "KRange", obj: s.bf.str(v.X), guarded: false, line: s.bf.line(v),
					why: "range over a channel has no cancellation arm"})
			} else {
				inspect(v.X, inLoop)
			}
			s.loopCtx = append(s.loopCtx, s.loopLooksAtCtx(v.Body))
			inspect(v.Body, true)
			s.loopCtx = s.loopCtx[:len(s.loopCtx)-1]
			return false
		case *ast.SelectStmt:
			var arms []string
			hasDone, hasDefault, bad := false, false, ""
			for _, cl := range v.Body.List {
				cc := cl.(*ast.CommClause)
				switch c := cc.Comm.(type) {
				case nil:
					hasDefault = true
					arms = append(arms, "ADefault")
				case *ast.SendStmt:
					arms = append(arms, "ASend "+blkQ(s.bf.str(c.Chan)))
				case *ast.ExprStmt:
					if x, ok := blkRecvOf(c.X); ok {
						if s.isDoneCall(x) {
							hasDone = true
							arms = append(arms, "ADone")
						} else {
							arms = append(arms, "ARecv "+blkQ(s.bf.str(x)))
						}
					} else {
						bad = s.bf.str(c)
					}
				case *ast.AssignStmt:
					if len(c.Rhs) == 1 {
						if x, ok := blkRecvOf(c.Rhs[0]); ok {
							if s.isDoneCall(x) {
								hasDone = true
								arms = append(arms, "ADone")
							} else {
								arms = append(arms, "ARecv "+blkQ(s.bf.str(x)))
							}
							break
						}
					}
					bad = s.bf.str(c)
				default:
					bad = s.bf.str(cc)
				}
				for _, b := range cc.Body {
					inspect(b, inLoop)
				}
			}
			kind := "KSelect"
			if bad != "" {
				kind = fmt.Sprintf("UNSUPPORTED_select_case_line_%d", s.bf.line(v))
			}
			guarded, why := hasDone || hasDefault, "guarded iff the select has a <-ctx.Done() arm (or a default arm)"
			if hasDefault && !hasDone && len(arms) > 1 && len(s.loopCtx) > 0 && !s.loopCtx[len(s.loopCtx)-1] {
				// a non-blocking receive / send repeated by a loop that never looks at the context: the loop ends only
				// when the channel is momentarily empty (full), which a busy producer (consumer) can prevent for ever
				guarded, why = false, "non-blocking select inside a loop that does not check the context: spins for as long as the channel stays non-empty"
			}
			s.add(blkRow{thread: thread, kind: kind, obj: "select", arms: arms, guarded: guarded, line: s.bf.line(v), why: why})
			return false
		case *ast.SendStmt:
			name := blkBaseName(v.Chan)
			capn, local := s.chans[name]
			g := local && capn >= 1 && !inLoop && s.sends[name] == 1
			why := "bare send: blocks while the buffer is full, whatever the context"
			obj := s.bf.str(v.Chan)
			if g {
				why = fmt.Sprintf("single send on the local channel of capacity %d: never blocks", capn)
				obj += fmt.Sprintf(" (local, cap %d, single send)", capn)
			}
			s.add(blkRow{thread: thread, kind: "KSend", obj: obj, guarded: g, line: s.bf.line(v), why: why})
			inspect(v.Value, inLoop)
			return false
		case *ast.UnaryExpr:
			if v.Op == token.ARROW {
				if s.isDoneCall(v.X) {
					s.add(blkRow{thread: thread, kind: "KRecv", obj: s.bf.str(v.X), guarded: true, line: s.bf.line(v),
						why: "waits for the cancellation itself"})
				} else if id, ok := v.X.(*ast.Ident); ok && s.joinChan[id.Name] {
					s.add(blkRow{thread: thread, kind: "KJoin", obj: id.Name, guarded: true, line: s.bf.line(v),
						why: "join idiom: deferred cancel of the derived context, then wait for the helper"})
				} else {
					s.add(blkRow{thread: thread, kind: "KRecv", obj: s.bf.str(v.X), guarded: false, line: s.bf.line(v),
						why: "bare receive: no cancellation arm"})
				}
				return false
			}
			return true
		case *ast.GoStmt:
			s.goStmt(v, thread, pkgFuncs)
			return false
		case *ast.DeferStmt:
			if fl, ok := v.Call.Fun.(*ast.FuncLit); ok {
				inspect(fl.Body, false)
				return false
			}
			return true
		case *ast.FuncLit:
			// a function value that is not started with go / defer: unknown control flow
			s.add(blkRow{thread: thread, kind: fmt.Sprintf("UNSUPPORTED_function_literal_line_%d", s.bf.line(v)), obj: "func literal", line: s.bf.line(v)})
			return false
		case *ast.CallExpr:
			name := ""
			switch f := v.Fun.(type) {
			case *ast.SelectorExpr:
				name = f.Sel.Name
			case *ast.Ident:
				name = f.Name
				// same-package function: its blocking points belong to the calling thread
				if pkgFuncs != nil {
					if bf2, fd := pkgFuncs(f.Name); fd != nil && !s.visited[f.Name] {
						s.visited[f.Name] = true
						sub := newBlkScan(bf2, s.worker, blkFuncLabel(fd), s.rows, s.helpers)
						sub.visited = s.visited
						sub.ctxField = s.ctxField
						sub.prepare(fd.Type, fd.Body)
						sub.walk(fd.Body, thread, false, pkgFuncs)
					}
				}
			}
			if blkBlockingCalls[name] {
				s.blockingCall(v, name, thread)
			}
			return true
		}
		return true
	}
	inspect(n, inLoop)
}

func (s *blkScan) blockingCall(c *ast.CallExpr, name, thread string) {
	fs := s.bf.str(c.Fun)
	switch {
	case name == "ReadString" || name == "ReadBytes" || name == "ReadLine":
		g := false
		why := "read on the pipe without the close-on-cancel idiom"
		if sel, ok := c.Fun.(*ast.SelectorExpr); ok {
			if r, ok := sel.X.(*ast.Ident); ok {
				if f := s.readerOf[r.Name]; f != "" && s.closeOnCancel[f] {
					g = true
					why = "close-on-cancel idiom: go func(){ <-ctx.Done(); " + f + ".Close() }() unblocks the read"
				}
			}
		}
		s.add(blkRow{thread: thread, kind: "KRead", obj: fs, guarded: g, line: s.bf.line(c), why: why})
	case fs == "os.OpenFile" || fs == "os.Open":
		// handled by goStmt when it is the open idiom; a direct call blocks the worker itself
		s.add(blkRow{thread: thread, kind: "KOpen", obj: fs, guarded: false, line: s.bf.line(c),
			why: "open(2) of a FIFO called directly by the worker: blocks until a writer appears"})
	default:
		s.add(blkRow{thread: thread, kind: fmt.Sprintf("UNSUPPORTED_blocking_call_%s_line_%d", name, s.bf.line(c)), obj: fs, line: s.bf.line(c)})
	}
}

// goStmt handles `go f(args)` and `go func(){...}()` inside a worker.
func (s *blkScan) goStmt(g *ast.GoStmt, parentThread string, pkgFuncs func(string) (*blkFile, *ast.FuncDecl)) {
	s.nGo++
	line := s.bf.line(g)
	contains := func(n ast.Node, pred func(ast.Node) bool) bool {
		found := false
		ast.Inspect(n, func(m ast.Node) bool {
			if m != nil && pred(m) {
				found = true
			}
			return !found
		})
		return found
	}
	isCallTo := func(sel string) func(ast.Node) bool {
		return func(m ast.Node) bool {
			c, ok := m.(*ast.CallExpr)
			if !ok {
				return false
			}
			se, ok := c.Fun.(*ast.SelectorExpr)
			return ok && se.Sel.Name == sel
		}
	}
	sendsToNonLocal := func(m ast.Node) bool {
		sd, ok := m.(*ast.SendStmt)
		if !ok {
			return false
		}
		_, local := s.chans[blkBaseName(sd.Chan)]
		return !local
	}
	// deliversVia: the function (or a same-package function it calls, transitively) hands something downstream
	var deliversVia func(bf2 *blkFile, fd *ast.FuncDecl, seen map[string]bool) bool
	deliversVia = func(bf2 *blkFile, fd *ast.FuncDecl, seen map[string]bool) bool {
		if fd == nil || fd.Body == nil || seen[fd.Name.Name] {
			return false
		}
		seen[fd.Name.Name] = true
		sub := newBlkScan(bf2, s.worker, blkFuncLabel(fd), s.rows, s.helpers)
		sub.prepare(fd.Type, fd.Body)
		if contains(fd.Body, isCallTo("PushMessage")) || contains(fd.Body, func(m ast.Node) bool {
			sd, ok := m.(*ast.SendStmt)
			if !ok {
				return false
			}
			_, local := sub.chans[blkBaseName(sd.Chan)]
			return !local
		}) {
			return true
		}
		res := false
		ast.Inspect(fd.Body, func(m ast.Node) bool {
			if c, ok := m.(*ast.CallExpr); ok && pkgFuncs != nil && !res {
				if id, ok := c.Fun.(*ast.Ident); ok {
					if bf3, fd3 := pkgFuncs(id.Name); fd3 != nil && deliversVia(bf3, fd3, seen) {
						res = true
					}
				}
			}
			return !res
		})
		return res
	}
	switch f := g.Call.Fun.(type) {
	case *ast.FuncLit:
		// (1) open idiom: go func(){ x, err = os.OpenFile(...); close(ready) }()  +  select { <-ctx.Done(), <-ready }
		var openCall *ast.CallExpr
		closed := ""
		for _, st := range f.Body.List {
			switch v := st.(type) {
			case *ast.AssignStmt:
				if len(v.Rhs) == 1 {
					if c, ok := v.Rhs[0].(*ast.CallExpr); ok && (s.bf.str(c.Fun) == "os.OpenFile" || s.bf.str(c.Fun) == "os.Open") {
						openCall = c
					}
				}
			case *ast.ExprStmt:
				if c, ok := v.X.(*ast.CallExpr); ok && s.bf.str(c.Fun) == "close" && len(c.Args) == 1 {
					closed = blkBaseName(c.Args[0])
				}
			}
		}
		if openCall != nil && len(f.Body.List) == 2 && closed != "" {
			ok := s.selectDoneAnd[closed]
			why := "open performed in a goroutine; the worker selects on ctx.Done() and <-" + closed
			if !ok {
				why = "open performed in a goroutine but the worker does not select on ctx.Done() while waiting for it"
			}
			s.add(blkRow{thread: parentThread, kind: "KOpen", obj: s.bf.str(openCall.Fun) + " (in goroutine, signals " + closed + ")", guarded: ok, line: s.bf.line(openCall), why: why})
			*s.helpers = append(*s.helpers, blkHelper{worker: s.worker, parent: s.fnLabel, name: "opener", delivers: false, joined: false, line: line,
				why: "only opens the FIFO and closes a local channel; leaks until a writer appears (runtime fact)"})
			return
		}
		// (2) general literal: name it after the same-package function it calls, if any
		name := fmt.Sprintf("go%d", s.nGo)
		var callee *ast.FuncDecl
		var calleeFile *blkFile
		ast.Inspect(f.Body, func(m ast.Node) bool {
			if c, ok := m.(*ast.CallExpr); ok {
				if id, ok := c.Fun.(*ast.Ident); ok && pkgFuncs != nil {
					if bf2, fd := pkgFuncs(id.Name); fd != nil && callee == nil {
						callee, calleeFile = fd, bf2
						name = id.Name
					}
				}
			}
			return true
		})
		if len(f.Body.List) == 2 && callee == nil {
			if es, ok := f.Body.List[0].(*ast.ExprStmt); ok {
				if x, ok := blkRecvOf(es.X); ok && s.isDoneCall(x) {
					name = "closer"
				}
			}
		}
		delivers := contains(f.Body, isCallTo("PushMessage")) || contains(f.Body, sendsToNonLocal)
		if callee != nil {
			sub := newBlkScan(calleeFile, s.worker, blkFuncLabel(callee), s.rows, s.helpers)
			sub.prepare(callee.Type, callee.Body)
			delivers = delivers || contains(callee.Body, isCallTo("PushMessage")) || contains(callee.Body, func(m ast.Node) bool {
				sd, ok := m.(*ast.SendStmt)
				if !ok {
					return false
				}
				_, local := sub.chans[blkBaseName(sd.Chan)]
				return !local
			}) || deliversVia(calleeFile, callee, map[string]bool{})
		}
		// join idiom: the literal starts with `defer close(c)` and the parent has `defer func(){ cancel(); <-c }()`
		// registered at the top level of its body BEFORE this go statement; the helper runs under the derived context.
		joined := false
		jwhy := "the parent does not wait for this goroutine"
		if len(f.Body.List) >= 1 {
			if d, ok := f.Body.List[0].(*ast.DeferStmt); ok && s.bf.str(d.Call.Fun) == "close" && len(d.Call.Args) == 1 {
				c := blkBaseName(d.Call.Args[0])
				if s.joinChan[c] && s.deferBefore(c, g) && s.usesDerivedCtx(f.Body) {
					joined = true
					jwhy = "joined: parent defers cancel of the derived context and <-" + c + ", closed by the helper on exit"
				}
			}
		}
		*s.helpers = append(*s.helpers, blkHelper{worker: s.worker, parent: s.fnLabel, name: name, delivers: delivers, joined: joined, line: line, why: jwhy})
		s.walk(f.Body, name, false, pkgFuncs)
	case *ast.Ident:
		bf2, fd := (*blkFile)(nil), (*ast.FuncDecl)(nil)
		if pkgFuncs != nil {
			bf2, fd = pkgFuncs(f.Name)
		}
		if fd == nil {
			*s.helpers = append(*s.helpers, blkHelper{worker: s.worker, parent: s.fnLabel, name: fmt.Sprintf("UNSUPPORTED_go_target_line_%d", line), line: line})
			return
		}
		delivers := contains(fd.Body, isCallTo("PushMessage")) || contains(fd.Body, func(m ast.Node) bool {
			_, ok := m.(*ast.SendStmt)
			return ok
		}) || deliversVia(bf2, fd, map[string]bool{})
		why := "delivers nothing downstream"
		if contains(fd.Body, isCallTo("Maintain")) {
			// Reassembler.Maintain flushes timed-out events through the callback, but refuses to once the
			// reassembler is closed; the parent closes it (defer X.Close()) before returning.
			okc := false
			for _, a := range g.Call.Args {
				if id, ok := a.(*ast.Ident); ok && s.deferClose[id.Name] {
					okc = true
				}
			}
			if okc {
				why = "Maintain() is refused once the reassembler is closed, and the parent defers its Close(): nothing is delivered after the parent returned"
			} else {
				delivers = true
				why = "calls Maintain() on a reassembler the parent does not close before returning"
			}
		}
		*s.helpers = append(*s.helpers, blkHelper{worker: s.worker, parent: s.fnLabel, name: f.Name, delivers: delivers, joined: false, line: line, why: why})
		sub := newBlkScan(bf2, s.worker, blkFuncLabel(fd), s.rows, s.helpers)
		sub.visited = s.visited
		sub.prepare(fd.Type, fd.Body)
		sub.walk(fd.Body, f.Name, false, pkgFuncs)
	default:
		*s.helpers = append(*s.helpers, blkHelper{worker: s.worker, parent: s.fnLabel, name: fmt.Sprintf("UNSUPPORTED_go_target_line_%d", line), line: line})
	}
}

// deferBefore: the join defer for channel c is a top-level statement of the function that precedes g.
func (s *blkScan) deferBefore(c string, g *ast.GoStmt) bool {
	fd := s.bf.findFunc(s.fnLabel)
	if fd == nil {
		return false
	}
	for _, st := range fd.Body.List {
		if st.Pos() >= g.Pos() {
			return false
		}
		if d, ok := st.(*ast.DeferStmt); ok {
			if fl, ok := d.Call.Fun.(*ast.FuncLit); ok && len(fl.Body.List) == 2 {
				if es, ok := fl.Body.List[1].(*ast.ExprStmt); ok {
					if x, ok := blkRecvOf(es.X); ok && blkBaseName(x) == c {
						return true
					}
				}
			}
		}
	}
	return false
}

// usesDerivedCtx: some call in the helper passes a context produced by context.WithCancel in the parent.
func (s *blkScan) usesDerivedCtx(body ast.Node) bool {
	derived := map[string]bool{}
	for _, d := range s.cancels {
		derived[d] = true
	}
	found := false
	ast.Inspect(body, func(m ast.Node) bool {
		if c, ok := m.(*ast.CallExpr); ok {
			for _, a := range c.Args {
				if id, ok := a.(*ast.Ident); ok && derived[id.Name] {
					found = true
				}
			}
		}
		return true
	})
	return found
}

func newBlkScan(bf *blkFile, worker, fnLabel string, rows *[]blkRow, helpers *[]blkHelper) *blkScan {
	return &blkScan{bf: bf, worker: worker, fnLabel: fnLabel, ctxNames: map[string]bool{}, chans: map[string]int{}, chanName: map[string]bool{},
		cancels: map[string]string{}, sends: map[string]int{}, rows: rows, helpers: helpers, visited: map[string]bool{},
		closeOnCancel: map[string]bool{}, readerOf: map[string]string{}, selectDoneAnd: map[string]bool{}, joinChan: map[string]bool{}, deferClose: map[string]bool{}}
}

// scanMethod scans one function/method of one file as part of a worker's main thread.
func blkScanFunc(bf *blkFile, worker, label string, ctxField bool, rows *[]blkRow, helpers *[]blkHelper, pkgFuncs func(string) (*blkFile, *ast.FuncDecl)) bool {
	fd := bf.findFunc(label)
	if fd == nil {
		*rows = append(*rows, blkRow{worker: worker, thread: "main", fn: label, kind: "UNSUPPORTED_function_not_found_" + strings.ReplaceAll(label, ".", "_"), obj: label})
		return false
	}
	s := newBlkScan(bf, worker, label, rows, helpers)
	s.ctxField = ctxField
	s.visited[fd.Name.Name] = true
	s.prepare(fd.Type, fd.Body)
	s.walk(fd.Body, "main", false, pkgFuncs)
	return true
}

// ---------------------------------------------------------------------------------------

func genBlocking(repo, out string) error {
	var rows []blkRow
	var helpers []blkHelper
	var notes []string

	np, err := blkParse(filepath.Join(repo, "ingesters/namedpipe/namedpipeingester.go"))
	if err != nil {
		return err
	}
	al, err := blkParse(filepath.Join(repo, "ingesters/auditlog/auditlogingester.go"))
	if err != nil {
		return err
	}
	sl, err := blkParse(filepath.Join(repo, "ingesters/syslog/syslogingester.go"))
	if err != nil {
		return err
	}
	ad, err := blkParse(filepath.Join(repo, "processors/auditd/auditd.go"))
	if err != nil {
		return err
	}
	samePkg := func(bf *blkFile) func(string) (*blkFile, *ast.FuncDecl) {
		return func(name string) (*blkFile, *ast.FuncDecl) {
			for _, d := range bf.file.Decls {
				if fd, ok := d.(*ast.FuncDecl); ok && fd.Recv == nil && fd.Body != nil && fd.Name.Name == name {
					return bf, fd
				}
			}
			return nil, nil
		}
	}

	// ---- worker sshd_ingester: Ingest + SyslogIngester.Process + every function of processors/sshd
	blkScanFunc(np, "sshd_ingester", "NamedPipeIngester.Ingest", false, &rows, &helpers, samePkg(np))
	blkScanFunc(sl, "sshd_ingester", "SyslogIngester.Process", false, &rows, &helpers, samePkg(sl))
	// config.ctx is the per-call context iff ProcessSshdLogEntry builds the config with `ctx: ctx` (its parameter)
	sshdDir := filepath.Join(repo, "processors/sshd")
	ents, err := os.ReadDir(sshdDir)
	if err != nil {
		return err
	}
	var sshdFiles []*blkFile
	for _, e := range ents {
		if e.IsDir() || !strings.HasSuffix(e.Name(), ".go") || strings.HasSuffix(e.Name(), "_test.go") {
			continue
		}
		bf, err := blkParse(filepath.Join(sshdDir, e.Name()))
		if err != nil {
			return err
		}
		sshdFiles = append(sshdFiles, bf)
	}
	cfgCtxOK := false
	for _, bf := range sshdFiles {
		if fd := bf.findFunc("SshdProcessorer.ProcessSshdLogEntry"); fd != nil {
			ctxParam := ""
			for _, p := range fd.Type.Params.List {
				if isContextType(p.Type) && len(p.Names) == 1 {
					ctxParam = p.Names[0].Name
				}
			}
			ast.Inspect(fd.Body, func(n ast.Node) bool {
				if kv, ok := n.(*ast.KeyValueExpr); ok {
					if k, ok := kv.Key.(*ast.Ident); ok && k.Name == "ctx" {
						if v, ok := kv.Value.(*ast.Ident); ok && ctxParam != "" && v.Name == ctxParam {
							cfgCtxOK = true
						}
					}
				}
				return true
			})
		}
	}
	if !cfgCtxOK {
		notes = append(notes, "ProcessSshdLogEntry does not pass its ctx parameter as config.ctx: <-config.ctx.Done() arms are NOT accepted as guards")
	}
	for _, bf := range sshdFiles {
		for _, d := range bf.file.Decls {
			fd, ok := d.(*ast.FuncDecl)
			if !ok || fd.Body == nil {
				continue
			}
			s := newBlkScan(bf, "sshd_ingester", blkFuncLabel(fd), &rows, &helpers)
			s.ctxField = cfgCtxOK
			s.prepare(fd.Type, fd.Body)
			// function values returned by userTypeLogAuditFn etc. are handlers too: scan literals as part of the thread
			s.walkAllowLits(fd.Body)
		}
	}

	// ---- worker audit_ingester: Ingest + AuditLogIngester.Process
	blkScanFunc(np, "audit_ingester", "NamedPipeIngester.Ingest", false, &rows, &helpers, samePkg(np))
	blkScanFunc(al, "audit_ingester", "AuditLogIngester.Process", false, &rows, &helpers, samePkg(al))

	// ---- worker audit_processor: Auditd.Read (+ helpers parseAuditLogs, maintainReassemblerLoop via its go statements)
	blkScanFunc(ad, "audit_processor", "Auditd.Read", false, &rows, &helpers, samePkg(ad))
	// the reassembler's callbacks run inside PushMessage (parser thread), Maintain (maintenance thread) and the
	// deferred Close (Read itself): their blocking points belong to the audit processor too
	cb, err := blkParse(filepath.Join(repo, "processors/auditd/reassembler_callback.go"))
	if err != nil {
		return err
	}
	for _, m := range []string{"reassemblerCB.ReassemblyComplete", "reassemblerCB.EventsLost"} {
		before := len(rows)
		blkScanFunc(cb, "audit_processor", m, false, &rows, &helpers, samePkg(cb))
		for i := before; i < len(rows); i++ {
			rows[i].thread = "reassembler callback"
		}
	}
	for _, must := range []string{"parseAuditLogs", "maintainReassemblerLoop"} {
		seen := false
		for _, h := range helpers {
			if h.worker == "audit_processor" && h.name == must {
				seen = true
			}
		}
		if !seen {
			helpers = append(helpers, blkHelper{worker: "audit_processor", parent: "Auditd.Read", name: "UNSUPPORTED_helper_not_started_by_Read_" + must})
		}
	}

	// ---- errgroup wiring
	wiring, werr := blkWiring(repo)
	if werr != nil {
		return werr
	}

	// ---- render
	var sb strings.Builder
	sb.WriteString("(* GENERATED by tools/go2v (blocking.go) from ingesters/{namedpipe,auditlog,syslog}, processors/{sshd,auditd/auditd.go,auditd/reassembler_callback.go},\n   cmd/namedpipe.go and main.go. Do not edit. *)\n")
	sb.WriteString("From Coq Require Import String List Bool.\nImport ListNotations.\nOpen Scope string_scope.\n\n")
	sb.WriteString("Inductive kind := KSend | KRecv | KSelect | KRange | KRead | KOpen | KJoin.\n")
	sb.WriteString("Inductive arm := ASend (ch : string) | ARecv (ch : string) | ADone | ADefault.\n")
	sb.WriteString("Record row := mkRow { r_worker : string; r_thread : string; r_func : string; r_kind : kind; r_obj : string;\n  r_arms : list arm; r_guarded : bool }.\n")
	sb.WriteString("Record helper := mkHelper { h_worker : string; h_parent : string; h_name : string; h_delivers : bool; h_joined : bool }.\n\n")
	for _, n := range notes {
		fmt.Fprintf(&sb, "(* NOTE: %s *)\n", n)
	}
	b := func(x bool) string {
		if x {
			return "true"
		}
		return "false"
	}
	sb.WriteString("Definition blocking_rows : list row := [\n")
	for i, r := range rows {
		sep := ";"
		if i == len(rows)-1 {
			sep = ""
		}
		fmt.Fprintf(&sb, "  (* line %d: %s *)\n  mkRow %s %s %s %s %s [%s] %s%s\n", r.line, r.why, blkQ(r.worker), blkQ(r.thread), blkQ(r.fn), r.kind, blkQ(r.obj),
			strings.Join(r.arms, "; "), b(r.guarded), sep)
	}
	sb.WriteString("].\n\nDefinition helper_rows : list helper := [\n")
	for i, h := range helpers {
		sep := ";"
		if i == len(helpers)-1 {
			sep = ""
		}
		nm := blkQ(h.name)
		if strings.HasPrefix(h.name, "UNSUPPORTED") {
			nm = h.name
		}
		fmt.Fprintf(&sb, "  (* line %d: %s *)\n  mkHelper %s %s %s %s %s%s\n", h.line, h.why, blkQ(h.worker), blkQ(h.parent), nm, b(h.delivers), b(h.joined), sep)
	}
	sb.WriteString("].\n\n")
	sb.WriteString(wiring)
	return os.WriteFile(filepath.Join(out, "Blocking.v"), []byte(sb.String()), 0o644)
}

// walkAllowLits: like walk for thread "main", but function literals (handlers returned as values) are scanned as
// part of the same thread instead of being refused.
func (s *blkScan) walkAllowLits(body *ast.BlockStmt) {
	// rewrite: scan the body; for literals not started by go/defer, scan their bodies too
	var lits []*ast.FuncLit
	ast.Inspect(body, func(n ast.Node) bool {
		switch v := n.(type) {
		case *ast.GoStmt:
			return false
		case *ast.FuncLit:
			lits = append(lits, v)
			return false
		case *ast.DeferStmt:
			_ = v
			return true
		}
		return true
	})
	// scan the body with literals masked: collect rows, then drop the UNSUPPORTED literal rows of masked literals
	start := len(*s.rows)
	s.walk(body, "main", false, nil)
	kept := (*s.rows)[:start]
	for _, r := range (*s.rows)[start:] {
		if strings.HasPrefix(r.kind, "UNSUPPORTED_function_literal") {
			continue
		}
		kept = append(kept, r)
	}
	*s.rows = kept
	for _, l := range lits {
		sub := newBlkScan(s.bf, s.worker, s.fnLabel+".func", s.rows, s.helpers)
		sub.ctxField = s.ctxField
		sub.prepare(l.Type, l.Body)
		sub.walkAllowLits(l.Body)
	}
}

// blkWiring extracts the errgroup wiring of cmd/namedpipe.go and the exit path of main.go.
func blkWiring(repo string) (string, error) {
	bf, err := blkParse(filepath.Join(repo, "cmd/namedpipe.go"))
	if err != nil {
		return "", err
	}
	mf, err := blkParse(filepath.Join(repo, "main.go"))
	if err != nil {
		return "", err
	}
	fd := bf.findFunc("RunNamedPipe")
	var sb strings.Builder
	if fd == nil {
		return "Definition group_workers : list string := UNSUPPORTED_RunNamedPipe_not_found.\n", nil
	}
	rootCtx := ""
	for _, p := range fd.Type.Params.List {
		if isContextType(p.Type) && len(p.Names) == 1 {
			rootCtx = p.Names[0].Name
		}
	}
	egName, gctx := "", ""
	derived := false
	var workers []string
	var optional []string
	fifoChecked := map[string]bool{}
	waitReturned := false
	for _, st := range fd.Body.List {
		switch v := st.(type) {
		case *ast.AssignStmt:
			if len(v.Rhs) == 1 && len(v.Lhs) == 2 {
				if c, ok := v.Rhs[0].(*ast.CallExpr); ok && bf.str(c.Fun) == "errgroup.WithContext" && len(c.Args) == 1 {
					egName, gctx = blkBaseName(v.Lhs[0]), blkBaseName(v.Lhs[1])
					derived = rootCtx != "" && blkBaseName(c.Args[0]) == rootCtx
				}
			}
		case *ast.ExprStmt:
			c, ok := v.X.(*ast.CallExpr)
			if !ok {
				continue
			}
			fs := bf.str(c.Fun)
			if egName != "" && fs == egName+".Go" && len(c.Args) == 1 {
				name := fmt.Sprintf("UNSUPPORTED_eg_Go_line_%d", bf.line(c))
				if fl, ok := c.Args[0].(*ast.FuncLit); ok {
					body := bf.str(fl.Body)
					retErr := strings.Contains(body, "return err")
					usesG := func(call string) bool { return strings.Contains(body, call+"("+gctx+")") }
					checked := strings.Contains(body, "common.IsNamedPipe(") && strings.Contains(body, "return fmt.Errorf(")
					switch {
					case strings.Contains(body, "syslog.NewSyslogIngester(") && usesG(".Ingest") && retErr &&
						strings.Contains(body, "sshd.NewSshdProcessor("+gctx+","):
						name = "sshd_ingester"
						fifoChecked[name] = checked
					case strings.Contains(body, "auditlog.NewAuditLogIngester(") && usesG(".Ingest") && retErr:
						name = "audit_ingester"
						fifoChecked[name] = checked
					case strings.Contains(body, "auditd.Auditd{") && usesG(".Read") && retErr:
						name = "audit_processor"
					}
				}
				if strings.HasPrefix(name, "UNSUPPORTED") {
					workers = append(workers, name)
				} else {
					workers = append(workers, blkQ(name))
				}
			}
			if egName != "" && len(c.Args) >= 1 && (fs == "handleMetricsAndHealth" || fs == "handleAuditLogMetrics") {
				uses := false
				for _, a := range c.Args {
					if blkBaseName(a) == egName {
						uses = true
					}
				}
				if uses && blkBaseName(c.Args[0]) == gctx {
					optional = append(optional, blkQ(fs))
				} else {
					optional = append(optional, fmt.Sprintf("UNSUPPORTED_optional_worker_line_%d", bf.line(c)))
				}
			}
		case *ast.IfStmt:
			// if err := eg.Wait(); err != nil { return err }
			if as, ok := v.Init.(*ast.AssignStmt); ok && len(as.Rhs) == 1 && egName != "" && bf.str(as.Rhs[0]) == egName+".Wait()" {
				for _, b := range v.Body.List {
					if r, ok := b.(*ast.ReturnStmt); ok && len(r.Results) == 1 && blkBaseName(r.Results[0]) == blkBaseName(as.Lhs[0]) {
						waitReturned = true
					}
				}
			}
		}
	}
	// main.go
	fatal, sigs, passes := false, false, false
	if m := mf.findFunc("main"); m != nil {
		body := mf.str(m.Body)
		fatal = strings.Contains(body, "err := mainWithError()") && strings.Contains(body, "if err != nil { log.Fatalln(")
	}
	if m := mf.findFunc("mainWithError"); m != nil {
		body := mf.str(m.Body)
		sigs = strings.Contains(body, "ctx, stop := signal.NotifyContext(context.Background(), os.Interrupt, syscall.SIGTERM)")
		passes = strings.Contains(body, "return cmd.RunNamedPipe(ctx,")
	}
	b := func(x bool) string {
		if x {
			return "true"
		}
		return "false"
	}
	sort.Strings(optional)
	sb.WriteString("(* cmd/namedpipe.go: functions started with eg.Go, each called with the group context and returning its error *)\n")
	fmt.Fprintf(&sb, "Definition group_workers : list string := [%s].\n", strings.Join(workers, "; "))
	sb.WriteString("(* started only when the metrics / healthz / audit-metrics flags are set (default off) *)\n")
	fmt.Fprintf(&sb, "Definition group_optional : list string := [%s].\n", strings.Join(optional, "; "))
	sb.WriteString("(* eg, groupCtx := errgroup.WithContext(ctx) with ctx the parameter of RunNamedPipe *)\n")
	fmt.Fprintf(&sb, "Definition group_ctx_derived_from_root : bool := %s.\n", b(derived))
	sb.WriteString("(* if err := eg.Wait(); err != nil { return err } *)\n")
	fmt.Fprintf(&sb, "Definition group_wait_error_returned : bool := %s.\n", b(waitReturned))
	sb.WriteString("(* both ingesters refuse a path that is not a named pipe: common.IsNamedPipe(..) error returned *)\n")
	fmt.Fprintf(&sb, "Definition group_fifo_checked : bool := %s.\n", b(fifoChecked["sshd_ingester"] && fifoChecked["audit_ingester"]))
	sb.WriteString("(* main.go: ctx := signal.NotifyContext(Background, os.Interrupt, SIGTERM), passed to cmd.RunNamedPipe *)\n")
	fmt.Fprintf(&sb, "Definition signals_cancel_root : bool := %s.\n", b(sigs && passes))
	sb.WriteString("(* main.go: a non-nil error of mainWithError ends in log.Fatalln (exit status 1) *)\n")
	fmt.Fprintf(&sb, "Definition main_fatal_on_error : bool := %s.\n", b(fatal))
	return sb.String(), nil
}
