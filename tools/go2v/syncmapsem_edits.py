import subprocess, shutil, os, re, sys
ENV=dict(os.environ, GOFLAGS="-mod=mod", GOPROXY="off", GOSUMDB="off", GOTOOLCHAIN="local")
SCR="/tmp/sm/repo"
def sh(cmd, cwd=None):
    p=subprocess.run(cmd, shell=True, cwd=cwd, env=ENV, capture_output=True, text=True); return p.returncode, p.stdout+p.stderr
F="internal/common/genericsyncmap.go"
edits=[
 ("Store keeps an existing value", r"\tm.m\[key\] = value\n", "\tif _, ok := m.m[key]; !ok {\n\t\tm.m[key] = value\n\t}\n"),
 ("Iterate stops when the callback returns true", r"if !cb\(k, v\) \{", "if cb(k, v) {"),
 ("Iterate ignores the callback's result", r"\t\tif !cb\(k, v\) \{\n\t\t\tbreak\n\t\t\}\n", "\t\tcb(k, v)\n"),
 ("WithLockedValueDo drops the callback's error", r"return cb\(v\)", "_ = cb(v)\n\t\treturn nil"),
 ("Has negated", r"_, ok := m.m\[key\]\n\treturn ok", "_, ok := m.m[key]\n\treturn !ok"),
 ("Load always reports present", r"return value, ok", "return value, true"),
 ("Delete does nothing", r"\tm.DeleteUnsafe\(key\)\n", ""),
 ("Len off by one", r"return len\(m.m\)", "return len(m.m) + 1"),
 ("DeleteUnsafe deletes another key", r"delete\(m.m, key\)", "var zero K\n\tdelete(m.m, zero)"),
 ("Store unlocked", r"(VerifPoint\(m, \"Store\"\)\n)\tm.mtx.Lock\(\)\n\tdefer m.mtx.Unlock\(\)\n", r"\1"),
 ("HARMLESS: local renamed in Load", r"value, ok := m.m\[key\]\n\treturn value, ok", "val, found := m.m[key]\n\treturn val, found"),
 ("HARMLESS: comment added", r"\tm.m\[key\] = value\n", "\t// store it\n\tm.m[key] = value\n"),
]
rows=[]
for name,pat,rep in edits:
    shutil.rmtree(SCR, ignore_errors=True); shutil.copytree("/repo", SCR, ignore=shutil.ignore_patterns(".git"))
    p=os.path.join(SCR,F); s=open(p).read(); s2,n=re.subn(pat, rep, s, count=1)
    if n==0: rows.append((name,"PATTERN NOT FOUND")); continue
    open(p,"w").write(s2)
    rc,out=sh("go build ./... && go vet ./internal/common/", SCR)
    if rc!=0: rows.append((name,"does not compile: "+out[-150:].replace("\n"," "))); continue
    shutil.rmtree("/tmp/sm/gen", ignore_errors=True); os.makedirs("/tmp/sm/gen")
    sh("/verif/build/go2v -repo %s -out /tmp/sm/gen"%SCR)
    shutil.rmtree("/tmp/sm/coq", ignore_errors=True)
    for d in ["Gen","Model","Proofs","Lib"]: os.makedirs("/tmp/sm/coq/"+d)
    for f in ["Lib/Assoc.v","Model/SyncMapIR.v","Proofs/SyncMapIRTie.v"]: shutil.copy("/verif/coq/"+f,"/tmp/sm/coq/"+f)
    # Tracker model needed by the tie: reuse compiled .vo from /verif via a second -R? simpler: copy the needed compiled files
    for f in ["Lib/Assoc.vo","Lib/Bytes.vo","Model/Tracker.vo","Model/TrackerIR.vo"]:
        if os.path.exists("/verif/coq/"+f): shutil.copy("/verif/coq/"+f,"/tmp/sm/coq/"+f)
    shutil.copy("/tmp/sm/gen/SyncMapProg.v","/tmp/sm/coq/Gen/")
    verdict="accepted"
    for v in ["Model/SyncMapIR.v","Gen/SyncMapProg.v","Proofs/SyncMapIRTie.v"]:
        rc,out=sh("timeout 300 coqc -R . AM -w -notation-overridden %s"%v, "/tmp/sm/coq")
        if rc!=0:
            m=re.search(r"UNSUPPORTED_\w+", out)
            verdict="REJECTED at %s (%s)"%(v, m.group(0) if m else [l for l in out.strip().splitlines() if l.strip()][-1][:90]); break
    rows.append((name,verdict))
for r in rows: print("| %s | %s |"%r)
shutil.rmtree(SCR, ignore_errors=True)
