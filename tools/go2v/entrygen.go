package main

// entrygen.go (-> Gen/EntryMetrics.v), read from the AST:
//  1. SshdProcessorer.ProcessSshdLogEntry (processors/sshd/sshdprocessor.go): where each field of the
//     per-line config comes from, and that the result of ProcessEntry(&config) is returned;
//     1b. the fields of struct SshdProcessorer, the constructor NewSshdProcessor (a single return of
//     &SshdProcessorer{field: parameter, ...}) and which types of the package implement ProcessSshdLogEntry;
//  2. internal/metrics: what IncLogins does to which counter with which label values in which order,
//     the definition of that counter (name, namespace, label names, registered?), and the string values
//     of the LoginType / OutcomeType constants.
// Anything not recognised is UNSUPPORTED (an identifier that does not type-check in Coq).
// All top-level identifiers start with eg/Eg.

import (
	"fmt"
	"go/ast"
	"go/parser"
	"go/token"
	"os"
	"path/filepath"
	"sort"
	"strconv"
	"strings"
)

func init() { generators = append(generators, egGen) }

type egUnsupported string

func (u egUnsupported) Error() string { return string(u) }

type egFile struct {
	fset *token.FileSet
	f    *ast.File
	src  []byte
}

func egParse(path string) (*egFile, error) {
	src, err := os.ReadFile(path)
	if err != nil {
		return nil, err
	}
	fset := token.NewFileSet()
	f, err := parser.ParseFile(fset, path, src, 0)
	if err != nil {
		return nil, err
	}
	return &egFile{fset, f, src}, nil
}

func (g *egFile) text(n ast.Node) string {
	s := string(g.src[g.fset.Position(n.Pos()).Offset:g.fset.Position(n.End()).Offset])
	s = strings.Join(strings.Fields(s), " ")
	if len(s) > 100 {
		s = s[:100] + "..."
	}
	return s
}

func (g *egFile) unsup(n ast.Node, why string) error {
	return egUnsupported(fmt.Sprintf("%s: `%s` (line %d)", why, g.text(n), g.fset.Position(n.Pos()).Line))
}

func (g *egFile) importPath(name string) (string, bool) {
	for _, im := range g.f.Imports {
		p, err := strconv.Unquote(im.Path.Value)
		if err != nil {
			continue
		}
		local := p[strings.LastIndex(p, "/")+1:]
		if im.Name != nil {
			local = im.Name.Name
		}
		if local == name {
			return p, true
		}
	}
	return "", false
}

func egIsIdent(e ast.Expr, name string) bool {
	id, ok := e.(*ast.Ident)
	return ok && id.Name == name
}

func egTypeString(e ast.Expr) string {
	switch v := e.(type) {
	case *ast.Ident:
		return v.Name
	case *ast.SelectorExpr:
		return egTypeString(v.X) + "." + v.Sel.Name
	case *ast.StarExpr:
		return "*" + egTypeString(v.X)
	case *ast.ArrayType:
		if v.Len == nil {
			return "[]" + egTypeString(v.Elt)
		}
	}
	return "?"
}

func egStr(s string) string {
	q, ok := coqStringLit([]byte(s))
	if !ok {
		return "UNSUPPORTED_eg_non_printable_string"
	}
	return q
}

func egStrList(l []string) string {
	var q []string
	for _, s := range l {
		q = append(q, egStr(s))
	}
	return "[" + strings.Join(q, "; ") + "]"
}

func egBool(b bool) string {
	if b {
		return "true"
	}
	return "false"
}

func egComment(s string) string {
	s = strings.ReplaceAll(s, "*)", "* )")
	s = strings.ReplaceAll(s, "(*", "( *")
	return strings.ReplaceAll(s, "\"", "'")
}

// method finds the one method <name> with receiver type *<recv>
func (g *egFile) method(recv, name string) (*ast.FuncDecl, error) {
	var found *ast.FuncDecl
	for _, d := range g.f.Decls {
		fd, ok := d.(*ast.FuncDecl)
		if !ok || fd.Name.Name != name || fd.Recv == nil || len(fd.Recv.List) != 1 {
			continue
		}
		if egTypeString(fd.Recv.List[0].Type) != "*"+recv || len(fd.Recv.List[0].Names) != 1 {
			continue
		}
		if found != nil {
			return nil, egUnsupported("two methods " + name)
		}
		found = fd
	}
	if found == nil {
		return nil, egUnsupported("method (" + recv + ")." + name + " not found")
	}
	return found, nil
}

func egParamNames(fd *ast.FuncDecl) ([]string, []string) {
	var names, types []string
	for _, f := range fd.Type.Params.List {
		for _, n := range f.Names {
			names = append(names, n.Name)
			types = append(types, egTypeString(f.Type))
		}
	}
	return names, types
}

// ---------------------------------------------------------------------------------------------
// 1. ProcessSshdLogEntry

type egEntry struct {
	fields   [][2]string // field name, Coq eg_src term
	callee   string
	returned bool
}

func egEntrySketch(repo string) (*egEntry, error) {
	g, err := egParse(filepath.Join(repo, "processors/sshd/sshdprocessor.go"))
	if err != nil {
		return nil, err
	}
	fd, err := g.method("SshdProcessorer", "ProcessSshdLogEntry")
	if err != nil {
		return nil, err
	}
	recv := fd.Recv.List[0].Names[0].Name
	names, types := egParamNames(fd)
	if len(names) != 2 || types[0] != "context.Context" || types[1] != "SshdLogEntry" || fd.Type.Results == nil ||
		len(fd.Type.Results.List) != 1 || egTypeString(fd.Type.Results.List[0].Type) != "error" {
		return nil, egUnsupported("signature is not ProcessSshdLogEntry(ctx context.Context, sm SshdLogEntry) error")
	}
	ctxName, entryName := names[0], names[1]
	// the package must declare func ProcessEntry(config *SshdProcessorer) error
	pe := false
	for _, d := range g.f.Decls {
		if f, ok := d.(*ast.FuncDecl); ok && f.Recv == nil && f.Name.Name == "ProcessEntry" {
			_, ts := egParamNames(f)
			pe = len(ts) == 1 && ts[0] == "*SshdProcessorer"
		}
	}
	if !pe {
		return nil, egUnsupported("func ProcessEntry(*SshdProcessorer) error not found in sshdprocessor.go")
	}
	src := func(e ast.Expr) string {
		switch v := e.(type) {
		case *ast.Ident:
			if v.Name == ctxName {
				return "FromCtxParam"
			}
		case *ast.SelectorExpr:
			if x, ok := v.X.(*ast.Ident); ok {
				switch {
				case x.Name == entryName && v.Sel.Name == "Message":
					return "FromEntryMessage"
				case x.Name == entryName && v.Sel.Name == "PID":
					return "FromEntryPID"
				case x.Name == recv:
					return "(FromReceiver " + egStr(v.Sel.Name) + ")"
				}
			}
		case *ast.CallExpr:
			if sel, ok := v.Fun.(*ast.SelectorExpr); ok && len(v.Args) == 0 && sel.Sel.Name == "Now" {
				if q, ok := sel.X.(*ast.Ident); ok && q.Name != recv && q.Name != ctxName && q.Name != entryName {
					if p, ok := g.importPath(q.Name); ok && p == "time" {
						return "FromTimeNow"
					}
				}
			}
		}
		// any call, conversion, operation, literal...: the value is not handed over unchanged
		return "(FromOtherExpr " + egStr(g.text(e)) + ")"
	}
	configOf := func(e ast.Expr) (*egEntry, error) {
		call, ok := e.(*ast.CallExpr)
		if !ok || !egIsIdent(call.Fun, "ProcessEntry") || len(call.Args) != 1 || call.Ellipsis != token.NoPos {
			return nil, g.unsup(e, "not a call ProcessEntry(&SshdProcessorer{...})")
		}
		u, ok := call.Args[0].(*ast.UnaryExpr)
		if !ok || u.Op != token.AND {
			return nil, g.unsup(call.Args[0], "argument is not the address of a composite literal")
		}
		cl, ok := u.X.(*ast.CompositeLit)
		if !ok || egTypeString(cl.Type) != "SshdProcessorer" {
			return nil, g.unsup(u.X, "argument is not &SshdProcessorer{...}")
		}
		en := &egEntry{callee: "ProcessEntry"}
		seen := map[string]bool{}
		for _, el := range cl.Elts {
			kv, ok := el.(*ast.KeyValueExpr)
			if !ok {
				return nil, g.unsup(el, "positional field")
			}
			k, ok := kv.Key.(*ast.Ident)
			if !ok || seen[k.Name] {
				return nil, g.unsup(el, "field key")
			}
			seen[k.Name] = true
			en.fields = append(en.fields, [2]string{k.Name, src(kv.Value)})
		}
		return en, nil
	}
	body := fd.Body.List
	switch len(body) {
	case 1:
		// return ProcessEntry(&SshdProcessorer{...})
		r, ok := body[0].(*ast.ReturnStmt)
		if !ok || len(r.Results) != 1 {
			return nil, g.unsup(body[0], "body is not a single return of the call")
		}
		en, err := configOf(r.Results[0])
		if err != nil {
			return nil, err
		}
		en.returned = true
		return en, nil
	case 2:
		// <discarded> ProcessEntry(&SshdProcessorer{...}); return nil      (recorded as: result not returned)
		var callExpr ast.Expr
		switch v := body[0].(type) {
		case *ast.ExprStmt:
			callExpr = v.X
		case *ast.AssignStmt:
			if len(v.Lhs) == 1 && len(v.Rhs) == 1 && egIsIdent(v.Lhs[0], "_") {
				callExpr = v.Rhs[0]
			}
		}
		r, ok := body[1].(*ast.ReturnStmt)
		if callExpr == nil || !ok || len(r.Results) != 1 || !egIsIdent(r.Results[0], "nil") {
			return nil, g.unsup(body[0], "body form not understood")
		}
		en, err := configOf(callExpr)
		if err != nil {
			return nil, err
		}
		en.returned = false
		return en, nil
	}
	return nil, egUnsupported("ProcessSshdLogEntry: body form not understood")
}

// ---------------------------------------------------------------------------------------------
// 1b. the long-lived processor: its fields, its constructor, and who else implements the entry point

type egCtor struct {
	fields  []string    // fields of struct SshdProcessorer, in source order
	inits   [][2]string // constructor: (field, parameter it is initialised from)
	impls   []string    // receiver types of package sshd with a method ProcessSshdLogEntry (non-test files), sorted
	retType string
}

func egConstructorSketch(repo string) (*egCtor, error) {
	dir := filepath.Join(repo, "processors/sshd")
	g, err := egParse(filepath.Join(dir, "sshdprocessor.go"))
	if err != nil {
		return nil, err
	}
	ct := &egCtor{}
	// struct SshdProcessorer
	var st *ast.StructType
	for _, d := range g.f.Decls {
		gd, ok := d.(*ast.GenDecl)
		if !ok || gd.Tok != token.TYPE {
			continue
		}
		for _, sp := range gd.Specs {
			ts := sp.(*ast.TypeSpec)
			if ts.Name.Name != "SshdProcessorer" {
				continue
			}
			s, ok := ts.Type.(*ast.StructType)
			if !ok || st != nil || ts.TypeParams != nil {
				return nil, g.unsup(ts, "SshdProcessorer is not one plain struct type")
			}
			st = s
		}
	}
	if st == nil {
		return nil, egUnsupported("type SshdProcessorer struct not found in sshdprocessor.go")
	}
	for _, f := range st.Fields.List {
		if len(f.Names) == 0 {
			return nil, g.unsup(f, "embedded field in SshdProcessorer")
		}
		for _, n := range f.Names {
			ct.fields = append(ct.fields, n.Name)
		}
	}
	// func NewSshdProcessor(params...) SshdProcessor { return &SshdProcessorer{field: param, ...} }
	var fd *ast.FuncDecl
	for _, d := range g.f.Decls {
		if f, ok := d.(*ast.FuncDecl); ok && f.Recv == nil && f.Name.Name == "NewSshdProcessor" {
			if fd != nil {
				return nil, egUnsupported("two functions NewSshdProcessor")
			}
			fd = f
		}
	}
	if fd == nil || fd.Body == nil {
		return nil, egUnsupported("func NewSshdProcessor not found in sshdprocessor.go")
	}
	if fd.Type.Results == nil || len(fd.Type.Results.List) != 1 || len(fd.Type.Results.List[0].Names) != 0 {
		return nil, egUnsupported("NewSshdProcessor does not return exactly one unnamed value")
	}
	ct.retType = egTypeString(fd.Type.Results.List[0].Type)
	params, _ := egParamNames(fd)
	isParam := map[string]bool{}
	for _, p := range params {
		isParam[p] = true
	}
	if len(fd.Body.List) != 1 {
		return nil, egUnsupported("NewSshdProcessor: body is not a single return statement")
	}
	r, ok := fd.Body.List[0].(*ast.ReturnStmt)
	if !ok || len(r.Results) != 1 {
		return nil, g.unsup(fd.Body.List[0], "NewSshdProcessor: body is not a single return of one value")
	}
	u, ok := r.Results[0].(*ast.UnaryExpr)
	if !ok || u.Op != token.AND {
		return nil, g.unsup(r.Results[0], "NewSshdProcessor does not return the address of a composite literal")
	}
	cl, ok := u.X.(*ast.CompositeLit)
	if !ok || egTypeString(cl.Type) != "SshdProcessorer" {
		return nil, g.unsup(u.X, "NewSshdProcessor does not return &SshdProcessorer{...}")
	}
	seen := map[string]bool{}
	for _, el := range cl.Elts {
		kv, ok := el.(*ast.KeyValueExpr)
		if !ok {
			return nil, g.unsup(el, "positional field")
		}
		k, ok := kv.Key.(*ast.Ident)
		if !ok || seen[k.Name] {
			return nil, g.unsup(el, "field key")
		}
		seen[k.Name] = true
		v, ok := kv.Value.(*ast.Ident)
		if !ok || !isParam[v.Name] {
			return nil, g.unsup(kv.Value, "constructor field is not initialised from a parameter")
		}
		ct.inits = append(ct.inits, [2]string{k.Name, v.Name})
	}
	// every method named ProcessSshdLogEntry of the package (non-test files)
	pkgs, err := parser.ParseDir(token.NewFileSet(), dir, func(fi os.FileInfo) bool { return !strings.HasSuffix(fi.Name(), "_test.go") }, 0)
	if err != nil {
		return nil, err
	}
	for _, pkg := range pkgs {
		for _, f := range pkg.Files {
			for _, d := range f.Decls {
				m, ok := d.(*ast.FuncDecl)
				if !ok || m.Recv == nil || m.Name.Name != "ProcessSshdLogEntry" || len(m.Recv.List) != 1 {
					continue
				}
				ct.impls = append(ct.impls, strings.TrimPrefix(egTypeString(m.Recv.List[0].Type), "*"))
			}
		}
	}
	sort.Strings(ct.impls)
	return ct, nil
}

// ---------------------------------------------------------------------------------------------
// 2. internal/metrics

type egInc struct {
	method  string
	params  []string
	counter string
	args    []string // Coq eg_arg terms, one per label value position
	op      string   // Coq eg_op term
}

type egVec struct {
	field, kind, name, namespace string
	labels                       []string
	registered                   bool
}

func egStringConsts(dir string) (vals map[string]string, byType map[string][][2]string, err error) {
	pkgs, err := parser.ParseDir(token.NewFileSet(), dir, func(fi os.FileInfo) bool { return !strings.HasSuffix(fi.Name(), "_test.go") }, 0)
	if err != nil {
		return nil, nil, err
	}
	vals, byType = map[string]string{}, map[string][][2]string{}
	var fnames []string
	files := map[string]*ast.File{}
	for _, pkg := range pkgs {
		for n, f := range pkg.Files {
			fnames = append(fnames, n)
			files[n] = f
		}
	}
	sort.Strings(fnames)
	for _, n := range fnames {
		for _, d := range files[n].Decls {
			gd, ok := d.(*ast.GenDecl)
			if !ok || gd.Tok != token.CONST {
				continue
			}
			for _, sp := range gd.Specs {
				vs := sp.(*ast.ValueSpec)
				ty := ""
				if vs.Type != nil {
					ty = egTypeString(vs.Type)
				}
				for i, nm := range vs.Names {
					if i >= len(vs.Values) {
						if ty != "" || len(vs.Values) == 0 {
							// a constant without its own value (iota-style repetition): not understood
							byType["?"] = append(byType["?"], [2]string{nm.Name, ""})
						}
						continue
					}
					if lit, ok := vs.Values[i].(*ast.BasicLit); ok && lit.Kind == token.STRING {
						if s, err := strconv.Unquote(lit.Value); err == nil {
							vals[nm.Name] = s
							byType[ty] = append(byType[ty], [2]string{nm.Name, s})
							continue
						}
					}
					if ty != "" {
						byType["?"] = append(byType["?"], [2]string{nm.Name, ""})
					}
				}
			}
		}
	}
	return vals, byType, nil
}

func egIncSketch(g *egFile) (*egInc, error) {
	fd, err := g.method("PrometheusMetricsProvider", "IncLogins")
	if err != nil {
		return nil, err
	}
	recv := fd.Recv.List[0].Names[0].Name
	names, types := egParamNames(fd)
	if len(names) != 2 || types[0] != "LoginType" || types[1] != "OutcomeType" || fd.Type.Results != nil {
		return nil, egUnsupported("signature is not IncLogins(loginType LoginType, outcome OutcomeType)")
	}
	if len(fd.Body.List) != 1 {
		return nil, egUnsupported(fmt.Sprintf("IncLogins has %d statements, not the one counter update", len(fd.Body.List)))
	}
	es, ok := fd.Body.List[0].(*ast.ExprStmt)
	if !ok {
		return nil, g.unsup(fd.Body.List[0], "statement is not a call")
	}
	// <recv>.<field>.WithLabelValues(a, b).<Op>(...)
	opCall, ok := es.X.(*ast.CallExpr)
	if !ok {
		return nil, g.unsup(es, "statement is not a call")
	}
	opSel, ok := opCall.Fun.(*ast.SelectorExpr)
	if !ok {
		return nil, g.unsup(es, "statement is not <counter>.WithLabelValues(...).Op()")
	}
	wl, ok := opSel.X.(*ast.CallExpr)
	if !ok || wl.Ellipsis != token.NoPos {
		return nil, g.unsup(es, "statement is not <counter>.WithLabelValues(...).Op()")
	}
	wlSel, ok := wl.Fun.(*ast.SelectorExpr)
	if !ok || wlSel.Sel.Name != "WithLabelValues" {
		return nil, g.unsup(es, "the counter is not obtained by WithLabelValues")
	}
	fsel, ok := wlSel.X.(*ast.SelectorExpr)
	if !ok || !egIsIdent(fsel.X, recv) {
		return nil, g.unsup(wlSel.X, "the vector is not a field of the receiver")
	}
	inc := &egInc{method: "IncLogins", params: names, counter: fsel.Sel.Name}
	for _, a := range wl.Args {
		term := "(ArgOther " + egStr(g.text(a)) + ")"
		if conv, ok := a.(*ast.CallExpr); ok && egIsIdent(conv.Fun, "string") && len(conv.Args) == 1 {
			if id, ok := conv.Args[0].(*ast.Ident); ok {
				for i, p := range names {
					if p == id.Name {
						term = fmt.Sprintf("(ArgParam %d)", i)
					}
				}
			}
		}
		inc.args = append(inc.args, term)
	}
	switch {
	case opSel.Sel.Name == "Inc" && len(opCall.Args) == 0:
		inc.op = "OpInc"
	default:
		inc.op = "(OpOther " + egStr(opSel.Sel.Name+"("+strings.TrimSuffix(strings.TrimPrefix(g.text(opCall)[len(g.text(opCall.Fun)):], "("), ")")+")") + ")"
	}
	return inc, nil
}

func egVecs(g *egFile, consts map[string]string) ([]egVec, error) {
	var fd *ast.FuncDecl
	for _, d := range g.f.Decls {
		if f, ok := d.(*ast.FuncDecl); ok && f.Recv == nil && f.Name.Name == "NewPrometheusMetricsProviderForRegisterer" {
			fd = f
		}
	}
	if fd == nil {
		return nil, egUnsupported("NewPrometheusMetricsProviderForRegisterer not found")
	}
	names, _ := egParamNames(fd)
	if len(names) != 1 {
		return nil, egUnsupported("constructor arity")
	}
	reg := names[0]
	if len(fd.Body.List) != 3 {
		return nil, egUnsupported("constructor body is not: p := &PrometheusMetricsProvider{...}; r.MustRegister(...); return p")
	}
	as, ok := fd.Body.List[0].(*ast.AssignStmt)
	if !ok || as.Tok != token.DEFINE || len(as.Lhs) != 1 || len(as.Rhs) != 1 {
		return nil, g.unsup(fd.Body.List[0], "first statement is not p := &PrometheusMetricsProvider{...}")
	}
	pv, ok := as.Lhs[0].(*ast.Ident)
	u, ok2 := as.Rhs[0].(*ast.UnaryExpr)
	if !ok || !ok2 || u.Op != token.AND {
		return nil, g.unsup(as, "first statement is not p := &PrometheusMetricsProvider{...}")
	}
	cl, ok := u.X.(*ast.CompositeLit)
	if !ok || egTypeString(cl.Type) != "PrometheusMetricsProvider" {
		return nil, g.unsup(as, "first statement is not p := &PrometheusMetricsProvider{...}")
	}
	strOf := func(e ast.Expr) (string, bool) {
		switch v := e.(type) {
		case *ast.BasicLit:
			if v.Kind == token.STRING {
				s, err := strconv.Unquote(v.Value)
				return s, err == nil
			}
		case *ast.Ident:
			s, ok := consts[v.Name]
			return s, ok
		}
		return "", false
	}
	var vecs []egVec
	for _, el := range cl.Elts {
		kv, ok := el.(*ast.KeyValueExpr)
		if !ok {
			return nil, g.unsup(el, "positional field")
		}
		k, ok := kv.Key.(*ast.Ident)
		call, ok2 := kv.Value.(*ast.CallExpr)
		if !ok || !ok2 || len(call.Args) != 2 {
			return nil, g.unsup(el, "field is not prometheus.New<Kind>Vec(opts, labels)")
		}
		sel, ok := call.Fun.(*ast.SelectorExpr)
		if !ok {
			return nil, g.unsup(el, "field is not prometheus.New<Kind>Vec(opts, labels)")
		}
		if q, ok := sel.X.(*ast.Ident); !ok {
			return nil, g.unsup(el, "field is not prometheus.New<Kind>Vec(opts, labels)")
		} else if p, ok := g.importPath(q.Name); !ok || p != "github.com/prometheus/client_golang/prometheus" {
			return nil, g.unsup(el, "constructor is not from client_golang/prometheus")
		}
		v := egVec{field: k.Name, kind: sel.Sel.Name}
		opts, ok := call.Args[0].(*ast.CompositeLit)
		if !ok {
			return nil, g.unsup(call.Args[0], "options are not a composite literal")
		}
		for _, oe := range opts.Elts {
			okv, ok := oe.(*ast.KeyValueExpr)
			if !ok {
				return nil, g.unsup(oe, "positional option")
			}
			on, _ := okv.Key.(*ast.Ident)
			if on == nil {
				return nil, g.unsup(oe, "option key")
			}
			switch on.Name {
			case "Name", "Namespace":
				s, ok := strOf(okv.Value)
				if !ok {
					return nil, g.unsup(okv.Value, "option value is not a string constant")
				}
				if on.Name == "Name" {
					v.name = s
				} else {
					v.namespace = s
				}
			case "Help":
			default:
				// Subsystem, ConstLabels, ... would change the exported series
				return nil, g.unsup(oe, "option that is not Name/Namespace/Help")
			}
		}
		ll, ok := call.Args[1].(*ast.CompositeLit)
		if !ok || egTypeString(ll.Type) != "[]string" {
			return nil, g.unsup(call.Args[1], "label names are not a []string literal")
		}
		v.labels = []string{}
		for _, le := range ll.Elts {
			s, ok := strOf(le)
			if !ok {
				return nil, g.unsup(le, "label name is not a string constant")
			}
			v.labels = append(v.labels, s)
		}
		vecs = append(vecs, v)
	}
	// r.MustRegister(p.a, p.b, ...)
	es, ok := fd.Body.List[1].(*ast.ExprStmt)
	if !ok {
		return nil, g.unsup(fd.Body.List[1], "second statement is not r.MustRegister(...)")
	}
	mr, ok := es.X.(*ast.CallExpr)
	if !ok || mr.Ellipsis != token.NoPos {
		return nil, g.unsup(es, "second statement is not r.MustRegister(...)")
	}
	ms, ok := mr.Fun.(*ast.SelectorExpr)
	if !ok || !egIsIdent(ms.X, reg) || ms.Sel.Name != "MustRegister" {
		return nil, g.unsup(es, "second statement is not r.MustRegister(...)")
	}
	for _, a := range mr.Args {
		s, ok := a.(*ast.SelectorExpr)
		if !ok || !egIsIdent(s.X, pv.Name) {
			return nil, g.unsup(a, "registered collector is not a field of p")
		}
		hit := false
		for i := range vecs {
			if vecs[i].field == s.Sel.Name {
				vecs[i].registered, hit = true, true
			}
		}
		if !hit {
			return nil, g.unsup(a, "registered collector is not one of the vectors created above")
		}
	}
	r, ok := fd.Body.List[2].(*ast.ReturnStmt)
	if !ok || len(r.Results) != 1 || !egIsIdent(r.Results[0], pv.Name) {
		return nil, g.unsup(fd.Body.List[2], "constructor does not return p")
	}
	return vecs, nil
}

// ---------------------------------------------------------------------------------------------
// output

const egHeader = `(* GENERATED by tools/go2v from processors/sshd/sshdprocessor.go (ProcessSshdLogEntry) and
   internal/metrics/{metrics.go,constants.go}.  Do not edit. *)
From Coq Require Import String List.
Import ListNotations.
Open Scope string_scope.

(* ---- 1. the per-line config ProcessSshdLogEntry hands to ProcessEntry ---- *)
Inductive eg_src :=
| FromEntryMessage                 (* sm.Message, unchanged *)
| FromEntryPID                     (* sm.PID, unchanged *)
| FromCtxParam                     (* the ctx parameter *)
| FromReceiver (field : string)    (* s.<field> of the long-lived processor *)
| FromTimeNow                      (* time.Now() *)
| FromOtherExpr (text : string).   (* anything else: a call, a conversion, an operation, a literal *)

Record entry_sketch := {
  en_config : list (string * eg_src);   (* &SshdProcessorer{field: value, ...} in source order *)
  en_callee : string;                   (* the function the address of that literal is passed to *)
  en_result_returned : bool             (* true: "return callee(&config)"; false: the result is dropped and nil returned *)
}.

(* ---- 1b. the long-lived processor ---- *)
Record ctor_sketch := {
  ct_fields : list string;             (* the fields of struct SshdProcessorer, in source order *)
  ct_inits : list (string * string);   (* NewSshdProcessor is the single statement "return &SshdProcessorer{field: parameter, ...}": (field, parameter) *)
  ct_result : string;                  (* its result type *)
  ct_entry_impls : list string         (* the types of package sshd that have a method ProcessSshdLogEntry *)
}.

(* ---- 2. metrics ---- *)
Inductive eg_arg := ArgParam (i : nat)       (* string(<i-th parameter>) *)
                  | ArgOther (text : string).
Inductive eg_op := OpInc                     (* .Inc(): by one *)
                 | OpOther (text : string).

(* the whole body of the method is the single statement
   <receiver>.<in_counter>.WithLabelValues(<in_label_args>).<in_op> *)
Record inc_sketch := {
  in_method : string;
  in_params : list string;
  in_counter : string;
  in_label_args : list eg_arg;
  in_op : eg_op
}.

Record vec_def := {
  vd_field : string;          (* field of PrometheusMetricsProvider *)
  vd_kind : string;           (* prometheus.<kind>(opts, label names) *)
  vd_name : string;
  vd_namespace : string;
  vd_labels : list string;    (* label NAMES, in order *)
  vd_registered : bool        (* passed to r.MustRegister in the constructor *)
}.

`

func egGen(repo, out string) error {
	var sb strings.Builder
	sb.WriteString(egHeader)

	if en, err := egEntrySketch(repo); err != nil {
		fmt.Fprintf(&sb, "(* UNSUPPORTED: %s *)\nDefinition gen_entry : entry_sketch := UNSUPPORTED_eg_entry.\n\n", egComment(err.Error()))
	} else {
		var fs []string
		for _, f := range en.fields {
			fs = append(fs, fmt.Sprintf("(%s, %s)", egStr(f[0]), f[1]))
		}
		fmt.Fprintf(&sb, "Definition gen_entry : entry_sketch := {|\n  en_config := [%s];\n  en_callee := %s;\n  en_result_returned := %s\n|}.\n\n",
			strings.Join(fs, ";\n                ")+"", egStr(en.callee), egBool(en.returned))
	}

	if ct, err := egConstructorSketch(repo); err != nil {
		fmt.Fprintf(&sb, "(* UNSUPPORTED: %s *)\nDefinition gen_constructor : ctor_sketch := UNSUPPORTED_eg_constructor.\n\n", egComment(err.Error()))
	} else {
		var is []string
		for _, kv := range ct.inits {
			is = append(is, fmt.Sprintf("(%s, %s)", egStr(kv[0]), egStr(kv[1])))
		}
		fmt.Fprintf(&sb, "Definition gen_constructor : ctor_sketch := {|\n  ct_fields := %s;\n  ct_inits := [%s];\n  ct_result := %s;\n  ct_entry_impls := %s\n|}.\n\n",
			egStrList(ct.fields), strings.Join(is, "; "), egStr(ct.retType), egStrList(ct.impls))
	}

	mdir := filepath.Join(repo, "internal/metrics")
	consts, byType, cerr := egStringConsts(mdir)
	g, perr := egParse(filepath.Join(mdir, "metrics.go"))
	if perr != nil {
		return perr
	}
	if inc, err := egIncSketch(g); err != nil {
		fmt.Fprintf(&sb, "(* UNSUPPORTED: %s *)\nDefinition gen_inc_logins : inc_sketch := UNSUPPORTED_eg_inc_logins.\n\n", egComment(err.Error()))
	} else {
		fmt.Fprintf(&sb, "Definition gen_inc_logins : inc_sketch := {|\n  in_method := %s;\n  in_params := %s;\n  in_counter := %s;\n  in_label_args := [%s];\n  in_op := %s\n|}.\n\n",
			egStr(inc.method), egStrList(inc.params), egStr(inc.counter), strings.Join(inc.args, "; "), inc.op)
	}
	if cerr != nil {
		fmt.Fprintf(&sb, "(* UNSUPPORTED: %s *)\nDefinition gen_vectors : list vec_def := UNSUPPORTED_eg_vectors.\n\n", egComment(cerr.Error()))
	} else if vecs, err := egVecs(g, consts); err != nil {
		fmt.Fprintf(&sb, "(* UNSUPPORTED: %s *)\nDefinition gen_vectors : list vec_def := UNSUPPORTED_eg_vectors.\n\n", egComment(err.Error()))
	} else {
		sb.WriteString("(* the vectors NewPrometheusMetricsProviderForRegisterer creates, in source order *)\nDefinition gen_vectors : list vec_def := [\n")
		for i, v := range vecs {
			sep := ";"
			if i == len(vecs)-1 {
				sep = ""
			}
			fmt.Fprintf(&sb, "  {| vd_field := %s; vd_kind := %s; vd_name := %s; vd_namespace := %s;\n     vd_labels := %s; vd_registered := %s |}%s\n",
				egStr(v.field), egStr(v.kind), egStr(v.name), egStr(v.namespace), egStrList(v.labels), egBool(v.registered), sep)
		}
		sb.WriteString("].\n\n")
	}
	table := func(def, ty string) {
		if cerr != nil || len(byType["?"]) != 0 {
			fmt.Fprintf(&sb, "(* UNSUPPORTED: a typed constant of internal/metrics is not a plain string literal *)\nDefinition %s : list (string * string) := UNSUPPORTED_eg_%s.\n", def, def)
			return
		}
		var ps []string
		for _, kv := range byType[ty] {
			ps = append(ps, fmt.Sprintf("(%s, %s)", egStr(kv[0]), egStr(kv[1])))
		}
		fmt.Fprintf(&sb, "(* constants of type %s: (Go name, string value), in source order *)\nDefinition %s : list (string * string) := [%s].\n", ty, def, strings.Join(ps, "; "))
	}
	table("login_type_values", "LoginType")
	table("outcome_type_values", "OutcomeType")
	return os.WriteFile(filepath.Join(out, "EntryMetrics.v"), []byte(sb.String()), 0o644)
}
