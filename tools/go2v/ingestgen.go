package main

// ingestgen.go: the pipe-ingestion code translated into the small IR of coq/Model/IngestIR.v
// (-> Gen/IngestProg.v):
//   ingesters/namedpipe/namedpipeingester.go   NamedPipeIngester.Ingest: the set-up part statement by
//       statement (OnReady with the resolved component constant, the open in a goroutine, the select,
//       the error check, the close-on-cancel goroutine, the deferred Close, the bufio.Reader) and the
//       body of the final  for { ... }  as a statement list: which reader method is called (only
//       ReadString has a meaning) with which delimiter, what is handed to the callback, what every
//       return returns;
//   ingesters/auditlog/auditlogingester.go, ingesters/syslog/syslogingester.go: what the wrapper Ingest
//       passes on (delimiter byte, callback method) and what Process does with the line.
// Each statement is evaluated over its AST; a form that is not listed makes the definition an
// UNSUPPORTED_... identifier that does not type-check in Coq.  No matching on source text.

import (
	"fmt"
	"go/ast"
	"go/parser"
	"go/token"
	"os"
	"path/filepath"
	"strconv"
	"strings"
)

func init() { generators = append(generators, igGen) }

const (
	igNamedpipePath = "github.com/metal-toolbox/audito-maldito/ingesters/namedpipe"
	igHealthPath    = "github.com/metal-toolbox/audito-maldito/internal/health"
)

type igFile struct {
	fset      *token.FileSet
	file      *ast.File
	imports   map[string]string
	strConsts map[string]string
	pkgNames  map[string]bool
}

func (f *igFile) errf(n ast.Node, format string, a ...interface{}) error {
	return fmt.Errorf("line %d: %s", f.fset.Position(n.Pos()).Line, fmt.Sprintf(format, a...))
}

func igLoad(path string) (*igFile, error) {
	fset := token.NewFileSet()
	af, err := parser.ParseFile(fset, path, nil, 0)
	if err != nil {
		return nil, err
	}
	f := &igFile{fset: fset, file: af, imports: map[string]string{}, strConsts: map[string]string{}, pkgNames: map[string]bool{}}
	for _, im := range af.Imports {
		p, err := strconv.Unquote(im.Path.Value)
		if err != nil {
			return nil, err
		}
		name := p[strings.LastIndex(p, "/")+1:]
		if im.Name != nil {
			name = im.Name.Name
		}
		if name == "_" || name == "." {
			return nil, fmt.Errorf("%s: blank or dot import of %s", path, p)
		}
		f.imports[name] = p
	}
	for _, d := range af.Decls {
		switch x := d.(type) {
		case *ast.FuncDecl:
			if x.Recv == nil {
				f.pkgNames[x.Name.Name] = true
			}
		case *ast.GenDecl:
			for _, sp := range x.Specs {
				switch s := sp.(type) {
				case *ast.TypeSpec:
					f.pkgNames[s.Name.Name] = true
				case *ast.ValueSpec:
					for i, n := range s.Names {
						f.pkgNames[n.Name] = true
						if x.Tok != token.CONST || s.Type != nil || i >= len(s.Values) {
							continue
						}
						if bl, ok := s.Values[i].(*ast.BasicLit); ok && bl.Kind == token.STRING {
							if v, err := strconv.Unquote(bl.Value); err == nil {
								f.strConsts[n.Name] = v
							}
						}
					}
				}
			}
		}
	}
	return f, nil
}

func igCoqStr(s string) (string, bool) {
	for i := 0; i < len(s); i++ {
		if s[i] < 0x20 || s[i] > 0x7e {
			return "", false
		}
	}
	return "\"" + strings.ReplaceAll(s, "\"", "\"\"") + "\"", true
}

func igQ(s string) string {
	q, ok := igCoqStr(s)
	if !ok {
		return "UNSUPPORTED_non_printable_name"
	}
	return q
}

func igComment(s string) string {
	return strings.ReplaceAll(strings.ReplaceAll(s, "(*", "( *"), "*)", "* )")
}

func igUnparen(e ast.Expr) ast.Expr {
	for {
		p, ok := e.(*ast.ParenExpr)
		if !ok {
			return e
		}
		e = p.X
	}
}

func igIsIdent(e ast.Expr, name string) bool {
	if e == nil {
		return false
	}
	id, ok := igUnparen(e).(*ast.Ident)
	return ok && name != "" && name != "_" && id.Name == name
}

func (f *igFile) isPkgSel(e ast.Expr, path, name string) bool {
	if e == nil {
		return false
	}
	sel, ok := igUnparen(e).(*ast.SelectorExpr)
	if !ok || sel.Sel.Name != name {
		return false
	}
	id, ok := sel.X.(*ast.Ident)
	return ok && f.imports[id.Name] == path
}

func (f *igFile) pkgSelName(e ast.Expr, path string) (string, bool) {
	sel, ok := igUnparen(e).(*ast.SelectorExpr)
	if !ok {
		return "", false
	}
	id, ok := sel.X.(*ast.Ident)
	if !ok || f.imports[id.Name] != path {
		return "", false
	}
	return sel.Sel.Name, true
}

// x.Name(args) with x an identifier
func igMethodCall(e ast.Expr, x, name string) ([]ast.Expr, bool) {
	call, ok := igUnparen(e).(*ast.CallExpr)
	if !ok {
		return nil, false
	}
	sel, ok := call.Fun.(*ast.SelectorExpr)
	if !ok || sel.Sel.Name != name || !igIsIdent(sel.X, x) {
		return nil, false
	}
	return call.Args, true
}

func igNoArgCall(e ast.Expr, x, name string) bool {
	args, ok := igMethodCall(e, x, name)
	return ok && len(args) == 0
}

// <-x.Done()
func igIsRecvDone(e ast.Expr, ctx string) bool {
	ue, ok := igUnparen(e).(*ast.UnaryExpr)
	return ok && ue.Op == token.ARROW && igNoArgCall(ue.X, ctx, "Done")
}

type igParam struct {
	name string
	typ  ast.Expr
}

func igParams(fl *ast.FieldList) []igParam {
	var out []igParam
	if fl == nil {
		return nil
	}
	for _, p := range fl.List {
		if len(p.Names) == 0 {
			out = append(out, igParam{"_", p.Type})
		}
		for _, n := range p.Names {
			out = append(out, igParam{n.Name, p.Type})
		}
	}
	return out
}

func igReturnsError(fd *ast.FuncDecl) bool {
	r := fd.Type.Results
	return r != nil && len(r.List) == 1 && len(r.List[0].Names) == 0 && igIsIdent(r.List[0].Type, "error")
}

func (f *igFile) method(recvType, name string) (*ast.FuncDecl, string, error) {
	var found *ast.FuncDecl
	for _, d := range f.file.Decls {
		fd, ok := d.(*ast.FuncDecl)
		if !ok || fd.Name.Name != name || fd.Recv == nil || len(fd.Recv.List) != 1 {
			continue
		}
		st, ok := fd.Recv.List[0].Type.(*ast.StarExpr)
		if !ok || !igIsIdent(st.X, recvType) {
			continue
		}
		if found != nil {
			return nil, "", fmt.Errorf("two methods %s.%s", recvType, name)
		}
		found = fd
	}
	if found == nil || found.Body == nil {
		return nil, "", fmt.Errorf("method (*%s).%s not found", recvType, name)
	}
	if len(found.Recv.List[0].Names) != 1 || found.Recv.List[0].Names[0].Name == "_" || found.Type.TypeParams != nil {
		return nil, "", f.errf(found, "receiver form")
	}
	return found, found.Recv.List[0].Names[0].Name, nil
}

// fields of a struct type of the file: name -> type expression
func (f *igFile) structFields(typeName string) (map[string]ast.Expr, error) {
	for _, d := range f.file.Decls {
		gd, ok := d.(*ast.GenDecl)
		if !ok || gd.Tok != token.TYPE {
			continue
		}
		for _, sp := range gd.Specs {
			ts, ok := sp.(*ast.TypeSpec)
			if !ok || ts.Name.Name != typeName {
				continue
			}
			st, ok := ts.Type.(*ast.StructType)
			if !ok {
				return nil, fmt.Errorf("%s is not a struct", typeName)
			}
			out := map[string]ast.Expr{}
			for _, fl := range st.Fields.List {
				for _, n := range fl.Names {
					out[n.Name] = fl.Type
				}
			}
			return out, nil
		}
	}
	return nil, fmt.Errorf("type %s not found", typeName)
}

func igList(ind string, items []string) string {
	if len(items) == 0 {
		return "[]"
	}
	return "[\n" + ind + "  " + strings.Join(items, ";\n"+ind+"  ") + "]"
}

func igElse(s *ast.IfStmt) []ast.Stmt {
	switch v := s.Else.(type) {
	case nil:
		return nil
	case *ast.BlockStmt:
		return v.List
	default:
		return []ast.Stmt{v}
	}
}

// ---------------------------------------------------------------------------------------------
// expressions shared by the loop, the set-up part and Process

type igScope struct {
	f        *igFile
	recv     string
	ctx      string          // the context.Context parameter
	delim    string          // Ingest's delim parameter ("" elsewhere)
	callback string          // Ingest's callback parameter
	strs     map[string]bool // string variables in scope
	errs     map[string]bool // error variables in scope
	other    map[string]bool // every other local name in scope
	reserved map[string]bool // names of enclosing scopes that must not be shadowed
}

func (s *igScope) declared(name string) bool {
	return s.strs[name] || s.errs[name] || s.other[name] || s.reserved[name]
}

func (s *igScope) declare(n ast.Node, name string, into map[string]bool) error {
	if name == "_" {
		return s.f.errf(n, "blank name declared")
	}
	if s.declared(name) || s.f.pkgNames[name] || s.f.imports[name] != "" {
		return s.f.errf(n, "name %s is declared twice or shadows a package-level name", name)
	}
	switch name {
	case "true", "false", "make", "close", "len", "string", "nil", "error", "byte":
		return s.f.errf(n, "predeclared name %s is redeclared", name)
	}
	into[name] = true
	return nil
}

// the scope of the for body: the error and string variables of the enclosing function may be shadowed
// there (and are not usable); every other outer name stays reserved
func (s *igScope) child() *igScope {
	c := *s
	c.strs, c.errs, c.other = map[string]bool{}, map[string]bool{}, map[string]bool{}
	c.reserved = map[string]bool{}
	for k := range s.other {
		c.reserved[k] = true
	}
	for k := range s.reserved {
		c.reserved[k] = true
	}
	return &c
}

func (s *igScope) sexp(e ast.Expr) (string, error) {
	e = igUnparen(e)
	switch v := e.(type) {
	case *ast.Ident:
		if s.strs[v.Name] {
			return "SVar " + igQ(v.Name), nil
		}
		return "", s.f.errf(e, "%s is not a string variable in scope", v.Name)
	case *ast.CallExpr:
		if s.f.isPkgSel(v.Fun, "strings", "TrimSuffix") && len(v.Args) == 2 {
			inner, err := s.sexp(v.Args[0])
			if err != nil {
				return "", err
			}
			suf := igUnparen(v.Args[1])
			if bl, ok := suf.(*ast.BasicLit); ok && bl.Kind == token.STRING {
				lit, err := strconv.Unquote(bl.Value)
				if err != nil {
					return "", s.f.errf(e, "string literal")
				}
				var bs []string
				for i := 0; i < len(lit); i++ {
					bs = append(bs, strconv.Itoa(int(lit[i])))
				}
				return "STrimLit [" + strings.Join(bs, "; ") + "] (" + inner + ")", nil
			}
			if conv, ok := suf.(*ast.CallExpr); ok && igIsIdent(conv.Fun, "string") && len(conv.Args) == 1 && igIsIdent(conv.Args[0], s.delim) {
				return "STrimDelim (" + inner + ")", nil
			}
			return "", s.f.errf(e, "TrimSuffix with a suffix that is neither a literal nor string(%s)", s.delim)
		}
	}
	return "", s.f.errf(e, "string expression form %T", e)
}

func (s *igScope) eexp(e ast.Expr) (string, error) {
	e = igUnparen(e)
	switch v := e.(type) {
	case *ast.Ident:
		if v.Name == "nil" && !s.declared("nil") {
			return "ENil", nil
		}
		if s.errs[v.Name] {
			return "EVar " + igQ(v.Name), nil
		}
		return "", s.f.errf(e, "%s is not an error variable in scope", v.Name)
	case *ast.CallExpr:
		if igNoArgCall(v, s.ctx, "Err") {
			return "ECtxErr", nil
		}
		if s.f.isPkgSel(v.Fun, "fmt", "Errorf") {
			// a new error made from exactly one error variable among the arguments
			found := ""
			for _, a := range v.Args[1:] {
				if id, ok := igUnparen(a).(*ast.Ident); ok && s.errs[id.Name] {
					if found != "" {
						return "", s.f.errf(e, "fmt.Errorf of two errors")
					}
					found = id.Name
				}
			}
			if found != "" {
				return "EWrap (EVar " + igQ(found) + ")", nil
			}
		}
	}
	return "", s.f.errf(e, "error expression form %T", e)
}

func (s *igScope) isEOF(e ast.Expr) bool { return s.f.isPkgSel(e, "io", "EOF") }

func (s *igScope) cond(e ast.Expr) (string, error) {
	e = igUnparen(e)
	switch v := e.(type) {
	case *ast.BinaryExpr:
		switch v.Op {
		case token.LAND:
			a, err := s.cond(v.X)
			if err != nil {
				return "", err
			}
			b, err := s.cond(v.Y)
			if err != nil {
				return "", err
			}
			return "CAnd (" + a + ") (" + b + ")", nil
		case token.NEQ, token.EQL:
			wrap := func(t string) string {
				if v.Op == token.EQL {
					return "CNot (" + t + ")"
				}
				return t
			}
			x, okx := igUnparen(v.X).(*ast.Ident)
			if !okx {
				break
			}
			if s.errs[x.Name] && igIsIdent(v.Y, "nil") && !s.declared("nil") {
				return wrap("CErrNotNil " + igQ(x.Name)), nil
			}
			if s.errs[x.Name] && s.isEOF(v.Y) {
				if v.Op == token.EQL {
					return "CErrIsEOF " + igQ(x.Name), nil
				}
				return "CNot (CErrIsEOF " + igQ(x.Name) + ")", nil
			}
			if bl, ok := igUnparen(v.Y).(*ast.BasicLit); ok && s.strs[x.Name] && bl.Kind == token.STRING && (bl.Value == `""` || bl.Value == "``") {
				return wrap("CStrNotEmpty " + igQ(x.Name)), nil
			}
		}
	case *ast.UnaryExpr:
		if v.Op == token.NOT {
			a, err := s.cond(v.X)
			if err != nil {
				return "", err
			}
			return "CNot (" + a + ")", nil
		}
	case *ast.CallExpr:
		if s.f.isPkgSel(v.Fun, "errors", "Is") && len(v.Args) == 2 && s.isEOF(v.Args[1]) {
			if x, ok := igUnparen(v.Args[0]).(*ast.Ident); ok && s.errs[x.Name] {
				return "CErrIsEOF " + igQ(x.Name), nil
			}
		}
	}
	return "", s.f.errf(e, "condition form")
}

// n.Logger.<M>(args): the arguments must be free of effects
func (s *igScope) logCall(e ast.Expr) (string, bool, error) {
	call, ok := igUnparen(e).(*ast.CallExpr)
	if !ok {
		return "", false, nil
	}
	sel, ok := call.Fun.(*ast.SelectorExpr)
	if !ok {
		return "", false, nil
	}
	inner, ok := sel.X.(*ast.SelectorExpr)
	if !ok || inner.Sel.Name != "Logger" || !igIsIdent(inner.X, s.recv) {
		return "", false, nil
	}
	for _, a := range call.Args {
		if err := s.pureArg(a); err != nil {
			return "", true, err
		}
	}
	return sel.Sel.Name, true, nil
}

func (s *igScope) pureArg(e ast.Expr) error {
	e = igUnparen(e)
	switch v := e.(type) {
	case *ast.BasicLit, *ast.Ident:
		return nil
	case *ast.CallExpr:
		// x.Name() / x.Error() / x.String() on a local
		if sel, ok := v.Fun.(*ast.SelectorExpr); ok && len(v.Args) == 0 {
			if _, ok := sel.X.(*ast.Ident); ok {
				switch sel.Sel.Name {
				case "Name", "Error", "String":
					return nil
				}
			}
		}
	}
	return s.f.errf(e, "log argument that may have an effect")
}

// ---------------------------------------------------------------------------------------------
// the loop body

type igLoop struct {
	s      *igScope
	reader string
}

func (l *igLoop) stmts(list []ast.Stmt, ind string, top bool) ([]string, error) {
	var out []string
	for _, st := range list {
		t, err := l.stmt(st, ind, top)
		if err != nil {
			return nil, err
		}
		out = append(out, t)
	}
	return out, nil
}

// callback(ctx, arg)
func (l *igLoop) callbackCall(e ast.Expr) (string, bool, error) {
	call, ok := igUnparen(e).(*ast.CallExpr)
	if !ok || !igIsIdent(call.Fun, l.s.callback) {
		return "", false, nil
	}
	if len(call.Args) != 2 || !igIsIdent(call.Args[0], l.s.ctx) {
		return "", true, l.s.f.errf(e, "callback not called as callback(%s, ..)", l.s.ctx)
	}
	a, err := l.s.sexp(call.Args[1])
	return a, true, err
}

func (l *igLoop) stmt(st ast.Stmt, ind string, top bool) (string, error) {
	s, f := l.s, l.s.f
	switch v := st.(type) {
	case *ast.AssignStmt:
		// line, err := r.ReadString(d)
		if len(v.Lhs) == 2 && len(v.Rhs) == 1 {
			call, ok := igUnparen(v.Rhs[0]).(*ast.CallExpr)
			if !ok {
				return "", f.errf(st, "two-valued assignment from something else than a call")
			}
			sel, ok := call.Fun.(*ast.SelectorExpr)
			if !ok || !igIsIdent(sel.X, l.reader) {
				return "", f.errf(st, "two-valued assignment from something else than a method of the reader %s", l.reader)
			}
			if sel.Sel.Name != "ReadString" {
				return "", f.errf(st, "bufio.Reader method %s is not one this translator gives a meaning to (ReadString)", sel.Sel.Name)
			}
			if v.Tok != token.DEFINE || !top || len(call.Args) != 1 {
				return "", f.errf(st, "ReadString not used as  line, err := %s.ReadString(d)  at the top of the loop body", l.reader)
			}
			ln, ok1 := v.Lhs[0].(*ast.Ident)
			er, ok2 := v.Lhs[1].(*ast.Ident)
			if !ok1 || !ok2 {
				return "", f.errf(st, "ReadString targets")
			}
			d := ""
			arg := igUnparen(call.Args[0])
			if igIsIdent(arg, s.delim) {
				d = "DParam"
			} else if bl, ok := arg.(*ast.BasicLit); ok && bl.Kind == token.CHAR {
				r, _, _, err := strconv.UnquoteChar(bl.Value[1:len(bl.Value)-1], '\'')
				if err != nil || r < 0 || r > 255 {
					return "", f.errf(st, "delimiter literal")
				}
				d = fmt.Sprintf("(DConst %d)", r)
			} else {
				return "", f.errf(st, "delimiter is neither the %s parameter nor a byte literal", s.delim)
			}
			if err := s.declare(st, ln.Name, s.strs); err != nil {
				return "", err
			}
			if err := s.declare(st, er.Name, s.errs); err != nil {
				return "", err
			}
			return "IReadString " + igQ(ln.Name) + " " + igQ(er.Name) + " " + d, nil
		}
		if len(v.Lhs) != 1 || len(v.Rhs) != 1 {
			return "", f.errf(st, "assignment form")
		}
		arg, isCb, err := l.callbackCall(v.Rhs[0])
		if err != nil {
			return "", err
		}
		if !isCb {
			return "", f.errf(st, "assignment from something else than the callback")
		}
		id, ok := v.Lhs[0].(*ast.Ident)
		if !ok {
			return "", f.errf(st, "assignment target form")
		}
		switch {
		case v.Tok == token.DEFINE:
			if !top {
				return "", f.errf(st, "definition in a nested block")
			}
			if err := s.declare(st, id.Name, s.errs); err != nil {
				return "", err
			}
			return "ICallback (TDefine " + igQ(id.Name) + ") (" + arg + ")", nil
		case v.Tok == token.ASSIGN && id.Name == "_":
			return "ICallback TDiscard (" + arg + ")", nil
		case v.Tok == token.ASSIGN && s.errs[id.Name]:
			return "ICallback (TAssign " + igQ(id.Name) + ") (" + arg + ")", nil
		}
		return "", f.errf(st, "callback result assigned to something that is not an error variable of the loop")
	case *ast.ExprStmt:
		if arg, isCb, err := l.callbackCall(v.X); isCb {
			if err != nil {
				return "", err
			}
			return "ICallback TDiscard (" + arg + ")", nil
		}
		if m, isLog, err := s.logCall(v.X); isLog {
			if err != nil {
				return "", err
			}
			return "ILog " + igQ(m), nil
		}
		return "", f.errf(st, "expression statement form in the loop")
	case *ast.IfStmt:
		if v.Init != nil {
			return "", f.errf(st, "if with init statement")
		}
		c, err := s.cond(v.Cond)
		if err != nil {
			return "", err
		}
		th, err := l.stmts(v.Body.List, ind+"  ", false)
		if err != nil {
			return "", err
		}
		el, err := l.stmts(igElse(v), ind+"  ", false)
		if err != nil {
			return "", err
		}
		return "IIf (" + c + ") " + igList(ind+"  ", th) + " " + igList(ind+"  ", el), nil
	case *ast.ReturnStmt:
		if len(v.Results) != 1 {
			return "", f.errf(st, "return without exactly one value")
		}
		e, err := s.eexp(v.Results[0])
		if err != nil {
			return "", err
		}
		return "IReturn (" + e + ")", nil
	}
	return "", f.errf(st, "statement form %T in the loop", st)
}

// ---------------------------------------------------------------------------------------------
// NamedPipeIngester.Ingest

func igGenIngest(repo string) (string, error) {
	f, err := igLoad(filepath.Join(repo, "ingesters/namedpipe/namedpipeingester.go"))
	if err != nil {
		return "", err
	}
	fd, recv, err := f.method("NamedPipeIngester", "Ingest")
	if err != nil {
		return "", err
	}
	fields, err := f.structFields("NamedPipeIngester")
	if err != nil {
		return "", err
	}
	if st, ok := fields["Health"].(*ast.StarExpr); !ok || !f.isPkgSel(st.X, igHealthPath, "Health") {
		return "", fmt.Errorf("NamedPipeIngester.Health is not a *health.Health")
	}
	// type Callback func(context.Context, string) error
	cbOK := false
	for _, d := range f.file.Decls {
		gd, ok := d.(*ast.GenDecl)
		if !ok || gd.Tok != token.TYPE {
			continue
		}
		for _, sp := range gd.Specs {
			ts, ok := sp.(*ast.TypeSpec)
			if !ok || ts.Name.Name != "Callback" {
				continue
			}
			ft, ok := ts.Type.(*ast.FuncType)
			if !ok {
				continue
			}
			ps := igParams(ft.Params)
			cbOK = len(ps) == 2 && f.isPkgSel(ps[0].typ, "context", "Context") && igIsIdent(ps[1].typ, "string") &&
				ft.Results != nil && len(ft.Results.List) == 1 && igIsIdent(ft.Results.List[0].Type, "error")
		}
	}
	if !cbOK {
		return "", fmt.Errorf("type Callback is not func(context.Context, string) error")
	}
	ps := igParams(fd.Type.Params)
	if len(ps) != 4 || !f.isPkgSel(ps[0].typ, "context", "Context") || !igIsIdent(ps[1].typ, "string") ||
		!igIsIdent(ps[2].typ, "byte") || !igIsIdent(ps[3].typ, "Callback") || !igReturnsError(fd) {
		return "", f.errf(fd, "signature is not (context.Context, string, byte, Callback) error")
	}
	for _, p := range ps {
		if p.name == "_" {
			return "", f.errf(fd, "blank parameter")
		}
	}
	s := &igScope{f: f, recv: recv, ctx: ps[0].name, delim: ps[2].name, callback: ps[3].name,
		strs: map[string]bool{}, errs: map[string]bool{}, other: map[string]bool{}}
	pathParam := ps[1].name
	for _, n := range []string{recv, ps[0].name, ps[1].name, ps[2].name, ps[3].name} {
		if err := s.declare(fd, n, s.other); err != nil {
			return "", err
		}
	}
	files := map[string]bool{} // *os.File variables
	chans := map[string]bool{}
	readers := map[string]string{} // reader variable -> file it reads
	var setup []string
	body := fd.Body.List
	if len(body) == 0 {
		return "", f.errf(fd, "empty body")
	}
	last, ok := body[len(body)-1].(*ast.ForStmt)
	if !ok || last.Init != nil || last.Cond != nil || last.Post != nil {
		return "", f.errf(body[len(body)-1], "the last statement is not  for { ... }")
	}
	ierrOf := func(e ast.Expr) (string, error) { return s.eexp(e) }
	for _, st := range body[:len(body)-1] {
		switch v := st.(type) {
		case *ast.DeclStmt:
			gd, ok := v.Decl.(*ast.GenDecl)
			if !ok || gd.Tok != token.VAR || len(gd.Specs) != 1 {
				return "", f.errf(st, "declaration form")
			}
			vs, ok := gd.Specs[0].(*ast.ValueSpec)
			if !ok || len(vs.Names) != 1 || len(vs.Values) != 0 {
				return "", f.errf(st, "declaration form")
			}
			name := vs.Names[0].Name
			if igIsIdent(vs.Type, "error") {
				if err := s.declare(st, name, s.errs); err != nil {
					return "", err
				}
			} else if se, ok := vs.Type.(*ast.StarExpr); ok && f.isPkgSel(se.X, "os", "File") {
				if err := s.declare(st, name, s.other); err != nil {
					return "", err
				}
				files[name] = true
			} else {
				return "", f.errf(st, "variable of a type other than error and *os.File")
			}
			setup = append(setup, "SDeclVar "+igQ(name))
		case *ast.AssignStmt:
			if v.Tok != token.DEFINE || len(v.Lhs) != 1 || len(v.Rhs) != 1 {
				return "", f.errf(st, "assignment form in the set-up part")
			}
			id, ok := v.Lhs[0].(*ast.Ident)
			call, ok2 := igUnparen(v.Rhs[0]).(*ast.CallExpr)
			if !ok || !ok2 {
				return "", f.errf(st, "definition form in the set-up part")
			}
			if igIsIdent(call.Fun, "make") && len(call.Args) >= 1 && len(call.Args) <= 2 {
				ch, ok := call.Args[0].(*ast.ChanType)
				if !ok || ch.Dir != ast.SEND|ast.RECV {
					return "", f.errf(st, "make of something else than a channel")
				}
				if stt, ok := ch.Value.(*ast.StructType); !ok || len(stt.Fields.List) != 0 {
					return "", f.errf(st, "channel element type is not struct{}")
				}
				capN := 0
				if len(call.Args) == 2 {
					bl, ok := call.Args[1].(*ast.BasicLit)
					if !ok || bl.Kind != token.INT {
						return "", f.errf(st, "channel capacity")
					}
					var err error
					if capN, err = strconv.Atoi(bl.Value); err != nil || capN < 0 {
						return "", f.errf(st, "channel capacity")
					}
				}
				if err := s.declare(st, id.Name, s.other); err != nil {
					return "", err
				}
				chans[id.Name] = true
				setup = append(setup, fmt.Sprintf("SMakeChan %s %d", igQ(id.Name), capN))
				continue
			}
			if f.isPkgSel(call.Fun, "bufio", "NewReader") && len(call.Args) == 1 {
				fid, ok := igUnparen(call.Args[0]).(*ast.Ident)
				if !ok || !files[fid.Name] {
					return "", f.errf(st, "bufio.NewReader of something else than the opened file")
				}
				if err := s.declare(st, id.Name, s.other); err != nil {
					return "", err
				}
				readers[id.Name] = fid.Name
				setup = append(setup, "SNewReader "+igQ(id.Name)+" "+igQ(fid.Name))
				continue
			}
			return "", f.errf(st, "definition from something else than make(chan struct{}) or bufio.NewReader(file)")
		case *ast.ExprStmt:
			// n.Health.OnReady(C)
			if call, ok := v.X.(*ast.CallExpr); ok {
				if sel, ok := call.Fun.(*ast.SelectorExpr); ok {
					if inner, ok := sel.X.(*ast.SelectorExpr); ok && inner.Sel.Name == "Health" && igIsIdent(inner.X, recv) {
						if sel.Sel.Name != "OnReady" || len(call.Args) != 1 {
							return "", f.errf(st, "Health method %s", sel.Sel.Name)
						}
						var val string
						okc := false
						switch a := igUnparen(call.Args[0]).(type) {
						case *ast.Ident:
							if !s.declared(a.Name) {
								val, okc = f.strConsts[a.Name]
							}
						case *ast.BasicLit:
							if a.Kind == token.STRING {
								v2, err := strconv.Unquote(a.Value)
								val, okc = v2, err == nil
							}
						}
						q, okq := igCoqStr(val)
						if !okc || !okq {
							return "", f.errf(st, "OnReady argument is not a string constant")
						}
						setup = append(setup, "SOnReady "+q)
						continue
					}
				}
			}
			if m, isLog, err := s.logCall(v.X); isLog {
				if err != nil {
					return "", err
				}
				setup = append(setup, "SLog "+igQ(m))
				continue
			}
			return "", f.errf(st, "expression statement form in the set-up part")
		case *ast.GoStmt:
			fl, ok := v.Call.Fun.(*ast.FuncLit)
			if !ok || len(v.Call.Args) != 0 || len(igParams(fl.Type.Params)) != 0 || fl.Type.Results != nil || len(fl.Body.List) != 2 {
				return "", f.errf(st, "go statement form")
			}
			a, b := fl.Body.List[0], fl.Body.List[1]
			// file, err = os.OpenFile(filePath, flags, perm); close(ready)
			if as, ok := a.(*ast.AssignStmt); ok {
				if as.Tok != token.ASSIGN || len(as.Lhs) != 2 || len(as.Rhs) != 1 {
					return "", f.errf(a, "goroutine assignment form")
				}
				fid, ok1 := as.Lhs[0].(*ast.Ident)
				eid, ok2 := as.Lhs[1].(*ast.Ident)
				call, ok3 := as.Rhs[0].(*ast.CallExpr)
				if !ok1 || !ok2 || !ok3 || !files[fid.Name] || !s.errs[eid.Name] || !f.isPkgSel(call.Fun, "os", "OpenFile") || len(call.Args) != 3 ||
					!igIsIdent(call.Args[0], pathParam) {
					return "", f.errf(a, "goroutine does not do  file, err = os.OpenFile(%s, .., ..)", pathParam)
				}
				var flags []string
				var walk func(e ast.Expr) error
				walk = func(e ast.Expr) error {
					e = igUnparen(e)
					if be, ok := e.(*ast.BinaryExpr); ok && be.Op == token.OR {
						if err := walk(be.X); err != nil {
							return err
						}
						return walk(be.Y)
					}
					n, ok := f.pkgSelName(e, "os")
					if !ok {
						return f.errf(e, "open flag form")
					}
					flags = append(flags, igQ(n))
					return nil
				}
				if err := walk(call.Args[1]); err != nil {
					return "", err
				}
				perm, ok := f.pkgSelName(call.Args[2], "os")
				if !ok {
					return "", f.errf(a, "open permission form")
				}
				es, ok := b.(*ast.ExprStmt)
				if !ok {
					return "", f.errf(b, "opener goroutine does not end with close(ch)")
				}
				cl, ok := es.X.(*ast.CallExpr)
				if !ok || !igIsIdent(cl.Fun, "close") || len(cl.Args) != 1 {
					return "", f.errf(b, "opener goroutine does not end with close(ch)")
				}
				cid, ok := igUnparen(cl.Args[0]).(*ast.Ident)
				if !ok || !chans[cid.Name] {
					return "", f.errf(b, "opener goroutine does not end with close(ch)")
				}
				setup = append(setup, "SGoOpen "+igQ(fid.Name)+" "+igQ(eid.Name)+" ["+strings.Join(flags, "; ")+"] "+igQ(perm)+" "+igQ(cid.Name))
				continue
			}
			// <-ctx.Done(); file.Close()
			if es, ok := a.(*ast.ExprStmt); ok && igIsRecvDone(es.X, s.ctx) {
				es2, ok := b.(*ast.ExprStmt)
				if !ok {
					return "", f.errf(b, "goroutine after <-ctx.Done() does not call file.Close()")
				}
				call, ok := es2.X.(*ast.CallExpr)
				if !ok || len(call.Args) != 0 {
					return "", f.errf(b, "goroutine after <-ctx.Done() does not call file.Close()")
				}
				sel, ok := call.Fun.(*ast.SelectorExpr)
				if !ok || sel.Sel.Name != "Close" {
					return "", f.errf(b, "goroutine after <-ctx.Done() does not call file.Close()")
				}
				fid, ok := sel.X.(*ast.Ident)
				if !ok || !files[fid.Name] {
					return "", f.errf(b, "goroutine after <-ctx.Done() does not call file.Close()")
				}
				setup = append(setup, "SGoCloseOnCancel "+igQ(fid.Name))
				continue
			}
			return "", f.errf(st, "goroutine body form")
		case *ast.SelectStmt:
			var arms []string
			for _, cl := range v.Body.List {
				cc, ok := cl.(*ast.CommClause)
				if !ok || cc.Comm == nil {
					return "", f.errf(cl, "select with a default arm")
				}
				es, ok := cc.Comm.(*ast.ExprStmt)
				if !ok {
					return "", f.errf(cl, "select arm that is not a bare receive")
				}
				if igIsRecvDone(es.X, s.ctx) {
					if len(cc.Body) != 1 {
						return "", f.errf(cl, "ctx.Done arm does not just return")
					}
					rs, ok := cc.Body[0].(*ast.ReturnStmt)
					if !ok || len(rs.Results) != 1 {
						return "", f.errf(cl, "ctx.Done arm does not just return")
					}
					e, err := ierrOf(rs.Results[0])
					if err != nil {
						return "", err
					}
					arms = append(arms, "SArmDone ("+e+")")
					continue
				}
				ue, ok := igUnparen(es.X).(*ast.UnaryExpr)
				if ok && ue.Op == token.ARROW {
					if cid, ok := igUnparen(ue.X).(*ast.Ident); ok && chans[cid.Name] && len(cc.Body) == 0 {
						arms = append(arms, "SArmRecv "+igQ(cid.Name))
						continue
					}
				}
				return "", f.errf(cl, "select arm form")
			}
			setup = append(setup, "SSelect ["+strings.Join(arms, "; ")+"]")
		case *ast.IfStmt:
			if v.Init != nil || v.Else != nil || len(v.Body.List) != 1 {
				return "", f.errf(st, "if form in the set-up part")
			}
			be, ok := igUnparen(v.Cond).(*ast.BinaryExpr)
			if !ok || be.Op != token.NEQ || !igIsIdent(be.Y, "nil") {
				return "", f.errf(st, "if form in the set-up part")
			}
			x, ok := igUnparen(be.X).(*ast.Ident)
			if !ok || !s.errs[x.Name] {
				return "", f.errf(st, "if form in the set-up part")
			}
			rs, ok := v.Body.List[0].(*ast.ReturnStmt)
			if !ok || len(rs.Results) != 1 {
				return "", f.errf(st, "if form in the set-up part")
			}
			e, err := ierrOf(rs.Results[0])
			if err != nil {
				return "", err
			}
			setup = append(setup, "SIfErrReturn "+igQ(x.Name)+" ("+e+")")
		case *ast.DeferStmt:
			sel, ok := v.Call.Fun.(*ast.SelectorExpr)
			if !ok || sel.Sel.Name != "Close" || len(v.Call.Args) != 0 {
				return "", f.errf(st, "defer of something else than file.Close()")
			}
			fid, ok := sel.X.(*ast.Ident)
			if !ok || !files[fid.Name] {
				return "", f.errf(st, "defer of something else than file.Close()")
			}
			setup = append(setup, "SDeferClose "+igQ(fid.Name))
		default:
			return "", f.errf(st, "statement form %T in the set-up part", st)
		}
	}
	if len(readers) != 1 {
		return "", f.errf(fd, "not exactly one bufio.Reader")
	}
	reader := ""
	for r := range readers {
		reader = r
	}
	l := &igLoop{s: s.child(), reader: reader}
	loop, err := l.stmts(last.Body.List, "    ", true)
	if err != nil {
		return "", err
	}
	return "{|\n  ip_setup := " + igList("    ", setup) + ";\n  ip_loop := " + igList("    ", loop) + " |}", nil
}

// ---------------------------------------------------------------------------------------------
// the wrappers and the callbacks

func igGenWrapper(f *igFile, recvType string) (string, error) {
	fd, recv, err := f.method(recvType, "Ingest")
	if err != nil {
		return "", err
	}
	ps := igParams(fd.Type.Params)
	if len(ps) != 1 || ps[0].name == "_" || !f.isPkgSel(ps[0].typ, "context", "Context") || !igReturnsError(fd) {
		return "", f.errf(fd, "signature is not (context.Context) error")
	}
	fields, err := f.structFields(recvType)
	if err != nil {
		return "", err
	}
	if len(fd.Body.List) != 1 {
		return "", f.errf(fd, "body is not a single return")
	}
	rs, ok := fd.Body.List[0].(*ast.ReturnStmt)
	if !ok || len(rs.Results) != 1 {
		return "", f.errf(fd, "body is not a single return")
	}
	call, ok := rs.Results[0].(*ast.CallExpr)
	if !ok || len(call.Args) != 4 {
		return "", f.errf(rs, "does not return x.Ingest(ctx, path, delim, callback)")
	}
	sel, ok := call.Fun.(*ast.SelectorExpr)
	if !ok || sel.Sel.Name != "Ingest" {
		return "", f.errf(rs, "does not return x.Ingest(ctx, path, delim, callback)")
	}
	fsel, ok := sel.X.(*ast.SelectorExpr)
	if !ok || !igIsIdent(fsel.X, recv) || !f.isPkgSel(fields[fsel.Sel.Name], igNamedpipePath, "NamedPipeIngester") {
		return "", f.errf(rs, "Ingest is not called on a namedpipe.NamedPipeIngester field of the receiver")
	}
	if !igIsIdent(call.Args[0], ps[0].name) {
		return "", f.errf(rs, "first argument is not the context")
	}
	psel, ok := call.Args[1].(*ast.SelectorExpr)
	if !ok || !igIsIdent(psel.X, recv) || !igIsIdent(fields[psel.Sel.Name], "string") {
		return "", f.errf(rs, "path argument is not a string field of the receiver")
	}
	bl, ok := igUnparen(call.Args[2]).(*ast.BasicLit)
	if !ok {
		return "", f.errf(rs, "delimiter argument is not a literal")
	}
	d := -1
	switch bl.Kind {
	case token.CHAR:
		r, _, _, err := strconv.UnquoteChar(bl.Value[1:len(bl.Value)-1], '\'')
		if err == nil && r >= 0 && r <= 255 {
			d = int(r)
		}
	case token.INT:
		if n, err := strconv.ParseInt(bl.Value, 0, 32); err == nil && n >= 0 && n <= 255 {
			d = int(n)
		}
	}
	if d < 0 {
		return "", f.errf(rs, "delimiter argument is not a byte literal")
	}
	csel, ok := call.Args[3].(*ast.SelectorExpr)
	if !ok || !igIsIdent(csel.X, recv) {
		return "", f.errf(rs, "callback argument is not a method of the receiver")
	}
	if _, _, err := f.method(recvType, csel.Sel.Name); err != nil {
		return "", f.errf(rs, "callback argument is not a method of the receiver: %v", err)
	}
	return fmt.Sprintf("{| wr_ingester := %s; wr_path := %s; wr_delim := %d; wr_callback := %s |}",
		igQ(fsel.Sel.Name), igQ(psel.Sel.Name), d, igQ(csel.Sel.Name)), nil
}

func igProcessScope(f *igFile, recvType string) (*ast.FuncDecl, *igScope, string, error) {
	fd, recv, err := f.method(recvType, "Process")
	if err != nil {
		return nil, nil, "", err
	}
	ps := igParams(fd.Type.Params)
	if len(ps) != 2 || ps[0].name == "_" || ps[1].name == "_" || !f.isPkgSel(ps[0].typ, "context", "Context") ||
		!igIsIdent(ps[1].typ, "string") || !igReturnsError(fd) {
		return nil, nil, "", f.errf(fd, "signature is not (context.Context, string) error")
	}
	s := &igScope{f: f, recv: recv, ctx: ps[0].name, strs: map[string]bool{}, errs: map[string]bool{}, other: map[string]bool{}}
	if err := s.declare(fd, recv, s.other); err != nil {
		return nil, nil, "", err
	}
	if err := s.declare(fd, ps[0].name, s.other); err != nil {
		return nil, nil, "", err
	}
	if err := s.declare(fd, ps[1].name, s.strs); err != nil {
		return nil, nil, "", err
	}
	return fd, s, ps[1].name, nil
}

// a.<ch> <- what, with <ch> a chan string field of the receiver
func igSend(f *igFile, s *igScope, fields map[string]ast.Expr, st ast.Stmt) (string, string, bool, error) {
	ss, ok := st.(*ast.SendStmt)
	if !ok {
		return "", "", false, nil
	}
	sel, ok := ss.Chan.(*ast.SelectorExpr)
	if !ok || !igIsIdent(sel.X, s.recv) {
		return "", "", true, f.errf(st, "send on something else than a field of the receiver")
	}
	ct, ok := fields[sel.Sel.Name].(*ast.ChanType)
	if !ok || !igIsIdent(ct.Value, "string") {
		return "", "", true, f.errf(st, "send on a field that is not a chan string")
	}
	w, err := s.sexp(ss.Value)
	if err != nil {
		return "", "", true, err
	}
	return sel.Sel.Name, w, true, nil
}

func igReturnOf(f *igFile, s *igScope, list []ast.Stmt, at ast.Node) (string, error) {
	if len(list) != 1 {
		return "", f.errf(at, "arm does not just return")
	}
	rs, ok := list[0].(*ast.ReturnStmt)
	if !ok || len(rs.Results) != 1 {
		return "", f.errf(at, "arm does not just return")
	}
	return s.eexp(rs.Results[0])
}

func igGenAuditProcess(f *igFile) (string, error) {
	fd, s, line, err := igProcessScope(f, "AuditLogIngester")
	if err != nil {
		return "", err
	}
	fields, err := f.structFields("AuditLogIngester")
	if err != nil {
		return "", err
	}
	body := fd.Body.List
	var pb string
	switch {
	case len(body) == 1:
		sel, ok := body[0].(*ast.SelectStmt)
		if !ok {
			return "", f.errf(body[0], "body is neither a select nor  send; return")
		}
		var arms []string
		for _, cl := range sel.Body.List {
			cc, ok := cl.(*ast.CommClause)
			if !ok || cc.Comm == nil {
				return "", f.errf(cl, "select with a default arm")
			}
			if es, ok := cc.Comm.(*ast.ExprStmt); ok && igIsRecvDone(es.X, s.ctx) {
				e, err := igReturnOf(f, s, cc.Body, cl)
				if err != nil {
					return "", err
				}
				arms = append(arms, "PArmDone ("+e+")")
				continue
			}
			ch, w, isSend, err := igSend(f, s, fields, cc.Comm)
			if err != nil {
				return "", err
			}
			if !isSend {
				return "", f.errf(cl, "select arm form")
			}
			e, err := igReturnOf(f, s, cc.Body, cl)
			if err != nil {
				return "", err
			}
			arms = append(arms, "PArmSend "+igQ(ch)+" ("+w+") ("+e+")")
		}
		pb = "PSelect [" + strings.Join(arms, "; ") + "]"
	case len(body) == 2:
		ch, w, isSend, err := igSend(f, s, fields, body[0])
		if err != nil {
			return "", err
		}
		if !isSend {
			return "", f.errf(body[0], "body is neither a select nor  send; return")
		}
		e, err := igReturnOf(f, s, body[1:], body[1])
		if err != nil {
			return "", err
		}
		pb = "PSend " + igQ(ch) + " (" + w + ") (" + e + ")"
	default:
		return "", f.errf(fd, "body is neither a select nor  send; return")
	}
	return "{| pr_line := " + igQ(line) + "; pr_body := " + pb + " |}", nil
}

// sm := s.<Parse>(arg); return s.<Processor>.<Process>(ctx, sm)
func igGenSyslogProcess(f *igFile) (string, error) {
	fd, s, line, err := igProcessScope(f, "SyslogIngester")
	if err != nil {
		return "", err
	}
	fields, err := f.structFields("SyslogIngester")
	if err != nil {
		return "", err
	}
	body := fd.Body.List
	if len(body) != 2 {
		return "", f.errf(fd, "body is not  sm := s.Parse(..); return s.Processor.Process(ctx, sm)")
	}
	as, ok := body[0].(*ast.AssignStmt)
	if !ok || as.Tok != token.DEFINE || len(as.Lhs) != 1 || len(as.Rhs) != 1 {
		return "", f.errf(body[0], "first statement is not  sm := s.Parse(..)")
	}
	sm, ok := as.Lhs[0].(*ast.Ident)
	call, ok2 := as.Rhs[0].(*ast.CallExpr)
	if !ok || !ok2 || len(call.Args) != 1 {
		return "", f.errf(body[0], "first statement is not  sm := s.Parse(..)")
	}
	psel, ok := call.Fun.(*ast.SelectorExpr)
	if !ok || !igIsIdent(psel.X, s.recv) {
		return "", f.errf(body[0], "first statement is not  sm := s.Parse(..)")
	}
	if _, _, err := f.method("SyslogIngester", psel.Sel.Name); err != nil {
		return "", f.errf(body[0], "%v", err)
	}
	arg, err := s.sexp(call.Args[0])
	if err != nil {
		return "", err
	}
	if err := s.declare(body[0], sm.Name, s.other); err != nil {
		return "", err
	}
	rs, ok := body[1].(*ast.ReturnStmt)
	if !ok || len(rs.Results) != 1 {
		return "", f.errf(body[1], "second statement is not  return s.Processor.Process(ctx, sm)")
	}
	rc, ok := rs.Results[0].(*ast.CallExpr)
	if !ok || len(rc.Args) != 2 || !igIsIdent(rc.Args[0], s.ctx) || !igIsIdent(rc.Args[1], sm.Name) {
		return "", f.errf(body[1], "second statement is not  return s.Processor.Process(ctx, sm)")
	}
	msel, ok := rc.Fun.(*ast.SelectorExpr)
	if !ok {
		return "", f.errf(body[1], "second statement is not  return s.Processor.Process(ctx, sm)")
	}
	fsel, ok := msel.X.(*ast.SelectorExpr)
	if !ok || !igIsIdent(fsel.X, s.recv) || fields[fsel.Sel.Name] == nil {
		return "", f.errf(body[1], "second statement is not  return s.Processor.Process(ctx, sm)")
	}
	return "{| pr_line := " + igQ(line) + "; pr_body := PParseAndProcess " + igQ(psel.Sel.Name) + " (" + arg + ") " +
		igQ(fsel.Sel.Name) + " " + igQ(msel.Sel.Name) + " |}", nil
}

// ---------------------------------------------------------------------------------------------

func igGen(repo, out string) error {
	var sb strings.Builder
	sb.WriteString("(* GENERATED by tools/go2v (ingestgen.go) from ingesters/namedpipe/namedpipeingester.go,\n")
	sb.WriteString("   ingesters/auditlog/auditlogingester.go and ingesters/syslog/syslogingester.go.  Do not edit.\n")
	sb.WriteString("   NamedPipeIngester.Ingest statement by statement, what the two wrappers pass to it, what the callbacks do\n")
	sb.WriteString("   with a line; in the IR of Model/IngestIR.v. *)\n")
	sb.WriteString("From Coq Require Import String List.\nImport ListNotations.\nFrom AM Require Import Model.IngestIR.\nOpen Scope string_scope.\n\n")
	def := func(name, typ, body string, err error) {
		if err != nil {
			fmt.Fprintf(&sb, "(* UNSUPPORTED: %s *)\nDefinition %s : %s := UNSUPPORTED_%s.\n\n", igComment(err.Error()), name, typ, name)
			return
		}
		fmt.Fprintf(&sb, "Definition %s : %s := %s.\n\n", name, typ, body)
	}
	b, err := igGenIngest(repo)
	def("gen_Ingest", "iprog", b, err)

	af, aerr := igLoad(filepath.Join(repo, "ingesters/auditlog/auditlogingester.go"))
	b, err = "", aerr
	if aerr == nil {
		b, err = igGenWrapper(af, "AuditLogIngester")
	}
	def("gen_auditlog_Ingest", "iwrapper", b, err)
	b, err = "", aerr
	if aerr == nil {
		b, err = igGenAuditProcess(af)
	}
	def("gen_auditlog_Process", "iprocess", b, err)

	sf, serr := igLoad(filepath.Join(repo, "ingesters/syslog/syslogingester.go"))
	b, err = "", serr
	if serr == nil {
		b, err = igGenWrapper(sf, "SyslogIngester")
	}
	def("gen_syslog_Ingest", "iwrapper", b, err)
	b, err = "", serr
	if serr == nil {
		b, err = igGenSyslogProcess(sf)
	}
	def("gen_syslog_Process", "iprocess", b, err)
	return os.WriteFile(filepath.Join(out, "IngestProg.v"), []byte(sb.String()), 0o644)
}
