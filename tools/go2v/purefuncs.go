package main

// purefuncs.go: a few pure string functions of the Go source, translated statement by statement
// into Gallina definitions over coq/Lib/GoStrings.v (-> Gen/PureFuncs.v).
//
// The translator understands a small, explicitly listed subset of Go: straight-line code with
// := / = on local variables, const / var declarations, if / tag-less switch whose branches all
// return, return, and one loop form (for _, c := range <string>).  Expressions: literals, local
// identifiers, len, uint64(..) conversions, comparisons, && || !, + - * on uint64 / rune, +
// on strings, indexing and slicing (whose run-time panic becomes None), a fixed table of
// package-strings functions, struct literals with string fields, and calls of other translated
// functions.  There are no types from go/types: the translator carries its own (tiny) types.
// Everything else makes the definition UNSUPPORTED_... (an identifier that does not exist in Coq).
// Nothing is matched textually: every definition is obtained by walking the AST of the function.

import (
	"fmt"
	"go/ast"
	"go/parser"
	"go/token"
	"os"
	"path/filepath"
	"sort"
	"strconv"
	"strings"
)

func init() { generators = append(generators, genPureFuncs) }

// ---------------------------------------------------------------------------------------------
// types and values

type pfKind int

const (
	pfKString pfKind = iota
	pfKInt
	pfKU64
	pfKRune
	pfKBool
	pfKStrs   // []string
	pfKStruct // named struct, all fields string
	pfKTuple
	pfKUntypedInt
	pfKUntypedRune
	pfKUntypedStr
	pfKOpaque // receiver, context: not usable as a value
)

type pfTy struct {
	k     pfKind
	name  string // struct: Go type name
	elems []pfTy // tuple
}

func (t pfTy) eq(u pfTy) bool {
	if t.k != u.k || t.name != u.name || len(t.elems) != len(u.elems) {
		return false
	}
	for i := range t.elems {
		if !t.elems[i].eq(u.elems[i]) {
			return false
		}
	}
	return true
}

func (t pfTy) untyped() bool {
	return t.k == pfKUntypedInt || t.k == pfKUntypedRune || t.k == pfKUntypedStr
}

func (t pfTy) coq() string {
	switch t.k {
	case pfKString:
		return "str"
	case pfKInt:
		return "nat"
	case pfKU64:
		return "N"
	case pfKRune:
		return "Z"
	case pfKBool:
		return "bool"
	case pfKStrs:
		return "list str"
	case pfKStruct:
		return "go_" + t.name
	case pfKTuple:
		var ps []string
		for _, e := range t.elems {
			ps = append(ps, e.coq())
		}
		return "(" + strings.Join(ps, " * ") + ")"
	}
	return "UNSUPPORTED_type"
}

func (t pfTy) String() string {
	switch t.k {
	case pfKString:
		return "string"
	case pfKInt:
		return "int"
	case pfKU64:
		return "uint64"
	case pfKRune:
		return "rune"
	case pfKBool:
		return "bool"
	case pfKStrs:
		return "[]string"
	case pfKStruct:
		return t.name
	case pfKTuple:
		return "tuple"
	case pfKUntypedInt:
		return "untyped int"
	case pfKUntypedRune:
		return "untyped rune"
	case pfKUntypedStr:
		return "untyped string"
	}
	return "opaque"
}

type pfVal struct {
	coq     string
	ty      pfTy
	isConst bool
	ci      int64  // value of an integer / rune constant
	cs      string // value of a string constant
}

type pfVar struct {
	coq  string
	ty   pfTy
	cst  *pfVal // declared with const: used by value
	role string // "", recv, ctx, sortidx, sortslice
}

type pfEnv map[string]*pfVar

func (e pfEnv) clone() pfEnv {
	n := pfEnv{}
	for k, v := range e {
		n[k] = v
	}
	return n
}

type pfUnsupported struct{ why string }

type pfBind struct{ name, term string }

type pfStructDef struct {
	name   string
	fields []string // declared order; all of type string
}

// a translated function
type pfFunc struct {
	goName   string
	coqName  string
	decl     *ast.FuncDecl // nil for a closure
	lit      *ast.FuncLit
	file     *pfFile
	params   []*pfVar
	results  []pfTy
	optional bool   // the definition is in option: some operation on the way can panic
	handover string // non-empty: the function's "result" is the 2nd argument of the call  return recv.<field>.<handover>(ctx, X)
	usesRecv bool
	body     string
	err      string
	notes    []string
}

type pfFile struct {
	path    string
	src     []byte
	ast     *ast.File
	imports map[string]string // local name -> import path
	pkgTop  map[string]bool   // package-level names of the whole package
}

type pfCtx struct {
	repo, modPath string
	fset          *token.FileSet
	funcs         map[string]*pfFunc // by Go name (methods by method name), already translated
	structs       map[string]*pfStructDef
	structOrder   []string
	// per function
	fn       *pfFunc
	pre      []pfBind
	fresh    int
	panics   int
	optional bool
}

func (c *pfCtx) fail(n ast.Node, format string, a ...interface{}) {
	where := ""
	if n != nil && c.fn != nil && c.fn.file != nil {
		p := c.fset.Position(n.Pos())
		where = fmt.Sprintf(" (%s:%d: %s)", filepath.Base(p.Filename), p.Line, c.text(n))
	}
	panic(pfUnsupported{fmt.Sprintf(format, a...) + where})
}

func (c *pfCtx) text(n ast.Node) string {
	if c.fn == nil || c.fn.file == nil {
		return ""
	}
	a, b := c.fset.Position(n.Pos()).Offset, c.fset.Position(n.End()).Offset
	if a < 0 || b > len(c.fn.file.src) || a > b {
		return ""
	}
	s := string(c.fn.file.src[a:b])
	if len(s) > 120 {
		s = s[:120] + "..."
	}
	return s
}

func pfComment(s string) string {
	s = strings.ReplaceAll(s, "(*", "( *")
	s = strings.ReplaceAll(s, "*)", "* )")
	s = strings.ReplaceAll(s, "\"", "''")
	return s
}

func pfIdent(s string) string {
	var sb strings.Builder
	for _, r := range s {
		if r >= 'a' && r <= 'z' || r >= 'A' && r <= 'Z' || r >= '0' && r <= '9' || r == '_' {
			sb.WriteRune(r)
		} else {
			sb.WriteByte('_')
		}
	}
	return sb.String()
}

// a Go string constant as a Coq term of type str
func pfStrLit(s string) string {
	printable := true
	for i := 0; i < len(s); i++ {
		if s[i] < 0x20 || s[i] > 0x7e {
			printable = false
		}
	}
	if printable {
		return "(s2l \"" + strings.ReplaceAll(s, "\"", "\"\"") + "\")"
	}
	var bs []string
	for i := 0; i < len(s); i++ {
		bs = append(bs, fmt.Sprintf("\"%03d\"%%char", s[i]))
	}
	return "[" + strings.Join(bs, "; ") + "]"
}

func (c *pfCtx) newName(hint string) string {
	c.fresh++
	return fmt.Sprintf("t%d_%s", c.fresh, pfIdent(hint))
}

// bind the result of an operation that can panic
func (c *pfCtx) bind(hint, optTerm string) string {
	n := c.newName(hint)
	c.pre = append(c.pre, pfBind{n, optTerm})
	c.panics++
	return n
}

// wrap the pending binds around a term of the function's result monad
func (c *pfCtx) flush(k string) string {
	for i := len(c.pre) - 1; i >= 0; i-- {
		k = "obind (" + c.pre[i].term + ") (fun " + c.pre[i].name + " =>\n" + k + ")"
	}
	c.pre = nil
	return k
}

// convert a value to a type (only untyped constants convert)
func (c *pfCtx) conv(n ast.Node, v pfVal, t pfTy) pfVal {
	if v.ty.eq(t) {
		return v
	}
	switch v.ty.k {
	case pfKUntypedInt, pfKUntypedRune:
		switch t.k {
		case pfKInt:
			if v.ci < 0 {
				c.fail(n, "negative int constant (int is modelled by nat)")
			}
			return pfVal{coq: strconv.FormatInt(v.ci, 10), ty: t, isConst: true, ci: v.ci}
		case pfKU64:
			if v.ci < 0 {
				c.fail(n, "negative constant for uint64")
			}
			return pfVal{coq: strconv.FormatInt(v.ci, 10) + "%N", ty: t, isConst: true, ci: v.ci}
		case pfKRune:
			if v.ci < -(1<<31) || v.ci >= 1<<31 {
				c.fail(n, "constant overflows int32")
			}
			return pfVal{coq: "(" + strconv.FormatInt(v.ci, 10) + ")%Z", ty: t, isConst: true, ci: v.ci}
		}
	case pfKUntypedStr:
		if t.k == pfKString {
			return pfVal{coq: pfStrLit(v.cs), ty: t, isConst: true, cs: v.cs}
		}
	}
	c.fail(n, "cannot use %s as %s", v.ty, t)
	return pfVal{}
}

// the type a value has when it is stored in a variable
func (c *pfCtx) defaulted(n ast.Node, v pfVal) pfVal {
	switch v.ty.k {
	case pfKUntypedInt:
		return c.conv(n, v, pfTy{k: pfKInt})
	case pfKUntypedRune:
		return c.conv(n, v, pfTy{k: pfKRune})
	case pfKUntypedStr:
		return c.conv(n, v, pfTy{k: pfKString})
	}
	return v
}

// ---------------------------------------------------------------------------------------------
// expressions

var pfReserved = []string{"len", "uint64", "string", "true", "false", "int", "rune", "make", "append"}

// is `name` the package imported from `path` (and not a local variable)?
func (c *pfCtx) isPkg(env pfEnv, e ast.Expr, path string) bool {
	id, ok := e.(*ast.Ident)
	if !ok {
		return false
	}
	if _, local := env[id.Name]; local {
		return false
	}
	if c.fn.file.pkgTop[id.Name] {
		return false
	}
	return c.fn.file.imports[id.Name] == path
}

func (c *pfCtx) builtin(env pfEnv, e ast.Expr, name string) bool {
	id, ok := e.(*ast.Ident)
	if !ok || id.Name != name {
		return false
	}
	if _, local := env[name]; local {
		return false
	}
	return !c.fn.file.pkgTop[name]
}

func (c *pfCtx) expr(env pfEnv, e ast.Expr) pfVal {
	switch x := e.(type) {
	case *ast.ParenExpr:
		return c.expr(env, x.X)
	case *ast.BasicLit:
		switch x.Kind {
		case token.INT:
			v, err := strconv.ParseInt(x.Value, 0, 64)
			if err != nil {
				c.fail(e, "integer literal out of range")
			}
			return pfVal{ty: pfTy{k: pfKUntypedInt}, isConst: true, ci: v}
		case token.CHAR:
			s, err := strconv.Unquote(x.Value)
			if err != nil {
				c.fail(e, "bad rune literal")
			}
			rs := []rune(s)
			if len(rs) != 1 {
				c.fail(e, "bad rune literal")
			}
			return pfVal{ty: pfTy{k: pfKUntypedRune}, isConst: true, ci: int64(rs[0])}
		case token.STRING:
			s, err := strconv.Unquote(x.Value)
			if err != nil {
				c.fail(e, "bad string literal")
			}
			return pfVal{ty: pfTy{k: pfKUntypedStr}, isConst: true, cs: s}
		}
		c.fail(e, "literal kind")
	case *ast.Ident:
		if v, ok := env[x.Name]; ok {
			if v.cst != nil {
				return *v.cst
			}
			if v.role != "" {
				c.fail(e, "%s used as a value", x.Name)
			}
			return pfVal{coq: v.coq, ty: v.ty}
		}
		if c.builtin(env, e, "true") {
			return pfVal{coq: "true", ty: pfTy{k: pfKBool}, isConst: true, ci: 1}
		}
		if c.builtin(env, e, "false") {
			return pfVal{coq: "false", ty: pfTy{k: pfKBool}, isConst: true, ci: 0}
		}
		c.fail(e, "identifier %s is not a local variable", x.Name)
	case *ast.UnaryExpr:
		if x.Op == token.NOT {
			v := c.expr(env, x.X)
			if v.ty.k != pfKBool {
				c.fail(e, "! on %s", v.ty)
			}
			return pfVal{coq: "(negb " + v.coq + ")", ty: v.ty}
		}
		c.fail(e, "unary operator %s", x.Op)
	case *ast.BinaryExpr:
		return c.binary(env, x)
	case *ast.CallExpr:
		return c.call(env, x)
	case *ast.IndexExpr:
		return c.index(env, x)
	case *ast.SliceExpr:
		return c.slice(env, x)
	case *ast.CompositeLit:
		return c.composite(env, x)
	}
	c.fail(e, "expression form %T", e)
	return pfVal{}
}

func (c *pfCtx) binary(env pfEnv, x *ast.BinaryExpr) pfVal {
	boolT := pfTy{k: pfKBool}
	if x.Op == token.LAND || x.Op == token.LOR {
		a := c.expr(env, x.X)
		before := len(c.pre)
		b := c.expr(env, x.Y)
		if len(c.pre) != before {
			c.fail(x.Y, "operation that can panic in the right operand of %s (evaluated conditionally)", x.Op)
		}
		if a.ty.k != pfKBool || b.ty.k != pfKBool {
			c.fail(x, "%s on non-bool", x.Op)
		}
		op := "andb"
		if x.Op == token.LOR {
			op = "orb"
		}
		return pfVal{coq: "(" + op + " " + a.coq + " " + b.coq + ")", ty: boolT}
	}
	a := c.expr(env, x.X)
	b := c.expr(env, x.Y)
	if a.ty.untyped() && b.ty.untyped() {
		c.fail(x, "constant expression (not folded)")
	}
	if a.ty.untyped() {
		a = c.conv(x.X, a, b.ty)
	} else if b.ty.untyped() {
		b = c.conv(x.Y, b, a.ty)
	}
	if !a.ty.eq(b.ty) {
		c.fail(x, "operands of different types %s, %s", a.ty, b.ty)
	}
	t := a.ty
	ap := func(f string) string { return "(" + f + " " + a.coq + " " + b.coq + ")" }
	sw := func(f string) string { return "(" + f + " " + b.coq + " " + a.coq + ")" }
	type cmpSet struct{ lt, le, eq string }
	cmps := map[pfKind]cmpSet{
		pfKInt:    {"Nat.ltb", "Nat.leb", "Nat.eqb"},
		pfKU64:    {"N.ltb", "N.leb", "N.eqb"},
		pfKRune:   {"Z.ltb", "Z.leb", "Z.eqb"},
		pfKString: {"str_ltb", "str_leb", "seqb"},
		pfKBool:   {"", "", "Bool.eqb"},
	}
	switch x.Op {
	case token.LSS, token.GTR, token.LEQ, token.GEQ, token.EQL, token.NEQ:
		cs, ok := cmps[t.k]
		if !ok {
			c.fail(x, "comparison on %s", t)
		}
		if t.k == pfKBool && x.Op != token.EQL && x.Op != token.NEQ {
			c.fail(x, "ordering on bool")
		}
		switch x.Op {
		case token.LSS:
			return pfVal{coq: ap(cs.lt), ty: boolT}
		case token.GTR:
			return pfVal{coq: sw(cs.lt), ty: boolT}
		case token.LEQ:
			return pfVal{coq: ap(cs.le), ty: boolT}
		case token.GEQ:
			return pfVal{coq: sw(cs.le), ty: boolT}
		case token.EQL:
			return pfVal{coq: ap(cs.eq), ty: boolT}
		default:
			return pfVal{coq: "(negb " + ap(cs.eq) + ")", ty: boolT}
		}
	case token.ADD, token.SUB, token.MUL:
		switch t.k {
		case pfKU64:
			f := map[token.Token]string{token.ADD: "go_u64_add", token.SUB: "go_u64_sub", token.MUL: "go_u64_mul"}[x.Op]
			return pfVal{coq: ap(f), ty: t}
		case pfKRune:
			if x.Op == token.MUL {
				c.fail(x, "* on int32")
			}
			f := map[token.Token]string{token.ADD: "go_i32_add", token.SUB: "go_i32_sub"}[x.Op]
			return pfVal{coq: ap(f), ty: t}
		case pfKString:
			if x.Op == token.ADD {
				return pfVal{coq: "(" + a.coq + " ++ " + b.coq + ")", ty: t}
			}
		}
		c.fail(x, "%s on %s (int arithmetic is not modelled)", x.Op, t)
	}
	c.fail(x, "binary operator %s", x.Op)
	return pfVal{}
}

func pfASCII(s string) bool {
	for i := 0; i < len(s); i++ {
		if s[i] >= 0x80 {
			return false
		}
	}
	return true
}

func (c *pfCtx) args(env pfEnv, call *ast.CallExpr, tys ...pfKind) []pfVal {
	if len(call.Args) != len(tys) || call.Ellipsis != token.NoPos {
		c.fail(call, "argument count")
	}
	var vs []pfVal
	for i, a := range call.Args {
		vs = append(vs, c.conv(a, c.expr(env, a), pfTy{k: tys[i]}))
	}
	return vs
}

func (c *pfCtx) call(env pfEnv, call *ast.CallExpr) pfVal {
	strT, boolT := pfTy{k: pfKString}, pfTy{k: pfKBool}
	// builtins and conversions
	if c.builtin(env, call.Fun, "len") {
		if len(call.Args) != 1 {
			c.fail(call, "len")
		}
		v := c.expr(env, call.Args[0])
		if v.ty.k == pfKUntypedStr {
			v = c.conv(call.Args[0], v, strT)
		}
		if v.ty.k != pfKString && v.ty.k != pfKStrs {
			c.fail(call, "len of %s", v.ty)
		}
		return pfVal{coq: "(length " + v.coq + ")", ty: pfTy{k: pfKInt}}
	}
	if c.builtin(env, call.Fun, "uint64") {
		if len(call.Args) != 1 {
			c.fail(call, "uint64")
		}
		v := c.expr(env, call.Args[0])
		switch v.ty.k {
		case pfKU64:
			return v
		case pfKRune:
			return pfVal{coq: "(go_u64_of_i32 " + v.coq + ")", ty: pfTy{k: pfKU64}}
		case pfKInt:
			return pfVal{coq: "(go_u64 (N.of_nat " + v.coq + "))", ty: pfTy{k: pfKU64}}
		case pfKUntypedInt, pfKUntypedRune:
			return c.conv(call, v, pfTy{k: pfKU64})
		}
		c.fail(call, "uint64 of %s", v.ty)
	}
	if sel, ok := call.Fun.(*ast.SelectorExpr); ok {
		// package strings
		if c.isPkg(env, sel.X, "strings") {
			switch sel.Sel.Name {
			case "HasPrefix", "HasSuffix":
				a := c.args(env, call, pfKString, pfKString)
				f := map[string]string{"HasPrefix": "go_has_prefix", "HasSuffix": "go_has_suffix"}[sel.Sel.Name]
				return pfVal{coq: "(" + f + " " + a[0].coq + " " + a[1].coq + ")", ty: boolT}
			case "TrimPrefix", "TrimSuffix":
				a := c.args(env, call, pfKString, pfKString)
				f := map[string]string{"TrimPrefix": "go_trim_prefix", "TrimSuffix": "go_trim_suffix"}[sel.Sel.Name]
				return pfVal{coq: "(" + f + " " + a[0].coq + " " + a[1].coq + ")", ty: strT}
			case "TrimLeft":
				a := c.args(env, call, pfKString, pfKString)
				if !a[1].isConst || !pfASCII(a[1].cs) {
					c.fail(call, "strings.TrimLeft works on runes; the byte-wise model needs a constant cutset of bytes < 0x80")
				}
				c.note("strings.TrimLeft: cutset %q is a constant of bytes < 0x80, so removing leading bytes = removing leading runes", a[1].cs)
				return pfVal{coq: "(go_trim_left " + a[0].coq + " " + a[1].coq + ")", ty: strT}
			case "Split":
				a := c.args(env, call, pfKString, pfKString)
				if !a[1].isConst || a[1].cs == "" {
					c.fail(call, "strings.Split: the model needs a non-empty constant separator")
				}
				return pfVal{coq: "(go_split " + a[0].coq + " " + a[1].coq + ")", ty: pfTy{k: pfKStrs}}
			case "Join":
				a := c.args(env, call, pfKStrs, pfKString)
				return pfVal{coq: "(go_join " + a[0].coq + " " + a[1].coq + ")", ty: strT}
			case "Cut":
				a := c.args(env, call, pfKString, pfKString)
				return pfVal{coq: "(go_cut " + a[0].coq + " " + a[1].coq + ")", ty: pfTy{k: pfKTuple, elems: []pfTy{strT, strT, boolT}}}
			}
			c.fail(call, "strings.%s is not modelled", sel.Sel.Name)
		}
		// method of the receiver
		if id, ok := sel.X.(*ast.Ident); ok {
			if v, ok := env[id.Name]; ok && v.role == "recv" {
				f, ok := c.funcs[sel.Sel.Name]
				if !ok || f.decl == nil || f.decl.Recv == nil || c.fn.decl == nil || c.fn.decl.Recv == nil ||
					filepath.Dir(f.file.path) != filepath.Dir(c.fn.file.path) || pfRecvTypeName(f.decl) != pfRecvTypeName(c.fn.decl) {
					c.fail(call, "method %s is not a translated method of the same receiver type", sel.Sel.Name)
				}
				if f.usesRecv {
					c.fail(call, "method %s uses its receiver", sel.Sel.Name)
				}
				return c.callTranslated(env, call, f)
			}
		}
		c.fail(call, "call of %s", c.text(call.Fun))
	}
	if id, ok := call.Fun.(*ast.Ident); ok {
		if _, local := env[id.Name]; !local {
			if f, ok := c.funcs[id.Name]; ok && f.decl != nil && f.decl.Recv == nil && filepath.Dir(f.file.path) == filepath.Dir(c.fn.file.path) {
				return c.callTranslated(env, call, f)
			}
		}
		c.fail(call, "call of %s: not a translated function", id.Name)
	}
	c.fail(call, "call form")
	return pfVal{}
}

func (c *pfCtx) callTranslated(env pfEnv, call *ast.CallExpr, f *pfFunc) pfVal {
	if f.handover != "" {
		c.fail(call, "call of a hand-over function")
	}
	if len(call.Args) != len(f.params) || call.Ellipsis != token.NoPos {
		c.fail(call, "argument count")
	}
	term := f.coqName
	for i, a := range call.Args {
		term += " " + c.conv(a, c.expr(env, a), f.params[i].ty).coq
	}
	var rt pfTy
	if len(f.results) == 1 {
		rt = f.results[0]
	} else {
		rt = pfTy{k: pfKTuple, elems: f.results}
	}
	if f.optional {
		return pfVal{coq: c.bind(f.goName, term), ty: rt}
	}
	return pfVal{coq: "(" + term + ")", ty: rt}
}

func (c *pfCtx) note(format string, a ...interface{}) {
	s := fmt.Sprintf(format, a...)
	for _, n := range c.fn.notes {
		if n == s {
			return
		}
	}
	c.fn.notes = append(c.fn.notes, s)
}

func (c *pfCtx) index(env pfEnv, x *ast.IndexExpr) pfVal {
	strT := pfTy{k: pfKString}
	// comparator of sort.Slice: slice[i] for the sorted slice and an index parameter
	if sid, ok := x.X.(*ast.Ident); ok {
		if sv, ok := env[sid.Name]; ok && sv.role == "sortslice" {
			if iid, ok := x.Index.(*ast.Ident); ok {
				if iv, ok := env[iid.Name]; ok && iv.role == "sortidx" {
					return pfVal{coq: iv.coq, ty: strT}
				}
			}
			c.fail(x, "the sorted slice is indexed by something that is not a parameter of the comparator")
		}
	}
	v := c.expr(env, x.X)
	i := c.conv(x.Index, c.expr(env, x.Index), pfTy{k: pfKInt})
	if v.ty.k != pfKStrs {
		c.fail(x, "index into %s", v.ty)
	}
	return pfVal{coq: c.bind("idx", "go_nth "+v.coq+" "+i.coq), ty: strT}
}

func (c *pfCtx) slice(env pfEnv, x *ast.SliceExpr) pfVal {
	if x.Slice3 {
		c.fail(x, "3-index slice")
	}
	v := c.expr(env, x.X)
	if v.ty.k == pfKUntypedStr {
		v = c.conv(x.X, v, pfTy{k: pfKString})
	}
	if v.ty.k != pfKString && v.ty.k != pfKStrs {
		c.fail(x, "slice of %s", v.ty)
	}
	if v.ty.k == pfKStrs && x.High != nil {
		c.fail(x, "upper bound on a slice of a slice (checked against cap, not modelled)")
	}
	intT := pfTy{k: pfKInt}
	switch {
	case x.Low != nil && x.High == nil:
		lo := c.conv(x.Low, c.expr(env, x.Low), intT)
		return pfVal{coq: c.bind("from", "go_slice_from "+v.coq+" "+lo.coq), ty: v.ty}
	case x.Low == nil && x.High != nil:
		hi := c.conv(x.High, c.expr(env, x.High), intT)
		return pfVal{coq: c.bind("to", "go_slice_to "+v.coq+" "+hi.coq), ty: v.ty}
	case x.Low != nil && x.High != nil:
		lo := c.conv(x.Low, c.expr(env, x.Low), intT)
		hi := c.conv(x.High, c.expr(env, x.High), intT)
		return pfVal{coq: c.bind("sub", "go_slice "+v.coq+" "+lo.coq+" "+hi.coq), ty: v.ty}
	}
	return v // x[:]
}

// T{...} / pkg.T{...} for a struct of the repository whose fields are all strings
func (c *pfCtx) composite(env pfEnv, x *ast.CompositeLit) pfVal {
	sd := c.structOf(env, x.Type)
	if sd == nil {
		c.fail(x, "composite literal of a type that is not a struct of string fields of this module")
	}
	vals := map[string]string{}
	for _, el := range x.Elts {
		kv, ok := el.(*ast.KeyValueExpr)
		if !ok {
			c.fail(el, "positional struct literal")
		}
		k, ok := kv.Key.(*ast.Ident)
		if !ok {
			c.fail(el, "struct literal key")
		}
		found := false
		for _, f := range sd.fields {
			found = found || f == k.Name
		}
		if _, dup := vals[k.Name]; dup || !found {
			c.fail(el, "struct literal field %s", k.Name)
		}
		vals[k.Name] = c.conv(kv.Value, c.expr(env, kv.Value), pfTy{k: pfKString}).coq
	}
	var ps []string
	for _, f := range sd.fields {
		v, ok := vals[f]
		if !ok {
			v = "[]" // zero value of string
		}
		ps = append(ps, sd.name+"_"+f+" := "+v)
	}
	return pfVal{coq: "{| " + strings.Join(ps, "; ") + " |}", ty: pfTy{k: pfKStruct, name: sd.name}}
}

func (c *pfCtx) structOf(env pfEnv, te ast.Expr) *pfStructDef {
	var dir, name string
	switch t := te.(type) {
	case *ast.Ident:
		if _, local := env[t.Name]; local {
			return nil
		}
		dir, name = filepath.Dir(c.fn.file.path), t.Name
	case *ast.SelectorExpr:
		id, ok := t.X.(*ast.Ident)
		if !ok {
			return nil
		}
		if _, local := env[id.Name]; local || c.fn.file.pkgTop[id.Name] {
			return nil
		}
		path := c.fn.file.imports[id.Name]
		if c.modPath == "" || !strings.HasPrefix(path, c.modPath+"/") {
			return nil
		}
		dir, name = filepath.Join(c.repo, strings.TrimPrefix(path, c.modPath+"/")), t.Sel.Name
	default:
		return nil
	}
	key := dir + "." + name
	if sd, ok := c.structs[key]; ok {
		return sd
	}
	for _, sd := range c.structs {
		if sd.name == name {
			return nil // same type name in two packages: not handled
		}
	}
	pkgs, err := parser.ParseDir(token.NewFileSet(), dir, func(fi os.FileInfo) bool { return !strings.HasSuffix(fi.Name(), "_test.go") }, 0)
	if err != nil {
		return nil
	}
	var found *pfStructDef
	for _, pkg := range pkgs {
		for _, f := range pkg.Files {
			for _, d := range f.Decls {
				gd, ok := d.(*ast.GenDecl)
				if !ok || gd.Tok != token.TYPE {
					continue
				}
				for _, sp := range gd.Specs {
					ts := sp.(*ast.TypeSpec)
					st, ok := ts.Type.(*ast.StructType)
					if ts.Name.Name != name || !ok || ts.TypeParams != nil || ts.Assign != token.NoPos {
						continue
					}
					sd := &pfStructDef{name: name}
					good := true
					for _, fl := range st.Fields.List {
						tid, ok := fl.Type.(*ast.Ident)
						if !ok || tid.Name != "string" || len(fl.Names) == 0 {
							good = false
						}
						for _, n := range fl.Names {
							sd.fields = append(sd.fields, n.Name)
						}
					}
					// "string" must be the predeclared type in that package
					for _, f2 := range pkg.Files {
						for _, d2 := range f2.Decls {
							if g2, ok := d2.(*ast.GenDecl); ok && g2.Tok == token.TYPE {
								for _, s2 := range g2.Specs {
									if s2.(*ast.TypeSpec).Name.Name == "string" {
										good = false
									}
								}
							}
						}
					}
					if good && found == nil {
						found = sd
					} else {
						return nil
					}
				}
			}
		}
	}
	if found != nil {
		c.structs[key] = found
		c.structOrder = append(c.structOrder, key)
	}
	return found
}

// ---------------------------------------------------------------------------------------------
// statements

func (c *pfCtx) typeOf(env pfEnv, te ast.Expr) pfTy {
	switch t := te.(type) {
	case *ast.Ident:
		if _, local := env[t.Name]; !local && !c.fn.file.pkgTop[t.Name] {
			switch t.Name {
			case "string":
				return pfTy{k: pfKString}
			case "int":
				return pfTy{k: pfKInt}
			case "uint64":
				return pfTy{k: pfKU64}
			case "rune", "int32":
				return pfTy{k: pfKRune}
			case "bool":
				return pfTy{k: pfKBool}
			}
		}
	case *ast.ArrayType:
		if t.Len == nil {
			if et := c.typeOf(env, t.Elt); et.k == pfKString {
				return pfTy{k: pfKStrs}
			}
		}
	}
	if sd := c.structOf(env, te); sd != nil {
		return pfTy{k: pfKStruct, name: sd.name}
	}
	c.fail(te, "type")
	return pfTy{}
}

func (c *pfCtx) zero(n ast.Node, t pfTy) pfVal {
	switch t.k {
	case pfKString:
		return pfVal{coq: "[]", ty: t}
	case pfKInt:
		return pfVal{coq: "0", ty: t}
	case pfKU64:
		return pfVal{coq: "0%N", ty: t}
	case pfKRune:
		return pfVal{coq: "0%Z", ty: t}
	case pfKBool:
		return pfVal{coq: "false", ty: t}
	}
	c.fail(n, "zero value of %s", t)
	return pfVal{}
}

func (c *pfCtx) ret(v string) string {
	if c.optional {
		return "Some " + v
	}
	return v
}

func pfTuple(vs []string) string {
	if len(vs) == 1 {
		return vs[0]
	}
	return "(" + strings.Join(vs, ", ") + ")"
}

func (c *pfCtx) declare(env pfEnv, name string, t pfTy) string {
	if name == "_" {
		return "_"
	}
	for _, r := range pfReserved {
		if name == r {
			c.fail(nil, "local variable shadows %s", r)
		}
	}
	if _, isImport := c.fn.file.imports[name]; isImport {
		c.fail(nil, "local variable shadows the import %s", name)
	}
	v := &pfVar{coq: "v_" + pfIdent(name), ty: t}
	env[name] = v
	return v.coq
}

// the Coq term (in the function's result monad) of a statement list; every path must return
func (c *pfCtx) stmts(env pfEnv, list []ast.Stmt, loop *pfLoop) string {
	if len(list) == 0 {
		if loop != nil {
			return "LContinue " + loop.stateTuple(env)
		}
		c.fail(nil, "a path reaches the end of a block without return")
	}
	s, rest := list[0], list[1:]
	switch x := s.(type) {
	case *ast.EmptyStmt:
		return c.stmts(env, rest, loop)
	case *ast.ReturnStmt:
		if len(rest) != 0 {
			c.fail(s, "statements after return")
		}
		return c.returnStmt(env, x, loop)
	case *ast.DeclStmt:
		return c.declStmt(env, x, rest, loop)
	case *ast.AssignStmt:
		return c.assignStmt(env, x, rest, loop)
	case *ast.IncDecStmt:
		op := token.ADD
		if x.Tok == token.DEC {
			op = token.SUB
		}
		as := &ast.AssignStmt{Lhs: []ast.Expr{x.X}, TokPos: x.TokPos, Tok: token.ASSIGN,
			Rhs: []ast.Expr{&ast.BinaryExpr{X: x.X, OpPos: x.TokPos, Op: op, Y: &ast.BasicLit{ValuePos: x.TokPos, Kind: token.INT, Value: "1"}}}}
		return c.assignStmt(env, as, rest, loop)
	case *ast.IfStmt:
		return c.ifStmt(env, x, rest, loop)
	case *ast.SwitchStmt:
		return c.switchStmt(env, x, rest, loop)
	case *ast.RangeStmt:
		if loop != nil {
			c.fail(s, "nested loop")
		}
		return c.rangeStmt(env, x, rest)
	}
	c.fail(s, "statement form %T", s)
	return ""
}

func (c *pfCtx) returnStmt(env pfEnv, x *ast.ReturnStmt, loop *pfLoop) string {
	wrap := func(v string) string {
		if loop != nil {
			return "LReturn " + v
		}
		return c.ret(v)
	}
	if c.fn.handover != "" {
		// return recv.<field>.<handover>(ctx, X): the result is X
		if len(x.Results) != 1 {
			c.fail(x, "hand-over return")
		}
		call, ok := x.Results[0].(*ast.CallExpr)
		if !ok || len(call.Args) != 2 {
			c.fail(x, "hand-over return is not a call with two arguments")
		}
		sel, ok := call.Fun.(*ast.SelectorExpr)
		if !ok || sel.Sel.Name != c.fn.handover {
			c.fail(x, "hand-over return does not call %s", c.fn.handover)
		}
		root := sel.X
		for {
			if s2, ok := root.(*ast.SelectorExpr); ok {
				root = s2.X
				continue
			}
			break
		}
		rid, ok := root.(*ast.Ident)
		if !ok || env[rid.Name] == nil || env[rid.Name].role != "recv" {
			c.fail(x, "hand-over call is not on a field of the receiver")
		}
		aid, ok := call.Args[0].(*ast.Ident)
		if !ok || env[aid.Name] == nil || env[aid.Name].role != "ctx" {
			c.fail(x, "first hand-over argument is not the context parameter")
		}
		v := c.defaulted(call.Args[1], c.expr(env, call.Args[1]))
		if len(c.fn.results) == 0 {
			c.fn.results = []pfTy{v.ty}
		} else if !c.fn.results[0].eq(v.ty) {
			c.fail(x, "hand-over values of different types")
		}
		return c.flush(wrap(v.coq))
	}
	if len(x.Results) == 1 && len(c.fn.results) > 1 {
		v := c.expr(env, x.Results[0])
		if !v.ty.eq(pfTy{k: pfKTuple, elems: c.fn.results}) {
			c.fail(x, "return value type")
		}
		return c.flush(wrap(v.coq))
	}
	if len(x.Results) != len(c.fn.results) {
		c.fail(x, "number of results (named results are not handled)")
	}
	var vs []string
	for i, r := range x.Results {
		vs = append(vs, c.conv(r, c.expr(env, r), c.fn.results[i]).coq)
	}
	return c.flush(wrap(pfTuple(vs)))
}

func (c *pfCtx) take() []pfBind {
	p := c.pre
	c.pre = nil
	return p
}

func pfWrap(pre []pfBind, k string) string {
	for i := len(pre) - 1; i >= 0; i-- {
		k = "obind (" + pre[i].term + ") (fun " + pre[i].name + " =>\n" + k + ")"
	}
	return k
}

type pfLet struct {
	goName string
	ty     pfTy
	term   string
}

func (c *pfCtx) declStmt(env pfEnv, x *ast.DeclStmt, rest []ast.Stmt, loop *pfLoop) string {
	gd, ok := x.Decl.(*ast.GenDecl)
	if !ok {
		c.fail(x, "declaration")
	}
	env = env.clone()
	var lets []pfLet
	for _, sp := range gd.Specs {
		vs, ok := sp.(*ast.ValueSpec)
		if !ok {
			c.fail(x, "declaration kind")
		}
		switch gd.Tok {
		case token.CONST:
			if len(vs.Values) != len(vs.Names) {
				c.fail(x, "const without value (iota lists are not handled)")
			}
			for i, n := range vs.Names {
				lit, ok := vs.Values[i].(*ast.BasicLit)
				if !ok {
					c.fail(vs.Values[i], "constant that is not a literal")
				}
				v := c.expr(env, lit)
				if vs.Type != nil {
					v = c.conv(lit, v, c.typeOf(env, vs.Type))
				}
				c.declare(env, n.Name, v.ty)
				if n.Name != "_" {
					vv := v
					env[n.Name].cst = &vv
				}
			}
		case token.VAR:
			var these []pfLet
			for i, n := range vs.Names {
				var v pfVal
				switch {
				case len(vs.Values) == 0 && vs.Type != nil:
					v = c.zero(vs, c.typeOf(env, vs.Type))
				case len(vs.Values) == len(vs.Names):
					v = c.expr(env, vs.Values[i])
					if vs.Type != nil {
						v = c.conv(vs.Values[i], v, c.typeOf(env, vs.Type))
					} else {
						v = c.defaulted(vs.Values[i], v)
					}
				default:
					c.fail(vs, "var declaration form")
				}
				if v.ty.k == pfKTuple || v.ty.k == pfKOpaque {
					c.fail(vs, "var of type %s", v.ty)
				}
				these = append(these, pfLet{n.Name, v.ty, v.coq})
			}
			if len(these) > 1 {
				c.fail(vs, "several variables in one var spec")
			}
			// the new variable is in scope only after its own initialiser
			for _, l := range these {
				lets = append(lets, l)
				c.declare(env, l.goName, l.ty)
			}
		default:
			c.fail(x, "declaration kind")
		}
	}
	pre := c.take()
	var sb strings.Builder
	for _, l := range lets {
		if l.goName == "_" {
			continue
		}
		sb.WriteString("let " + env[l.goName].coq + " := " + l.term + " in\n")
	}
	return pfWrap(pre, sb.String()+c.stmts(env, rest, loop))
}

type pfLoop struct {
	state  []string // Go names of the loop-carried variables
	nested bool     // inside an if / switch of the body: falling off the end is not the end of the iteration
}

func (l *pfLoop) inner() *pfLoop {
	if l == nil {
		return nil
	}
	return &pfLoop{state: l.state, nested: true}
}

func (l *pfLoop) stateTuple(env pfEnv) string {
	if len(l.state) == 0 {
		return "tt"
	}
	var vs []string
	for _, n := range l.state {
		vs = append(vs, env[n].coq)
	}
	return pfTuple(vs)
}

func (c *pfCtx) assignStmt(env pfEnv, x *ast.AssignStmt, rest []ast.Stmt, loop *pfLoop) string {
	tok := x.Tok
	rhs := x.Rhs
	if op, ok := map[token.Token]token.Token{token.ADD_ASSIGN: token.ADD, token.SUB_ASSIGN: token.SUB, token.MUL_ASSIGN: token.MUL}[tok]; ok {
		if len(x.Lhs) != 1 || len(rhs) != 1 {
			c.fail(x, "assignment form")
		}
		rhs = []ast.Expr{&ast.BinaryExpr{X: x.Lhs[0], OpPos: x.TokPos, Op: op, Y: rhs[0]}}
		tok = token.ASSIGN
	}
	if tok != token.DEFINE && tok != token.ASSIGN {
		c.fail(x, "assignment operator %s", x.Tok)
	}
	var names []string
	for _, l := range x.Lhs {
		id, ok := l.(*ast.Ident)
		if !ok {
			c.fail(l, "assignment to something that is not a local variable")
		}
		names = append(names, id.Name)
	}
	var vals []pfVal
	tupleTerm := ""
	if len(rhs) == 1 && len(names) > 1 {
		v := c.expr(env, rhs[0])
		if v.ty.k != pfKTuple || len(v.ty.elems) != len(names) {
			c.fail(x, "assignment count")
		}
		tupleTerm = v.coq
		for _, t := range v.ty.elems {
			vals = append(vals, pfVal{ty: t})
		}
	} else {
		if len(rhs) != len(names) {
			c.fail(x, "assignment count")
		}
		for _, r := range rhs {
			v := c.expr(env, r)
			if v.ty.k == pfKTuple {
				c.fail(r, "tuple value")
			}
			vals = append(vals, v)
		}
	}
	pre := c.take()
	nenv := env.clone()
	var pats, terms []string
	for i, n := range names {
		if n == "_" {
			vals[i] = c.defaulted(x, vals[i])
			pats = append(pats, "_")
			terms = append(terms, vals[i].coq)
			continue
		}
		old, exists := env[n]
		if tok == token.ASSIGN {
			if !exists || old.cst != nil || old.role != "" {
				c.fail(x, "assignment to %s, which is not a local variable", n)
			}
			vals[i] = c.conv(x, vals[i], old.ty)
			pats = append(pats, old.coq)
		} else {
			if loop != nil {
				for _, s := range loop.state {
					if s == n {
						c.fail(x, "loop body redeclares the loop-carried variable %s", n)
					}
				}
			}
			if exists && len(names) > 1 {
				c.fail(x, ":= with several variables one of which exists already (assignment or shadowing, depending on the scope)")
			}
			vals[i] = c.defaulted(x, vals[i])
			if vals[i].ty.k == pfKTuple || vals[i].ty.k == pfKOpaque {
				c.fail(x, "variable of type %s", vals[i].ty)
			}
			pats = append(pats, c.declare(nenv, n, vals[i].ty))
		}
		terms = append(terms, vals[i].coq)
	}
	var let string
	switch {
	case tupleTerm != "":
		let = "let '" + pfTuple(pats) + " := " + tupleTerm + " in\n"
	case len(pats) == 1:
		let = "let " + pats[0] + " := " + terms[0] + " in\n"
	default:
		let = "let '" + pfTuple(pats) + " := " + pfTuple(terms) + " in\n"
	}
	return pfWrap(pre, let+c.stmts(nenv, rest, loop))
}

func (c *pfCtx) ifStmt(env pfEnv, x *ast.IfStmt, rest []ast.Stmt, loop *pfLoop) string {
	if x.Init != nil {
		as, ok := x.Init.(*ast.AssignStmt)
		if !ok || as.Tok != token.DEFINE {
			c.fail(x.Init, "if with an init statement that is not :=")
		}
		for _, l := range as.Lhs {
			if id, ok := l.(*ast.Ident); ok && id.Name != "_" {
				if _, exists := env[id.Name]; exists {
					c.fail(x.Init, "if init shadows %s", id.Name)
				}
			}
		}
		plain := *x
		plain.Init = nil
		return c.stmts(env, append([]ast.Stmt{as, &plain}, rest...), loop)
	}
	cond := c.expr(env, x.Cond)
	if cond.ty.k != pfKBool {
		c.fail(x.Cond, "condition type")
	}
	pre := c.take()
	thenT := c.stmts(env.clone(), x.Body.List, loop.innerOrBlock())
	var elseT string
	if x.Else != nil {
		if len(rest) != 0 {
			c.fail(x, "statements after an if/else (both branches must return)")
		}
		switch e := x.Else.(type) {
		case *ast.BlockStmt:
			elseT = c.stmts(env.clone(), e.List, loop.innerOrBlock())
		case *ast.IfStmt:
			elseT = c.stmts(env.clone(), []ast.Stmt{e}, loop.innerOrBlock())
		default:
			c.fail(x, "else form")
		}
	} else {
		elseT = c.stmts(env, rest, loop)
	}
	return pfWrap(pre, "if "+cond.coq+" then\n"+thenT+"\nelse\n"+elseT)
}

// blocks nested in if / switch must return on every path (no join of control flow is modelled)
func (l *pfLoop) innerOrBlock() *pfLoop {
	if l == nil {
		return nil
	}
	return l.inner()
}

func (c *pfCtx) switchStmt(env pfEnv, x *ast.SwitchStmt, rest []ast.Stmt, loop *pfLoop) string {
	if x.Init != nil || x.Tag != nil {
		c.fail(x, "switch with init or tag")
	}
	type clause struct {
		cond string
		body string
	}
	var cls []clause
	var deflt *ast.CaseClause
	for i, s := range x.Body.List {
		cc := s.(*ast.CaseClause)
		if cc.List == nil {
			if i != len(x.Body.List)-1 {
				c.fail(cc, "default that is not the last clause")
			}
			deflt = cc
			continue
		}
		cond := ""
		for _, e := range cc.List {
			before := len(c.pre)
			v := c.expr(env, e)
			if len(c.pre) != before {
				c.fail(e, "operation that can panic in a case condition (evaluated conditionally)")
			}
			if v.ty.k != pfKBool {
				c.fail(e, "case condition type")
			}
			if cond == "" {
				cond = v.coq
			} else {
				cond = "(orb " + cond + " " + v.coq + ")"
			}
		}
		cls = append(cls, clause{cond, c.stmts(env.clone(), cc.Body, loop.innerOrBlock())})
	}
	var elseT string
	if deflt != nil {
		if len(rest) != 0 {
			c.fail(x, "statements after a switch with default (every clause must return)")
		}
		elseT = c.stmts(env.clone(), deflt.Body, loop.innerOrBlock())
	} else {
		elseT = c.stmts(env, rest, loop)
	}
	for i := len(cls) - 1; i >= 0; i-- {
		elseT = "if " + cls[i].cond + " then\n" + cls[i].body + "\nelse\n" + elseT
	}
	return elseT
}

// concrete evaluation of a condition over the loop variable and constants
func (c *pfCtx) evalConst(env pfEnv, e ast.Expr, cname string, cval int64) (int64, bool, bool) { // value, isBool, ok
	switch x := e.(type) {
	case *ast.ParenExpr:
		return c.evalConst(env, x.X, cname, cval)
	case *ast.BasicLit:
		switch x.Kind {
		case token.INT:
			v, err := strconv.ParseInt(x.Value, 0, 64)
			return v, false, err == nil
		case token.CHAR:
			s, err := strconv.Unquote(x.Value)
			rs := []rune(s)
			if err != nil || len(rs) != 1 {
				return 0, false, false
			}
			return int64(rs[0]), false, true
		}
	case *ast.Ident:
		if x.Name == cname {
			return cval, false, true
		}
		if v, ok := env[x.Name]; ok && v.cst != nil && (v.cst.ty.k == pfKUntypedInt || v.cst.ty.k == pfKUntypedRune || v.cst.ty.k == pfKRune) {
			return v.cst.ci, false, true
		}
	case *ast.UnaryExpr:
		if x.Op == token.NOT {
			v, b, ok := c.evalConst(env, x.X, cname, cval)
			return 1 - v, true, ok && b
		}
	case *ast.BinaryExpr:
		a, ab, ok1 := c.evalConst(env, x.X, cname, cval)
		b, bb, ok2 := c.evalConst(env, x.Y, cname, cval)
		if !ok1 || !ok2 || ab != bb {
			return 0, false, false
		}
		t := func(p bool) (int64, bool, bool) {
			if p {
				return 1, true, true
			}
			return 0, true, true
		}
		if ab {
			switch x.Op {
			case token.LAND:
				return t(a == 1 && b == 1)
			case token.LOR:
				return t(a == 1 || b == 1)
			}
			return 0, false, false
		}
		switch x.Op {
		case token.LSS:
			return t(a < b)
		case token.GTR:
			return t(a > b)
		case token.LEQ:
			return t(a <= b)
		case token.GEQ:
			return t(a >= b)
		case token.EQL:
			return t(a == b)
		case token.NEQ:
			return t(a != b)
		}
	}
	return 0, false, false
}

func (c *pfCtx) constExpr(env pfEnv, e ast.Expr) bool {
	switch x := e.(type) {
	case *ast.BasicLit:
		return true
	case *ast.Ident:
		if c.builtin(env, e, "true") || c.builtin(env, e, "false") {
			return true
		}
		v, ok := env[x.Name]
		return ok && v.cst != nil
	}
	return false
}

// for _, c := range s  over the BYTES of s: allowed only if the body leaves with constants for every c >= 0x80
// before doing anything else
func (c *pfCtx) runeLoopCheck(env pfEnv, x *ast.RangeStmt, cname string) {
	if len(x.Body.List) == 0 {
		c.fail(x, "range over a string iterates over runes; empty body")
	}
	first, ok := x.Body.List[0].(*ast.IfStmt)
	if !ok || first.Init != nil || first.Else != nil || len(first.Body.List) != 1 {
		c.fail(x, "range over a string iterates over runes; the byte-wise model needs the body to start with  if cond(c) { return constants }")
	}
	ret, ok := first.Body.List[0].(*ast.ReturnStmt)
	if !ok {
		c.fail(first, "range over a string iterates over runes; the first if does not return")
	}
	for _, r := range ret.Results {
		if !c.constExpr(env, r) {
			c.fail(r, "range over a string iterates over runes; the early return value is not a constant")
		}
	}
	check := func(v int64) {
		r, isb, ok := c.evalConst(env, first.Cond, cname, v)
		if !ok || !isb {
			c.fail(first.Cond, "range over a string iterates over runes; the guard is not a condition over the loop variable and constants")
		}
		if r != 1 {
			c.fail(first.Cond, "range over a string iterates over runes; the guard is false for c = %#x, so bytes and runes >= 0x80 are not all rejected alike", v)
		}
	}
	for v := int64(0x80); v <= 0x10FFFF; v++ {
		check(v)
	}
	ast.Inspect(x.Body, func(n ast.Node) bool {
		switch s := n.(type) {
		case *ast.AssignStmt:
			for _, l := range s.Lhs {
				if id, ok := l.(*ast.Ident); ok && id.Name == cname {
					c.fail(s, "loop variable assigned in the body")
				}
			}
		case *ast.IncDecStmt:
			if id, ok := s.X.(*ast.Ident); ok && id.Name == cname {
				c.fail(s, "loop variable assigned in the body")
			}
		case *ast.FuncLit, *ast.UnaryExpr:
			if u, ok := s.(*ast.UnaryExpr); ok && u.Op != token.AND {
				return true
			}
			c.fail(n, "closure or address-of in a loop body")
		}
		return true
	})
	c.note("range over the string: the body starts with  if %s { %s }  ; the guard mentions only %s and constants and was evaluated to true for every value 0x80..0x10FFFF, the returned values are constants, the index is blank: iterating over bytes (go_range_bytes) gives the same result as iterating over runes",
		c.text(first.Cond), c.text(ret), cname)
}

func (c *pfCtx) rangeStmt(env pfEnv, x *ast.RangeStmt, rest []ast.Stmt) string {
	if x.Tok != token.DEFINE {
		c.fail(x, "range without :=")
	}
	if x.Key != nil {
		if id, ok := x.Key.(*ast.Ident); !ok || id.Name != "_" {
			c.fail(x, "range with an index variable")
		}
	}
	vid, ok := x.Value.(*ast.Ident)
	if !ok || vid.Name == "_" {
		c.fail(x, "range without a value variable")
	}
	if _, exists := env[vid.Name]; exists {
		c.fail(x, "loop variable shadows %s", vid.Name)
	}
	sv := c.expr(env, x.X)
	if sv.ty.k == pfKUntypedStr {
		sv = c.conv(x.X, sv, pfTy{k: pfKString})
	}
	if sv.ty.k != pfKString {
		c.fail(x.X, "range over %s", sv.ty)
	}
	pre := c.take()
	c.runeLoopCheck(env, x, vid.Name)
	// loop-carried variables: outer variables assigned in the body
	seen := map[string]bool{}
	var state []string
	ast.Inspect(x.Body, func(n ast.Node) bool {
		var targets []ast.Expr
		switch s := n.(type) {
		case *ast.AssignStmt:
			if s.Tok != token.DEFINE {
				targets = s.Lhs
			}
		case *ast.IncDecStmt:
			targets = []ast.Expr{s.X}
		case *ast.BranchStmt:
			c.fail(s, "break / continue / goto")
		}
		for _, t := range targets {
			if id, ok := t.(*ast.Ident); ok {
				if v, outer := env[id.Name]; outer && v.role == "" && v.cst == nil && !seen[id.Name] {
					seen[id.Name] = true
					state = append(state, id.Name)
				}
			}
		}
		return true
	})
	loop := &pfLoop{state: state}
	benv := env.clone()
	cv := c.declare(benv, vid.Name, pfTy{k: pfKRune})
	before := c.panics
	body := c.stmts(benv, x.Body.List, loop)
	if c.panics != before {
		c.fail(x.Body, "operation that can panic inside a loop body")
	}
	var sTys []string
	for _, n := range state {
		sTys = append(sTys, env[n].ty.coq())
	}
	sTy, pat, init := "unit", "(_ : unit)", "tt"
	switch len(state) {
	case 0:
	case 1:
		sTy, pat, init = sTys[0], env[state[0]].coq, env[state[0]].coq
	default:
		sTy, pat, init = "("+strings.Join(sTys, " * ")+")", "'"+loop.stateTuple(env), loop.stateTuple(env)
	}
	var rTys []pfTy
	rTys = c.fn.results
	rTy := pfTy{k: pfKTuple, elems: rTys}.coq()
	if len(rTys) == 1 {
		rTy = rTys[0].coq()
	}
	contPat := "_"
	if len(state) == 1 {
		contPat = env[state[0]].coq
	} else if len(state) > 1 {
		contPat = loop.stateTuple(env)
	}
	after := c.stmts(env, rest, nil)
	return pfWrap(pre, "match go_range_bytes (S:="+sTy+") (R:="+rTy+") (fun "+cv+" "+pat+" =>\n"+body+")\n"+sv.coq+" "+init+" with\n"+
		"| LReturn r => "+c.ret("r")+"\n| LContinue "+contPat+" =>\n"+after+"\nend")
}

// ---------------------------------------------------------------------------------------------
// functions

type pfSpec struct {
	file     string // relative to the repository
	recv     string // receiver type name ("" for a plain function)
	fn       string
	coq      string
	mode     string // "" | handover | argof | sortless
	arg      string // handover: sink method; argof: callee method
	callable bool   // may be called from later translated functions
}

var pfSpecs = []pfSpec{
	{file: "processors/sshd/sshdprocessor.go", fn: "getCertificateInvalidReason", coq: "gen_cert_invalid_reason", callable: true},
	{file: "ingesters/syslog/syslogingester.go", recv: "SyslogIngester", fn: "ParseSyslogMessage", coq: "gen_parse_syslog_message", callable: true},
	{file: "ingesters/syslog/syslogingester.go", recv: "SyslogIngester", fn: "Process", coq: "gen_process_arg", mode: "argof", arg: "ParseSyslogMessage"},
	{file: "ingesters/syslog/syslogingester.go", recv: "SyslogIngester", fn: "Process", coq: "gen_process_line", mode: "handover", arg: "ProcessSshdLogEntry"},
	{file: "processors/auditd/dirreader/dirreader.go", fn: "logRotationNumber", coq: "gen_log_rotation_number", callable: true},
	{file: "processors/auditd/dirreader/dirreader.go", fn: "sortLogNamesOldToNew", coq: "gen_log_name_less", mode: "sortless"},
}

func (c *pfCtx) loadFile(rel string, cache map[string]*pfFile) (*pfFile, error) {
	if f, ok := cache[rel]; ok {
		return f, nil
	}
	path := filepath.Join(c.repo, rel)
	src, err := os.ReadFile(path)
	if err != nil {
		return nil, err
	}
	af, err := parser.ParseFile(c.fset, path, src, 0)
	if err != nil {
		return nil, err
	}
	f := &pfFile{path: path, src: src, ast: af, imports: map[string]string{}, pkgTop: map[string]bool{}}
	for _, im := range af.Imports {
		p, err := strconv.Unquote(im.Path.Value)
		if err != nil {
			return nil, err
		}
		name := p[strings.LastIndex(p, "/")+1:]
		if im.Name != nil {
			name = im.Name.Name
		}
		f.imports[name] = p
	}
	// package-level names of every file of the package (they could shadow builtins and imports)
	pkgs, err := parser.ParseDir(token.NewFileSet(), filepath.Dir(path), func(fi os.FileInfo) bool { return !strings.HasSuffix(fi.Name(), "_test.go") }, 0)
	if err != nil {
		return nil, err
	}
	for _, pkg := range pkgs {
		if pkg.Name != af.Name.Name {
			continue
		}
		for _, pf := range pkg.Files {
			for _, d := range pf.Decls {
				switch v := d.(type) {
				case *ast.FuncDecl:
					if v.Recv == nil {
						f.pkgTop[v.Name.Name] = true
					}
				case *ast.GenDecl:
					for _, sp := range v.Specs {
						switch s := sp.(type) {
						case *ast.ValueSpec:
							for _, n := range s.Names {
								f.pkgTop[n.Name] = true
							}
						case *ast.TypeSpec:
							f.pkgTop[s.Name.Name] = true
						}
					}
				}
			}
		}
	}
	cache[rel] = f
	return f, nil
}

func pfRecvTypeName(fd *ast.FuncDecl) string {
	if fd.Recv == nil || len(fd.Recv.List) != 1 {
		return ""
	}
	t := fd.Recv.List[0].Type
	if st, ok := t.(*ast.StarExpr); ok {
		t = st.X
	}
	if id, ok := t.(*ast.Ident); ok {
		return id.Name
	}
	return "?"
}

func pfUsesIdent(n ast.Node, name string) bool {
	used := false
	ast.Inspect(n, func(m ast.Node) bool {
		if id, ok := m.(*ast.Ident); ok && id.Name == name {
			used = true
		}
		return true
	})
	return used
}

// environment of a declared function: receiver and parameters
func (c *pfCtx) paramEnv(fd *ast.FuncDecl) (pfEnv, []*pfVar) {
	env := pfEnv{}
	var params []*pfVar
	if fd.Recv != nil {
		for _, n := range fd.Recv.List[0].Names {
			if n.Name != "_" {
				env[n.Name] = &pfVar{role: "recv", ty: pfTy{k: pfKOpaque}}
			}
		}
	}
	if fd.Type.TypeParams != nil {
		c.fail(fd, "generic function")
	}
	for _, fl := range fd.Type.Params.List {
		if len(fl.Names) == 0 {
			c.fail(fl, "unnamed parameter")
		}
		if sel, ok := fl.Type.(*ast.SelectorExpr); ok && sel.Sel.Name == "Context" && c.isPkg(env, sel.X, "context") {
			for _, n := range fl.Names {
				if n.Name != "_" {
					env[n.Name] = &pfVar{role: "ctx", ty: pfTy{k: pfKOpaque}}
				}
			}
			continue
		}
		if _, ok := fl.Type.(*ast.Ellipsis); ok {
			c.fail(fl, "variadic parameter")
		}
		t := c.typeOf(env, fl.Type)
		for _, n := range fl.Names {
			if n.Name == "_" {
				c.fail(fl, "blank parameter")
			}
			c.declare(env, n.Name, t)
			params = append(params, env[n.Name])
		}
	}
	return env, params
}

func (c *pfCtx) resultTypes(env pfEnv, ft *ast.FuncType) []pfTy {
	var rs []pfTy
	if ft.Results == nil {
		c.fail(ft, "function without result")
	}
	for _, fl := range ft.Results.List {
		if len(fl.Names) != 0 {
			c.fail(fl, "named results")
		}
		rs = append(rs, c.typeOf(env, fl.Type))
	}
	return rs
}

func (c *pfCtx) reset(optional bool) {
	c.pre, c.fresh, c.panics, c.optional = nil, 0, 0, optional
	c.fn.notes = nil
}

// translate fn.body twice at most: in option first; if nothing on the way can panic, again without option
func (c *pfCtx) translate(f *pfFunc, run func()) {
	c.fn = f
	defer func() {
		if r := recover(); r != nil {
			u, ok := r.(pfUnsupported)
			if !ok {
				panic(r)
			}
			f.err = u.why
		}
		c.fn = nil
	}()
	c.reset(true)
	run()
	if c.panics == 0 {
		c.reset(false)
		run()
		f.optional = false
		return
	}
	f.optional = true
}

func (c *pfCtx) doSpec(sp pfSpec, file *pfFile) *pfFunc {
	f := &pfFunc{goName: sp.fn, coqName: sp.coq, file: file}
	var fd *ast.FuncDecl
	n := 0
	for _, d := range file.ast.Decls {
		if v, ok := d.(*ast.FuncDecl); ok && v.Name.Name == sp.fn && pfRecvTypeName(v) == sp.recv && v.Body != nil {
			fd = v
			n++
		}
	}
	if n != 1 {
		f.err = fmt.Sprintf("function %s not found in %s", sp.fn, sp.file)
		return f
	}
	f.decl = fd
	recvName := ""
	if fd.Recv != nil && len(fd.Recv.List[0].Names) == 1 {
		recvName = fd.Recv.List[0].Names[0].Name
	}
	f.usesRecv = recvName != "" && recvName != "_" && pfUsesIdent(fd.Body, recvName)
	switch sp.mode {
	case "":
		c.translate(f, func() {
			env, params := c.paramEnv(fd)
			f.params = params
			f.results = c.resultTypes(env, fd.Type)
			f.body = c.stmts(env, fd.Body.List, nil)
		})
	case "handover":
		f.handover = sp.arg
		c.translate(f, func() {
			env, params := c.paramEnv(fd)
			f.params = params
			f.results = nil
			f.body = c.stmts(env, fd.Body.List, nil)
			c.note("the definition is the value handed to %s (second argument of the call in the return statement), not the error returned", sp.arg)
		})
	case "argof":
		c.translate(f, func() {
			env, params := c.paramEnv(fd)
			f.params = params
			// the unique call recv.<arg>(E) in the body; E may mention only parameters that are never assigned
			var calls []*ast.CallExpr
			ast.Inspect(fd.Body, func(m ast.Node) bool {
				if call, ok := m.(*ast.CallExpr); ok {
					if sel, ok := call.Fun.(*ast.SelectorExpr); ok && sel.Sel.Name == sp.arg {
						if id, ok := sel.X.(*ast.Ident); ok && id.Name == recvName {
							calls = append(calls, call)
						}
					}
				}
				return true
			})
			if len(calls) != 1 || len(calls[0].Args) != 1 {
				c.fail(fd, "expected exactly one call %s.%s(arg)", recvName, sp.arg)
			}
			ast.Inspect(fd.Body, func(m ast.Node) bool {
				var targets []ast.Expr
				switch s := m.(type) {
				case *ast.AssignStmt:
					targets = s.Lhs
				case *ast.IncDecStmt:
					targets = []ast.Expr{s.X}
				case *ast.RangeStmt:
					targets = []ast.Expr{s.Key, s.Value}
				case *ast.UnaryExpr:
					if s.Op == token.AND {
						targets = []ast.Expr{s.X}
					}
				case *ast.FuncLit:
					c.fail(s, "closure in the body")
				}
				for _, t := range targets {
					if id, ok := t.(*ast.Ident); ok && id.Name != "_" {
						if _, isParam := env[id.Name]; isParam {
							c.fail(m, "parameter %s is assigned, shadowed or has its address taken", id.Name)
						}
					}
				}
				return true
			})
			v := c.defaulted(calls[0].Args[0], c.expr(env, calls[0].Args[0]))
			f.results = []pfTy{v.ty}
			f.body = c.flush(c.ret(v.coq))
			c.note("the definition is the argument expression of the call %s.%s(..); it mentions only parameters, none of which is assigned in the function", recvName, sp.arg)
		})
	case "sortless":
		c.translate(f, func() { c.sortLess(f, fd) })
	}
	return f
}

// the comparator closure handed to sort.Slice inside fd, as a function of the two elements compared
func (c *pfCtx) sortLess(f *pfFunc, fd *ast.FuncDecl) {
	outer := map[string]bool{}
	for _, fl := range fd.Type.Params.List {
		for _, n := range fl.Names {
			outer[n.Name] = true
		}
	}
	var calls []*ast.CallExpr
	ast.Inspect(fd.Body, func(m ast.Node) bool {
		if call, ok := m.(*ast.CallExpr); ok {
			if sel, ok := call.Fun.(*ast.SelectorExpr); ok && sel.Sel.Name == "Slice" && c.isPkg(pfEnv{}, sel.X, "sort") {
				calls = append(calls, call)
			}
		}
		return true
	})
	if len(calls) != 1 || len(calls[0].Args) != 2 {
		c.fail(fd, "expected exactly one call of sort.Slice")
	}
	sid, ok := calls[0].Args[0].(*ast.Ident)
	lit, ok2 := calls[0].Args[1].(*ast.FuncLit)
	if !ok || !ok2 {
		c.fail(calls[0], "sort.Slice(<local slice>, <function literal>) expected")
	}
	if outer[sid.Name] {
		c.fail(calls[0], "sorted slice is a parameter")
	}
	// the sorted slice must be declared in this function as  name := make([]string, ...)
	decls := 0
	isStrs := false
	ast.Inspect(fd.Body, func(m ast.Node) bool {
		switch s := m.(type) {
		case *ast.AssignStmt:
			if s.Tok == token.DEFINE {
				for i, l := range s.Lhs {
					if id, ok := l.(*ast.Ident); ok && id.Name == sid.Name {
						decls++
						if len(s.Rhs) == len(s.Lhs) {
							if mk, ok := s.Rhs[i].(*ast.CallExpr); ok && c.builtin(pfEnv{}, mk.Fun, "make") && len(mk.Args) >= 1 {
								if at, ok := mk.Args[0].(*ast.ArrayType); ok && at.Len == nil {
									if et, ok := at.Elt.(*ast.Ident); ok && et.Name == "string" && !c.fn.file.pkgTop["string"] {
										isStrs = true
									}
								}
							}
						}
					}
				}
			}
		case *ast.ValueSpec:
			for _, n := range s.Names {
				if n.Name == sid.Name {
					decls += 2
				}
			}
		case *ast.RangeStmt:
			for _, e := range []ast.Expr{s.Key, s.Value} {
				if id, ok := e.(*ast.Ident); ok && id.Name == sid.Name {
					decls += 2
				}
			}
		}
		return true
	})
	if decls != 1 || !isStrs {
		c.fail(calls[0], "the sorted slice %s is not declared exactly once as %s := make([]string, ...)", sid.Name, sid.Name)
	}
	f.lit = lit
	if lit.Type.Params == nil || lit.Type.TypeParams != nil {
		c.fail(lit, "comparator signature")
	}
	env := pfEnv{sid.Name: &pfVar{role: "sortslice", ty: pfTy{k: pfKOpaque}}}
	var params []*pfVar
	for _, fl := range lit.Type.Params.List {
		if id, ok := fl.Type.(*ast.Ident); !ok || id.Name != "int" || c.fn.file.pkgTop["int"] {
			c.fail(fl, "comparator parameter type")
		}
		for _, n := range fl.Names {
			if n.Name == "_" || n.Name == sid.Name {
				c.fail(fl, "comparator parameter name")
			}
			v := &pfVar{coq: "elem_" + pfIdent(n.Name), ty: pfTy{k: pfKString}, role: "sortidx"}
			env[n.Name] = v
			params = append(params, v)
		}
	}
	if len(params) != 2 {
		c.fail(lit, "comparator signature")
	}
	f.params = params
	f.results = c.resultTypes(env, lit.Type)
	if len(f.results) != 1 || f.results[0].k != pfKBool {
		c.fail(lit, "comparator result")
	}
	f.body = c.stmts(env, lit.Body.List, nil)
	c.note("this is the function literal handed to sort.Slice(%s, ..) in %s, as a function of the two elements %s[%s] and %s[%s]: package sort calls less(i, j) only with 0 <= i, j < len(%s), so these index expressions do not panic; the literal uses its parameters and %s in no other way and refers to no other variable of the enclosing function",
		sid.Name, fd.Name.Name, sid.Name, strings.TrimPrefix(params[0].coq, "elem_"), sid.Name, strings.TrimPrefix(params[1].coq, "elem_"), sid.Name, sid.Name)
}

func (c *pfCtx) source(f *pfFunc) string {
	var n ast.Node
	if f.lit != nil {
		n = f.lit
	} else if f.decl != nil {
		n = f.decl
	} else {
		return ""
	}
	a, b := c.fset.Position(n.Pos()).Offset, c.fset.Position(n.End()).Offset
	return string(f.file.src[a:b])
}

func genPureFuncs(repo, out string) error {
	c := &pfCtx{repo: repo, fset: token.NewFileSet(), funcs: map[string]*pfFunc{}, structs: map[string]*pfStructDef{}}
	gomod, err := os.ReadFile(filepath.Join(repo, "go.mod"))
	if err != nil {
		return err
	}
	for _, ln := range strings.Split(string(gomod), "\n") {
		if fs := strings.Fields(ln); len(fs) == 2 && fs[0] == "module" {
			c.modPath = fs[1]
		}
	}
	cache := map[string]*pfFile{}
	var done []*pfFunc
	for _, sp := range pfSpecs {
		file, err := c.loadFile(sp.file, cache)
		var f *pfFunc
		if err != nil {
			f = &pfFunc{goName: sp.fn, coqName: sp.coq, err: "cannot read " + sp.file + ": " + err.Error()}
		} else {
			f = c.doSpec(sp, file)
		}
		done = append(done, f)
		if sp.callable {
			c.funcs[sp.fn] = f
		}
	}
	var sb strings.Builder
	sb.WriteString("(* GENERATED by tools/go2v (purefuncs.go) from the Go source. Do not edit.\n")
	sb.WriteString("   Pure string functions, translated statement by statement into terms over Lib/GoStrings.v:\n")
	sb.WriteString("   := / = become let, an if / switch branch that returns becomes if-then-else, an operation that can\n")
	sb.WriteString("   panic (index, slice) is bound with obind (None = the panic), for _, c := range s becomes go_range_bytes\n")
	sb.WriteString("   with an explicit early exit.  A definition is in option exactly if some operation on the way can panic.\n")
	sb.WriteString("   Proofs/PureFuncsTie.v proves that the hand-written models equal these definitions. *)\n")
	sb.WriteString("From Coq Require Import Ascii String List Bool Arith NArith ZArith.\nImport ListNotations.\n")
	sb.WriteString("From AM Require Import Lib.Bytes Lib.GoStrings.\nOpen Scope string_scope.\n\n")
	keys := append([]string{}, c.structOrder...)
	sort.Strings(keys)
	for _, k := range keys {
		sd := c.structs[k]
		var fs []string
		for _, f := range sd.fields {
			fs = append(fs, sd.name+"_"+f+" : str")
		}
		fmt.Fprintf(&sb, "(* type %s struct: fields in declaration order, all of type string *)\nRecord go_%s := { %s }.\n\n", sd.name, sd.name, strings.Join(fs, "; "))
	}
	unsupported := 0
	for _, f := range done {
		if src := c.sourceOf(f); src != "" {
			sb.WriteString("(* " + pfComment(src) + " *)\n")
		}
		if f.err != "" {
			unsupported++
			fmt.Fprintf(os.Stderr, "go2v: purefuncs: %s: UNSUPPORTED: %s\n", f.goName, f.err)
			fmt.Fprintf(&sb, "(* UNSUPPORTED: %s *)\nDefinition %s := UNSUPPORTED_%s.\n\n", pfComment(f.err), f.coqName, f.coqName)
			continue
		}
		for _, n := range f.notes {
			sb.WriteString("(* checked: " + pfComment(n) + " *)\n")
		}
		var ps []string
		for _, p := range f.params {
			ps = append(ps, "("+p.coq+" : "+p.ty.coq()+")")
		}
		rt := pfTy{k: pfKTuple, elems: f.results}.coq()
		if len(f.results) == 1 {
			rt = f.results[0].coq()
		}
		if f.optional {
			rt = "option " + rt
		}
		fmt.Fprintf(&sb, "Definition %s %s : %s :=\n%s.\n\n", f.coqName, strings.Join(ps, " "), rt, f.body)
	}
	sb.WriteString(pfVectors())
	if err := os.MkdirAll(out, 0o755); err != nil {
		return err
	}
	return os.WriteFile(filepath.Join(out, "PureFuncs.v"), []byte(sb.String()), 0o644)
}

func (c *pfCtx) sourceOf(f *pfFunc) string {
	if f.file == nil {
		return ""
	}
	return c.source(f)
}

// ---------------------------------------------------------------------------------------------
// differential vectors for Lib/GoStrings.v: what the real package strings (of the toolchain go2v is built
// with) returns on a fixed corpus; Proofs/PureFuncsTie.v evaluates the Coq models on the same inputs

func pfHx(s string) string {
	const hexd = "0123456789abcdef"
	var sb strings.Builder
	sb.WriteString("(hx \"")
	for i := 0; i < len(s); i++ {
		sb.WriteByte(hexd[s[i]>>4])
		sb.WriteByte(hexd[s[i]&15])
	}
	sb.WriteString("\")")
	return sb.String()
}

func pfHxList(l []string) string {
	var ps []string
	for _, s := range l {
		ps = append(ps, pfHx(s))
	}
	return "[" + strings.Join(ps, "; ") + "]"
}

func pfBoolCoq(b bool) string {
	if b {
		return "true"
	}
	return "false"
}

func pfVectors() string {
	corpus := []string{"", " ", "a", "a b", "  a  b ", "123 msg text", "123  two spaces", "audit.log.10", "audit.log", "ab\xc3\xa9 c",
		"\xff x", "aaa", "aaaa", "abab", "\n", "x\n", "x\n\n", " \n", "a.b. c", "\xc3\xa9"}
	seps := []string{" ", "a", "ab", "\n", "aa", ". ", "audit.log", "\xa9"}
	cutsets := []string{" ", " a", "\n ", "ab"}
	var rows []string
	add := func(format string, a ...interface{}) { rows = append(rows, fmt.Sprintf(format, a...)) }
	for _, s := range corpus {
		for _, sep := range seps {
			parts := strings.Split(s, sep)
			add("strs_eqb (go_split %s %s) %s", pfHx(s), pfHx(sep), pfHxList(parts))
			add("seqb (go_join %s %s) %s", pfHxList(parts), pfHx(sep), pfHx(strings.Join(parts, sep)))
			add("seqb (go_trim_prefix %s %s) %s", pfHx(s), pfHx(sep), pfHx(strings.TrimPrefix(s, sep)))
			add("seqb (go_trim_suffix %s %s) %s", pfHx(s), pfHx(sep), pfHx(strings.TrimSuffix(s, sep)))
			add("Bool.eqb (go_has_prefix %s %s) %s", pfHx(s), pfHx(sep), pfBoolCoq(strings.HasPrefix(s, sep)))
			add("Bool.eqb (go_has_suffix %s %s) %s", pfHx(s), pfHx(sep), pfBoolCoq(strings.HasSuffix(s, sep)))
			idx := "None"
			if i := strings.Index(s, sep); i >= 0 {
				idx = fmt.Sprintf("(Some %d)", i)
			}
			add("opt_nat_eqb (go_index %s %s) %s", pfHx(s), pfHx(sep), idx)
			b, a, f := strings.Cut(s, sep)
			add("cut_eqb (go_cut %s %s) (%s, %s, %s)", pfHx(s), pfHx(sep), pfHx(b), pfHx(a), pfBoolCoq(f))
		}
		for _, cs := range cutsets {
			add("seqb (go_trim_left %s %s) %s", pfHx(s), pfHx(cs), pfHx(strings.TrimLeft(s, cs)))
		}
		for _, t := range corpus {
			add("Bool.eqb (str_ltb %s %s) %s", pfHx(s), pfHx(t), pfBoolCoq(s < t))
		}
	}
	var sb strings.Builder
	sb.WriteString("(* Differential vectors for Lib/GoStrings.v: each entry compares a model with what the real Go function\n")
	sb.WriteString("   (package strings resp. the < operator of the toolchain go2v was built with) returned for the same arguments\n")
	sb.WriteString("   (strings as hex).  Separators are non-empty, cut sets are bytes < 0x80 (the models' stated domain). *)\n")
	sb.WriteString("Definition go_strings_vectors : list bool := [\n  ")
	sb.WriteString(strings.Join(rows, ";\n  "))
	sb.WriteString("\n].\n")
	return sb.String()
}
