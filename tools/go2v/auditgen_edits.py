#!/usr/bin/env python3
"""Robustness table for tools/go2v/auditgen.go (results: AUDITGEN_EDITS.md; usage: python3 auditgen_edits.py [ids]): apply each source edit to a scratch copy of /repo, check that it
compiles as Go, run the translator, type-check Gen/AuditProg.v and re-check Proofs/AuditIRTie.v + Props/C15.v in a
scratch copy of the Coq tree."""
import json, os, re, shutil, subprocess, sys

VERIF = os.path.dirname(os.path.dirname(os.path.dirname(os.path.abspath(__file__))))
WORK = os.environ.get("AUDITGEN_EDITS_WORK", "/tmp/auditgen_edits")
REPO = os.environ.get("VERIF_REPO", "/repo")
SCR = os.path.join(WORK, "repo_scratch")       # scratch copy of the repo (deleted at the end)
COQT = os.path.join(WORK, "coqtmp")            # scratch copy of the Coq tree (needs an up-to-date build of coq/)
GO2V = os.path.join(WORK, "go2v")
ENV = dict(os.environ, GOFLAGS="-mod=mod", GOPROXY="off", GOSUMDB="off", GOTOOLCHAIN="local")
A = "processors/auditd/auditd.go"
C = "processors/auditd/reassembler_callback.go"
T = "processors/auditd/sessiontracker/sessiontracker.go"


def sh(cmd, cwd=None, timeout=600):
    p = subprocess.run(cmd, cwd=cwd, env=ENV, stdout=subprocess.PIPE, stderr=subprocess.STDOUT, timeout=timeout)
    return p.returncode, p.stdout.decode("utf-8", "replace")


def rep(path, old, new, count=1):
    def f(src):
        s = src[path]
        if s.count(old) < 1:
            raise RuntimeError("pattern not found in %s: %r" % (path, old[:60]))
        src[path] = s.replace(old, new, count)
    return f


PARSE_EMPTY = '''			if line == "" {
				// Parsing an empty line results in this error:
				//    invalid audit message header
				//
				// I ran into this while writing unit tests,
				// as several auditd string literal constants
				// started with a new line.
				continue
			}
'''
PARSE_ERR = '''			if err != nil {
				return &parseAuditLogsError{
					message: fmt.Sprintf("failed to parse auditd log line '%s' - %s",
						line, err),
					inner: err,
				}
			}
'''
SEND1 = '''		select {
		case s.errors <- &reassemblerCBError{
			message: fmt.Sprintf("failed to coalesce audit messages - %s", err),
			inner:   err,
		}:
		default:
		}
'''
SEND2 = '''		select {
		case s.errors <- &reassemblerCBError{
			message: fmt.Sprintf("failed to audit audit event - %s", err),
			inner:   err,
		}:
		default:
		}
'''
JOIN = '''	defer func() {
		stopParser()
		<-parserExited
	}()
'''

EDITS = [
    # ---- parseAuditLogs
    ("E01", "parseAuditLogs: drop the `continue` for empty lines (they reach ParseLogLine)", [rep(A, PARSE_EMPTY, "")]),
    ("E02", "parseAuditLogs: PushMessage before the error check",
     [rep(A, "\t\t\treass.PushMessage(auditMsg)\n", ""),
      rep(A, "\t\t\tauditMsg, err := auparse.ParseLogLine(line)\n", "\t\t\tauditMsg, err := auparse.ParseLogLine(line)\n\t\t\treass.PushMessage(auditMsg)\n")]),
    ("E03", "parseAuditLogs: the returned error no longer shows the line",
     [rep(A, '''fmt.Sprintf("failed to parse auditd log line '%s' - %s",
						line, err)''', '''fmt.Sprintf("failed to parse auditd log line - %s", err)''')]),
    ("E04", "parseAuditLogs: drop the ctx.Err() check at the top of the loop (a line may be consumed after cancellation, D7)",
     [rep(A, '''		if err := ctx.Err(); err != nil {
			return err
		}

''', "")]),
    ("E05", "parseAuditLogs: return ParseLogLine's error as it is (no parseAuditLogsError)", [rep(A, PARSE_ERR, "\t\t\tif err != nil {\n\t\t\t\treturn err\n\t\t\t}\n")]),
    ("E06", "parseAuditLogs: return nil on a parse error", [rep(A, PARSE_ERR, "\t\t\tif err != nil {\n\t\t\t\treturn nil\n\t\t\t}\n")]),
    ("E07", "parseAuditLogs: skip a line the parser rejects (log + continue)", [rep(A, PARSE_ERR, '\t\t\tif err != nil {\n\t\t\t\tlogger.Errorf("bad line")\n\t\t\t\tcontinue\n\t\t\t}\n')]),
    ("E08", "parseAuditLogs: a length guard that skips long lines", [rep(A, PARSE_EMPTY, PARSE_EMPTY + "\n\t\t\tif len(line) > 8192 {\n\t\t\t\tcontinue\n\t\t\t}\n")]),
    ("E09", "parseAuditLogs: trim the line before parsing (strings.TrimSpace)",
     [rep(A, '\t"fmt"\n', '\t"fmt"\n\t"strings"\n'), rep(A, "auparse.ParseLogLine(line)", "auparse.ParseLogLine(strings.TrimSpace(line))")]),
    ("E10", "parseAuditLogs: batch-drain inner loop `for queued := len(lines); queued > 0; queued--` with a shadowed err that is never returned",
     [rep(A, "\t\t\treass.PushMessage(auditMsg)\n", '''			reass.PushMessage(auditMsg)

			for queued := len(lines); queued > 0; queued-- {
				next := <-lines
				if next == "" {
					continue
				}

				auditMsg, err := auparse.ParseLogLine(next)
				if err != nil {
					break
				}

				reass.PushMessage(auditMsg)
			}
''')]),
    ("E11", "parseAuditLogs: the select's ctx.Done arm returns nil", [rep(A, '''		case <-ctx.Done():
			return ctx.Err()
		case line := <-lines:''', '''		case <-ctx.Done():
			return nil
		case line := <-lines:''')]),
    # ---- ReassemblyComplete
    ("E12", "ReassemblyComplete: After test swapped (s.after.Before(event.Timestamp))", [rep(C, "event.Timestamp.Before(s.after)", "s.after.Before(event.Timestamp)")]),
    ("E13", "ReassemblyComplete: After test uses After instead of Before", [rep(C, "event.Timestamp.Before(s.after)", "event.Timestamp.After(s.after)")]),
    ("E14", "ReassemblyComplete: After filter removed", [rep(C, "\tif event.Timestamp.Before(s.after) {\n\t\treturn\n\t}\n\n", "")]),
    ("E15", "ReassemblyComplete: blocking send (plain send statement) of the AuditdEvent error",
     [rep(C, SEND2, '''		s.errors <- &reassemblerCBError{
			message: fmt.Sprintf("failed to audit audit event - %s", err),
			inner:   err,
		}
''')]),
    ("E16", "ReassemblyComplete: blocking send (select without default) of the coalesce error", [rep(C, SEND1, SEND1.replace("\t\tdefault:\n", ""))]),
    ("E17", "ReassemblyComplete: ResolveIDs dropped (matters: the oracle `audit` is AuditdEvent on a RESOLVED event; C14's rendering reads the resolved names)",
     [rep(C, "\taucoalesce.ResolveIDs(event)\n\n", "")]),
    ("E18", "ReassemblyComplete: no return after a coalesce error (falls through to a nil event)", [rep(C, "\t\t}\n\n\t\treturn\n\t}\n\n\tif event.Timestamp", "\t\t}\n\t}\n\n\tif event.Timestamp")]),
    ("E19", "ReassemblyComplete: the raw error is sent instead of a reassemblerCBError", [rep(C, SEND2, "\t\tselect {\n\t\tcase s.errors <- err:\n\t\tdefault:\n\t\t}\n")]),
    ("E20", "ReassemblyComplete: AuditdEvent's error only logged",
     [rep(C, SEND2, '\t\tlogger.Errorf("failed to audit audit event - %s", err)\n')]),
    ("E21", "ReassemblyComplete: a reordering helper applied to msgs before CoalesceMessages",
     [rep(C, "aucoalesce.CoalesceMessages(msgs)", "aucoalesce.CoalesceMessages(newestFirst(msgs))"),
      rep(C, "func (s *reassemblerCB) EventsLost", '''func newestFirst(in []*auparse.AuditMessage) []*auparse.AuditMessage {
	out := make([]*auparse.AuditMessage, len(in))
	for i, m := range in {
		out[len(in)-1-i] = m
	}

	return out
}

func (s *reassemblerCB) EventsLost''')]),
    ("E22", "ReassemblyComplete: ResolveIDs moved after AuditdEvent",
     [rep(C, "\taucoalesce.ResolveIDs(event)\n\n", ""), rep(C, "\t\tdefault:\n\t\t}\n\t}\n}\n", "\t\tdefault:\n\t\t}\n\t}\n\n\taucoalesce.ResolveIDs(event)\n}\n")]),
    # ---- Read
    ("E23", "Read: the login arm returns nil instead of the wrapped error",
     [rep(A, 'return fmt.Errorf("failed to handle remote user login - %w", err)', "return nil")]),
    ("E24", "Read: the login arm only logs RemoteLogin's error",
     [rep(A, 'return fmt.Errorf("failed to handle remote user login - %w", err)', 'logger.Errorf("failed to handle remote user login - %s", err)')]),
    ("E25", "Read: only one cleanup called on the tick", [rep(A, "\t\t\ttracker.DeleteRemoteUserLoginsBefore(aMinuteAgo)\n", "")]),
    ("E26", "Read: the second cleanup gets another cut-off (2 x interval)",
     [rep(A, "tracker.DeleteRemoteUserLoginsBefore(aMinuteAgo)", "tracker.DeleteRemoteUserLoginsBefore(time.Now().Add(-2 * staleDataCleanupInterval))")]),
    ("E27", "Read: cut-off is now + interval (sign dropped)", [rep(A, "time.Now().Add(-staleDataCleanupInterval)", "time.Now().Add(staleDataCleanupInterval)")]),
    ("E28", "Read: the parser join removed (deferred function only cancels)", [rep(A, JOIN, "\tdefer stopParser()\n")]),
    ("E29", "Read: reassembler.Close deferred AFTER the join (so it runs BEFORE the parser was waited for)",
     [rep(A, "\tdefer reassembler.Close()\n\n", ""), rep(A, JOIN, JOIN + "\n\tdefer reassembler.Close()\n")]),
    ("E30", "Read: defer reassembler.Close() removed", [rep(A, "\tdefer reassembler.Close()\n\n", "")]),
    ("E31", "Read: the callback's errors channel unbuffered", [rep(A, "reassemblerErrors := make(chan error, 1)", "reassemblerErrors := make(chan error)")]),
    ("E32", "Read: the parser's result channel unbuffered (the goroutine could block for ever, the join would hang)",
     [rep(A, "parseAuditLogsDone := make(chan error, 1)", "parseAuditLogsDone := make(chan error)")]),
    ("E33", "Read: the parser goroutine runs on the PARENT context (stopParser cannot stop it)",
     [rep(A, "ctx, stopParser := context.WithCancel(ctx)", "loopCtx, stopParser := context.WithCancel(ctx)"),
      rep(A, "go maintainReassemblerLoop(ctx, reassembler, reassemblerInterval)", "go maintainReassemblerLoop(loopCtx, reassembler, reassemblerInterval)")]),
    ("E34", "Read: two tracker views (tracker.With(..)) — logins/cleanup on one, the callback on the other",
     [rep(T, "func (o *sessionTracker) RemoteLogin(", '''// With returns a view of the tracker.
func (o *sessionTracker) With(name string) *sessionTracker {
	c := NewSessionTracker(o.eventWriter, o.l.With("view", name))
	return c
}

func (o *sessionTracker) RemoteLogin('''),
      rep(A, "\ttracker := sessiontracker.NewSessionTracker(o.EventW, logger)\n",
          "\tbase := sessiontracker.NewSessionTracker(o.EventW, logger)\n\ttracker := base.With(\"logins\")\n\tcbTracker := base.With(\"events\")\n"),
      rep(A, "au:     tracker,", "au:     cbTracker,")]),
    ("E35", "Read: the errors arm logs and goes on (a callback error no longer stops the processor)",
     [rep(A, '\t\t\treturn fmt.Errorf("failed to reassemble auditd event - %w", err)\n', '\t\t\tlogger.Errorf("failed to reassemble auditd event - %s", err)\n')]),
    ("E36", "Read: the parser-done arm returns the error unwrapped", [rep(A, 'return fmt.Errorf("audit log parser exited unexpectedly with error - %w", err)', "return err")]),
    ("E37", "Read: ctx.Done arm returns nil", [rep(A, "\t\tcase <-ctx.Done():\n\t\t\treturn ctx.Err()\n\t\tcase <-staleDataTicker.C:", "\t\tcase <-ctx.Done():\n\t\t\treturn nil\n\t\tcase <-staleDataTicker.C:")]),
    ("E38", "Read: the callback's after field is the zero time instead of o.After", [rep(A, "after:  o.After,", "after:  time.Time{},")]),
    ("E39", "Read: OnReady call removed", [rep(A, "\to.Health.OnReady(AuditdProcessorComponentName)\n\n", "")]),
    ("E40", "Read: behaviour under a debug-level guard (a second RemoteLogin when DEBUG is enabled)",
     [rep(A, "\t\tcase remoteLogin := <-o.Logins:\n", "\t\tcase remoteLogin := <-o.Logins:\n\t\t\tif logger.Level().Enabled(zap.DebugLevel) {\n\t\t\t\t_ = tracker.RemoteLogin(remoteLogin)\n\t\t\t}\n\n")]),
    # ---- maintainReassemblerLoop
    ("E41", "maintainReassemblerLoop: Maintain's error ignored (the loop spins on a closed reassembler)",
     [rep(A, '''			if reassembler.Maintain() != nil {
				// Maintain returns non-nil error
				// if reassembler was closed.
				return
			}
''', "\t\t\treassembler.Maintain()\n")]),
    ("E42", "maintainReassemblerLoop: returns when Maintain SUCCEEDS", [rep(A, "if reassembler.Maintain() != nil {", "if reassembler.Maintain() == nil {")]),
    ("E43", "maintainReassemblerLoop: ctx.Done arm removed", [rep(A, "\t\tcase <-ctx.Done():\n\t\t\treturn\n\t\tcase <-t.C:", "\t\tcase <-t.C:")]),
    # ---- harmless
    ("H01", "HARMLESS rename locals (aMinuteAgo->cutoff, line->ln, remoteLogin->rl, parserExited->parserGone, msgs->records)",
     [lambda s: s.__setitem__(A, re.sub(r"\baMinuteAgo\b", "cutoff", re.sub(r"\bremoteLogin\b", "rl", re.sub(r"\bparserExited\b", "parserGone", s[A])))),
      lambda s: s.__setitem__(A, s[A].replace("case line := <-lines:", "case ln := <-lines:").replace('if line == "" {', 'if ln == "" {')
                              .replace("auparse.ParseLogLine(line)", "auparse.ParseLogLine(ln)").replace("\t\t\t\t\t\tline, err),", "\t\t\t\t\t\tln, err),")),
      lambda s: s.__setitem__(C, re.sub(r"\bmsgs\b", "records", s[C]))]),
    ("H02", "HARMLESS reorder independent declarations (tracker before the errors channel; parser result channel before `go maintain..`)",
     [rep(A, "\treassemblerErrors := make(chan error, 1)\n\ttracker := sessiontracker.NewSessionTracker(o.EventW, logger)\n",
          "\ttracker := sessiontracker.NewSessionTracker(o.EventW, logger)\n\treassemblerErrors := make(chan error, 1)\n"),
      rep(A, "\tgo maintainReassemblerLoop(ctx, reassembler, reassemblerInterval)\n\n\tparseAuditLogsDone := make(chan error, 1)\n",
          "\tparseAuditLogsDone := make(chan error, 1)\n\n\tgo maintainReassemblerLoop(ctx, reassembler, reassemblerInterval)\n")]),
    ("H03", "HARMLESS add log lines (Read's login arm, parseAuditLogs, ReassemblyComplete)",
     [rep(A, "\t\tcase remoteLogin := <-o.Logins:\n", '\t\tcase remoteLogin := <-o.Logins:\n\t\t\tlogger.Infof("login received")\n'),
      rep(A, "\t\t\treass.PushMessage(auditMsg)\n", '\t\t\tlogger.Debugf("pushing %s", line)\n\t\t\treass.PushMessage(auditMsg)\n'),
      rep(C, "\taucoalesce.ResolveIDs(event)\n", '\tlogger.Debugf("event with %d records", len(msgs))\n\taucoalesce.ResolveIDs(event)\n')]),
    ("H04", "HARMLESS reword an error message and a log text",
     [rep(A, "failed to handle remote user login - %w", "remote user login could not be handled: %w"),
      rep(C, "lost %d auditd events during reassembly", "reassembly lost %d auditd events")]),
    ("H05", "HARMLESS swap the two go statements (parser goroutine started before the maintain loop)",
     [rep(A, "\tgo maintainReassemblerLoop(ctx, reassembler, reassemblerInterval)\n\n", ""),
      rep(A, "\tstaleDataTicker := time.NewTicker(staleDataCleanupInterval)\n", "\tgo maintainReassemblerLoop(ctx, reassembler, reassemblerInterval)\n\n\tstaleDataTicker := time.NewTicker(staleDataCleanupInterval)\n")]),
    ("H06", "HARMLESS-looking rewrite the translator does not know: `if err == nil { continue }; return ..` shape in the login arm",
     [rep(A, '''			if err := tracker.RemoteLogin(remoteLogin); err != nil {
				return fmt.Errorf("failed to handle remote user login - %w", err)
			}
''', '''			err := tracker.RemoteLogin(remoteLogin)
			if err == nil {
				continue
			}

			return fmt.Errorf("failed to handle remote user login - %w", err)
''')]),
]


def prepare():
    os.makedirs(WORK, exist_ok=True)
    if os.path.exists(COQT):
        shutil.rmtree(COQT)
    shutil.copytree(os.path.join(VERIF, "coq"), COQT)
    if not os.path.exists(SCR):
        sh(["cp", "-r", REPO, SCR])
    sh(["go", "build", "-o", GO2V, "."], cwd=os.path.join(VERIF, "tools", "go2v"))


def coqc(f):
    return sh(["timeout", "600", "coqc", "-R", ".", "AM", "-w", "-notation-overridden", f], cwd=COQT)


def first_failure(out):
    m = re.search(r'File "\./([^"]+)", line (\d+)', out)
    if not m:
        return out.strip()[-200:]
    f, ln = m.group(1), int(m.group(2))
    txt = open(os.path.join(COQT, f)).read().splitlines()
    name = "?"
    for i in range(ln - 1, -1, -1):
        mm = re.match(r"\s*(Theorem|Lemma|Corollary|Definition)\s+([A-Za-z0-9_']+)", txt[i])
        if mm:
            name = mm.group(2)
            break
    err = re.search(r"Error:\s*(.*)", out, re.S)
    e = " ".join(err.group(1).split())[:110] if err else ""
    return "%s:%d in %s (%s)" % (f, ln, name, e)


def run_one(eid, desc, fs):
    orig = {}
    for p in (A, C, T):
        orig[p] = open(os.path.join(REPO, p)).read()
    src = dict(orig)
    for f in fs:
        f(src)
    for p in src:
        open(os.path.join(SCR, p), "w").write(src[p])
    res = {"id": eid, "desc": desc}
    try:
        rc, out = sh(["go", "build", "./processors/auditd/..."], cwd=SCR)
        rc2, out2 = sh(["go", "vet", "./processors/auditd/"], cwd=SCR)
        res["go_build"] = rc == 0
        res["go_vet"] = rc2 == 0
        if rc != 0:
            res["verdict"] = "DOES NOT COMPILE AS GO: " + out.strip()[-300:]
            return res
        gen = os.path.join(WORK, "gen_edit")
        shutil.rmtree(gen, ignore_errors=True)
        os.makedirs(gen)
        rc, out = sh([GO2V, "-repo", SCR, "-out", gen])
        res["go2v_rc"] = rc
        new = open(os.path.join(gen, "AuditProg.v")).read()
        uns = re.findall(r"\(\* UNSUPPORTED: (.*?) \*\)", new)
        res["unsupported"] = uns[:3]
        changed = new != open(os.path.join(VERIF, "coq/Gen/AuditProg.v")).read()
        res["gen_changed"] = changed
        # install every generated file that differs (Consts.v / Blocking.v may change too); only the audit files are re-checked
        for g in ("AuditProg.v", "Consts.v"):
            shutil.copy(os.path.join(gen, g), os.path.join(COQT, "Gen", g))
        rc, out = coqc("Gen/Consts.v")
        rc, out = coqc("Gen/AuditProg.v")
        if rc != 0:
            res["verdict"] = "REJECTED: generated file ill-typed"
            res["detail"] = "; ".join(uns[:2]) if uns else first_failure(out)
            return res
        rc, out = coqc("Proofs/AuditIRTie.v")
        if rc != 0:
            res["verdict"] = "REJECTED: tie theorem fails"
            res["detail"] = first_failure(out)
            return res
        rc, out = coqc("Props/C15.v")
        if rc != 0:
            res["verdict"] = "REJECTED: Props/C15.v fails"
            res["detail"] = first_failure(out)
            return res
        res["verdict"] = "ACCEPTED"
        res["detail"] = "generated program %s" % ("differs, all theorems re-checked" if changed else "unchanged")
        return res
    finally:
        for p in orig:
            open(os.path.join(SCR, p), "w").write(orig[p])


def main():
    only = set(sys.argv[1:])
    prepare()
    out = []
    for eid, desc, fs in EDITS:
        if only and eid not in only:
            continue
        try:
            r = run_one(eid, desc, fs)
        except Exception as e:  # noqa
            r = {"id": eid, "desc": desc, "verdict": "SCRIPT ERROR: %s" % e}
        print(r["id"], "|", r.get("verdict"), "|", r.get("detail", ""), flush=True)
        out.append(r)
    json.dump(out, open(os.path.join(WORK, "edits_result%s.json" % ("_" + "_".join(sorted(only)) if only else "")), "w"), indent=1)
    shutil.rmtree(SCR, ignore_errors=True)
    shutil.rmtree(COQT, ignore_errors=True)


main()
