#!/usr/bin/env python3
"""Robustness table for tools/go2v/reassemblergen.go (results: REASSEMBLERGEN_EDITS.md; usage:
python3 reassemblergen_edits.py [ids]).  The pinned go-libaudit module is copied from the module cache to a scratch
directory, a scratch copy of /repo gets `replace github.com/elastic/go-libaudit/v2 v2.3.3 => <that directory>`; each
edit of reassembler.go is applied there, checked to compile as Go (go build ./processors/auditd/... in the scratch repo, which compiles the edited library
package; go vet of the library cannot run offline: one of its sub-packages needs a module that is not in the cache), translated (go2v -repo <scratch repo>), and Gen/ReassemblerProg.v,
Proofs/ReassemblerIRRun.v, Proofs/ReassemblerIRTie.v, Props/C15.v are re-checked in a scratch copy of the Coq tree.
All scratch directories are deleted at the end."""
import json, os, re, shutil, subprocess, sys

VERIF = os.path.dirname(os.path.dirname(os.path.dirname(os.path.abspath(__file__))))
WORK = os.environ.get("REASSEMBLERGEN_EDITS_WORK", "/tmp/ws/B/reassemblergen_edits")
REPO = os.environ.get("VERIF_REPO", "/repo")
SCR = os.path.join(WORK, "repo_scratch")       # scratch copy of the repo
LIB = os.path.join(WORK, "libaudit_scratch")   # scratch copy of the module directory
COQT = os.path.join(WORK, "coqtmp")            # scratch copy of the Coq tree (needs an up-to-date build of coq/)
GO2V = os.path.join(WORK, "go2v")
ENV = dict(os.environ, GOFLAGS="-mod=mod", GOPROXY="off", GOSUMDB="off", GOTOOLCHAIN="local")
IMPORT = "github.com/elastic/go-libaudit/v2"
R = "reassembler.go"


def sh(cmd, cwd=None, timeout=900):
    p = subprocess.run(cmd, cwd=cwd, env=ENV, stdout=subprocess.PIPE, stderr=subprocess.STDOUT, timeout=timeout)
    return p.returncode, p.stdout.decode("utf-8", "replace")


def module_dir():
    """the directory `go list -m` reports for the library in /repo"""
    rc, out = sh(["go", "list", "-m", "-json", IMPORT], cwd=REPO)
    j = json.loads(out)
    return (j.get("Replace") or j)["Dir"]


def rep(old, new, count=1):
    def f(s):
        if s.count(old) < 1:
            raise RuntimeError("pattern not found: %r" % old[:70])
        return s.replace(old, new, count)
    return f


LOST = '''			if l.lastSeq > 0 {
				lost += int(seq - l.lastSeq - 1)
			}
'''
EOE = '''	if msg.RecordType == auparse.AUDIT_EOE {
		if found {
			e.complete = true
		}
		return
	}
'''
ADD_COND = '''	if msg.RecordType == auparse.AUDIT_PROCTITLE ||
		msg.RecordType <= auparse.AUDIT_LAST_DAEMON ||
		msg.RecordType >= auparse.AUDIT_ANOM_LOGIN_FAILURES {'''
CB_LOOP = '''	for _, e := range events {
		r.stream.ReassemblyComplete(e.msgs)
	}

	if lost > 0 {
		r.stream.EventsLost(lost)
	}
'''
CLEANUP_COND = "		if event.complete || size > l.maxSize || event.IsExpired() {"
REMOVE = '''		seq := l.seqs[0]
		l.seqs = l.seqs[1:]
		delete(l.events, seq)
'''

EDITS = [
    # ---- Put / Add
    ("E01", "Put: an EOE record is appended to its event (e.Add(msg)) instead of only marking it complete",
     [rep(EOE, EOE.replace("\t\t\te.complete = true\n", "\t\t\te.complete = true\n\t\t\te.Add(msg)\n"))]),
    ("E02", "Put: an EOE record for an unknown sequence number creates an event (the `return` moved inside `if found`)",
     [rep(EOE, '''	if msg.RecordType == auparse.AUDIT_EOE {
		if found {
			e.complete = true
			return
		}
	}
''')]),
    ("E03", "Put: the EOE test compares with AUDIT_PROCTITLE", [rep("if msg.RecordType == auparse.AUDIT_EOE {", "if msg.RecordType == auparse.AUDIT_PROCTITLE {")]),
    ("E04", "Put: a new event is not sorted into place (l.seqs.Sort() dropped: arrival order)", [rep("\t\tl.seqs.Sort()\n", "")]),
    ("E05", "Put: the expiry of a new event is now + 2*timeout", [rep("time.Now().Add(l.timeout)", "time.Now().Add(l.timeout).Add(l.timeout)")]),
    ("E06", "Put: the new event is stored in the map under the wrong key (seq+1)", [rep("\t\tl.events[seq] = e\n", "\t\tl.events[seq+1] = e\n")]),
    ("E07", "Put: no lock (Lock / defer Unlock removed)", [rep("func (l *eventList) Put(msg *auparse.AuditMessage) {\n\tl.Lock()\n\tdefer l.Unlock()\n", "func (l *eventList) Put(msg *auparse.AuditMessage) {\n")]),
    ("E08", "Add: the complete flag on other types (SYSCALL completes an event too)",
     [rep(ADD_COND, ADD_COND.replace("msg.RecordType == auparse.AUDIT_PROCTITLE ||", "msg.RecordType == auparse.AUDIT_PROCTITLE || msg.RecordType == auparse.AUDIT_SYSCALL ||"))]),
    ("E09", "Add: `<` instead of `<=` AUDIT_LAST_DAEMON", [rep("msg.RecordType <= auparse.AUDIT_LAST_DAEMON", "msg.RecordType < auparse.AUDIT_LAST_DAEMON")]),
    ("E10", "Add: the record is prepended instead of appended", [rep("e.msgs = append(e.msgs, msg)", "e.msgs = append([]*auparse.AuditMessage{msg}, e.msgs...)")]),
    # ---- CleanUp / Clear / remove
    ("E11", "CleanUp: `>=` instead of `>` maxSize", [rep("size > l.maxSize", "size >= l.maxSize")]),
    ("E12", "CleanUp: expiry ignored", [rep(CLEANUP_COND, "		if event.complete || size > l.maxSize {")]),
    ("E13", "CleanUp: evict from the tail (the highest sequence number first)",
     [rep("\t\tseq = l.seqs[0]\n\t\tevent := l.events[seq]\n\n\t\tif event.complete", "\t\tseq = l.seqs[size-1]\n\t\tevent := l.events[seq]\n\n\t\tif event.complete")]),
    ("E14", "CleanUp: lost computed differently (no -1: counts the evicted event itself)", [rep(LOST, LOST.replace("seq - l.lastSeq - 1", "seq - l.lastSeq"))]),
    ("E15", "CleanUp: lost counted even when lastSeq is 0 (guard removed)", [rep(LOST, "\t\t\tlost += int(seq - l.lastSeq - 1)\n")]),
    ("E16", "CleanUp: lastSeq not updated", [rep("\t\t\tl.lastSeq = seq\n\t\t\tevicted = append(evicted, event)\n\t\t\tl.remove()\n\t\t\tcontinue", "\t\t\tevicted = append(evicted, event)\n\t\t\tl.remove()\n\t\t\tcontinue")]),
    ("E17", "CleanUp: an evicted incomplete event is dropped (only complete ones are handed over)",
     [rep("\t\t\tl.lastSeq = seq\n\t\t\tevicted = append(evicted, event)\n\t\t\tl.remove()\n\t\t\tcontinue", "\t\t\tl.lastSeq = seq\n\t\t\tif event.complete {\n\t\t\t\tevicted = append(evicted, event)\n\t\t\t}\n\t\t\tl.remove()\n\t\t\tcontinue")]),
    ("E18", "remove: the map entry stays (delete dropped)", [rep(REMOVE, "\t\tl.seqs = l.seqs[1:]\n")]),
    ("E19", "Clear: not delivering (returns nil, lost)",
     [rep("\t\tevicted = append(evicted, event)\n\t\tl.remove()\n\t}\n\n\treturn evicted, lost", "\t\tevicted = append(evicted, event)\n\t\tl.remove()\n\t}\n\n\treturn nil, lost")]),
    ("E20", "Clear: stops after the first event", [rep("\t\tevicted = append(evicted, event)\n\t\tl.remove()\n\t}\n\n\treturn evicted, lost", "\t\tevicted = append(evicted, event)\n\t\tl.remove()\n\t\tbreak\n\t}\n\n\treturn evicted, lost")]),
    # ---- Less
    ("E21", "Less: roll-over rule removed (plain <)", [rep("\tif diff > maxSortRange {\n\t\treturn p[i] > p[j]\n\t}\n\n", "\t_ = diff\n")]),
    ("E22", "Less: maxSortRange = 1<<16 - 1", [rep("const maxSortRange = 1<<24 - 1", "const maxSortRange = 1<<16 - 1")]),
    ("E23", "Less: `>=` maxSortRange", [rep("if diff > maxSortRange {", "if diff >= maxSortRange {")]),
    ("E24", "Less: descending order", [rep("\treturn p[i] < p[j]\n", "\treturn p[i] > p[j]\n")]),
    ("E25", "Sort: sort.Stable on a reversed slice (sort.Sort(sort.Reverse(p)))", [rep("func (p sequenceNumSlice) Sort()         { sort.Sort(p) }", "func (p sequenceNumSlice) Sort()         { sort.Sort(sort.Reverse(p)) }")]),
    # ---- Reassembler
    ("E26", "callback: order reversed (EventsLost before the events)",
     [rep(CB_LOOP, '''	if lost > 0 {
		r.stream.EventsLost(lost)
	}

	for _, e := range events {
		r.stream.ReassemblyComplete(e.msgs)
	}
''')]),
    ("E27", "callback: events delivered last to first",
     [rep("\tfor _, e := range events {\n\t\tr.stream.ReassemblyComplete(e.msgs)\n\t}\n", "\tfor i := len(events) - 1; i >= 0; i-- {\n\t\tr.stream.ReassemblyComplete(events[i].msgs)\n\t}\n")]),
    ("E28", "callback: EventsLost also for lost == 0", [rep("\tif lost > 0 {\n\t\tr.stream.EventsLost(lost)\n\t}\n", "\tif lost >= 0 {\n\t\tr.stream.EventsLost(lost)\n\t}\n")]),
    ("E29", "PushMessage: CleanUp before Put", [rep("\tr.list.Put(msg)\n\tevicted, lost := r.list.CleanUp()\n", "\tevicted, lost := r.list.CleanUp()\n\tr.list.Put(msg)\n")]),
    ("E30", "PushMessage: no CleanUp (events leave only on Maintain)", [rep("\tr.list.Put(msg)\n\tevicted, lost := r.list.CleanUp()\n\tr.callback(evicted, lost)\n", "\tr.list.Put(msg)\n")]),
    ("E31", "Maintain: the closed check removed (delivers after Close)", [rep("\tif atomic.LoadInt32(&r.closed) == 1 {\n\t\treturn errReassemblerClosed\n\t}\n\tevicted, lost := r.list.CleanUp()", "\tevicted, lost := r.list.CleanUp()")]),
    ("E32", "Maintain: returns nil when closed", [rep("\tif atomic.LoadInt32(&r.closed) == 1 {\n\t\treturn errReassemblerClosed\n\t}", "\tif atomic.LoadInt32(&r.closed) == 1 {\n\t\treturn nil\n\t}")]),
    ("E33", "Close: flushes every time (CompareAndSwap replaced by a store)",
     [rep("\tif atomic.CompareAndSwapInt32(&r.closed, 0, 1) {", "\tatomic.StoreInt32(&r.closed, 1)\n\tif true {")]),
    ("E34", "Close: flushes with CleanUp instead of Clear (incomplete events stay)", [rep("\t\tevicted, lost := r.list.Clear()", "\t\tevicted, lost := r.list.CleanUp()")]),
    ("E35", "Close: the callback is not called", [rep("\t\tevicted, lost := r.list.Clear()\n\t\tr.callback(evicted, lost)\n", "\t\tr.list.Clear()\n")]),
]

HARMLESS = [
    ("H01", "rename struct fields (seqs->order, events->byseq, lastSeq->prev, msgs->records, complete->done, closed->shut)",
     [lambda s: s.replace("l.seqs", "l.order").replace("\tseqs    sequenceNumSlice", "\torder   sequenceNumSlice").replace("\t\tseqs:    make(", "\t\torder:   make("),
      lambda s: s.replace("l.events", "l.byseq").replace("\tevents  map[", "\tbyseq   map[").replace("\t\tevents:  make(", "\t\tbyseq:   make("),
      lambda s: re.sub(r"\blastSeq\b", "prev", s), lambda s: re.sub(r"\bcomplete\b", "done", s), lambda s: re.sub(r"\bclosed\b", "shut", s),
      lambda s: re.sub(r"\bmsgs\b", "records", s)]),
    ("H02", "reorder declarations (abs and Less moved to the end of the file, Clear after CleanUp) and add comments",
     [lambda s: move_to_end(s, "func abs(x int64) int64 {"), lambda s: move_to_end(s, "func (p sequenceNumSlice) Less(i, j int) bool {"),
      lambda s: move_to_end(s, "func (l *eventList) Clear() ([]*event, int) {"), lambda s: s + "\n// reordered for the robustness table\n"]),
    ("H03", "capacity hints and the error text changed (make(.., 0, 16); maxSize+8; errors.New(\"closed\"))",
     [rep("make([]*auparse.AuditMessage, 0, 4)", "make([]*auparse.AuditMessage, 0, 16)"), rep("make([]sequenceNum, 0, maxSize+1)", "make([]sequenceNum, 0, maxSize+8)"),
      rep('errors.New("reassembler closed")', 'errors.New("closed")')]),
]


def move_to_end(s, header):
    """cut the top-level function starting with header (up to the closing brace in column 0) and append it"""
    i = s.index(header)
    # include a preceding comment block
    j = s.index("\n}\n", i) + 3
    return s[:i] + s[j:] + "\n" + s[i:j]


def prepare():
    if os.path.exists(WORK):
        sh(["chmod", "-R", "u+w", WORK])
        shutil.rmtree(WORK)
    os.makedirs(WORK)
    shutil.copytree(os.path.join(VERIF, "coq"), COQT)
    sh(["cp", "-r", REPO, SCR])
    sh(["cp", "-r", module_dir(), LIB])
    sh(["chmod", "-R", "u+w", LIB])
    gm = open(os.path.join(SCR, "go.mod")).read()
    gm2 = re.sub(r"replace github.com/elastic/go-libaudit/v2 [^\n]*\n", "replace %s v2.3.3 => %s\n" % (IMPORT, LIB), gm)
    if gm2 == gm:
        raise RuntimeError("replace line not found in go.mod")
    open(os.path.join(SCR, "go.mod"), "w").write(gm2)
    sh(["go", "build", "-o", GO2V, "."], cwd=os.path.join(VERIF, "tools", "go2v"))


def coqc(f):
    return sh(["timeout", "900", "coqc", "-R", ".", "AM", "-w", "-notation-overridden", f], cwd=COQT)


def first_failure(out):
    m = re.search(r'File "\./([^"]+)", line (\d+)', out)
    if not m:
        return out.strip()[-200:]
    f, ln = m.group(1), int(m.group(2))
    txt = open(os.path.join(COQT, f)).read().splitlines()
    name = "?"
    for i in range(ln - 1, -1, -1):
        mm = re.match(r"\s*(Theorem|Lemma|Corollary|Definition)\s+([A-Za-z0-9_']+)", txt[i])
        if mm:
            name = mm.group(2)
            break
    err = re.search(r"Error:\s*(.*)", out, re.S)
    e = " ".join(err.group(1).split())[:110] if err else ""
    return "%s:%d in %s (%s)" % (f, ln, name, e)


def run_one(eid, desc, fs, baseline):
    orig = open(os.path.join(LIB, R)).read()
    src = orig
    for f in fs:
        src = f(src)
    open(os.path.join(LIB, R), "w").write(src)
    res = {"id": eid, "desc": desc}
    try:
        rc, out = sh(["go", "build", "./processors/auditd/..."], cwd=SCR)
        res["go_build"] = rc == 0
        if rc != 0:
            res["verdict"] = "DOES NOT COMPILE AS GO: " + out.strip()[-300:]
            return res
        gen = os.path.join(WORK, "gen_edit")
        shutil.rmtree(gen, ignore_errors=True)
        os.makedirs(gen)
        rc, out = sh([GO2V, "-repo", SCR, "-out", gen])
        new = open(os.path.join(gen, "ReassemblerProg.v")).read()
        uns = re.findall(r"UNSUPPORTED_\w+ \(\* (.*?) \*\)", new) + re.findall(r"(UNSUPPORTED_sequenceNumSlice\w+)", new)
        res["unsupported"] = uns[:3]
        body = lambda t: t[t.index("Definition gen_AUDIT_EOE"):]
        res["gen_changed"] = body(new) != baseline
        shutil.copy(os.path.join(gen, "ReassemblerProg.v"), os.path.join(COQT, "Gen", "ReassemblerProg.v"))
        rc, out = coqc("Gen/ReassemblerProg.v")
        if rc != 0:
            res["verdict"] = "REJECTED: generated file ill-typed"
            res["detail"] = "; ".join(uns[:2]) if uns else first_failure(out)
            return res
        for f, what in (("Proofs/ReassemblerIRRun.v", "symbolic-execution lemma fails"), ("Proofs/ReassemblerIRTie.v", "tie theorem fails"),
                        ("Props/C15.v", "Props/C15.v fails")):
            rc, out = coqc(f)
            if rc != 0:
                res["verdict"] = "REJECTED: " + what
                res["detail"] = first_failure(out)
                return res
        res["verdict"] = "ACCEPTED"
        res["detail"] = "generated program %s" % ("differs, all theorems re-checked" if res["gen_changed"] else "unchanged, all theorems re-checked")
        return res
    finally:
        open(os.path.join(LIB, R), "w").write(orig)


def main():
    only = set(sys.argv[1:])
    prepare()
    # baseline: the unedited copy through the local replace is accepted and gives the same programs as the module cache
    gen = os.path.join(WORK, "gen_base")
    os.makedirs(gen)
    sh([GO2V, "-repo", SCR, "-out", gen])
    t = open(os.path.join(gen, "ReassemblerProg.v")).read()
    baseline = t[t.index("Definition gen_AUDIT_EOE"):]
    ref = open(os.path.join(VERIF, "coq/Gen/ReassemblerProg.v")).read()
    print("B00 | unedited copy through `replace => <dir>`: programs identical to those from the module cache:", baseline == ref[ref.index("Definition gen_AUDIT_EOE"):], flush=True)
    out = []
    for eid, desc, fs in EDITS + HARMLESS:
        if only and eid not in only:
            continue
        try:
            r = run_one(eid, desc, fs, baseline)
        except Exception as e:  # noqa
            r = {"id": eid, "desc": desc, "verdict": "SCRIPT ERROR: %s" % e}
        print(r["id"], "|", r.get("verdict"), "|", r.get("detail", ""), flush=True)
        out.append(r)
    res_path = os.environ.get("REASSEMBLERGEN_EDITS_OUT", "/tmp/ws/B/reassemblergen_edits_result.json")
    json.dump(out, open(res_path, "w"), indent=1)
    sh(["chmod", "-R", "u+w", WORK])
    shutil.rmtree(WORK, ignore_errors=True)


main()
