"""Generic flow of one property check (see DESIGN.md section 2).

 1. regenerate coq/Gen from /repo (translator)           -> obligations re-stated about current source
 2. make the property's .vo closure (full build)          -> proof obligations
 3. hygiene grep + Print Assumptions                      -> no axioms, nothing admitted
 4. build + run the Go harness on /repo's working tree    -> observations + oracle verdicts
 5. evaluate the harness' case files in Coq (vm_compute)  -> correspondence model <-> implementation
 6. decide: oracle failure => VIOLATION with the failing input as replay;
            broken proof / correspondence and no failing input => VIOLATION ... no-failing-input-found
"""
import json
import re
import os
import sys
import time

import vlib
from vlib import log

ALLOWED_AXIOMS = ()  # none needed so far; stdlib axioms would be named here and in DESIGN.md

BASE_TRUSTED = [
    "Coq 8.16.1 kernel (coqc, full .vo build via coq_makefile; vm_compute used, native_compute not used)",
    "translator tools/go2v (Go stdlib go/parser, go/ast, regexp/syntax) for Gen/*.v",
    "correspondence harness (Go, built from /repo's working tree with -tags verif and -overlay) and lib/*.py",
    "no Extraction is used: the model is evaluated inside Coq by vm_compute on harness-written case files",
]


class Spec:
    def __init__(self, pid, prop_file, harness=None, overlay=None, args_quick=(), args_thorough=(),
                 args_search=(), race=False, assumptions=(), modelled=(), extra_targets=(),
                 harness_timeout=900, harness_env=None, post=None, thorough_extra=(), search_extra=()):
        self.pid = pid
        self.prop_file = prop_file          # e.g. Props/C18.v
        self.harness = harness              # harness directory name under /verif/harness
        self.overlay = overlay or {}
        self.args_quick = list(args_quick)
        self.args_thorough = list(args_thorough)
        self.args_search = list(args_search)
        self.race = race
        self.assumptions = list(assumptions)
        self.modelled = list(modelled)
        self.extra_targets = list(extra_targets)
        self.harness_timeout = harness_timeout
        self.harness_env = harness_env or {}
        self.post = post                    # optional hook(ctx) -> list of extra failures
        # [(harness, overlay, args_thorough, race[, args_quick])]: further harnesses; run in the thorough tier,
        # and in the quick tier too when args_quick is given
        self.thorough_extra = list(thorough_extra)
        # [(harness, overlay, args, race)]: run only when an obligation or the correspondence broke and no failing input
        # has been found yet (may be slow)
        self.search_extra = list(search_extra)


def parse_assumptions(out):
    """Split coqc output of a Props file into per-theorem assumption reports."""
    blocks = []
    cur = None
    for line in out.splitlines():
        if line.startswith("Closed under the global context"):
            blocks.append("Closed under the global context")
            cur = None
        elif line.startswith("Axioms:"):
            cur = [line]
            blocks.append(cur)
        elif cur is not None and (line.startswith(" ") or line.strip() == ""):
            cur.append(line)
        else:
            cur = None
    res = []
    for b in blocks:
        res.append(b if isinstance(b, str) else "\n".join(b))
    return res


def finding_matches(entry, failure):
    if entry.get("key") and failure.get("key"):
        return entry["key"] == failure["key"]
    return False


def run(spec, tier, seed, replay=None):
    t0 = time.time()
    pid = spec.pid
    workdir = os.path.join(vlib.BUILD, "run", pid)
    os.makedirs(workdir, exist_ok=True)
    problems = []        # broken proof obligations / correspondence (no concrete input yet)
    notes = []

    if replay:
        replay = os.path.abspath(replay)
        hname, hov, hrace = spec.harness, spec.overlay, spec.race
        try:
            want = json.load(open(replay)).get("harness")
        except Exception:
            want = None
        for ex in list(spec.thorough_extra) + list(spec.search_extra):
            if want and ex[0] == want and want != spec.harness:
                hname, hov, hrace = ex[0], ex[1], ex[3]
        ok, binp, blog = vlib.build_harness(hname, hov, race=hrace)
        if not ok:
            print(blog[-3000:])
            return 2
        rc, out = vlib.sh([binp, "-out", workdir, "-replay", replay], cwd=workdir, env=vlib.GOENV, timeout=600)
        print(out)
        return rc

    # ---- 1-3: translator + proofs
    prop_vo = spec.prop_file + "o"
    with vlib.Lock():
        gen = vlib.regen()
        if gen["rc"] != 0:
            problems.append({"kind": "translator", "what": "go2v failed on the current source", "log": gen["log"][-2000:]})
        changed = [f for f, i in gen["files"].items() if i["changed"]]
        if changed:
            notes.append("Gen files changed by this run's regeneration: " + ", ".join(changed))
        deps = vlib.coq_deps(spec.prop_file)
        model_targets = [d + "o" for d in deps if d.startswith("Model/") or d.startswith("Lib/") or d.startswith("Gen/")]
        # models first (so that the correspondence can run even if a proof breaks), then proofs
        # the files the correspondence needs (the *Check.v evaluators and what they import) first, on their own:
        # a generated file that only a tie proof uses must not disable the model/implementation comparison
        ok_check = True
        if spec.extra_targets:
            ok_check, _ = vlib.coq_make(spec.extra_targets)
        ok_model, mlog = vlib.coq_make(model_targets + spec.extra_targets)
        if not spec.extra_targets:
            ok_check = ok_model
        ok_proof, plog = vlib.coq_make([prop_vo])
        obligations, discharged = vlib.count_obligations(deps)
        if not ok_model:
            problems.append({"kind": "model-build", "what": "model files no longer compile against regenerated Gen/*.v",
                             "log": mlog[-3000:]})
        if not ok_proof:
            failing = [l for l in plog.splitlines() if l.startswith("File ") or "Error" in l][:12]
            problems.append({"kind": "proof", "what": "proof obligation no longer checks: %s (or a file it depends on)" % spec.prop_file,
                             "theorem_file": spec.prop_file, "log": "\n".join(failing) or plog[-3000:]})
        bad = vlib.hygiene(deps)
        if bad:
            problems.append({"kind": "hygiene", "what": "forbidden vernacular in the development", "lines": bad[:20]})
        assumptions_txt = []
        if ok_proof:
            cache = os.path.join(vlib.BUILD, "assumptions_%s.txt" % pid)
            vo = os.path.join(vlib.COQ, prop_vo)
            if not os.path.exists(cache) or os.path.getmtime(cache) < os.path.getmtime(vo):
                rc, out = vlib.print_assumptions(spec.prop_file)
                with open(cache, "w") as fh:
                    fh.write(out)
            assumptions_txt = parse_assumptions(open(cache).read())
            for a in assumptions_txt:
                if a != "Closed under the global context":
                    names = [l.split(":")[0].strip() for l in a.splitlines()[1:] if ":" in l and not l.startswith("  ")]
                    unexpected = [n for n in names if n and n not in ALLOWED_AXIOMS]
                    if unexpected:
                        problems.append({"kind": "axioms", "what": "theorem depends on axioms: " + ", ".join(unexpected)})
            if not assumptions_txt:
                problems.append({"kind": "assumptions", "what": "no Print Assumptions output found in " + spec.prop_file})
        coqchk_txt = None
        if ok_proof and tier == "thorough":
            # independent re-check of the compiled property module and everything it depends on
            mod = "AM." + spec.prop_file[:-2].replace("/", ".")
            rc, out = vlib.sh(["coqchk", "-silent", "-o", "-R", ".", "AM", mod], cwd=vlib.COQ, timeout=3000)
            m = re.search(r"\* Axioms:(.*?)\n\s*\n\* ", out, re.S)
            axioms = [a.strip() for a in (m.group(1).split("\n") if m else []) if a.strip() and a.strip() != "<none>"]
            coqchk_txt = "coqchk -silent -o %s: rc=%s, axioms: %s" % (mod, rc, ", ".join(axioms) or "<none>")
            if rc != 0 or m is None:
                problems.append({"kind": "coqchk", "what": "coqchk does not accept the compiled development", "log": out[-2000:]})
            elif [a for a in axioms if a.split(".")[-1] not in ALLOWED_AXIOMS]:
                problems.append({"kind": "axioms", "what": "coqchk reports axioms: " + ", ".join(axioms)})

    t_proofs = time.time() - t0
    # ---- 4-5: harness + correspondence
    summ = None
    evaluated_in_coq = 0
    mismatches = []
    args = spec.args_quick if tier == "quick" else (spec.args_thorough or spec.args_quick)
    harness_runs = []

    phase_times = {}
    hung = set()

    def harness_round(args, seed, tag, hname=None, hoverlay=None, hrace=None):
        nonlocal evaluated_in_coq
        t_h = time.time()
        ok, binp, blog = vlib.build_harness(hname or spec.harness, spec.overlay if hoverlay is None else hoverlay,
                                            race=spec.race if hrace is None else hrace)
        if not ok:
            problems.append({"kind": "harness-build", "what": "the correspondence harness no longer builds against /repo",
                             "log": blog[-3000:]})
            return None
        outdir = os.path.join(workdir, tag)
        hkey = hname or spec.harness
        if hkey in hung:
            # this harness already ran into its time limit on this tree (a delivery that never returns, a
            # worker that does not stop): further rounds would only wait for the same limit again
            return None
        limit = spec.harness_timeout if tier == "thorough" else min(spec.harness_timeout, 420)
        rc, out, s = vlib.run_harness(binp, args, outdir, seed, timeout=limit, env=spec.harness_env)
        if s is None:
            hung.add(hkey)
            problems.append({"kind": "harness-run", "what": "harness %s exited %s without a summary (time limit %d s: "
                             "the implementation may hang)" % (hkey, rc, limit), "log": out[-3000:]})
            return None
        if rc != 0:
            problems.append({"kind": "harness-run", "what": "harness exited %s" % rc, "log": out[-3000:]})
        phase_times["harness:" + tag] = round(time.time() - t_h, 1)
        t_c = time.time()
        if ok_check and s.get("case_files"):
            for f, okc, idx, clog in vlib.run_case_files(outdir, s["case_files"]):
                if not okc:
                    problems.append({"kind": "correspondence", "what": "case file %s could not be evaluated" % f, "log": clog[-2000:]})
                    continue
                n_in_file = 0
                descs = None
                dj = os.path.join(outdir, f[:-2] + ".json")
                if os.path.exists(dj):
                    descs = json.load(open(dj))
                    n_in_file = len(descs)
                evaluated_in_coq += n_in_file
                for i in idx[:5]:
                    mismatches.append({"file": f, "index": i, "case": descs[i] if descs and i < len(descs) else None})
                if idx:
                    problems.append({"kind": "correspondence",
                                     "what": "model and implementation disagree on %d case(s) of %s" % (len(idx), f),
                                     "first_cases": [m for m in mismatches if m["file"] == f][:3]})
        phase_times["coq-cases:" + tag] = round(time.time() - t_c, 1)
        # ---- confirmation: a failure observed by a harness is reported only if it can be observed again.
        # Deterministic failures (the inputs derive from the seed) recur at once; failures that depend on
        # real time or the scheduler are replayed by the harness' own replay mode (which repeats racy
        # scenarios); what cannot be observed a second time is recorded as a note, not as a violation.
        fl = s.get("failures") or []
        if fl and not tag.startswith("confirm"):
            t_f = time.time()
            kept, again = [], None
            for f in fl:
                confirmed = False
                if f.get("kind") == "oracle" and f.get("replay") is not None:
                    rp = os.path.join(workdir, "confirm_%s.json" % tag)
                    with open(rp, "w") as fh:
                        json.dump({"property": pid, "replay": f.get("replay"), "key": f.get("key"), "what": f.get("what"),
                                   "harness": hname or spec.harness}, fh, default=str)
                    rrc, rout = vlib.sh([binp, "-out", outdir, "-replay", rp], cwd=outdir, env=vlib.GOENV, timeout=900)
                    confirmed = rrc != 0      # 1 = reproduced; anything else but 0: cannot tell, keep
                if not confirmed:
                    if again is None:
                        _, _, s2 = vlib.run_harness(binp, args, os.path.join(workdir, "confirm_" + tag), seed,
                                                    timeout=spec.harness_timeout, env=spec.harness_env)
                        again = (s2 or {}).get("failures")
                        if s2 is None:
                            again = None
                    if again is None:
                        confirmed = True      # the second run gave no summary: keep what the first one saw
                    else:
                        confirmed = any(g.get("kind") == f.get("kind") and g.get("key") == f.get("key") and
                                        (g.get("replay") == f.get("replay") or g.get("what") == f.get("what")) for g in again)
                if confirmed:
                    kept.append(f)
                else:
                    notes.append("transient observation, not reproduced by replay or by a second run with the same seed "
                                 "(%s stage %s): %s %s" % (hname or spec.harness, tag, f.get("key"), str(f.get("what"))[:200]))
            s["failures"] = kept
            phase_times["confirm:" + tag] = round(time.time() - t_f, 1)
        s["harness"] = hname or spec.harness
        for f in (s.get("failures") or []):
            f.setdefault("harness", hname or spec.harness)
        harness_runs.append(s)
        return s

    if spec.harness:
        summ = harness_round(args, seed, "main")
    for k, ex in enumerate(spec.thorough_extra):
        hn, hov, hargs, hrace = ex[:4]
        hq = ex[4] if len(ex) > 4 else None
        if tier == "thorough":
            harness_round(list(hargs), seed, "extra%d" % k, hname=hn, hoverlay=hov, hrace=hrace)
        elif hq:
            harness_round(list(hq), seed, "extra%d" % k, hname=hn, hoverlay=hov, hrace=hrace)

    failures = []
    for s in harness_runs:
        failures.extend((s.get("failures") or []))
    if spec.post:
        failures.extend(spec.post({"workdir": workdir, "tier": tier, "seed": seed, "summary": summ}) or [])

    oracle_fail = [f for f in failures if f.get("kind") == "oracle"]
    for f in failures:
        if f.get("kind") != "oracle":
            problems.append({"kind": "correspondence", "what": f.get("what"), "replay": f.get("replay")})

    # ---- search: when an obligation or the correspondence broke and no input fails yet, look harder
    if problems and not oracle_fail and spec.harness and spec.args_search and not any(p["kind"] == "harness-build" for p in problems):
        for k in range(2):
            s = harness_round(spec.args_search, int(seed) * 7919 + 17 + k, "search%d" % k)
            if s:
                oracle_fail = [f for f in (s.get("failures") or []) if f.get("kind") == "oracle"]
                if oracle_fail:
                    break

    if problems and not oracle_fail and not any(p["kind"] == "harness-build" for p in problems):
        for k, ex in enumerate(spec.search_extra):
            if tier == "thorough" and any(ex[0] == t[0] and list(ex[2]) == list(t[2]) for t in spec.thorough_extra):
                continue  # already ran in this tier
            s = harness_round(list(ex[2]), seed, "searchx%d" % k, hname=ex[0], hoverlay=ex[1], hrace=ex[3])
            if s:
                oracle_fail = [f for f in (s.get("failures") or []) if f.get("kind") == "oracle"]
                if oracle_fail:
                    break

    # ---- decide
    kf = vlib.known_findings()
    listed = [e for e in kf.get("findings", []) if e.get("property") == pid]
    known_hits = []
    new_fail = []
    for f in oracle_fail:
        hit = next((e for e in listed if finding_matches(e, f)), None)
        if hit:
            if hit not in known_hits:
                known_hits.append(hit)
        else:
            new_fail.append(f)

    violations = 0
    lines = []
    if new_fail:
        violations = len(new_fail)
        f = new_fail[0]
        path = vlib.write_replay(pid, "violation_%s_%s.json" % (tier, seed), {
            "property": pid, "kind": "failing-input", "what": f.get("what"), "key": f.get("key"),
            "replay": f.get("replay"), "harness": f.get("harness"), "broken_obligations": problems[:5],
            "how_to_replay": "bin/check %s --replay <this file>" % pid})
        lines.append("VIOLATION property=%s replay=%s" % (pid, path))
    elif problems:
        violations = 1
        path = vlib.write_replay(pid, "broken_%s_%s.json" % (tier, seed), {
            "property": pid, "kind": "no-failing-input-found",
            "what": "the property is no longer shown to hold: " + "; ".join(str(p.get("what")) for p in problems[:4]),
            "broken": problems[:8], "mismatching_cases": mismatches[:5]})
        lines.append("VIOLATION property=%s replay=%s no-failing-input-found" % (pid, path))
    for e in known_hits:
        lines.append("KNOWN-FINDING: property=%s %s" % (pid, e.get("what")))

    # ---- evidence
    s = summ or {}
    cov = {
        "obligations": obligations,
        "discharged": discharged,
        "checker_cmd": "cd /verif/coq && coq_makefile -f _CoqProject -o Makefile && make %s" % prop_vo,
        "trusted_base": BASE_TRUSTED + ["Print Assumptions (%s): %s" % (spec.prop_file, " | ".join(assumptions_txt) or "n/a")]
                        + ([coqchk_txt] if coqchk_txt else [])
                        + ["modelled, tied by correspondence rather than proof: " + m for m in spec.modelled],
        "evaluations": sum(x.get("evaluations", 0) for x in harness_runs),
        "distinct_nontrivial": sum(x.get("distinct_nontrivial", 0) for x in harness_runs[:1]),
        "rule": s.get("rule", ""),
        "samples": (s.get("samples") or [])[:5] or [{"theorem_file": spec.prop_file}],
        "input_distribution": (s.get("distribution") or {}),
        "further_harnesses": [{"harness": x.get("harness"),
                               "property_filter": x.get("property"), "evaluations": x.get("evaluations", 0),
                               "distinct_nontrivial": x.get("distinct_nontrivial", 0), "rule": x.get("rule", ""),
                               "input_distribution": x.get("distribution") or {}} for x in harness_runs[1:]],
        "cases_evaluated_in_coq": evaluated_in_coq,
        "model_impl_mismatches": len(mismatches),
        "oracle_failures": len(oracle_fail),
        "known_findings_hit": [e.get("key") for e in known_hits],
        "broken_obligations": [p.get("what") for p in problems][:8],
        "gen_files": gen["files"],
        "notes": notes + (s.get("notes") or []),
        "phase_seconds": dict(phase_times, **{"translator+proofs": round(t_proofs, 1)}),
    }
    vlib.write_evidence(pid, tier, seed, cov, spec.assumptions, time.time() - t0, violations)
    for l in lines:
        print(l)
    if not lines:
        print("OK property=%s tier=%s obligations=%d/%d evaluations=%d coq_cases=%d wall=%.1fs" % (
            pid, tier, discharged, obligations, cov["evaluations"], evaluated_in_coq, time.time() - t0))
    return 1 if violations else 0
