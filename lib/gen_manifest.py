#!/usr/bin/env python3
"""Writes MANIFEST.json from checks/registry.py (+ checks/manifest_meta.py)."""
import json
import os
import sys

HERE = os.path.dirname(os.path.dirname(os.path.abspath(__file__)))
sys.path.insert(0, os.path.join(HERE, "lib"))
sys.path.insert(0, os.path.join(HERE, "checks"))
import registry  # noqa: E402
import manifest_meta as mm  # noqa: E402

ALL = ["C%02d" % i for i in range(1, 21)]
checks = []
for pid in ALL:
    s = registry.SPECS.get(pid)
    if not s:
        continue
    meta = mm.META[pid]
    checks.append({
        "property_id": pid,
        "quick_cmd": "bin/check %s --tier quick" % pid,
        "thorough_cmd": "bin/check %s --tier thorough" % pid,
        "evidence_file": "/verif/evidence/%s.json" % pid,
        "replay_cmd_template": "bin/check %s --replay {path}" % pid,
        "engine": "coq-proof+correspondence",
        "level_claimed": {"category": "proof", "text": meta["text"], "design_ref": meta["design_ref"]},
        "level_note": meta["note"],
        "technique": meta["technique"],
    })
na = [{"property_id": pid, "reason": mm.NOT_CLAIMED.get(pid, "check not built yet in this round")}
      for pid in ALL if pid not in registry.SPECS]
man = {
    "version": 1,
    "setup_cmd": "bin/setup",
    "hooks": {
        "guard": "verif",
        "enable": "go build -tags verif -overlay <generated json> (harness sources and in-package accessors are overlaid from /verif/harness; only the VerifPoint hook calls live in /repo)",
        "baseline_off_cmd": "cd /repo && GOFLAGS=-mod=mod GOPROXY=off GOSUMDB=off GOTOOLCHAIN=local go test -json -vet=off -count=1 -timeout 25m ./...",
        "source_commits": mm.HOOK_COMMITS,
        "add_only": True,
    },
    "engines": [{
        "name": "coq-proof+correspondence",
        "path": "/verif/coq, /verif/tools/go2v, /verif/harness, /verif/lib",
        "serves_properties": sorted(registry.SPECS),
        "kind_free_text": "Coq 8.16.1 theorems over an executable Gallina model; model regenerated (Gen/*.v) from /repo by the go2v translator and tied to the implementation by differential execution (vm_compute on harness-written case files); oracle search for a failing input when an obligation or the correspondence breaks",
    }],
    "checks": checks,
    "not_applicable": na,
    "notes": "All checks share bin/check <ID>; see DESIGN.md. known_findings.json lists recorded findings and fixed defects.",
}
with open(os.path.join(HERE, "MANIFEST.json"), "w") as fh:
    json.dump(man, fh, indent=1)
print("MANIFEST.json:", len(checks), "checks,", len(na), "not claimed")
