"""Shared machinery of the checks: regenerate Gen/*.v from /repo, build the Coq
development, build and run the Go harnesses against /repo's working tree, evaluate
case files inside Coq, write evidence and report."""
import fcntl
import hashlib
import json
import os
import re
import shutil
import subprocess
import sys
import time

VERIF = os.path.dirname(os.path.dirname(os.path.abspath(__file__)))
REPO = os.environ.get("VERIF_REPO", "/repo")
COQ = os.path.join(VERIF, "coq")
BUILD = os.path.join(VERIF, "build")
EVID = os.path.join(VERIF, "evidence")
REPLAYS = os.path.join(VERIF, "replays")
MODPATH = "github.com/metal-toolbox/audito-maldito"

GOENV = dict(os.environ, GOFLAGS="-mod=mod", GOPROXY="off", GOSUMDB="off", GOTOOLCHAIN="local",
             CGO_ENABLED=os.environ.get("CGO_ENABLED", "1"))

HYGIENE_RE = re.compile(
    r"\b(Admitted|admit|Axiom|Axioms|Parameter|Parameters|Conjecture|Conjectures|Abort All|"
    r"Unset Guard Checking|Unset Positivity Checking|Unset Universe Checking|bypass_check|"
    r"type-in-type|impredicative-set|Admit Obligations)\b")


def log(*a):
    print(*a, file=sys.stderr, flush=True)


def sh(cmd, cwd=None, env=None, timeout=None, check=False):
    """Run a command, return (rc, combined output)."""
    try:
        p = subprocess.run(cmd, cwd=cwd, env=env, timeout=timeout, stdout=subprocess.PIPE,
                           stderr=subprocess.STDOUT, shell=isinstance(cmd, str))
        out = p.stdout.decode("utf-8", "replace")
        rc = p.returncode
    except subprocess.TimeoutExpired as e:
        out = (e.stdout or b"").decode("utf-8", "replace") + "\n[timeout after %ss]" % timeout
        rc = 124
    if check and rc != 0:
        raise RuntimeError("command failed (%s): %s\n%s" % (rc, cmd, out[-4000:]))
    return rc, out


class Lock:
    """Serialises regeneration and the Coq build between concurrently running checks."""

    def __init__(self, name="coq"):
        os.makedirs(BUILD, exist_ok=True)
        self.path = os.path.join(BUILD, "." + name + ".lock")

    def __enter__(self):
        self.f = open(self.path, "w")
        fcntl.flock(self.f, fcntl.LOCK_EX)
        return self

    def __exit__(self, *a):
        fcntl.flock(self.f, fcntl.LOCK_UN)
        self.f.close()


# ----------------------------------------------------------------------------------------
# translator


def build_go2v():
    src = os.path.join(VERIF, "tools", "go2v")
    binp = os.path.join(BUILD, "go2v")
    newest = max(os.path.getmtime(os.path.join(src, f)) for f in os.listdir(src))
    if os.path.exists(binp) and os.path.getmtime(binp) >= newest:
        return binp
    sh(["go", "build", "-o", binp, "."], cwd=src, env=GOENV, timeout=300, check=True)
    return binp


def regen():
    """Run the translator on /repo; Gen/*.v are replaced only when their content changes.
    Returns dict: file -> {'changed': bool, 'unsupported': [..]}"""
    binp = build_go2v()
    tmp = os.path.join(BUILD, "gen_tmp")
    shutil.rmtree(tmp, ignore_errors=True)
    os.makedirs(tmp)
    rc, out = sh([binp, "-repo", REPO, "-out", tmp], timeout=120)
    res = {"rc": rc, "log": out, "files": {}}
    gen = os.path.join(COQ, "Gen")
    os.makedirs(gen, exist_ok=True)
    for f in sorted(os.listdir(tmp)):
        new = open(os.path.join(tmp, f), "rb").read()
        dst = os.path.join(gen, f)
        old = open(dst, "rb").read() if os.path.exists(dst) else None
        changed = old != new
        if changed:
            with open(dst, "wb") as fh:
                fh.write(new)
        res["files"][f] = {"changed": changed,
                           "unsupported": re.findall(rb"UNSUPPORTED[^\n]*", new)[:5].__len__()}
    return res


# ----------------------------------------------------------------------------------------
# Coq build


def coq_project_files():
    fs = []
    for line in open(os.path.join(COQ, "_CoqProject")):
        line = line.strip()
        if line.endswith(".v"):
            fs.append(line)
    return fs


def ensure_makefile():
    mk = os.path.join(COQ, "Makefile")
    cp = os.path.join(COQ, "_CoqProject")
    if not os.path.exists(mk) or os.path.getmtime(mk) < os.path.getmtime(cp):
        sh(["coq_makefile", "-f", "_CoqProject", "-o", "Makefile"], cwd=COQ, check=True, timeout=60)


def coq_make(targets, timeout=1500, jobs=16):
    """make the given .vo targets (full .vo build, -k so that independent files still build).
    Returns (ok, log)."""
    ensure_makefile()
    cmd = ["make", "-k", "-j%d" % jobs] + list(targets)
    rc, out = sh(cmd, cwd=COQ, timeout=timeout)
    return rc == 0, out


def coq_deps(vfile):
    """Transitive closure of project-local .v dependencies of vfile (relative paths)."""
    rc, out = sh(["coqdep", "-f", "_CoqProject"] , cwd=COQ, timeout=120)
    deps = {}
    for line in out.splitlines():
        if ":" not in line:
            continue
        lhs, rhs = line.split(":", 1)
        tg = [t for t in lhs.split() if t.endswith(".vo")]
        if not tg:
            continue
        src = tg[0][:-1]
        ds = [d[:-1] for d in rhs.split() if d.endswith(".vo")]
        deps[os.path.normpath(src)] = [os.path.normpath(d) for d in ds]
    seen = []
    stack = [os.path.normpath(vfile)]
    while stack:
        f = stack.pop()
        if f in seen:
            continue
        seen.append(f)
        stack.extend(deps.get(f, []))
    return seen


STMT_RE = re.compile(r"^\s*(Theorem|Lemma|Corollary|Example|Fact|Remark|Proposition)\s+([A-Za-z0-9_']+)", re.M)


def count_obligations(vfiles):
    """(#statements, #statements whose file has an up-to-date .vo, names of the property file's theorems)"""
    total = 0
    done = 0
    for f in vfiles:
        p = os.path.join(COQ, f)
        if not os.path.exists(p):
            continue
        n = len(STMT_RE.findall(open(p, encoding="utf-8", errors="replace").read()))
        total += n
        vo = p + "o"
        if os.path.exists(vo) and os.path.getmtime(vo) >= os.path.getmtime(p):
            done += n
    return total, done


def hygiene(vfiles):
    """Forbidden vernacular in the given files. Comments are stripped first."""
    bad = []
    for f in vfiles:
        p = os.path.join(COQ, f)
        if not os.path.exists(p):
            continue
        txt = open(p, encoding="utf-8", errors="replace").read()
        txt = strip_comments(txt)
        for i, line in enumerate(txt.splitlines(), 1):
            if HYGIENE_RE.search(line):
                bad.append("%s:%d: %s" % (f, i, line.strip()[:120]))
            if re.match(r"^\s*(Variable|Variables|Hypothesis|Hypotheses|Context)\b", line) and not in_section(txt, i):
                bad.append("%s:%d: %s (outside a Section)" % (f, i, line.strip()[:120]))
    return bad


def strip_comments(txt):
    out = []
    depth = 0
    i = 0
    instr = False
    while i < len(txt):
        c = txt[i]
        if depth == 0 and c == '"':
            instr = not instr
            out.append(c)
            i += 1
            continue
        if not instr and txt.startswith("(*", i):
            depth += 1
            i += 2
            continue
        if not instr and depth > 0 and txt.startswith("*)", i):
            depth -= 1
            i += 2
            continue
        if depth == 0:
            out.append(c)
        elif c == "\n":
            out.append(c)
        i += 1
    return "".join(out)


def in_section(txt, lineno):
    depth = 0
    for i, line in enumerate(txt.splitlines(), 1):
        if i >= lineno:
            break
        if re.match(r"^\s*Section\b", line):
            depth += 1
        elif re.match(r"^\s*End\b", line) and depth > 0:
            depth -= 1
    return depth > 0


def print_assumptions(prop_vfile):
    """Re-run coqc on the property file (cheap) and capture its Print Assumptions output."""
    rc, out = sh(["coqc", "-R", ".", "AM", "-w", "-notation-overridden", prop_vfile], cwd=COQ, timeout=600)
    return rc, out


# ----------------------------------------------------------------------------------------
# Go harness


def overlay_for(harness_names, extra=None):
    """Build the -overlay JSON: harness mains + hutil under internal/verifharness, plus
    in-package accessor files (extra: {repo-relative path: verif-relative path})."""
    rep = {}
    hroot = os.path.join(VERIF, "harness")
    for name in set(harness_names) | {"hutil"}:
        d = os.path.join(hroot, name)
        for f in os.listdir(d):
            if f.endswith(".go"):
                rep[os.path.join(REPO, "internal", "verifharness", name, f)] = os.path.join(d, f)
    for k, v in (extra or {}).items():
        rep[os.path.join(REPO, k)] = os.path.join(VERIF, v)
    os.makedirs(BUILD, exist_ok=True)
    h = hashlib.sha1(json.dumps(rep, sort_keys=True).encode()).hexdigest()[:10]
    p = os.path.join(BUILD, "overlay_%s.json" % h)
    with open(p, "w") as fh:
        json.dump({"Replace": rep}, fh)
    return p


def build_harness(name, extra=None, race=False, timeout=900):
    """go build the harness from /repo's working tree with -tags verif. Returns (ok, binpath, log)."""
    ov = overlay_for([name], extra)
    binp = os.path.join(BUILD, "h_" + name + ("_race" if race else ""))
    cmd = ["go", "build", "-tags", "verif", "-overlay", ov, "-o", binp]
    if race:
        cmd.append("-race")
    cmd.append("./internal/verifharness/" + name)
    rc, out = sh(cmd, cwd=REPO, env=GOENV, timeout=timeout)
    return rc == 0, binp, out


def run_harness(binp, args, outdir, seed, timeout=900, env=None):
    shutil.rmtree(outdir, ignore_errors=True)
    os.makedirs(outdir)
    e = dict(GOENV)
    e["VERIF_SEED"] = str(seed)
    e.update(env or {})
    rc, out = sh([binp, "-out", outdir] + list(args), cwd=outdir, env=e, timeout=timeout)
    summ = None
    sp = os.path.join(outdir, "summary.json")
    if os.path.exists(sp):
        summ = json.load(open(sp))
    return rc, out, summ


# ----------------------------------------------------------------------------------------
# evaluating case files in Coq

M_RE = re.compile(r"M\s*=\s*(\[[^\]]*\])", re.S)


def run_case_file(path, timeout=900):
    """coqc a harness-written case file; it must print 'M = [..]' (list of mismatching case
    indices). Returns (ok, mismatching indices or None, log)."""
    d = os.path.dirname(path)
    rc, out = sh(["coqc", "-R", COQ, "AM", "-w", "-notation-overridden", os.path.basename(path)], cwd=d, timeout=timeout)
    if rc != 0:
        return False, None, out
    m = M_RE.search(out)
    if not m:
        return False, None, out
    body = m.group(1).strip()[1:-1].strip()
    idx = [int(x) for x in re.findall(r"\d+", body)] if body else []
    return True, idx, out


def run_case_files(outdir, files, jobs=8, timeout=900):
    """Evaluate several case files in parallel. Returns list of (file, ok, idx, log)."""
    from concurrent.futures import ThreadPoolExecutor
    with ThreadPoolExecutor(max_workers=jobs) as ex:
        res = list(ex.map(lambda f: (f,) + run_case_file(os.path.join(outdir, f), timeout), files))
    return res


# ----------------------------------------------------------------------------------------
# findings, evidence, reporting


def known_findings():
    p = os.path.join(VERIF, "known_findings.json")
    if not os.path.exists(p):
        return {"findings": [], "fixed": []}
    return json.load(open(p))


def write_replay(pid, name, obj):
    d = os.path.join(REPLAYS, pid)
    os.makedirs(d, exist_ok=True)
    p = os.path.join(d, name)
    with open(p, "w") as fh:
        json.dump(obj, fh, indent=1, sort_keys=True, default=str)
    return p


def write_evidence(pid, tier, seed, coverage, assumptions, wall, violations):
    os.makedirs(EVID, exist_ok=True)
    ev = {
        "property_id": pid,
        "tier": tier,
        "seed": int(seed),
        "level": "proof",
        "coverage": coverage,
        "assumptions": assumptions,
        "wall_s": round(wall, 2),
        "violations": int(violations),
    }
    p = os.path.join(EVID, pid + ".json")
    tmp = p + ".tmp"
    with open(tmp, "w") as fh:
        json.dump(ev, fh, indent=1, sort_keys=True, default=str)
    os.replace(tmp, p)
    return p
