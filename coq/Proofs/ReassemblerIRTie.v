(* Model/AuditProc.v's reassembler is what go-libaudit's reassembler.go says: the functions GENERATED from the
   pinned module (Gen/ReassemblerProg.v), run by the interpreter of Model/ReassemblerIR.v, behave as the
   hand-written model for all inputs.
     less_from_source            sequenceNumSlice.Less (+ abs, maxSortRange)  = [seq_less]
     less_is_lt_in_window        [seq_less] = [<?] on numbers closer than 2^24; [put_by_is_put_in_window]
     less_trans_in_window, less_trans_two_clusters, less_not_transitive
                                 when Less is a strict total order (sort.Sort's contract), when it is not
     completes_from_source, is_eoe_from_source   the record-type tests with the generated auparse constants
     put_by_from_source, put_from_source         eventList.Put (+ event.Add, Sort)  = [put_by seq_less] / [put]
     cleanup_from_source         eventList.CleanUp (+ IsExpired, remove)            = [cleanup], [lost_of], [last_of]
     clear_from_source           eventList.Clear                                    = everything, in order
     rstep_by_from_source, rstep_from_source     PushMessage / Maintain / Close + callback = [rstep_by seq_less] / [rstep]
     maintain_after_close, close_twice, push_nil_from_source
     rollover_*                  what happens at a roll-over (numbers 2^32-2, 2^32-1, 0, 1)
   The concrete state of the interpreter (l.seqs, l.events as a map to addresses, the heap of event objects)
   is related to the model's sorted list by [Rep]; [abs_state] builds one concrete state for every model state.
   An edit of reassembler.go changes Gen/ReassemblerProg.v and these proofs stop compiling (or the generated
   file does not type-check: UNSUPPORTED_...). *)
From Coq Require Import String List Bool Arith ZArith NArith Lia Sorting.Sorted Permutation.
Import ListNotations.
From AM Require Import Lib.Assoc Model.AuditProc Proofs.AuditProcLemmas Model.ReassemblerIR Gen.ReassemblerProg
  Proofs.ReassemblerIRRun.
Open Scope string_scope.
Open Scope list_scope.

(* ---- the ordering ------------------------------------------------------------------------------------ *)

Lemma seq_less_irrefl a : seq_less a a = false.
Proof.
  unfold seq_less, seq_dist. rewrite N.ltb_irrefl, N.sub_diag. reflexivity.
Qed.

Lemma seq_less_total a b : a <> b -> xorb (seq_less a b) (seq_less b a) = true.
Proof.
  intros H. unfold seq_less, seq_dist.
  destruct (N.ltb_spec a b) as [L|L]; destruct (N.ltb_spec b a) as [L'|L']; try lia.
  - destruct (max_sort_range <? b - a)%N; reflexivity.
  - destruct (max_sort_range <? a - b)%N; reflexivity.
Qed.

Lemma seq_less_asym a b : seq_less a b = true -> seq_less b a = false.
Proof.
  intros H. destruct (N.eq_dec a b) as [->|Hn]; [apply seq_less_irrefl|].
  pose proof (seq_less_total a b Hn) as T. rewrite H in T. destruct (seq_less b a); [discriminate|reflexivity].
Qed.

(* within a window (two numbers closer than 2^24) Less is the plain order *)
Theorem less_is_lt_in_window : forall a b, (seq_dist a b <= max_sort_range)%N -> seq_less a b = (a <? b)%N.
Proof.
  intros a b H. unfold seq_less. destruct (N.ltb_spec max_sort_range (seq_dist a b)); [lia|reflexivity].
Qed.

(* beyond it, it is the reverse of the plain order: the roll-over rule *)
Theorem less_is_gt_beyond_window : forall a b, (max_sort_range < seq_dist a b)%N -> seq_less a b = (b <? a)%N.
Proof.
  intros a b H. unfold seq_less. destruct (N.ltb_spec max_sort_range (seq_dist a b)); [reflexivity|lia].
Qed.

Definition in_window (l : list N) : Prop :=
  forall a b, In a l -> In b l -> (seq_dist a b <= max_sort_range)%N.

Definition less_trans_on (l : list N) : Prop :=
  forall a b c, In a l -> In b l -> In c l ->
    seq_less a b = true -> seq_less b c = true -> seq_less a c = true.

Theorem less_trans_in_window : forall l, in_window l -> less_trans_on l.
Proof.
  intros l W a b c Ha Hb Hc. rewrite !less_is_lt_in_window by (apply W; assumption).
  rewrite !N.ltb_lt. lia.
Qed.

(* two clusters, each inside a window, every number of the upper one further than 2^24-1 above every number of
   the lower one (e.g. just below 2^32 and just above 0): a strict total order too, the UPPER cluster first *)
Definition two_clusters (l : list N) : Prop :=
  exists cut : N,
    (forall a b, In a l -> In b l -> (a < cut)%N -> (b < cut)%N -> (seq_dist a b <= max_sort_range)%N) /\
    (forall a b, In a l -> In b l -> (cut <= a)%N -> (cut <= b)%N -> (seq_dist a b <= max_sort_range)%N) /\
    (forall a b, In a l -> In b l -> (a < cut)%N -> (cut <= b)%N -> (max_sort_range < b - a)%N).

Lemma two_clusters_less l cut :
  (forall a b, In a l -> In b l -> (a < cut)%N -> (b < cut)%N -> (seq_dist a b <= max_sort_range)%N) ->
  (forall a b, In a l -> In b l -> (cut <= a)%N -> (cut <= b)%N -> (seq_dist a b <= max_sort_range)%N) ->
  (forall a b, In a l -> In b l -> (a < cut)%N -> (cut <= b)%N -> (max_sort_range < b - a)%N) ->
  forall a b, In a l -> In b l ->
    seq_less a b = if (a <? cut)%N then (if (b <? cut)%N then (a <? b)%N else false)
                   else (if (b <? cut)%N then true else (a <? b)%N).
Proof.
  intros H1 H2 H3 a b Ha Hb.
  destruct (N.ltb_spec a cut) as [La|La]; destruct (N.ltb_spec b cut) as [Lb|Lb].
  - apply less_is_lt_in_window. apply H1; assumption.
  - pose proof (H3 a b Ha Hb La Lb) as F.
    rewrite less_is_gt_beyond_window by (unfold seq_dist; destruct (N.ltb_spec a b); lia).
    apply N.ltb_ge. lia.
  - pose proof (H3 b a Hb Ha Lb La) as F.
    rewrite less_is_gt_beyond_window by (unfold seq_dist; destruct (N.ltb_spec a b); lia).
    apply N.ltb_lt. lia.
  - apply less_is_lt_in_window. apply H2; assumption.
Qed.

Theorem less_trans_two_clusters : forall l, two_clusters l -> less_trans_on l.
Proof.
  intros l (cut & H1 & H2 & H3) a b c Ha Hb Hc.
  rewrite (two_clusters_less l cut H1 H2 H3 a b Ha Hb), (two_clusters_less l cut H1 H2 H3 b c Hb Hc),
          (two_clusters_less l cut H1 H2 H3 a c Ha Hc).
  destruct (a <? cut)%N, (b <? cut)%N, (c <? cut)%N; try discriminate; try reflexivity; rewrite !N.ltb_lt; lia.
Qed.

(* a window is the special case of one empty cluster *)
Lemma in_window_two_clusters l : in_window l -> two_clusters l.
Proof.
  intros W. exists 0%N. repeat split; intros; try lia. apply W; assumption.
Qed.

(* in general Less is NOT transitive: sort.Sort's contract is a real precondition *)
Theorem less_not_transitive :
  seq_less 0 16777215 = true /\ seq_less 16777215 33554430 = true /\ seq_less 0 33554430 = false /\
  seq_less 33554430 0 = true.
Proof. repeat split; reflexivity. Qed.

Lemma strict_total_of_trans l : less_trans_on l -> strict_total_b seq_less l = true.
Proof.
  intros T. unfold strict_total_b. rewrite !andb_true_iff. repeat split.
  - apply forallb_forall. intros a _. rewrite seq_less_irrefl. reflexivity.
  - apply forallb_forall. intros a _. apply forallb_forall. intros b _.
    destruct (N.eqb_spec a b) as [->|Hn]; [reflexivity|]. cbn. apply seq_less_total. exact Hn.
  - apply forallb_forall. intros a Ha. apply forallb_forall. intros b Hb. apply forallb_forall. intros c Hc.
    destruct (seq_less a b) eqn:E1; [|reflexivity]. destruct (seq_less b c) eqn:E2; [|reflexivity]. cbn.
    rewrite (T a b c Ha Hb Hc E1 E2). reflexivity.
Qed.

Lemma less_trans_on_incl l l' : (forall x, In x l' -> In x l) -> less_trans_on l -> less_trans_on l'.
Proof. intros I T a b c Ha Hb Hc. apply T; apply I; assumption. Qed.

(* ---- sorting by insertion ------------------------------------------------------------------------------ *)

(* [l] is a fixed point of the sort: no later element is less than an earlier one *)
Definition sorted_by (less : N -> N -> bool) (l : list N) : Prop :=
  StronglySorted (fun a b => less b a = false) l.

Lemma insert_by_last less x acc :
  Forall (fun a => less x a = false) acc -> insert_by less x acc = acc ++ [x].
Proof.
  induction 1 as [|a r Ha _ IH]; simpl; [reflexivity|]. rewrite Ha, IH. reflexivity.
Qed.

Lemma sorted_by_app_mid less acc x r :
  sorted_by less (acc ++ x :: r) -> Forall (fun a => less x a = false) acc.
Proof.
  induction acc as [|a acc IH]; simpl; intros H; [constructor|].
  inversion H as [|? ? Hs Hall]; subst. constructor.
  - rewrite Forall_forall in Hall. apply Hall. apply in_or_app. right. left. reflexivity.
  - apply IH. exact Hs.
Qed.

Lemma isort_sorted_gen less l : forall acc, sorted_by less (acc ++ l) ->
  fold_left (fun acc x => insert_by less x acc) l acc = acc ++ l.
Proof.
  induction l as [|x r IH]; intros acc H; simpl; [rewrite app_nil_r; reflexivity|].
  rewrite insert_by_last by (eapply sorted_by_app_mid; exact H).
  rewrite IH by (rewrite <- app_assoc; exact H). rewrite <- app_assoc. reflexivity.
Qed.

Lemma isort_sorted less l : sorted_by less l -> isort_by less l = l.
Proof. intros H. unfold isort_by. rewrite isort_sorted_gen by exact H. reflexivity. Qed.

(* appending one number to a sorted slice and sorting = inserting it *)
Lemma isort_snoc less l x : sorted_by less l -> isort_by less (l ++ [x]) = insert_by less x l.
Proof.
  intros H. unfold isort_by. rewrite fold_left_app. simpl.
  change (fold_left (fun acc x0 => insert_by less x0 acc) l []) with (isort_by less l).
  rewrite isort_sorted by exact H. reflexivity.
Qed.

Lemma in_insert_by less x l y : In y (insert_by less x l) <-> y = x \/ In y l.
Proof.
  induction l as [|a r IH]; simpl; [intuition|].
  destruct (less x a); simpl; [intuition|]. rewrite IH. intuition.
Qed.

Lemma insert_by_nodup less x l : NoDup l -> ~ In x l -> NoDup (insert_by less x l).
Proof.
  induction l as [|a r IH]; simpl; intros Hnd Hn.
  - constructor; [simpl; tauto|constructor].
  - inversion Hnd as [|? ? Ha Hr]; subst. destruct (less x a).
    + constructor; [exact Hn|exact Hnd].
    + constructor; [|apply IH; [exact Hr|tauto]].
      rewrite in_insert_by. intros [->|H]; tauto.
Qed.

(* the insertion keeps the slice sorted when Less is transitive on the numbers present *)
Lemma insert_by_sorted x l :
  less_trans_on (x :: l) -> ~ In x l -> sorted_by seq_less l -> sorted_by seq_less (insert_by seq_less x l).
Proof.
  intros T Hn H. induction H as [|a r Hs IH Hall]; simpl.
  - constructor; constructor.
  - destruct (seq_less x a) eqn:E.
    + constructor; [constructor; assumption|]. constructor.
      * apply seq_less_asym. exact E.
      * rewrite Forall_forall in *. intros y Hy. specialize (Hall y Hy).
        (* y after a: not (y < a); x < a; suppose y < x then y < a by transitivity *)
        destruct (seq_less y x) eqn:E2; [|reflexivity].
        rewrite (T y x a) in Hall; [discriminate| | | | |]; simpl; auto.
    + constructor.
      * apply IH; [eapply less_trans_on_incl; [|exact T]; simpl; intuition|simpl in Hn; tauto].
      * rewrite Forall_forall in *. intros y Hy. apply in_insert_by in Hy. destruct Hy as [->|Hy]; [exact E|].
        apply Hall. exact Hy.
Qed.

(* ---- the order-generic model --------------------------------------------------------------------------- *)
Section ModelBy.
  Variable msg : Type.
  Variable mseq : msg -> N.
  Variable mtype : msg -> nat.
  Notation rev := (rev msg).

  (* with the plain order the generic definitions ARE the ones Props/C15.v speaks about *)
  Theorem put_ev_by_ltb : forall exp m (l : list rev),
    put_ev_by msg mseq mtype N.ltb exp m l = put_ev msg mseq mtype exp m l.
  Proof. intros exp m l. induction l as [|e r IH]; simpl; [reflexivity|]. rewrite IH. reflexivity. Qed.

  Theorem put_by_ltb : forall timeout now m (l : list rev),
    put_by msg mseq mtype N.ltb timeout now m l = put msg mseq mtype timeout now m l.
  Proof. intros. unfold put_by, put. rewrite put_ev_by_ltb. reflexivity. Qed.

  Theorem rstep_by_ltb : forall maxsz timeout st o,
    rstep_by msg mseq mtype N.ltb maxsz timeout st o = rstep msg mseq mtype maxsz timeout st o.
  Proof. intros. destruct o; simpl; rewrite ?put_by_ltb; reflexivity. Qed.

  (* two comparisons that agree on the numbers involved give the same buffer *)
  Lemma put_ev_by_ext f g exp m (l : list rev) :
    (forall e, In e l -> f (mseq m) (e_seq e) = g (mseq m) (e_seq e)) ->
    put_ev_by msg mseq mtype f exp m l = put_ev_by msg mseq mtype g exp m l.
  Proof.
    induction l as [|e r IH]; simpl; intros H; [reflexivity|].
    rewrite (H e) by (left; reflexivity). rewrite IH by (intros; apply H; right; assumption). reflexivity.
  Qed.

  (* inside a window the source's order gives the plain-order model *)
  Theorem put_by_is_put_in_window : forall timeout now m (l : list rev),
    in_window (mseq m :: map e_seq l) ->
    put_by msg mseq mtype seq_less timeout now m l = put msg mseq mtype timeout now m l.
  Proof.
    intros timeout now m l W. rewrite <- put_by_ltb. unfold put_by.
    destruct (is_eoe (mtype m)); [reflexivity|]. apply put_ev_by_ext.
    intros e He. apply less_is_lt_in_window. apply W; [left; reflexivity|right; apply in_map; exact He].
  Qed.

  Theorem rstep_by_is_rstep_in_window : forall maxsz timeout st o,
    (forall now m, o = RPush now m -> in_window (mseq m :: map e_seq (r_evs st))) ->
    rstep_by msg mseq mtype seq_less maxsz timeout st o = rstep msg mseq mtype maxsz timeout st o.
  Proof.
    intros maxsz timeout st o W. destruct o as [now m| |]; simpl; try reflexivity.
    rewrite put_by_is_put_in_window by (apply (W now m); reflexivity). reflexivity.
  Qed.

  (* a list sorted by the plain order inside a window is sorted by the source's order *)
  Lemma sorted_lt_sorted_by l : in_window l -> StronglySorted N.lt l -> sorted_by seq_less l.
  Proof.
    intros W H. induction H as [|a r Hs IH Hall]; [constructor|].
    constructor.
    - apply IH. intros x y Hx Hy. apply W; right; assumption.
    - rewrite Forall_forall in *. intros y Hy. specialize (Hall y Hy).
      rewrite less_is_lt_in_window by (apply W; [right; exact Hy|left; reflexivity]).
      apply N.ltb_ge. lia.
  Qed.

  (* the events of the buffer whose number is s are replaced by f of them *)
  Definition upd_ev (s : N) (f : rev -> rev) (l : list rev) : list rev :=
    map (fun e => if (s =? e_seq e)%N then f e else e) l.

  Lemma mark_done_upd s (l : list rev) : NoDup (map e_seq l) ->
    mark_done msg s l = upd_ev s (set_done msg) l.
  Proof.
    induction l as [|e r IH]; simpl; intros H; [reflexivity|].
    inversion H as [|? ? Hn Hr]; subst.
    destruct (N.eqb_spec s (e_seq e)) as [->|E].
    - f_equal. unfold upd_ev. rewrite <- (map_id r) at 1. apply map_ext_in.
      intros x Hx. destruct (N.eqb_spec (e_seq e) (e_seq x)) as [E'|E']; [|reflexivity].
      exfalso. apply Hn. rewrite E'. apply in_map. exact Hx.
    - f_equal. apply IH. exact Hr.
  Qed.

  Lemma mark_done_absent s (l : list rev) : ~ In s (map e_seq l) -> mark_done msg s l = l.
  Proof.
    induction l as [|e r IH]; simpl; intros H; [reflexivity|].
    destruct (N.eqb_spec s (e_seq e)) as [->|E]; [exfalso; apply H; left; reflexivity|].
    f_equal. apply IH. tauto.
  Qed.

  Lemma put_ev_by_present less exp m (l : list rev) :
    NoDup (map e_seq l) -> sorted_by less (map e_seq l) -> In (mseq m) (map e_seq l) ->
    put_ev_by msg mseq mtype less exp m l = upd_ev (mseq m) (ev_add msg mtype m) l.
  Proof.
    induction l as [|e r IH]; simpl; intros Hnd Hs Hin; [contradiction|].
    inversion Hnd as [|? ? Hn Hr]; subst. inversion Hs as [|? ? Hs' Hall]; subst.
    destruct (N.eqb_spec (mseq m) (e_seq e)) as [E|E].
    - f_equal. unfold upd_ev. rewrite <- (map_id r) at 1. apply map_ext_in.
      intros x Hx. destruct (N.eqb_spec (mseq m) (e_seq x)) as [E'|E']; [|reflexivity].
      exfalso. apply Hn. rewrite <- E, E'. apply in_map. exact Hx.
    - destruct Hin as [Hin|Hin]; [congruence|].
      rewrite Forall_forall in Hall. rewrite (Hall _ Hin). f_equal. apply IH; assumption.
  Qed.

  Lemma put_ev_by_seqs_new less exp m (l : list rev) : ~ In (mseq m) (map e_seq l) ->
    map e_seq (put_ev_by msg mseq mtype less exp m l) = insert_by less (mseq m) (map e_seq l).
  Proof.
    induction l as [|e r IH]; simpl; intros H; [reflexivity|].
    destruct (N.eqb_spec (mseq m) (e_seq e)) as [E|E]; [exfalso; apply H; left; congruence|].
    destruct (less (mseq m) (e_seq e)); simpl; [reflexivity|]. rewrite IH by tauto. reflexivity.
  Qed.

  Lemma upd_ev_seqs s f (l : list rev) : (forall e, e_seq (f e) = e_seq e) -> map e_seq (upd_ev s f l) = map e_seq l.
  Proof.
    intros H. unfold upd_ev. rewrite map_map. apply map_ext. intros e.
    destruct (s =? e_seq e)%N; [apply H|reflexivity].
  Qed.

  (* Put keeps the buffer sorted by the source's order, provided Less is transitive on the numbers present *)
  Lemma put_by_sorted timeout now m (l : list rev) :
    NoDup (map e_seq l) -> sorted_by seq_less (map e_seq l) -> less_trans_on (mseq m :: map e_seq l) ->
    sorted_by seq_less (map e_seq (put_by msg mseq mtype seq_less timeout now m l)) /\
    NoDup (map e_seq (put_by msg mseq mtype seq_less timeout now m l)).
  Proof.
    intros Hnd Hs T. unfold put_by. destruct (is_eoe (mtype m)).
    - rewrite mark_done_seqs. split; assumption.
    - destruct (in_dec N.eq_dec (mseq m) (map e_seq l)) as [Hin|Hn].
      + rewrite put_ev_by_present by assumption. rewrite upd_ev_seqs by reflexivity. split; assumption.
      + rewrite put_ev_by_seqs_new by exact Hn. split.
        * apply insert_by_sorted; assumption.
        * apply insert_by_nodup; assumption.
  Qed.
End ModelBy.

(* ---- uint32 arithmetic of the lost count ------------------------------------------------------------------ *)
Lemma gap_is_lost_gap last s : (last < two32)%N -> (s < two32)%N -> gap_z last s = Z.of_N (lost_gap last s).
Proof.
  intros Hl Hs. unfold gap_z, lost_gap. destruct (0 <? last)%N eqn:E; [|reflexivity]. f_equal.
  apply N.ltb_lt in E. unfold sub32, two32 in *.
  set (M := 4294967296%N) in *.
  assert (HM : M = 4294967296%N) by reflexivity.
  assert (Hx : (1 <= s + M - last)%N) by lia.
  destruct (N.lt_ge_cases (s + M - last) M) as [Lt|Ge].
  - rewrite (N.mod_small (s + M - last) M) by exact Lt.
    replace (s + M - last + M - 1)%N with ((s + M - last - 1) + 1 * M)%N by lia.
    rewrite N.mod_add by lia. reflexivity.
  - assert (E1 : ((s + M - last) mod M = s + M - last - M)%N).
    { symmetry. apply N.mod_unique with 1%N; lia. }
    rewrite E1. f_equal. lia.
Qed.

Lemma ltb_nat_z a b : (Z.of_nat a <? Z.of_nat b)%Z = Nat.ltb a b.
Proof.
  destruct (Nat.ltb_spec a b) as [H|H]; [apply Z.ltb_lt|apply Z.ltb_ge]; lia.
Qed.

Lemma last_cons_default {A} (a : A) l d d' : last (a :: l) d = last (a :: l) d'.
Proof.
  revert a. induction l as [|b r IH]; intros a; [reflexivity|].
  change (last (a :: b :: r) d) with (last (b :: r) d). change (last (a :: b :: r) d') with (last (b :: r) d'). apply IH.
Qed.

Lemma combine_inj {A B} (l : list A) (ps : list B) a1 a2 p :
  NoDup ps -> In (a1, p) (combine l ps) -> In (a2, p) (combine l ps) -> a1 = a2.
Proof.
  revert ps. induction l as [|x r IH]; intros [|q qs] Hnd H1 H2; simpl in *; try contradiction.
  inversion Hnd as [|? ? Hq Hr]; subst.
  destruct H1 as [H1|H1]; destruct H2 as [H2|H2].
  - congruence.
  - inversion H1; subst. exfalso. apply Hq. eapply in_combine_r. exact H2.
  - inversion H2; subst. exfalso. apply Hq. eapply in_combine_r. exact H1.
  - eapply IH; eassumption.
Qed.

Lemma forall2_in_combine {A B} (P : A -> B -> Prop) l l' a b :
  Forall2 P l l' -> In (a, b) (combine l l') -> P a b.
Proof.
  induction 1 as [|x y l l' H _ IH]; simpl; intros Hin; [contradiction|].
  destruct Hin as [Hin|Hin]; [inversion Hin; subst; exact H|apply IH; exact Hin].
Qed.

Lemma mget_mset_same k v m : mget k (mset k v m) = Some v.
Proof. unfold mget, mset. apply aget_aset_same. exact N.eqb_spec. Qed.
Lemma mget_mset_other k k' v m : k <> k' -> mget k (mset k' v m) = mget k m.
Proof. intros H. unfold mget, mset. apply aget_aset_other; [exact N.eqb_spec|exact H]. Qed.
Lemma mget_mdel_other k k' m : k <> k' -> mget k (mdel k' m) = mget k m.
Proof. intros H. unfold mget, mdel. apply aget_adel_other; [exact N.eqb_spec|exact H]. Qed.
Lemma mget_mdel_same k m : mget k (mdel k m) = None.
Proof. unfold mget, mdel. apply aget_adel_same. Qed.

Ltac fields c :=
  destruct c;
  cbn [c_seqs c_events c_heap c_last c_maxsz c_timeout c_locked c_closed c_now c_out
       with_heap with_events with_seqs with_last with_locked with_closed with_now with_out] in *.

(* ---- the state abstraction ---------------------------------------------------------------------------------- *)
Section Tie.
  Variable msg : Type.
  Variable mseq : msg -> N.
  Variable mtype : msg -> nat.

  Notation cstT := (cst msg).
  Notation cevT := (cev msg).
  Notation rev := (rev msg).
  Notation rst := (rst msg).
  Notation C := (callee msg mseq mtype gen_reassembler).
  Notation run_func := (run_func msg mseq mtype).
  Notation put_by := (put_by msg mseq mtype).
  Notation put_ev_by := (put_ev_by msg mseq mtype).
  Notation rstep_by := (rstep_by msg mseq mtype).
  Notation put := (put msg mseq mtype).
  Notation rstep := (rstep msg mseq mtype).
  Notation cleanup := (cleanup msg).
  Notation lost_of := (lost_of msg).
  Notation last_of := (last_of msg).
  Notation upd_ev := (upd_ev msg).

  (* the event object an event of the model stands for *)
  Definition cev_of (e : rev) : cevT := {| ce_exp := e_exp e; ce_msgs := e_msgs e; ce_done := e_done e |}.

  (* event [e] of the model is the object at address [p], reachable through l.events under its number *)
  Definition holds (c : cstT) (e : rev) (p : nat) : Prop :=
    mget (e_seq e) (c_events c) = Some p /\ nth_error (c_heap c) p = Some (cev_of e).

  (* the interpreter state [c] represents the model's buffer [evs]: l.seqs are its numbers in its order, l.events
     maps exactly those numbers, to pairwise distinct objects [ps] that hold the events' content *)
  Record Rep (c : cstT) (evs : list rev) (ps : list nat) : Prop := {
    rep_seqs : c_seqs c = map e_seq evs;
    rep_nodup : NoDup (map e_seq evs);
    rep_keys : forall s p, mget s (c_events c) = Some p -> In s (map e_seq evs);
    rep_ptrs : Forall2 (holds c) evs ps;
    rep_inj : NoDup ps;
    rep_u32 : Forall (fun s => (s < two32)%N) (map e_seq evs)
  }.

  (* everything but the list and the heap *)
  Definition same_rest (c c' : cstT) : Prop :=
    c_maxsz c' = c_maxsz c /\ c_timeout c' = c_timeout c /\ c_locked c' = c_locked c /\
    c_closed c' = c_closed c /\ c_now c' = c_now c /\ c_out c' = c_out c.

  Lemma same_rest_refl c : same_rest c c.
  Proof. repeat split. Qed.

  Lemma holds_in c evs ps s : Forall2 (holds c) evs ps -> In s (map e_seq evs) ->
    exists e p, In (e, p) (combine evs ps) /\ e_seq e = s /\ holds c e p.
  Proof.
    induction 1 as [|e p evs ps H _ IH]; simpl; intros Hin; [contradiction|].
    destruct Hin as [<-|Hin].
    - exists e, p. split; [left; reflexivity|]. split; [reflexivity|exact H].
    - destruct (IH Hin) as (e' & p' & A & B & D). exists e', p'. split; [right; exact A|]. split; assumption.
  Qed.

  Lemma rep_mget_none c evs ps s : Rep c evs ps -> ~ In s (map e_seq evs) -> mget s (c_events c) = None.
  Proof.
    intros R Hn. destruct (mget s (c_events c)) as [p|] eqn:E; [|reflexivity].
    exfalso. apply Hn. eapply rep_keys; eassumption.
  Qed.

  Lemma rep_mget_some c evs ps s : Rep c evs ps -> In s (map e_seq evs) ->
    exists e p, In (e, p) (combine evs ps) /\ e_seq e = s /\ mget s (c_events c) = Some p /\
                nth_error (c_heap c) p = Some (cev_of e).
  Proof.
    intros R Hin. destruct (holds_in _ _ _ _ (rep_ptrs _ _ _ R) Hin) as (e & p & A & B & H1 & H2).
    exists e, p. subst s. repeat split; assumption.
  Qed.

  (* mutating the object of number [s] through its pointer *)
  Lemma holds_update c p v s f evs ps :
    Forall2 (holds c) evs ps ->
    (exists x, nth_error (c_heap c) p = Some x) ->
    (forall e p', In (e, p') (combine evs ps) -> e_seq e <> s -> p' <> p) ->
    (forall e p', In (e, p') (combine evs ps) -> e_seq e = s -> p' = p /\ v = cev_of (f e)) ->
    (forall e, e_seq (f e) = e_seq e) ->
    Forall2 (holds (with_heap msg (lset p v (c_heap c)) c)) (upd_ev s f evs) ps.
  Proof.
    intros H [x Hx] Hne Heq Hf. induction H as [|e p' evs ps [H1 H2] _ IH]; simpl; [constructor|].
    constructor.
    - destruct (N.eqb_spec s (e_seq e)) as [E|E].
      + destruct (Heq e p' (or_introl eq_refl) (eq_sym E)) as [-> ->].
        split; [destruct c; cbn in *; rewrite Hf; exact H1|].
        destruct c; cbn in *. eapply nth_error_lset_same. exact Hx.
      + split; [destruct c; exact H1|].
        destruct c; cbn in *. rewrite nth_error_lset_other; [exact H2|].
        intros Ep. symmetry in Ep. revert Ep. apply (Hne e p'); [left; reflexivity|congruence].
    - apply IH; intros; [eapply Hne|eapply Heq]; try eassumption; right; assumption.
  Qed.

  Lemma rep_update c evs ps s p x f fc :
    Rep c evs ps -> mget s (c_events c) = Some p -> nth_error (c_heap c) p = Some x ->
    (forall e, e_seq (f e) = e_seq e) -> (forall e, cev_of (f e) = fc (cev_of e)) ->
    Rep (with_heap msg (lset p (fc x) (c_heap c)) c) (upd_ev s f evs) ps /\
    same_rest c (with_heap msg (lset p (fc x) (c_heap c)) c).
  Proof.
    intros R Hg Hn Hf Hfc. split; [|destruct c; repeat split].
    destruct (rep_mget_some _ _ _ s R (rep_keys _ _ _ R _ _ Hg)) as (e0 & p0 & A0 & B0 & G0 & N0).
    assert (p0 = p) by congruence. subst p0.
    assert (x = cev_of e0) by congruence. subst x.
    constructor.
    - rewrite upd_ev_seqs by exact Hf. destruct c; exact (rep_seqs _ _ _ R).
    - rewrite upd_ev_seqs by exact Hf. exact (rep_nodup _ _ _ R).
    - intros s' p' H. rewrite upd_ev_seqs by exact Hf. destruct c; eapply rep_keys; eassumption.
    - apply holds_update; [exact (rep_ptrs _ _ _ R)|eauto| | |exact Hf].
      + intros e p' Hin Hne Ep. subst p'. apply Hne. rewrite <- B0. f_equal.
        eapply combine_inj; [exact (rep_inj _ _ _ R)|exact Hin|exact A0].
      + intros e p' Hin He.
        assert (Hh : holds c e p') by (eapply forall2_in_combine; [exact (rep_ptrs _ _ _ R)|exact Hin]).
        destruct Hh as [H1 H2]. rewrite He in H1. assert (p' = p) by congruence. subst p'.
        split; [reflexivity|].
        assert (e0 = e) by (eapply combine_inj; [exact (rep_inj _ _ _ R)|exact A0|exact Hin]).
        subst e0. symmetry. apply Hfc.
    - exact (rep_inj _ _ _ R).
    - rewrite upd_ev_seqs by exact Hf. exact (rep_u32 _ _ _ R).
  Qed.

  (* inserting a fresh object for a number not yet present *)
  Fixpoint pins (less : N -> N -> bool) (s : N) (pnew : nat) (seqs : list N) (ps : list nat) : list nat :=
    match seqs, ps with
    | y :: r, p :: pr => if less s y then pnew :: p :: pr else p :: pins less s pnew r pr
    | _, _ => [pnew]
    end.

  Lemma pins_in less s pnew seqs ps q : In q (pins less s pnew seqs ps) -> q = pnew \/ In q ps.
  Proof.
    revert ps. induction seqs as [|y r IH]; intros [|p pr]; simpl; try (intuition; fail).
    destruct (less s y); simpl; [intuition|]. intros [->|H]; [intuition|]. destruct (IH _ H); intuition.
  Qed.

  Lemma pins_nodup less s pnew seqs ps : NoDup ps -> ~ In pnew ps -> NoDup (pins less s pnew seqs ps).
  Proof.
    revert ps. induction seqs as [|y r IH]; intros [|p pr] Hnd Hn; simpl; try (constructor; [simpl; tauto|constructor]).
    destruct (less s y).
    - constructor; assumption.
    - inversion Hnd as [|? ? Hp Hr]; subst. constructor.
      + intros H. apply pins_in in H. destruct H as [->|H]; [apply Hn; left; reflexivity|contradiction].
      + apply IH; [exact Hr|]. intros H. apply Hn. right. exact H.
  Qed.

  Lemma holds_insert less (Q : rev -> nat -> Prop) exp m evs ps pnew :
    Forall2 Q evs ps -> Q (ev_new msg mseq mtype exp m) pnew -> ~ In (mseq m) (map e_seq evs) ->
    Forall2 Q (put_ev_by less exp m evs) (pins less (mseq m) pnew (map e_seq evs) ps).
  Proof.
    intros H Hq. induction H as [|e p evs ps He Hr IH]; simpl; intros Hn.
    - constructor; [exact Hq|constructor].
    - destruct (N.eqb_spec (mseq m) (e_seq e)) as [E|E]; [exfalso; apply Hn; left; congruence|].
      destruct (less (mseq m) (e_seq e)).
      + constructor; [exact Hq|]. constructor; assumption.
      + constructor; [exact He|]. apply IH. tauto.
  Qed.

  Lemma rep_insert c evs ps exp m :
    Rep c evs ps -> ~ In (mseq m) (map e_seq evs) -> (mseq m < two32)%N ->
    let c' := with_heap msg (c_heap c ++ [ev_fresh msg mtype exp m])
                (with_events msg (mset (mseq m) (length (c_heap c)) (c_events c))
                   (with_seqs msg (insert_by seq_less (mseq m) (c_seqs c)) c)) in
    Rep c' (put_ev_by seq_less exp m evs) (pins seq_less (mseq m) (length (c_heap c)) (map e_seq evs) ps) /\
    same_rest c c'.
  Proof.
    intros R Hn Hu c'. split; [|destruct c; repeat split].
    assert (Hold : forall e p, holds c e p -> e_seq e <> mseq m -> holds c' e p).
    { intros e p [H1 H2] Hne. split.
      - subst c'. fields c. rewrite mget_mset_other by exact Hne. exact H1.
      - subst c'. fields c. rewrite nth_error_app1; [exact H2|]. apply nth_error_Some. congruence. }
    assert (Hlt : forall p, In p ps -> p < length (c_heap c)).
    { intros p Hp. pose proof (rep_ptrs _ _ _ R) as F. clear -F Hp.
      induction F as [|e q l l' [_ H] _ IH]; [contradiction|].
      destruct Hp as [<-|Hp]; [apply nth_error_Some; congruence|apply IH; exact Hp]. }
    constructor.
    - rewrite put_ev_by_seqs_new by exact Hn. pose proof (rep_seqs _ _ _ R) as Q. subst c'. fields c. f_equal. exact Q.
    - rewrite put_ev_by_seqs_new by exact Hn. apply insert_by_nodup; [exact (rep_nodup _ _ _ R)|exact Hn].
    - intros s p H. rewrite put_ev_by_seqs_new by exact Hn. apply in_insert_by.
      destruct (N.eq_dec s (mseq m)) as [->|Hne]; [left; reflexivity|right].
      pose proof (rep_keys _ _ _ R s p) as K. subst c'. fields c. rewrite mget_mset_other in H by exact Hne.
      apply K. exact H.
    - apply holds_insert; [| |exact Hn].
      + pose proof (rep_ptrs _ _ _ R) as F.
        assert (Hall : forall e, In e evs -> e_seq e <> mseq m).
        { intros e He E. apply Hn. rewrite <- E. apply in_map. exact He. }
        clear -F Hold Hall. induction F as [|e p l l' H _ IH]; constructor.
        * apply Hold; [exact H|apply Hall; left; reflexivity].
        * apply IH. intros; apply Hall; right; assumption.
      + split.
        * subst c'. fields c. cbn [e_seq ev_new]. apply mget_mset_same.
        * subst c'. fields c. rewrite nth_error_app2 by lia. rewrite Nat.sub_diag. reflexivity.
    - apply pins_nodup; [exact (rep_inj _ _ _ R)|]. intros H. apply Hlt in H. lia.
    - rewrite put_ev_by_seqs_new by exact Hn. apply Forall_forall. intros x Hx. apply in_insert_by in Hx.
      destruct Hx as [->|Hx]; [exact Hu|]. pose proof (rep_u32 _ _ _ R) as U. rewrite Forall_forall in U. apply U. exact Hx.
  Qed.

  (* ---- eventList.Put --------------------------------------------------------------------------------------- *)
  Lemma cev_of_set_done e : cev_of (set_done msg e) = ev_marked msg (cev_of e).
  Proof. reflexivity. Qed.
  Lemma cev_of_ev_add m e : cev_of (ev_add msg mtype m e) = ev_added msg mtype m (cev_of e).
  Proof. reflexivity. Qed.

  (* Put (with event.Add and the sort) on a state representing [evs] yields a state representing
     [put_by seq_less .. evs], whenever Less is transitive on the numbers present (sort.Sort's contract) *)
  Theorem put_by_from_source : forall d (c : cstT) evs ps m,
    Rep c evs ps -> c_locked c = false -> (mseq m < two32)%N ->
    sorted_by seq_less (map e_seq evs) -> less_trans_on (mseq m :: map e_seq evs) ->
    exists c' ps',
      C (4 + d) FnPut (Some VListObj) [VMsg (Some m)] c = Some (c', []) /\
      Rep c' (put_by seq_less (c_timeout c) (c_now c) m evs) ps' /\
      same_rest c c' /\ c_last c' = c_last c.
  Proof.
    intros d c evs ps m R Hl Hu Hs T. change (4 + d) with (S (S (S (S d)))). rewrite callee_S.
    cbn [prog_of gen_reassembler pg_Put]. unfold put_by.
    destruct (is_eoe (mtype m)) eqn:Heoe.
    - destruct (in_dec N.eq_dec (mseq m) (map e_seq evs)) as [Hin|Hn].
      + destruct (rep_mget_some _ _ _ _ R Hin) as (e0 & p & A & B & G & Nn).
        rewrite (put_run_eoe_found msg mseq mtype _ c m p (cev_of e0) Hl Heoe G Nn).
        rewrite mark_done_upd by exact (rep_nodup _ _ _ R).
        destruct (rep_update c evs ps (mseq m) p (cev_of e0) (set_done msg) (ev_marked msg) R G Nn
                    (fun _ => eq_refl) cev_of_set_done) as [R' S'].
        eexists _, ps. split; [reflexivity|]. split; [exact R'|]. split; [exact S'|]. destruct c; reflexivity.
      + rewrite (put_run_eoe_missing msg mseq mtype _ c m Hl Heoe (rep_mget_none _ _ _ _ R Hn)).
        rewrite mark_done_absent by exact Hn.
        exists c, ps. split; [reflexivity|]. split; [exact R|]. split; [apply same_rest_refl|reflexivity].
    - destruct (in_dec N.eq_dec (mseq m) (map e_seq evs)) as [Hin|Hn].
      + destruct (rep_mget_some _ _ _ _ R Hin) as (e0 & p & A & B & G & Nn).
        rewrite (put_run_found msg mseq mtype _ c m p (cev_of e0) Hl Heoe G Nn).
        rewrite put_ev_by_present by (try exact (rep_nodup _ _ _ R); assumption).
        destruct (rep_update c evs ps (mseq m) p (cev_of e0) (ev_add msg mtype m) (ev_added msg mtype m) R G Nn
                    (fun _ => eq_refl) (cev_of_ev_add m)) as [R' S'].
        eexists _, ps. split; [reflexivity|]. split; [exact R'|]. split; [exact S'|]. destruct c; reflexivity.
      + assert (Hst : strict_total_b seq_less (c_seqs c ++ [mseq m]) = true).
        { apply strict_total_of_trans. eapply less_trans_on_incl; [|exact T].
          intros x Hx. apply in_app_or in Hx. rewrite (rep_seqs _ _ _ R) in Hx. simpl in *. tauto. }
        rewrite (put_run_new msg mseq mtype _ c m Hl Heoe (rep_mget_none _ _ _ _ R Hn) Hst).
        rewrite isort_snoc by (rewrite (rep_seqs _ _ _ R); exact Hs).
        destruct (rep_insert c evs ps (c_now c + c_timeout c) m R Hn Hu) as [R' S'].
        eexists _, _. split; [reflexivity|]. split; [exact R'|]. split; [exact S'|]. destruct c; reflexivity.
  Qed.

  (* ---- eventList.CleanUp ------------------------------------------------------------------------------------ *)
  (* the objects at [pe] carry the record lists [gs] *)
  Definition carries (hp : list cevT) (pe : list nat) (gs : list (list msg)) : Prop :=
    Forall2 (fun p g => exists e : cevT, nth_error hp p = Some e /\ ce_msgs e = g) pe gs.

  Lemma rep_tail c e r p pr x :
    Rep c (e :: r) (p :: pr) ->
    Rep (with_events msg (mdel (e_seq e) (c_events c)) (with_seqs msg (map e_seq r) (with_last msg x c))) r pr.
  Proof.
    intros R. pose proof (rep_nodup _ _ _ R) as Hnd. simpl in Hnd. inversion Hnd as [|? ? Hn Hr]; subst.
    constructor.
    - fields c. reflexivity.
    - exact Hr.
    - intros s q H. pose proof (rep_keys _ _ _ R s q) as K. fields c.
      destruct (N.eq_dec s (e_seq e)) as [->|Hne]; [rewrite mget_mdel_same in H; discriminate|].
      rewrite mget_mdel_other in H by exact Hne. destruct (K H) as [E|E]; [congruence|exact E].
    - pose proof (rep_ptrs _ _ _ R) as F. inversion F as [|? ? ? ? _ F']; subst.
      assert (Hall : forall e', In e' r -> e_seq e' <> e_seq e).
      { intros e' He' E. apply Hn. rewrite <- E. apply in_map. exact He'. }
      clear -F' Hall. induction F' as [|e' q l l' [H1 H2] _ IH]; constructor.
      + split; fields c; [rewrite mget_mdel_other by (apply Hall; left; reflexivity); exact H1|exact H2].
      + apply IH. intros; apply Hall; right; assumption.
    - pose proof (rep_inj _ _ _ R) as I. inversion I; assumption.
    - pose proof (rep_u32 _ _ _ R) as U. inversion U; assumption.
  Qed.

  Lemma cleanup_loop d maxsz : forall evs ps (c : cstT) E s0 L n,
    Rep c evs ps -> c_maxsz c = Z.of_nat maxsz -> (c_last c < two32)%N -> length evs < n ->
    let ev := fst (cleanup maxsz (c_now c) evs) in
    let kept := snd (cleanup maxsz (c_now c) evs) in
    exists c' s1 pe pk,
      ps = pe ++ pk /\
      for_loop msg (body_fn msg mseq mtype (S d) (cleanup_body)) n c (env_cl msg E s0 L, true) =
        Some (c', (env_cl msg (E ++ map Some pe) s1 (L + Z.of_N (lost_of (c_last c) ev)), true), FNormal) /\
      Rep c' kept pk /\ carries (c_heap c) pe (map e_msgs ev) /\
      c_last c' = last_of (c_last c) ev /\ (c_last c' < two32)%N /\ c_heap c' = c_heap c /\ same_rest c c'.
  Proof.
    induction evs as [|e r IH]; intros ps c E s0 L n R Hmx Hla Hn ev kept.
    - pose proof (rep_seqs _ _ _ R) as Hs. pose proof (rep_ptrs _ _ _ R) as F. inversion F; subst.
      destruct n as [|n]; [simpl in Hn; lia|]. rewrite for_loop_S.
      rewrite (cleanup_iter_empty msg mseq mtype (S d) c E s0 L Hs).
      exists c, s0, [], []. subst ev kept. simpl. rewrite app_nil_r, Z.add_0_r.
      split; [reflexivity|]. split; [reflexivity|]. split; [exact R|]. split; [constructor|].
      split; [reflexivity|]. split; [exact Hla|]. split; [reflexivity|apply same_rest_refl].
    - pose proof (rep_seqs _ _ _ R) as Hs. pose proof (rep_ptrs _ _ _ R) as F.
      inversion F as [|? p ? pr [Hg Hh] F']; subst. simpl in Hs.
      destruct n as [|n]; [simpl in Hn; lia|]. rewrite for_loop_S.
      assert (Hcond : ce_done (cev_of e) || (c_maxsz c <? Z.of_nat (length (e_seq e :: map e_seq r)))%Z ||
                      Nat.ltb (ce_exp (cev_of e)) (c_now c) = evictable msg maxsz (c_now c) e (e :: r)).
      { unfold evictable. cbn [ce_done ce_exp cev_of]. rewrite Hmx, ltb_nat_z. simpl length. rewrite map_length. reflexivity. }
      subst ev kept. cbn [cleanup].
      destruct (evictable msg maxsz (c_now c) e (e :: r)) eqn:Hev.
      + rewrite (cleanup_iter_evict msg mseq mtype d c E s0 L (e_seq e) (map e_seq r) p (cev_of e) Hs Hg Hh Hcond).
        set (c1 := with_events msg (mdel (e_seq e) (c_events c)) (with_seqs msg (map e_seq r) (with_last msg (e_seq e) c))).
        assert (R1 : Rep c1 r pr) by (exact (rep_tail c e r p pr (e_seq e) R)).
        assert (Hu : (e_seq e < two32)%N) by (pose proof (rep_u32 _ _ _ R) as U; inversion U; assumption).
        assert (Hnow : c_now c1 = c_now c) by (subst c1; destruct c; reflexivity).
        destruct (IH pr c1 (E ++ [Some p]) (e_seq e) (L + gap_z (c_last c) (e_seq e))%Z n R1) as
          (c' & s1 & pe & pk & Eps & Hrun & R' & Hc & Hl' & Hl'' & Hh' & Sr).
        { subst c1. destruct c; exact Hmx. }
        { subst c1. destruct c; exact Hu. }
        { simpl in Hn. lia. }
        rewrite Hnow in *.
        exists c', s1, (p :: pe), pk. cbn [fst snd].
        split; [simpl; f_equal; exact Eps|].
        split.
        { rewrite Hrun.
          assert (Hl1 : c_last c1 = e_seq e) by (subst c1; destruct c; reflexivity).
          rewrite Hl1. cbn [AuditProc.lost_of]. rewrite gap_is_lost_gap by assumption.
          rewrite <- app_assoc. cbn [map app]. rewrite N2Z.inj_add, Z.add_assoc. reflexivity. }
        split; [exact R'|].
        assert (Hh1 : c_heap c1 = c_heap c) by (subst c1; destruct c; reflexivity).
        assert (Hl1 : c_last c1 = e_seq e) by (subst c1; destruct c; reflexivity).
        split.
        { simpl. constructor; [exists (cev_of e); split; [exact Hh|reflexivity]|]. rewrite <- Hh1. exact Hc. }
        split; [rewrite Hl', Hl1; unfold AuditProc.last_of; simpl; destruct (map e_seq (fst (cleanup maxsz (c_now c) r))); [reflexivity|apply last_cons_default]|].
        split; [exact Hl''|]. split; [congruence|].
        destruct Sr as (A1 & A2 & A3 & A4 & A5 & A6). subst c1. destruct c; cbn in *. repeat split; assumption.
      + rewrite (cleanup_iter_keep msg mseq mtype d c E s0 L (e_seq e) (map e_seq r) p (cev_of e) Hs Hg Hh Hcond).
        exists c, (e_seq e), [], (p :: pr). cbn [fst snd]. simpl. rewrite app_nil_r, Z.add_0_r.
        split; [reflexivity|]. split; [reflexivity|]. split; [exact R|]. split; [constructor|].
        split; [reflexivity|]. split; [exact Hla|]. split; [reflexivity|apply same_rest_refl].
  Qed.

  Theorem cleanup_from_source : forall d (c : cstT) evs ps maxsz,
    Rep c evs ps -> c_locked c = false -> c_maxsz c = Z.of_nat maxsz -> (c_last c < two32)%N ->
    let ev := fst (cleanup maxsz (c_now c) evs) in
    let kept := snd (cleanup maxsz (c_now c) evs) in
    exists c' pe pk,
      ps = pe ++ pk /\
      C (3 + d) FnCleanUp (Some VListObj) [] c = Some (c', [VEvs (map Some pe); VInt (Z.of_N (lost_of (c_last c) ev))]) /\
      Rep c' kept pk /\ carries (c_heap c) pe (map e_msgs ev) /\
      c_last c' = last_of (c_last c) ev /\ (c_last c' < two32)%N /\ c_heap c' = c_heap c /\ same_rest c c'.
  Proof.
    intros d c evs ps maxsz R Hl Hmx Hla ev kept. change (3 + d) with (S (S (S d))). rewrite callee_S.
    cbn [prog_of gen_reassembler pg_CleanUp]. rewrite cleanup_run_wrap by exact Hl.
    set (c0 := with_locked msg true c).
    assert (R0 : Rep c0 evs ps).
    { destruct R as [A B K F I U]. constructor; try assumption; subst c0; destruct c; assumption. }
    destruct (cleanup_loop (S d) maxsz evs ps c0 [] 0%N 0%Z (S (length (c_seqs c))) R0) as
      (c' & s1 & pe & pk & Eps & Hrun & R' & Hc & Hl' & Hl'' & Hh' & Sr).
    { subst c0. destruct c; exact Hmx. }
    { subst c0. destruct c; exact Hla. }
    { rewrite (rep_seqs _ _ _ R), map_length. lia. }
    assert (Hnow : c_now c0 = c_now c) by (subst c0; destruct c; reflexivity).
    assert (Hlast : c_last c0 = c_last c) by (subst c0; destruct c; reflexivity).
    assert (Hheap : c_heap c0 = c_heap c) by (subst c0; destruct c; reflexivity).
    rewrite Hnow, Hlast, Hheap in *. rewrite Hrun. unfold loop_result. cbn.
    destruct Sr as (A1 & A2 & A3 & A4 & A5 & A6).
    assert (Hlk : c_locked c' = true) by (rewrite A3; subst c0; destruct c; reflexivity).
    rewrite Hlk.
    exists (with_locked msg false c'), pe, pk. split; [exact Eps|]. split; [reflexivity|].
    split.
    { destruct R' as [A B K F I U]. constructor; try assumption; destruct c'; assumption. }
    split; [exact Hc|]. split; [destruct c'; exact Hl'|]. split; [destruct c'; exact Hl''|].
    split; [destruct c'; exact Hh'|].
    unfold same_rest. subst c0. fields c. fields c'. subst. repeat split; reflexivity.
  Qed.

  (* ---- eventList.Clear ----------------------------------------------------------------------------------------- *)
  Lemma clear_loop d : forall evs ps (c : cstT) E s0 L n,
    Rep c evs ps -> (c_last c < two32)%N -> length evs < n ->
    exists c' s1,
      for_loop msg (body_fn msg mseq mtype (S d) (clear_body)) n c (env_cl msg E s0 L, true) =
        Some (c', (env_cl msg (E ++ map Some ps) s1 (L + Z.of_N (lost_of (c_last c) evs)), true), FNormal) /\
      Rep c' [] [] /\ carries (c_heap c) ps (map e_msgs evs) /\
      c_last c' = last_of (c_last c) evs /\ (c_last c' < two32)%N /\ c_heap c' = c_heap c /\ same_rest c c'.
  Proof.
    induction evs as [|e r IH]; intros ps c E s0 L n R Hla Hn.
    - pose proof (rep_seqs _ _ _ R) as Hs. pose proof (rep_ptrs _ _ _ R) as F. inversion F; subst.
      destruct n as [|n]; [simpl in Hn; lia|]. rewrite for_loop_S.
      rewrite (clear_iter_empty msg mseq mtype (S d) c E s0 L Hs).
      exists c, s0. simpl. rewrite app_nil_r, Z.add_0_r.
      split; [reflexivity|]. split; [exact R|]. split; [constructor|].
      split; [reflexivity|]. split; [exact Hla|]. split; [reflexivity|apply same_rest_refl].
    - pose proof (rep_seqs _ _ _ R) as Hs. pose proof (rep_ptrs _ _ _ R) as F.
      inversion F as [|? p ? pr [Hg Hh] F']; subst. simpl in Hs.
      destruct n as [|n]; [simpl in Hn; lia|]. rewrite for_loop_S.
      rewrite (clear_iter_evict msg mseq mtype d c E s0 L (e_seq e) (map e_seq r) Hs). rewrite Hg.
      set (c1 := with_events msg (mdel (e_seq e) (c_events c)) (with_seqs msg (map e_seq r) (with_last msg (e_seq e) c))).
      assert (R1 : Rep c1 r pr) by (exact (rep_tail c e r p pr (e_seq e) R)).
      assert (Hu : (e_seq e < two32)%N) by (pose proof (rep_u32 _ _ _ R) as U; inversion U; assumption).
      destruct (IH pr c1 (E ++ [Some p]) (e_seq e) (L + gap_z (c_last c) (e_seq e))%Z n R1) as
        (c' & s1 & Hrun & R' & Hc & Hl' & Hl'' & Hh' & Sr).
      { subst c1. destruct c; exact Hu. }
      { simpl in Hn. lia. }
      assert (Hh1 : c_heap c1 = c_heap c) by (subst c1; destruct c; reflexivity).
      assert (Hl1 : c_last c1 = e_seq e) by (subst c1; destruct c; reflexivity).
      exists c', s1.
      split.
      { rewrite Hrun. rewrite Hl1. cbn [AuditProc.lost_of]. rewrite gap_is_lost_gap by assumption.
        rewrite <- app_assoc. cbn [map app]. rewrite N2Z.inj_add, Z.add_assoc. reflexivity. }
      split; [exact R'|].
      split.
      { simpl. constructor; [exists (cev_of e); split; [exact Hh|reflexivity]|]. rewrite <- Hh1. exact Hc. }
      split; [rewrite Hl', Hl1; unfold AuditProc.last_of; simpl; destruct (map e_seq r); [reflexivity|apply last_cons_default]|].
      split; [exact Hl''|]. split; [congruence|].
      destruct Sr as (A1 & A2 & A3 & A4 & A5 & A6). subst c1. destruct c; cbn in *. repeat split; assumption.
  Qed.

  Theorem clear_from_source : forall d (c : cstT) evs ps,
    Rep c evs ps -> c_locked c = false -> (c_last c < two32)%N ->
    exists c',
      C (3 + d) FnClear (Some VListObj) [] c = Some (c', [VEvs (map Some ps); VInt (Z.of_N (lost_of (c_last c) evs))]) /\
      Rep c' [] [] /\ carries (c_heap c) ps (map e_msgs evs) /\
      c_last c' = last_of (c_last c) evs /\ (c_last c' < two32)%N /\ c_heap c' = c_heap c /\ same_rest c c'.
  Proof.
    intros d c evs ps R Hl Hla. change (3 + d) with (S (S (S d))). rewrite callee_S.
    cbn [prog_of gen_reassembler pg_Clear]. rewrite clear_run_wrap by exact Hl.
    set (c0 := with_locked msg true c).
    assert (R0 : Rep c0 evs ps).
    { destruct R as [A B K F I U]. constructor; try assumption; subst c0; destruct c; assumption. }
    destruct (clear_loop (S d) evs ps c0 [] 0%N 0%Z (S (length (c_seqs c))) R0) as
      (c' & s1 & Hrun & R' & Hc & Hl' & Hl'' & Hh' & Sr).
    { subst c0. destruct c; exact Hla. }
    { rewrite (rep_seqs _ _ _ R), map_length. lia. }
    assert (Hlast : c_last c0 = c_last c) by (subst c0; destruct c; reflexivity).
    assert (Hheap : c_heap c0 = c_heap c) by (subst c0; destruct c; reflexivity).
    rewrite Hlast, Hheap in *. rewrite Hrun. unfold loop_result. cbn.
    destruct Sr as (A1 & A2 & A3 & A4 & A5 & A6).
    assert (Hlk : c_locked c' = true) by (rewrite A3; subst c0; destruct c; reflexivity).
    rewrite Hlk.
    exists (with_locked msg false c'). split; [reflexivity|].
    split.
    { destruct R' as [A B K F I U]. constructor; try assumption; destruct c'; assumption. }
    split; [exact Hc|]. split; [destruct c'; exact Hl'|]. split; [destruct c'; exact Hl''|].
    split; [destruct c'; exact Hh'|].
    unfold same_rest. subst c0. fields c. fields c'. subst. repeat split; reflexivity.
  Qed.

  (* ---- Reassembler.PushMessage / Maintain / Close ---------------------------------------------------------------- *)
  (* the Stream calls of Reassembler.callback: one ReassemblyComplete per evicted event, then EventsLost iff lost > 0 *)
  Definition lost_out (n : N) : list (cbev msg) := if (n =? 0)%N then [] else [CBLost (Z.of_N n)].
  Definition cb_out (ev : list rev) (lost : N) : list (cbev msg) := map CBComplete (map e_msgs ev) ++ lost_out lost.

  (* [c] represents the model state [st] of a reassembler built with the limits [maxsz], [timeout] *)
  Record RepSt (c : cstT) (st : rst) (maxsz timeout : nat) (ps : list nat) : Prop := {
    rs_rep : Rep c (r_evs st) ps;
    rs_last : c_last c = r_last st;
    rs_maxsz : c_maxsz c = Z.of_nat maxsz;
    rs_timeout : c_timeout c = timeout;
    rs_unlocked : c_locked c = false;
    rs_last32 : (c_last c < two32)%N
  }.

  Lemma rep_with_now c evs ps now : Rep c evs ps -> Rep (with_now msg now c) evs ps.
  Proof. intros [A B K F I U]. constructor; try assumption; destruct c; assumption. Qed.

  Lemma rep_with_closed c evs ps z : Rep c evs ps -> Rep (with_closed msg z c) evs ps.
  Proof. intros [A B K F I U]. constructor; try assumption; destruct c; assumption. Qed.

  Lemma rep_with_out c evs ps o : Rep c evs ps -> Rep (with_out msg o c) evs ps.
  Proof. intros [A B K F I U]. constructor; try assumption; destruct c; assumption. Qed.

  Lemma lost_flag n : (if (0 <? Z.of_N n)%Z then [CBLost (msg := msg) (Z.of_N n)] else []) = lost_out n.
  Proof.
    unfold lost_out. destruct (N.eqb_spec n 0) as [->|H]; [reflexivity|].
    destruct (Z.ltb_spec 0 (Z.of_N n)); [reflexivity|lia].
  Qed.

  (* the callback after CleanUp / Clear *)
  Lemma callback_after d (c2 : cstT) pe ev lost ret :
    carries (c_heap c2) pe (map e_msgs ev) ->
    then_callback msg mseq mtype (S d) (Some (c2, [VEvs (map Some pe); VInt (Z.of_N lost)])) ret =
    Some (with_out msg (c_out c2 ++ cb_out ev lost) c2, ret).
  Proof.
    intros Hc. unfold then_callback. rewrite callee_S. cbn [prog_of gen_reassembler pg_callback].
    rewrite (callback_run msg mseq mtype d c2 pe (map e_msgs ev) (Z.of_N lost) Hc).
    rewrite lost_flag. reflexivity.
  Qed.

  Definition depth_ok : top_depth = 6 := eq_refl.

  (* PushMessage: Put, CleanUp, callback = the model's step (order-generic), the Stream calls = the evicted events
     in order and the lost count.  The closed flag plays no part (PushMessage does not look at it). *)
  Theorem rstep_by_from_source_push : forall (c : cstT) st maxsz timeout ps now m,
    RepSt c st maxsz timeout ps -> (mseq m < two32)%N ->
    sorted_by seq_less (map e_seq (r_evs st)) -> less_trans_on (mseq m :: map e_seq (r_evs st)) ->
    exists c' ps',
      push_message msg mseq mtype gen_reassembler now (Some m) c = Some (c', []) /\
      RepSt c' (fst (fst (rstep_by seq_less maxsz timeout st (RPush now m)))) maxsz timeout ps' /\
      c_out c' = c_out c ++ cb_out (snd (fst (rstep_by seq_less maxsz timeout st (RPush now m))))
                                   (snd (rstep_by seq_less maxsz timeout st (RPush now m))) /\
      c_closed c' = c_closed c.
  Proof.
    intros c st maxsz timeout ps now m [R Hla Hmx Htm Hlk Hl32] Hu Hs T.
    unfold push_message. change top_depth with 6. rewrite callee_S. cbn [prog_of gen_reassembler pg_PushMessage].
    rewrite push_run.
    set (c0 := with_now msg now c).
    assert (R0 : Rep c0 (r_evs st) ps) by (apply rep_with_now; exact R).
    assert (Hlk0 : c_locked c0 = false) by (subst c0; destruct c; exact Hlk).
    destruct (put_by_from_source 1 c0 (r_evs st) ps m R0 Hlk0 Hu Hs T) as (c1 & ps1 & Hput & R1 & S1 & L1).
    change (4 + 1) with 5 in Hput. rewrite Hput.
    assert (Htm0 : c_timeout c0 = timeout) by (subst c0; destruct c; exact Htm).
    assert (Hnow0 : c_now c0 = now) by (subst c0; destruct c; reflexivity).
    rewrite Htm0, Hnow0 in R1.
    destruct S1 as (A1 & A2 & A3 & A4 & A5 & A6).
    assert (Hlk1 : c_locked c1 = false) by (rewrite A3; exact Hlk0).
    assert (Hmx1 : c_maxsz c1 = Z.of_nat maxsz) by (rewrite A1; subst c0; destruct c; exact Hmx).
    assert (Hla1 : (c_last c1 < two32)%N) by (rewrite L1; subst c0; destruct c; exact Hl32).
    destruct (cleanup_from_source 2 c1 _ ps1 maxsz R1 Hlk1 Hmx1 Hla1) as (c2 & pe & pk & Eps & Hcl & R2 & Hc & L2 & L32 & H2 & S2).
    change (3 + 2) with 5 in Hcl. rewrite Hcl.
    rewrite <- H2 in Hc. rewrite (callback_after 4 c2 pe _ _ [] Hc).
    assert (Hnow1 : c_now c1 = now) by congruence. rewrite Hnow1 in *.
    assert (Hlast1 : c_last c1 = r_last st) by (rewrite L1; subst c0; destruct c; exact Hla). rewrite Hlast1 in *.
    destruct S2 as (B1 & B2 & B3 & B4 & B5 & B6).
    eexists _, pk. split; [reflexivity|]. cbn [rstep_by fst snd].
    split.
    { constructor; cbn [r_evs r_last].
      - apply rep_with_out. exact R2.
      - destruct c2; exact L2.
      - destruct c2; cbn in *. rewrite B1, A1. subst c0. destruct c; exact Hmx.
      - destruct c2; cbn in *. rewrite B2, A2. exact Htm0.
      - destruct c2; cbn in *. rewrite B3, A3. subst c0. destruct c; exact Hlk.
      - destruct c2; exact L32. }
    split.
    { destruct c2; cbn in *. rewrite B6, A6. subst c0. destruct c; reflexivity. }
    destruct c2; cbn in *. rewrite B4, A4. subst c0. destruct c; reflexivity.
  Qed.

  Theorem rstep_by_from_source_maintain : forall (c : cstT) st maxsz timeout ps now,
    RepSt c st maxsz timeout ps -> c_closed c <> 1%Z ->
    exists c' ps',
      maintain msg mseq mtype gen_reassembler now c = Some (c', [VNil]) /\
      RepSt c' (fst (fst (rstep maxsz timeout st (RMaintain now)))) maxsz timeout ps' /\
      c_out c' = c_out c ++ cb_out (snd (fst (rstep maxsz timeout st (RMaintain now))))
                                   (snd (rstep maxsz timeout st (RMaintain now))) /\
      c_closed c' = c_closed c.
  Proof.
    intros c st maxsz timeout ps now [R Hla Hmx Htm Hlk Hl32] Hcl.
    unfold maintain. change top_depth with 6. rewrite callee_S. cbn [prog_of gen_reassembler pg_Maintain].
    rewrite maintain_run.
    set (c0 := with_now msg now c).
    assert (Hcl0 : (c_closed c0 =? 1)%Z = false) by (subst c0; destruct c; apply Z.eqb_neq; exact Hcl).
    rewrite Hcl0.
    assert (R0 : Rep c0 (r_evs st) ps) by (apply rep_with_now; exact R).
    assert (Hlk0 : c_locked c0 = false) by (subst c0; destruct c; exact Hlk).
    assert (Hmx0 : c_maxsz c0 = Z.of_nat maxsz) by (subst c0; destruct c; exact Hmx).
    assert (Hla0 : (c_last c0 < two32)%N) by (subst c0; destruct c; exact Hl32).
    destruct (cleanup_from_source 2 c0 _ ps maxsz R0 Hlk0 Hmx0 Hla0) as (c2 & pe & pk & Eps & Hc2 & R2 & Hc & L2 & L32 & H2 & S2).
    change (3 + 2) with 5 in Hc2. rewrite Hc2.
    rewrite <- H2 in Hc. rewrite (callback_after 4 c2 pe _ _ [VNil] Hc).
    assert (Hnow0 : c_now c0 = now) by (subst c0; destruct c; reflexivity). rewrite Hnow0 in *.
    assert (Hlast0 : c_last c0 = r_last st) by (subst c0; destruct c; exact Hla). rewrite Hlast0 in *.
    destruct S2 as (B1 & B2 & B3 & B4 & B5 & B6).
    eexists _, pk. split; [reflexivity|]. cbn [AuditProc.rstep fst snd].
    split.
    { constructor; cbn [r_evs r_last].
      - apply rep_with_out. exact R2.
      - destruct c2; exact L2.
      - destruct c2; cbn in *. rewrite B1. exact Hmx0.
      - destruct c2; cbn in *. rewrite B2. subst c0. destruct c; exact Htm.
      - destruct c2; cbn in *. rewrite B3. exact Hlk0.
      - destruct c2; exact L32. }
    split.
    { destruct c2; cbn in *. rewrite B6. subst c0. destruct c; reflexivity. }
    destruct c2; cbn in *. rewrite B4. subst c0. destruct c; reflexivity.
  Qed.

  (* Maintain on a closed reassembler returns errReassemblerClosed, touches nothing and delivers nothing *)
  Theorem maintain_after_close : forall (c : cstT) now,
    c_closed c = 1%Z ->
    maintain msg mseq mtype gen_reassembler now c = Some (with_now msg now c, [VErr (Some "errReassemblerClosed")]).
  Proof.
    intros c now H. unfold maintain. change top_depth with 6. rewrite callee_S.
    cbn [prog_of gen_reassembler pg_Maintain]. rewrite maintain_run.
    assert (E : (c_closed (with_now msg now c) =? 1)%Z = true) by (destruct c; apply Z.eqb_eq; exact H).
    rewrite E. reflexivity.
  Qed.

  Theorem rstep_by_from_source_close : forall (c : cstT) st maxsz timeout ps now,
    RepSt c st maxsz timeout ps -> c_closed c = 0%Z ->
    exists c',
      close msg mseq mtype gen_reassembler now c = Some (c', [VNil]) /\
      RepSt c' (fst (fst (rstep maxsz timeout st RClose))) maxsz timeout [] /\
      c_out c' = c_out c ++ cb_out (snd (fst (rstep maxsz timeout st RClose))) (snd (rstep maxsz timeout st RClose)) /\
      c_closed c' = 1%Z.
  Proof.
    intros c st maxsz timeout ps now [R Hla Hmx Htm Hlk Hl32] Hcl.
    unfold close. change top_depth with 6. rewrite callee_S. cbn [prog_of gen_reassembler pg_Close].
    rewrite close_run.
    assert (Hcl0 : (c_closed (with_now msg now c) =? 0)%Z = true) by (destruct c; apply Z.eqb_eq; exact Hcl).
    rewrite Hcl0.
    set (c0 := with_closed msg 1 (with_now msg now c)).
    assert (R0 : Rep c0 (r_evs st) ps) by (apply rep_with_closed, rep_with_now; exact R).
    assert (Hlk0 : c_locked c0 = false) by (subst c0; destruct c; exact Hlk).
    assert (Hla0 : (c_last c0 < two32)%N) by (subst c0; destruct c; exact Hl32).
    destruct (clear_from_source 2 c0 _ ps R0 Hlk0 Hla0) as (c2 & Hc2 & R2 & Hc & L2 & L32 & H2 & S2).
    change (3 + 2) with 5 in Hc2. rewrite Hc2.
    rewrite <- H2 in Hc. rewrite (callback_after 4 c2 ps _ _ [VNil] Hc).
    assert (Hlast0 : c_last c0 = r_last st) by (subst c0; destruct c; exact Hla). rewrite Hlast0 in *.
    destruct S2 as (B1 & B2 & B3 & B4 & B5 & B6).
    eexists. split; [reflexivity|]. cbn [AuditProc.rstep fst snd].
    split.
    { constructor; cbn [r_evs r_last].
      - apply rep_with_out. exact R2.
      - destruct c2; exact L2.
      - destruct c2; cbn in *. rewrite B1. subst c0. destruct c; exact Hmx.
      - destruct c2; cbn in *. rewrite B2. subst c0. destruct c; exact Htm.
      - destruct c2; cbn in *. rewrite B3. exact Hlk0.
      - destruct c2; exact L32. }
    split.
    { destruct c2; cbn in *. rewrite B6. subst c0. destruct c; reflexivity. }
    destruct c2; cbn in *. rewrite B4. subst c0. destruct c; reflexivity.
  Qed.

  (* Close on a closed reassembler returns errReassemblerClosed, touches nothing and delivers nothing *)
  Theorem close_when_closed : forall (c : cstT) now,
    c_closed c <> 0%Z ->
    close msg mseq mtype gen_reassembler now c = Some (with_now msg now c, [VErr (Some "errReassemblerClosed")]).
  Proof.
    intros c now H. unfold close. change top_depth with 6. rewrite callee_S.
    cbn [prog_of gen_reassembler pg_Close]. rewrite close_run.
    assert (E : (c_closed (with_now msg now c) =? 0)%Z = false) by (destruct c; apply Z.eqb_neq; exact H).
    rewrite E. reflexivity.
  Qed.

  (* Close twice delivers once: the second Close only returns the error *)
  Theorem close_twice : forall (c : cstT) st maxsz timeout ps now now',
    RepSt c st maxsz timeout ps -> c_closed c = 0%Z ->
    exists c',
      close msg mseq mtype gen_reassembler now c = Some (c', [VNil]) /\
      c_out c' = c_out c ++ cb_out (r_evs st) (lost_of (r_last st) (r_evs st)) /\
      close msg mseq mtype gen_reassembler now' c' =
        Some (with_now msg now' c', [VErr (Some "errReassemblerClosed")]) /\
      maintain msg mseq mtype gen_reassembler now' c' =
        Some (with_now msg now' c', [VErr (Some "errReassemblerClosed")]) /\
      c_out (with_now msg now' c') = c_out c'.
  Proof.
    intros c st maxsz timeout ps now now' R H.
    destruct (rstep_by_from_source_close c st maxsz timeout ps now R H) as (c' & H1 & _ & H3 & H4).
    exists c'. split; [exact H1|]. split; [exact H3|].
    split; [apply close_when_closed; rewrite H4; discriminate|].
    split; [apply maintain_after_close; exact H4|]. destruct c'; reflexivity.
  Qed.

  (* PushMessage(nil) does nothing *)
  Theorem push_nil_from_source : forall (c : cstT) now,
    push_message msg mseq mtype gen_reassembler now None c = Some (with_now msg now c, []).
  Proof.
    intros c now. unfold push_message. change top_depth with 6. rewrite callee_S.
    cbn [prog_of gen_reassembler pg_PushMessage]. apply push_nil_run.
  Qed.

  (* ---- one statement for the three calls ---------------------------------------------------------------------------- *)
  Definition run_op (o : rop msg) (c : cstT) : option (cstT * list (val msg)) :=
    match o with
    | RPush now m => push_message msg mseq mtype gen_reassembler now (Some m) c
    | RMaintain now => maintain msg mseq mtype gen_reassembler now c
    | RClose => close msg mseq mtype gen_reassembler 0 c
    end.

  (* what the call returns on an open reassembler *)
  Definition op_ret (o : rop msg) : list (val msg) := match o with RPush _ _ => [] | _ => [VNil] end.
  Definition op_closed (o : rop msg) : Z := match o with RClose => 1%Z | _ => 0%Z end.

  (* the condition under which sort.Sort has a meaning for this call *)
  Definition op_order_ok (st : rst) (o : rop msg) : Prop :=
    match o with
    | RPush _ m => (mseq m < two32)%N /\ less_trans_on (mseq m :: map e_seq (r_evs st))
    | _ => True
    end.

  Theorem rstep_by_from_source : forall (c : cstT) st maxsz timeout ps o,
    RepSt c st maxsz timeout ps -> c_closed c = 0%Z ->
    sorted_by seq_less (map e_seq (r_evs st)) -> op_order_ok st o ->
    exists c' ps',
      run_op o c = Some (c', op_ret o) /\
      RepSt c' (fst (fst (rstep_by seq_less maxsz timeout st o))) maxsz timeout ps' /\
      c_out c' = c_out c ++ cb_out (snd (fst (rstep_by seq_less maxsz timeout st o)))
                                   (snd (rstep_by seq_less maxsz timeout st o)) /\
      c_closed c' = op_closed o.
  Proof.
    intros c st maxsz timeout ps o R Hcl Hs Hok. destruct o as [now m|now|]; cbn [run_op op_ret op_closed].
    - destruct Hok as [Hu T].
      destruct (rstep_by_from_source_push c st maxsz timeout ps now m R Hu Hs T) as (c' & ps' & A & B & D & E).
      exists c', ps'. rewrite E. auto.
    - destruct (rstep_by_from_source_maintain c st maxsz timeout ps now R) as (c' & ps' & A & B & D & E).
      { rewrite Hcl. discriminate. }
      exists c', ps'. rewrite E. auto.
    - destruct (rstep_by_from_source_close c st maxsz timeout ps 0 R Hcl) as (c' & A & B & D & E).
      exists c', []. auto.
  Qed.

  (* the model's invariant is kept, so the statement chains along a history *)
  Lemma sorted_by_suffix less (a b : list N) : sorted_by less (a ++ b) -> sorted_by less b.
  Proof. induction a as [|x a IH]; simpl; intros H; [exact H|]. inversion H; subst. apply IH. assumption. Qed.

  Lemma nodup_suffix {A} (a b : list A) : NoDup (a ++ b) -> NoDup b.
  Proof. induction a as [|x a IH]; simpl; intros H; [exact H|]. inversion H; subst. apply IH. assumption. Qed.

  Theorem rstep_by_keeps_sorted : forall maxsz timeout st o,
    NoDup (map e_seq (r_evs st)) -> sorted_by seq_less (map e_seq (r_evs st)) -> op_order_ok st o ->
    sorted_by seq_less (map e_seq (r_evs (fst (fst (rstep_by seq_less maxsz timeout st o))))) /\
    NoDup (map e_seq (r_evs (fst (fst (rstep_by seq_less maxsz timeout st o))))).
  Proof.
    intros maxsz timeout st o Hnd Hs Hok. destruct o as [now m|now|]; cbn [rstep_by AuditProc.rstep fst snd r_evs].
    - destruct Hok as [_ T]. destruct (put_by_sorted msg mseq mtype timeout now m (r_evs st) Hnd Hs T) as [S1 N1].
      rewrite <- (cleanup_app msg maxsz now (put_by seq_less timeout now m (r_evs st))), map_app in S1, N1.
      split; [eapply sorted_by_suffix; exact S1|eapply nodup_suffix; exact N1].
    - rewrite <- (cleanup_app msg maxsz now (r_evs st)), map_app in Hs, Hnd.
      split; [eapply sorted_by_suffix; exact Hs|eapply nodup_suffix; exact Hnd].
    - split; constructor.
  Qed.

  (* ---- the plain-order model of Props/C15.v, inside a window ------------------------------------------------------------ *)
  Theorem put_from_source : forall d (c : cstT) evs ps m,
    Rep c evs ps -> c_locked c = false -> (mseq m < two32)%N ->
    StronglySorted N.lt (map e_seq evs) -> in_window (mseq m :: map e_seq evs) ->
    exists c' ps',
      C (4 + d) FnPut (Some VListObj) [VMsg (Some m)] c = Some (c', []) /\
      Rep c' (put (c_timeout c) (c_now c) m evs) ps' /\ same_rest c c' /\ c_last c' = c_last c.
  Proof.
    intros d c evs ps m R Hl Hu Hs W.
    rewrite <- (put_by_is_put_in_window msg mseq mtype) by exact W.
    apply (put_by_from_source d c evs ps m R Hl Hu).
    - apply sorted_lt_sorted_by; [|exact Hs]. intros a b Ha Hb. apply W; right; assumption.
    - apply less_trans_in_window. exact W.
  Qed.

  Definition op_in_window (st : rst) (o : rop msg) : Prop :=
    match o with
    | RPush _ m => (mseq m < two32)%N /\ in_window (mseq m :: map e_seq (r_evs st))
    | _ => True
    end.

  Theorem rstep_from_source : forall (c : cstT) st maxsz timeout ps o,
    RepSt c st maxsz timeout ps -> c_closed c = 0%Z ->
    StronglySorted N.lt (map e_seq (r_evs st)) -> in_window (map e_seq (r_evs st)) -> op_in_window st o ->
    exists c' ps',
      run_op o c = Some (c', op_ret o) /\
      RepSt c' (fst (fst (rstep maxsz timeout st o))) maxsz timeout ps' /\
      c_out c' = c_out c ++ cb_out (snd (fst (rstep maxsz timeout st o))) (snd (rstep maxsz timeout st o)) /\
      c_closed c' = op_closed o.
  Proof.
    intros c st maxsz timeout ps o R Hcl Hs W Hok.
    rewrite <- (rstep_by_is_rstep_in_window msg mseq mtype).
    - apply (rstep_by_from_source c st maxsz timeout ps o R Hcl).
      + apply sorted_lt_sorted_by; assumption.
      + destruct o as [now m| |]; cbn in *; try exact I. destruct Hok as [Hu W']. split; [exact Hu|].
        apply less_trans_in_window. exact W'.
    - intros now m ->. destruct Hok as [_ W']. exact W'.
  Qed.

  (* ---- every model state has a representation: the abstraction function ------------------------------------------------- *)
  Definition abs_state (st : rst) (maxsz timeout : nat) (closed : Z) (out : list (cbev msg)) : cstT :=
    {| c_seqs := map e_seq (r_evs st);
       c_events := combine (map e_seq (r_evs st)) (seq 0 (length (r_evs st)));
       c_heap := map cev_of (r_evs st);
       c_last := r_last st; c_maxsz := Z.of_nat maxsz; c_timeout := timeout; c_locked := false;
       c_closed := closed; c_now := 0; c_out := out |}.

  Lemma mget_combine_nth (l : list N) : NoDup l -> forall k i s,
    nth_error l i = Some s -> mget s (combine l (seq k (length l))) = Some (k + i).
  Proof.
    induction 1 as [|a r Ha _ IH]; intros k i s H; [destruct i; discriminate|].
    unfold mget in *. simpl. destruct i as [|i]; simpl in H.
    - inversion H; subst. rewrite N.eqb_refl. f_equal. lia.
    - destruct (N.eqb_spec a s) as [->|E]; [exfalso; apply Ha; eapply nth_error_In; exact H|].
      rewrite (IH (S k) i s H). f_equal. lia.
  Qed.

  Lemma mget_combine_in (l : list N) ps s p : mget s (combine l ps) = Some p -> In s l.
  Proof.
    revert ps. induction l as [|a r IH]; intros [|q qs] H; unfold mget in *; simpl in *; try discriminate.
    destruct (N.eqb_spec a s) as [->|E]; [left; reflexivity|right; eapply IH; exact H].
  Qed.

  Lemma forall2_seq {A} (P : A -> nat -> Prop) (l : list A) : forall k,
    (forall i e, nth_error l i = Some e -> P e (k + i)) -> Forall2 P l (seq k (length l)).
  Proof.
    induction l as [|x r IH]; intros k H; simpl; [constructor|]. constructor.
    - specialize (H 0 x eq_refl). rewrite Nat.add_0_r in H. exact H.
    - apply IH. intros i e Hi. specialize (H (S i) e Hi). rewrite Nat.add_succ_r in H. exact H.
  Qed.

  Theorem abs_state_represents : forall st maxsz timeout closed out,
    NoDup (map e_seq (r_evs st)) -> Forall (fun s => (s < two32)%N) (map e_seq (r_evs st)) -> (r_last st < two32)%N ->
    RepSt (abs_state st maxsz timeout closed out) st maxsz timeout (seq 0 (length (r_evs st))) /\
    c_closed (abs_state st maxsz timeout closed out) = closed /\ c_out (abs_state st maxsz timeout closed out) = out.
  Proof.
    intros st maxsz timeout closed out Hnd Hu Hl. split; [|split; reflexivity].
    constructor; try reflexivity; [|exact Hl].
    constructor; cbn [abs_state c_seqs c_events c_heap]; try assumption.
    - reflexivity.
    - intros s p H. eapply mget_combine_in. exact H.
    - apply forall2_seq. intros i e Hi. unfold holds. cbn [abs_state c_events c_heap]. split.
      + rewrite <- (map_length e_seq). apply mget_combine_nth; [exact Hnd|]. apply map_nth_error. exact Hi.
      + apply map_nth_error. exact Hi.
    - apply seq_NoDup.
  Qed.

  (* the same on the abstraction of any state satisfying the model's invariant *)
  Corollary rstep_from_source_abs : forall st maxsz timeout out o,
    StronglySorted N.lt (map e_seq (r_evs st)) -> Forall (fun s => (s < two32)%N) (map e_seq (r_evs st)) ->
    (r_last st < two32)%N -> in_window (map e_seq (r_evs st)) -> op_in_window st o ->
    exists c' ps',
      run_op o (abs_state st maxsz timeout 0 out) = Some (c', op_ret o) /\
      RepSt c' (fst (fst (rstep maxsz timeout st o))) maxsz timeout ps' /\
      c_out c' = out ++ cb_out (snd (fst (rstep maxsz timeout st o))) (snd (rstep maxsz timeout st o)) /\
      c_closed c' = op_closed o.
  Proof.
    intros st maxsz timeout out o Hs Hu Hl W Hok.
    assert (Hnd : NoDup (map e_seq (r_evs st))).
    { clear -Hs. induction Hs as [|a r _ IH Hall]; constructor; [|exact IH].
      intros Hin. rewrite Forall_forall in Hall. specialize (Hall _ Hin). lia. }
    destruct (abs_state_represents st maxsz timeout 0 out Hnd Hu Hl) as (R & Hc & Ho).
    destruct (rstep_from_source _ st maxsz timeout _ o R Hc Hs W Hok) as (c' & ps' & A & B & D & E).
    exists c', ps'. rewrite Ho in D. auto.
  Qed.

  (* ---- whole histories ------------------------------------------------------------------------------------------------- *)
  Fixpoint run_ops (ops : list (rop msg)) (c : cstT) : option cstT :=
    match ops with
    | [] => Some c
    | o :: r => match run_op o c with Some (c', _) => run_ops r c' | None => None end
    end.

  (* the groups handed to ReassemblyComplete, in order *)
  Definition groups_out (l : list (cbev msg)) : list (list msg) :=
    flat_map (fun x => match x with CBComplete g => [g] | CBLost _ => [] end) l.

  Lemma groups_out_app a b : groups_out (a ++ b) = groups_out a ++ groups_out b.
  Proof. apply flat_map_app. Qed.

  Lemma groups_out_cb ev lost : groups_out (cb_out ev lost) = map e_msgs ev.
  Proof.
    unfold cb_out. rewrite groups_out_app. unfold lost_out. destruct (lost =? 0)%N; simpl; rewrite app_nil_r;
    induction (map e_msgs ev) as [|g r IH]; simpl; try rewrite IH; reflexivity.
  Qed.

  (* sort.Sort's contract holds at every PushMessage of the history (Close comes last, separately) *)
  Fixpoint ops_ok (maxsz timeout : nat) (st : rst) (ops : list (rop msg)) : Prop :=
    match ops with
    | [] => True
    | o :: r => o <> RClose /\ op_order_ok st o /\
                ops_ok maxsz timeout (fst (fst (rstep_by seq_less maxsz timeout st o))) r
    end.

  Theorem rrun_by_from_source : forall maxsz timeout ops (c : cstT) st ps,
    RepSt c st maxsz timeout ps -> c_closed c = 0%Z ->
    NoDup (map e_seq (r_evs st)) -> sorted_by seq_less (map e_seq (r_evs st)) -> ops_ok maxsz timeout st ops ->
    exists c' ps',
      run_ops ops c = Some c' /\
      RepSt c' (fst (rrun_by msg mseq mtype seq_less maxsz timeout st ops)) maxsz timeout ps' /\
      c_closed c' = 0%Z /\
      groups_out (c_out c') = groups_out (c_out c) ++ map e_msgs (snd (rrun_by msg mseq mtype seq_less maxsz timeout st ops)).
  Proof.
    intros maxsz timeout ops. induction ops as [|o r IH]; intros c st ps R Hcl Hnd Hs Hok.
    - exists c, ps. simpl. rewrite app_nil_r. auto.
    - destruct Hok as (Hnc & Hok1 & Hok2).
      destruct (rstep_by_from_source c st maxsz timeout ps o R Hcl Hs Hok1) as (c1 & ps1 & A & B & D & E).
      destruct (rstep_by_keeps_sorted maxsz timeout st o Hnd Hs Hok1) as [Hs1 Hnd1].
      assert (E0 : c_closed c1 = 0%Z) by (rewrite E; destruct o; try reflexivity; congruence).
      destruct (IH c1 _ ps1 B E0 Hnd1 Hs1 Hok2) as (c2 & ps2 & A2 & B2 & E2 & G2).
      exists c2, ps2. cbn [run_ops]. rewrite A.
      cbn [rrun_by]. destruct (rstep_by seq_less maxsz timeout st o) as [[st1 ev1] lost1] eqn:Est. cbn [fst snd] in *.
      destruct (rrun_by msg mseq mtype seq_less maxsz timeout st1 r) as [st2 ev2] eqn:Er. cbn [fst snd] in *.
      split; [exact A2|]. split; [exact B2|]. split; [exact E2|].
      rewrite G2, D, groups_out_app, groups_out_cb, map_app, app_assoc. reflexivity.
  Qed.

  (* ... followed by Close: the groups ReassemblyComplete receives are the model's [groups_of_by] *)
  Theorem groups_by_from_source : forall maxsz timeout ops,
    ops_ok maxsz timeout (rinit msg) ops ->
    exists c1 c2,
      run_ops ops (cinit msg (Z.of_nat maxsz) timeout) = Some c1 /\
      close msg mseq mtype gen_reassembler 0 c1 = Some (c2, [VNil]) /\
      groups_out (c_out c2) = groups_of_by msg mseq mtype seq_less maxsz timeout ops.
  Proof.
    intros maxsz timeout ops Hok.
    assert (R0 : RepSt (cinit msg (Z.of_nat maxsz) timeout) (rinit msg) maxsz timeout []).
    { constructor; [|reflexivity..].
      constructor; cbn; try constructor. intros s p H. discriminate. }
    destruct (rrun_by_from_source maxsz timeout ops _ _ _ R0 eq_refl (NoDup_nil _) (SSorted_nil _) Hok)
      as (c1 & ps1 & A & B & E & G).
    destruct (rstep_by_from_source_close c1 _ maxsz timeout ps1 0 B E) as (c2 & A2 & _ & D2 & _).
    exists c1, c2. split; [exact A|]. split; [exact A2|].
    unfold groups_of_by. destruct (rrun_by msg mseq mtype seq_less maxsz timeout (rinit msg) ops) as [st ev].
    cbn [fst snd AuditProc.rstep] in *. rewrite D2, groups_out_app, groups_out_cb, G. cbn. rewrite map_app. reflexivity.
  Qed.

  (* ---- the record-type tests, with the auparse constants the translator resolved ------------------------------------------ *)
  Definition put_eoe_test : rexpr :=
    match rf_body gen_Put with
    | BCons _ (BCons _ (BCons _ (BCons _ (BCons (SIf t _ _) _)))) => t
    | _ => XBool false
    end.
  Definition add_complete_test : rexpr :=
    match rf_body gen_Add with
    | BCons _ (BCons (SIf t _ _) _) => t
    | _ => XBool false
    end.

  Theorem is_eoe_from_source : forall call (c : cstT) en m,
    get "msg" en = Some (VMsg (Some m)) ->
    eval msg mseq mtype call put_eoe_test c en = Some (c, VBool (is_eoe (mtype m))).
  Proof. intros call c en m H. cbn. rewrite H. cbn. rewrite is_eoe_z. reflexivity. Qed.

  Theorem completes_from_source : forall call (c : cstT) en m,
    get "msg" en = Some (VMsg (Some m)) ->
    eval msg mseq mtype call add_complete_test c en = Some (c, VBool (completes (mtype m))).
  Proof.
    intros call c en m H. rewrite <- completes_z. cbn. rewrite H. cbn.
    destruct (Z.of_nat (mtype m) =? gen_AUDIT_PROCTITLE)%Z; cbn; [reflexivity|].
    rewrite ?H. cbn.
    destruct (Z.of_nat (mtype m) <=? gen_AUDIT_LAST_DAEMON)%Z; cbn; [reflexivity|].
    rewrite ?H. cbn. reflexivity.
  Qed.

  Theorem constants_from_source :
    gen_AUDIT_EOE = Z.of_nat T_EOE /\ gen_AUDIT_PROCTITLE = Z.of_nat T_PROCTITLE /\
    gen_AUDIT_LAST_DAEMON = Z.of_nat T_LAST_DAEMON /\ gen_AUDIT_ANOM_LOGIN_FAILURES = Z.of_nat T_ANOM_LOGIN_FAILURES /\
    gen_maxSortRange = Z.of_N max_sort_range.
  Proof. repeat split; reflexivity. Qed.

  (* sequenceNumSlice.Less (with abs and maxSortRange), as sort.Sort consults it, is [seq_less] *)
  Theorem less_from_source : forall (c : cstT) a b,
    less_of msg (C 3) c a b = Some (seq_less a b).
  Proof. intros. apply less_run. Qed.

  (* Put, CleanUp and Clear hold the list's mutex from their first statement to their return;
     Sort is sort.Sort with the usual Len and Swap *)
  Theorem list_methods_locked :
    Forall (fun f => match rf_body f with
                     | BCons (SLock (XVar l)) (BCons (SDeferUnlock (XVar l')) _) => rf_recv f = Some l /\ l' = l
                     | _ => False
                     end) [gen_Put; gen_CleanUp; gen_Clear] /\
    gen_sort_iface = {| si_sort_is_sort_Sort := true; si_len_is_len := true; si_swap_is_swap := true |}.
  Proof. split; [repeat constructor|reflexivity]. Qed.
End Tie.

(* ---- histories whose numbers all come from one set on which Less is a strict total order ------------------------------ *)
Section Histories.
  Variable msg : Type.
  Variable mseq : msg -> N.
  Variable mtype : msg -> nat.
  Notation rev := (rev msg).

  Lemma put_by_seqs_incl less timeout now m (l : list rev) x :
    In x (map e_seq (put_by msg mseq mtype less timeout now m l)) -> x = mseq m \/ In x (map e_seq l).
  Proof.
    unfold put_by. destruct (is_eoe (mtype m)); [rewrite mark_done_seqs; tauto|].
    induction l as [|e r IH]; simpl.
    - intros [H|[]]. left. symmetry. exact H.
    - destruct (N.eqb_spec (mseq m) (e_seq e)) as [E|E]; simpl; [tauto|].
      destruct (less (mseq m) (e_seq e)); simpl.
      + intros [H|H]; [left; symmetry; exact H|right; exact H].
      + intros [H|H]; [tauto|]. destruct (IH H); tauto.
  Qed.

  Lemma rstep_by_seqs_incl less maxsz timeout st o x :
    In x (map e_seq (r_evs (fst (fst (rstep_by msg mseq mtype less maxsz timeout st o))))) ->
    In x (map e_seq (r_evs st)) \/ exists now m, o = RPush now m /\ x = mseq m.
  Proof.
    destruct o as [now m|now|]; cbn [rstep_by AuditProc.rstep fst snd r_evs]; intros H.
    - assert (H' : In x (map e_seq (put_by msg mseq mtype less timeout now m (r_evs st)))).
      { rewrite <- (cleanup_app msg maxsz now (put_by msg mseq mtype less timeout now m (r_evs st))), map_app.
        apply in_or_app. right. exact H. }
      destruct (put_by_seqs_incl _ _ _ _ _ _ H'); [right; eauto|left; assumption].
    - left. rewrite <- (cleanup_app msg maxsz now (r_evs st)), map_app. apply in_or_app. right. exact H.
    - contradiction.
  Qed.

  (* every PushMessage of the history carries a uint32 number from [S]; no Close inside *)
  Definition ops_in (S : list N) (ops : list (rop msg)) : Prop :=
    Forall (fun o => match o with
                     | RPush _ m => In (mseq m) S /\ (mseq m < two32)%N
                     | RMaintain _ => True
                     | RClose => False
                     end) ops.

  Lemma ops_ok_global S maxsz timeout ops : less_trans_on S -> ops_in S ops ->
    forall st, (forall x, In x (map e_seq (r_evs st)) -> In x S) -> ops_ok msg mseq mtype maxsz timeout st ops.
  Proof.
    intros T H. induction H as [|o r Ho _ IH]; intros st Hin; [exact I|].
    cbn [ops_ok]. split; [destruct o; try discriminate; contradiction|]. split.
    - destruct o as [now m| |]; cbn; try exact I. destruct Ho as [Hm Hu]. split; [exact Hu|].
      eapply less_trans_on_incl; [|exact T]. intros x [<-|Hx]; [exact Hm|apply Hin; exact Hx].
    - apply IH. intros x Hx. destruct (rstep_by_seqs_incl _ _ _ _ _ _ Hx) as [H1|(now & m & -> & ->)]; [apply Hin; exact H1|].
      destruct Ho as [Hm _]. exact Hm.
  Qed.

  (* the generated PushMessage / Maintain calls followed by Close deliver the model's groups *)
  Theorem groups_from_source : forall S maxsz timeout ops,
    less_trans_on S -> ops_in S ops ->
    exists c1 c2,
      run_ops msg mseq mtype ops (cinit msg (Z.of_nat maxsz) timeout) = Some c1 /\
      close msg mseq mtype gen_reassembler 0 c1 = Some (c2, [VNil]) /\
      groups_out msg (c_out c2) = groups_of_by msg mseq mtype seq_less maxsz timeout ops.
  Proof.
    intros S maxsz timeout ops T H. apply groups_by_from_source.
    apply (ops_ok_global S); [exact T|exact H|]. intros x [].
  Qed.

  (* inside a window these are the groups of the plain-order model, the ones Props/C15.v's grouping theorems describe *)
  Lemma rrun_by_is_rrun_in_window S maxsz timeout ops : in_window S -> ops_in S ops ->
    forall st, (forall x, In x (map e_seq (r_evs st)) -> In x S) ->
    rrun_by msg mseq mtype seq_less maxsz timeout st ops = rrun msg mseq mtype maxsz timeout st ops.
  Proof.
    intros W H. induction H as [|o r Ho _ IH]; intros st Hin; [reflexivity|].
    cbn [rrun_by rrun].
    assert (E : rstep_by msg mseq mtype seq_less maxsz timeout st o = rstep msg mseq mtype maxsz timeout st o).
    { apply rstep_by_is_rstep_in_window. intros now m ->. destruct Ho as [Hm _].
      intros a b Ha Hb. apply W; [destruct Ha as [<-|Ha]; [exact Hm|apply Hin; exact Ha]|
                                  destruct Hb as [<-|Hb]; [exact Hm|apply Hin; exact Hb]]. }
    assert (Hin' : forall x, In x (map e_seq (r_evs (fst (fst (rstep_by msg mseq mtype seq_less maxsz timeout st o))))) -> In x S).
    { intros x Hx. destruct (rstep_by_seqs_incl _ _ _ _ _ _ Hx) as [H1|(now & m & -> & ->)]; [apply Hin; exact H1|].
      destruct Ho as [Hm _]. exact Hm. }
    specialize (IH _ Hin'). rewrite E in *.
    destruct (rstep msg mseq mtype maxsz timeout st o) as [[st1 ev1] l1]. cbn [fst snd] in IH. rewrite IH. reflexivity.
  Qed.

  Theorem groups_from_source_in_window : forall S maxsz timeout ops,
    in_window S -> ops_in S ops ->
    exists c1 c2,
      run_ops msg mseq mtype ops (cinit msg (Z.of_nat maxsz) timeout) = Some c1 /\
      close msg mseq mtype gen_reassembler 0 c1 = Some (c2, [VNil]) /\
      groups_out msg (c_out c2) = groups_of msg mseq mtype maxsz timeout ops.
  Proof.
    intros S maxsz timeout ops W H.
    destruct (groups_from_source S maxsz timeout ops (less_trans_in_window S W) H) as (c1 & c2 & A & B & G).
    exists c1, c2. split; [exact A|]. split; [exact B|]. rewrite G.
    unfold groups_of_by, groups_of. rewrite (rrun_by_is_rrun_in_window S) by (try assumption; intros x []). reflexivity.
  Qed.
End Histories.

(* ---- what happens at a roll-over ----------------------------------------------------------------------------------------
   NEW with respect to the plain-order model: records numbered 2^32-2, 2^32-1, 0, 1, arriving in that order and
   all in flight, are kept and delivered in THAT order (Less treats 0 as greater than 2^32-1), whereas the
   plain order would deliver 0 and 1 first.  Stated for the order-generic model and, through
   [groups_by_from_source], for the generated program. *)
Section Rollover.
  Variable msg : Type.
  Variable mseq : msg -> N.
  Variable mtype : msg -> nat.
  Variables m1 m2 m3 m4 : msg.
  Hypothesis q1 : mseq m1 = 4294967294%N.
  Hypothesis q2 : mseq m2 = 4294967295%N.
  Hypothesis q3 : mseq m3 = 0%N.
  Hypothesis q4 : mseq m4 = 1%N.
  (* ordinary records: neither EOE nor a type that completes the event *)
  Hypothesis ordinary : forall m, In m [m1; m2; m3; m4] -> is_eoe (mtype m) = false /\ completes (mtype m) = false.
  Variables maxsz timeout t1 t2 t3 t4 : nat.
  Hypothesis room : 4 <= maxsz.
  Hypothesis no_expiry : t4 <= t1 + timeout /\ t3 <= t1 + timeout /\ t2 <= t1 + timeout /\ t4 <= t2 + timeout /\ t3 <= t2 + timeout /\ t4 <= t3 + timeout.

  Definition rollover_ops : list (rop msg) := [RPush t1 m1; RPush t2 m2; RPush t3 m3; RPush t4 m4].

  Lemma cleanup_head_kept now (e : rev msg) r :
    e_done e = false -> length (e :: r) <= maxsz -> now <= e_exp e ->
    cleanup msg maxsz now (e :: r) = ([], e :: r).
  Proof.
    intros H1 H2 H3. cbn [cleanup]. unfold evictable. rewrite H1.
    replace (Nat.ltb maxsz (length (e :: r))) with false by (symmetry; apply Nat.ltb_ge; exact H2).
    replace (Nat.ltb (e_exp e) now) with false by (symmetry; apply Nat.ltb_ge; exact H3). reflexivity.
  Qed.

  Lemma rollover_model :
    groups_of_by msg mseq mtype seq_less maxsz timeout rollover_ops = [[m1]; [m2]; [m3]; [m4]].
  Proof.
    destruct (ordinary m1) as [e1 c1]; [simpl; tauto|]. destruct (ordinary m2) as [e2 c2]; [simpl; tauto|].
    destruct (ordinary m3) as [e3 c3]; [simpl; tauto|]. destruct (ordinary m4) as [e4 c4]; [simpl; tauto|].
    destruct no_expiry as (n41 & n31 & n21 & n42 & n32 & n43).
    unfold groups_of_by, rollover_ops. cbn [rrun_by rstep_by]. unfold put_by. rewrite e1, e2, e3, e4.
    cbn [put_ev_by rinit r_evs].
    rewrite cleanup_head_kept by (cbn; solve [exact c1 | lia]). cbn [fst snd app].
    cbn [put_ev_by ev_new e_seq]. rewrite q1, q2.
    change (4294967295 =? 4294967294)%N with false. change (seq_less 4294967295 4294967294) with false. cbn iota.
    rewrite cleanup_head_kept by (cbn; solve [exact c1 | lia]). cbn [fst snd app].
    cbn [put_ev_by ev_new e_seq]. rewrite q1, q2, q3.
    change (0 =? 4294967294)%N with false. change (seq_less 0 4294967294) with false.
    change (0 =? 4294967295)%N with false. change (seq_less 0 4294967295) with false. cbn iota.
    rewrite cleanup_head_kept by (cbn; solve [exact c1 | lia]). cbn [fst snd app].
    cbn [put_ev_by ev_new e_seq]. rewrite q1, q2, q3, q4.
    change (1 =? 4294967294)%N with false. change (seq_less 1 4294967294) with false.
    change (1 =? 4294967295)%N with false. change (seq_less 1 4294967295) with false.
    change (1 =? 0)%N with false. change (seq_less 1 0) with false. cbn iota.
    rewrite cleanup_head_kept by (cbn; solve [exact c1 | lia]). cbn [fst snd app].
    reflexivity.
  Qed.

  (* the plain order would deliver the records numbered 0 and 1 first: the plain-order model does not cover a roll-over *)
  Lemma rollover_plain_model_differs :
    groups_of msg mseq mtype maxsz timeout rollover_ops = [[m3]; [m4]; [m1]; [m2]].
  Proof.
    destruct (ordinary m1) as [e1 c1]; [simpl; tauto|]. destruct (ordinary m2) as [e2 c2]; [simpl; tauto|].
    destruct (ordinary m3) as [e3 c3]; [simpl; tauto|]. destruct (ordinary m4) as [e4 c4]; [simpl; tauto|].
    destruct no_expiry as (n41 & n31 & n21 & n42 & n32 & n43).
    unfold groups_of, rollover_ops. cbn [rrun rstep]. unfold put. rewrite e1, e2, e3, e4.
    cbn [put_ev rinit r_evs].
    rewrite cleanup_head_kept by (cbn; solve [exact c1 | lia]). cbn [fst snd app].
    cbn [put_ev ev_new e_seq]. rewrite q1, q2.
    change (4294967295 =? 4294967294)%N with false. change (4294967295 <? 4294967294)%N with false. cbn iota.
    rewrite cleanup_head_kept by (cbn; solve [exact c1 | lia]). cbn [fst snd app].
    cbn [put_ev ev_new e_seq]. rewrite q1, q3.
    change (0 =? 4294967294)%N with false. change (0 <? 4294967294)%N with true. cbn iota.
    rewrite cleanup_head_kept by (cbn; solve [exact c3 | lia]). cbn [fst snd app].
    cbn [put_ev ev_new e_seq]. rewrite q1, q3, q4.
    change (1 =? 0)%N with false. change (1 <? 0)%N with false.
    change (1 =? 4294967294)%N with false. change (1 <? 4294967294)%N with true. cbn iota.
    rewrite cleanup_head_kept by (cbn; solve [exact c3 | lia]). cbn [fst snd app].
    reflexivity.
  Qed.

  Lemma rollover_numbers_two_clusters : two_clusters [4294967294; 4294967295; 0; 1]%N.
  Proof.
    exists 2147483648%N. repeat split; intros a b Ha Hb; simpl in Ha, Hb;
      destruct Ha as [<-|[<-|[<-|[<-|[]]]]]; destruct Hb as [<-|[<-|[<-|[<-|[]]]]]; intros; try lia;
      vm_compute; try discriminate; reflexivity.
  Qed.

  (* the GENERATED program: the four PushMessage calls followed by Close hand ReassemblyComplete the four records in
     arrival order *)
  Theorem rollover_from_source :
    exists c1 c2,
      run_ops msg mseq mtype rollover_ops (cinit msg (Z.of_nat maxsz) timeout) = Some c1 /\
      close msg mseq mtype gen_reassembler 0 c1 = Some (c2, [VNil]) /\
      groups_out msg (c_out c2) = [[m1]; [m2]; [m3]; [m4]].
  Proof.
    rewrite <- rollover_model.
    apply (groups_from_source msg mseq mtype [4294967294; 4294967295; 0; 1]%N).
    - apply less_trans_two_clusters. exact rollover_numbers_two_clusters.
    - unfold rollover_ops, ops_in. rewrite q1, q2, q3, q4 || idtac.
      repeat constructor; cbn; rewrite ?q1, ?q2, ?q3, ?q4; try tauto; reflexivity.
  Qed.
End Rollover.
