(* Accepted publickey (plain key and certificate): loginRE and certIDRE.

   The marker count does not work here: the Alg class [\w -] contains the space, so the spaces
   of the text are not all consumed by literals.  Instead: "the separator literal does not occur
   again later in the text" ([nowhere]).  The price is a restricted domain, stated explicitly;
   the results are therefore named _partial. *)
From Coq Require Import Ascii String List Bool Arith ZArith NArith Lia.
Import ListNotations.
From AM Require Import Lib.Bytes Lib.Regex Proofs.RegexLemmas Gen.SshdRegexes Gen.SshdDispatch
  Model.SshdProc Proofs.SshdFields Proofs.SshdForms Proofs.SshdFields2 Proofs.SshdForms2.
Open Scope string_scope.
Open Scope list_scope.

(* ---------- the literal L is not a prefix of any suffix of t ---------- *)

Fixpoint nowhere (L t : str) : bool :=
  negb (has_prefix L t) && match t with [] => true | _ :: t' => nowhere L t' end.

Lemma nowhere_skipn L : forall t, nowhere L t = true -> forall j, has_prefix L (skipn j t) = false.
Proof.
  induction t as [|x t IH]; intros H j; cbn [nowhere] in H; apply andb_true_iff in H; destruct H as [H1 H2];
    apply negb_true_iff in H1.
  - destruct j; exact H1.
  - destruct j as [|j]; cbn [skipn]; [exact H1|]. apply IH. exact H2.
Qed.

(* B4: the rest of the pattern starts with a literal that does not occur later in the text *)
Lemma no_later_nowhere L r k c t' :
  nowhere L t' = true ->
  forall j, 0 < j -> j <= run_len k (c :: t') -> fails (map ILit L ++ r) (skipn j (c :: t')).
Proof.
  intros H j Hj _ p ops cs. destruct j as [|j]; [lia|]. cbn [skipn]. apply m_lits_mismatch.
  pose proof (nowhere_skipn L t' H j) as X. unfold has_prefix in X.
  destruct (strip_prefix L (skipn j t')); [discriminate|reflexivity].
Qed.

Lemma no_later_nowhere_s (L : string) r k c t' :
  nowhere (s2l L) t' = true ->
  forall j, 0 < j -> j <= run_len k (c :: t') -> fails (lits L ++ r) (skipn j (c :: t')).
Proof. apply no_later_nowhere. Qed.

Lemma eqb_sp_false a : negb (Ascii.eqb a sp) = true -> Ascii.eqb sp a = false.
Proof. intros H. apply negb_true_iff in H. destruct (Ascii.eqb_spec sp a) as [<-|]; [|reflexivity].
  rewrite Ascii.eqb_refl in H. discriminate. Qed.

(* a chunk without spaces cannot contain the start of a literal that begins with a space *)
Lemma nowhere_field L' v t : lacks sp v -> nowhere (sp :: L') (v ++ t) = nowhere (sp :: L') t.
Proof.
  induction v as [|a v IH]; intros H; [reflexivity|].
  cbn in H. apply andb_true_iff in H. destruct H as [H1 H2]. cbn [app nowhere].
  unfold has_prefix at 1. cbn [strip_prefix]. rewrite (eqb_sp_false a H1). cbn. apply IH. exact H2.
Qed.

Lemma nowhere_field_end L' v : lacks sp v -> nowhere (sp :: L') v = true.
Proof. intros H. rewrite <- (app_nil_r v), nowhere_field by exact H. reflexivity. Qed.

Lemma nowhere_sp L' t : nowhere (sp :: L') (sp :: t) = negb (has_prefix L' t) && nowhere (sp :: L') t.
Proof. reflexivity. Qed.

(* the word after a space starts with a byte of class K; the literal continues with a byte outside K *)
Lemma hp_first_cls K a L'' w t :
  w <> [] -> forallb (in_cls K) w = true -> in_cls K a = false -> has_prefix (a :: L'') (w ++ t) = false.
Proof.
  destruct w as [|x w]; [congruence|]. intros _ H Ha. cbn in H. apply andb_true_iff in H. destruct H as [H _].
  unfold has_prefix. cbn [app strip_prefix]. destruct (Ascii.eqb_spec a x) as [->|]; [congruence|reflexivity].
Qed.

(* the word after a space is not the word W of the literal " W " *)
Lemma hp_word W : forall v t, lacks sp W -> lacks sp v -> v <> W -> has_prefix (W ++ [sp]) (v ++ sp :: t) = false.
Proof.
  induction W as [|a W IH]; intros v t HW Hv Hne.
  - destruct v as [|x v]; [congruence|]. cbn in Hv. apply andb_true_iff in Hv. destruct Hv as [Hx _].
    unfold has_prefix. cbn [app strip_prefix]. rewrite (eqb_sp_false x Hx). reflexivity.
  - cbn in HW. apply andb_true_iff in HW. destruct HW as [Ha HW].
    destruct v as [|x v].
    + unfold has_prefix. cbn [app strip_prefix]. apply negb_true_iff in Ha. rewrite Ha. reflexivity.
    + cbn in Hv. apply andb_true_iff in Hv. destruct Hv as [_ Hv].
      unfold has_prefix. cbn [app strip_prefix]. destruct (Ascii.eqb_spec a x) as [->|]; [|reflexivity].
      apply (IH v t HW Hv). congruence.
Qed.

(* the word after a space does not start with the space-free literal W *)
Lemma hp_start W v t : has_prefix W v = false -> lacks sp W -> lacks sp v -> has_prefix W (v ++ sp :: t) = false.
Proof.
  revert v. induction W as [|a W IH]; intros v H HW Hv.
  - discriminate.
  - cbn in HW. apply andb_true_iff in HW. destruct HW as [Ha HW].
    destruct v as [|x v].
    + unfold has_prefix. cbn [app strip_prefix]. apply negb_true_iff in Ha. rewrite Ha. reflexivity.
    + cbn in Hv. apply andb_true_iff in Hv. destruct Hv as [_ Hv].
      unfold has_prefix in *. cbn [app strip_prefix] in *. destruct (Ascii.eqb a x); [|reflexivity].
      apply IH; assumption.
Qed.

(* ---------- domains ---------- *)

(* what sshkey_type() and ssh_digest_alg_name() print: non-empty [A-Z0-9-] ("ED25519-CERT", "SHA256") *)
Definition cls_upper : cls := [(45, 45); (48, 57); (65, 90)]%N.
Definition upper_word (v : str) : Prop := v <> [] /\ forallb (in_cls cls_upper) v = true.

Lemma no_space_lacks_sp v : no_space v -> lacks sp v.
Proof. apply forallb_imp. apply nonspace_not_sp. Qed.

Lemma digits_lacks_sp v : digits v -> lacks sp v.
Proof. intros [_ H]. revert H. apply forallb_imp. apply digit_not_sp. Qed.

Lemma upper_not_sp c : in_cls cls_upper c = true -> negb (Ascii.eqb c sp) = true.
Proof. apply implb_true. revert c. apply for_all_ascii. vm_compute. reflexivity. Qed.

Lemma upper_imp_alg c : in_cls cls_upper c = true -> in_cls cls_alg c = true.
Proof. apply implb_true. revert c. apply for_all_ascii. vm_compute. reflexivity. Qed.

Lemma upper_imp_dot c : in_cls cls_upper c = true -> in_cls cls_dot c = true.
Proof. apply implb_true. revert c. apply for_all_ascii. vm_compute. reflexivity. Qed.

Lemma upper_lacks_sp v : upper_word v -> lacks sp v.
Proof. intros [_ H]. revert H. apply forallb_imp. apply upper_not_sp. Qed.

Lemma upper_alg v : upper_word v -> forallb (in_cls cls_alg) v = true.
Proof. intros [_ H]. revert H. apply forallb_imp. apply upper_imp_alg. Qed.

Lemma forallb_app_true {A} (P : A -> bool) a b : forallb P a = true -> forallb P b = true -> forallb P (a ++ b) = true.
Proof. intros H1 H2. rewrite forallb_app, H1, H2. reflexivity. Qed.

(* ---------- proving [nowhere (sp :: L') text] chunk by chunk ---------- *)

Ltac lacks_side := first [ assumption | reflexivity ].

Ltac hp_side :=
  first
  [ reflexivity
  | match goal with Hd : digits ?w |- has_prefix _ (?w ++ _) = false =>
      apply (hp_first_cls cls_digit); [apply Hd|apply Hd|reflexivity] end
  | match goal with Hu : upper_word ?w |- has_prefix _ (?w ++ _) = false =>
      apply (hp_first_cls cls_upper); [apply Hu|apply Hu|reflexivity] end
  | match goal with Hne : ?w <> s2l ?W, Hl : lacks sp ?w |- has_prefix _ (?w ++ sp :: ?t) = false =>
      exact (hp_word (s2l W) w t eq_refl Hl Hne) end
  | match goal with Hp : has_prefix (s2l ?W) ?w = false, Hl : lacks sp ?w |- has_prefix _ (?w ++ sp :: ?t) = false =>
      exact (hp_start (s2l W) w t Hp eq_refl Hl) end ].

Ltac nw :=
  repeat first
  [ rewrite nowhere_field by lacks_side
  | rewrite nowhere_sp; apply andb_true_intro; split; [apply negb_true_iff; hp_side|]
  | apply nowhere_field_end; lacks_side
  | assumption
  | reflexivity ].

(* ================================================================================== *)
(* Accepted publickey for U from S port P ssh2: KT HASH:KS [z]                         *)
(* ================================================================================== *)

Definition key_core (u s p kt h ks : str) : str :=
  s2l "Accepted publickey for " ++ u ++ s2l " from " ++ s ++ s2l " port " ++ p ++ s2l " ssh2: " ++
  kt ++ s2l " " ++ h ++ s2l ":" ++ ks.

Lemma key_core_app u s p kt h ks z :
  key_core u s p kt h ks ++ z =
  s2l "Accepted publickey for " ++ u ++ s2l " from " ++ s ++ s2l " port " ++ p ++ s2l " ssh2: " ++
  kt ++ s2l " " ++ h ++ s2l ":" ++ ks ++ z.
Proof. unfold key_core. rewrite <- !app_assoc. reflexivity. Qed.

Ltac eval_lengths :=
  repeat match goal with
  | |- context [length (s2l ?l)] =>
      let x := eval vm_compute in (length (s2l l)) in change (length (s2l l)) with x
  end.

(* z: what follows the key fingerprint — nothing, or a space and more words in none of which one
   of the separators " from ", " port ", " ssh" starts *)
Lemma find_login_gen u s p kt h ks z :
  no_nl u -> no_space s -> s <> s2l "from" -> digits p ->
  upper_word kt -> upper_word h -> ks <> [] -> no_space ks ->
  run_len cls_nonspace z = 0 ->
  nowhere (s2l " from ") z = true -> nowhere (s2l " port ") z = true -> nowhere (s2l " ssh") z = true ->
  find loginRE (key_core u s p kt h ks ++ z) =
  Some {| m_start := 0; m_end := length (key_core u s p kt h ks);
          m_caps := [(5, ks); (4, kt ++ s2l " " ++ h); (3, p); (2, s); (1, u)] |}.
Proof.
  intros Hu Hs Hsne Hp Hkt Hh Hks0 Hks Hz Zf Zp Zs.
  pose proof (no_space_lacks_sp s Hs) as Ls. pose proof (digits_lacks_sp p Hp) as Lp.
  pose proof (upper_lacks_sp kt Hkt) as Lkt. pose proof (upper_lacks_sp h Hh) as Lh.
  pose proof (no_space_lacks_sp ks Hks) as Lks.
  cut (exists e, find loginRE (key_core u s p kt h ks ++ z) =
         Some {| m_start := 0; m_end := e; m_caps := [(5, ks); (4, kt ++ s2l " " ++ h); (3, p); (2, s); (1, u)] |}
         /\ e = length (key_core u s p kt h ks)).
  { intros (e & He & ->). exact He. }
  eexists. split.
  - rewrite key_core_app. unfold loginRE. apply find_at_zero. step_lits.
    apply group_star; [apply no_nl_dot; exact Hu| |].
    + step_lits. apply group_star; [apply no_space_dot; exact Hs| |].
      * step_lits. apply group_star; [apply digits_dot; exact Hp| |].
        -- change (s2l " ssh2: " ++ kt ++ s2l " " ++ h ++ s2l ":" ++ ks ++ z)
             with (s2l " ssh" ++ (s2l "2" ++ (s2l ": " ++ kt ++ s2l " " ++ h ++ s2l ":" ++ ks ++ z))).
           step_lits. apply plus_nogroup; [discriminate|reflexivity| |].
           ++ step_lits.
              replace (kt ++ s2l " " ++ h ++ s2l ":" ++ ks ++ z) with ((kt ++ s2l " " ++ h) ++ s2l ":" ++ ks ++ z)
                by (rewrite <- !app_assoc; reflexivity).
              apply group_plus.
              ** destruct Hkt as [Hk0 _]. destruct kt; [congruence|discriminate].
              ** apply forallb_app_true; [apply upper_alg; exact Hkt|].
                 apply forallb_app_true; [reflexivity|apply upper_alg; exact Hh].
              ** step_lits. apply group_plus; [exact Hks0|exact Hks| |].
                 --- rewrite m_nil. reflexivity.
                 --- apply no_later_run0. exact Hz.
              ** apply no_later_run0. apply run_len_out. reflexivity.
           ++ apply no_later_run0. apply run_len_out. reflexivity.
        -- change (s2l " ssh2: " ++ kt ++ s2l " " ++ h ++ s2l ":" ++ ks ++ z)
             with (sp :: (s2l "ssh2:" ++ sp :: kt ++ sp :: h ++ s2l ":" ++ ks ++ z)).
           apply (no_later_nowhere_s " ssh").
           change (s2l " ssh") with (sp :: s2l "ssh") in *. nw.
      * change (s2l " port " ++ p ++ s2l " ssh2: " ++ kt ++ s2l " " ++ h ++ s2l ":" ++ ks ++ z)
          with (sp :: (s2l "port" ++ sp :: p ++ sp :: s2l "ssh2:" ++ sp :: kt ++ sp :: h ++ s2l ":" ++ ks ++ z)).
        apply (no_later_nowhere_s " port ").
        change (s2l " port ") with (sp :: s2l "port ") in *. nw.
    + change (s2l " from " ++ s ++ s2l " port " ++ p ++ s2l " ssh2: " ++ kt ++ s2l " " ++ h ++ s2l ":" ++ ks ++ z)
        with (sp :: (s2l "from" ++ sp :: s ++ sp :: s2l "port" ++ sp :: p ++ sp :: s2l "ssh2:" ++ sp :: kt ++ sp :: h ++ s2l ":" ++ ks ++ z)).
      apply (no_later_nowhere_s " from ").
      change (s2l " from ") with (sp :: s2l "from ") in *. nw.
  - unfold key_core. rewrite !app_length. eval_lengths. lia.
Qed.

(* ---------- plain key:  ... ssh2: KT HASH:KS  (nothing follows) ---------- *)

Definition fmt_accepted_key (u s p kt h ks : str) : str := key_core u s p kt h ks.

Lemma find_accepted_key u s p kt h ks :
  no_nl u -> no_space s -> s <> s2l "from" -> digits p ->
  upper_word kt -> upper_word h -> ks <> [] -> no_space ks ->
  find loginRE (fmt_accepted_key u s p kt h ks) =
  Some {| m_start := 0; m_end := length (fmt_accepted_key u s p kt h ks);
          m_caps := [(5, ks); (4, kt ++ s2l " " ++ h); (3, p); (2, s); (1, u)] |}.
Proof.
  intros Hu Hs Hsne Hp Hkt Hh Hks0 Hks.
  pose proof (find_login_gen u s p kt h ks [] Hu Hs Hsne Hp Hkt Hh Hks0 Hks eq_refl eq_refl eq_refl eq_refl) as H.
  rewrite app_nil_r in H. exact H.
Qed.

(* ---------- certificate:  ... KS ID KID (serial N) CA KT2 HASH2:KS2 ---------- *)

(* what certIDRE's CA group captures: the regex has no literal "CA", so the group starts there *)
Definition ca_text (kt2 h2 ks2 : str) : str := s2l "CA " ++ kt2 ++ s2l " " ++ h2 ++ s2l ":" ++ ks2.

Definition cert_tail (kid n kt2 h2 ks2 : str) : str :=
  s2l "ID " ++ kid ++ s2l " (serial " ++ n ++ s2l ")" ++ s2l " " ++ ca_text kt2 h2 ks2.

(* kid: ANY text without newline, as far as certIDRE alone is concerned *)
Lemma find_cert_id kid n kt2 h2 ks2 :
  no_nl kid -> digits n -> upper_word kt2 -> upper_word h2 -> no_space ks2 ->
  exists e, find certIDRE (cert_tail kid n kt2 h2 ks2) =
            Some {| m_start := 0; m_end := e; m_caps := [(3, ca_text kt2 h2 ks2); (2, n); (1, kid)] |}.
Proof.
  intros Hk Hn Hkt Hh Hks.
  pose proof (digits_lacks_sp n Hn) as Ln.
  pose proof (upper_lacks_sp kt2 Hkt) as Lkt. pose proof (upper_lacks_sp h2 Hh) as Lh.
  pose proof (no_space_lacks_sp ks2 Hks) as Lks.
  eexists. unfold certIDRE, cert_tail. apply find_at_zero. step_lits.
  apply group_star; [apply no_nl_dot; exact Hk| |].
  - step_lits. apply group_plus; [apply Hn|apply Hn| |].
    + step_lits. apply plus_nogroup; [discriminate|reflexivity| |].
      * apply group_plus_end.
        -- discriminate.
        -- unfold ca_text. apply forallb_app_true; [reflexivity|].
           apply forallb_app_true; [destruct Hkt as [_ H]; revert H; apply forallb_imp, upper_imp_dot|].
           apply forallb_app_true; [reflexivity|].
           apply forallb_app_true; [destruct Hh as [_ H]; revert H; apply forallb_imp, upper_imp_dot|].
           apply forallb_app_true; [reflexivity|apply no_space_dot; exact Hks].
        -- rewrite m_nil. reflexivity.
      * apply no_later_run0. apply run_len_out. reflexivity.
    + apply no_later_run0. apply run_len_out. reflexivity.
  - unfold ca_text.
    change (s2l " (serial " ++ n ++ s2l ")" ++ s2l " " ++ s2l "CA " ++ kt2 ++ s2l " " ++ h2 ++ s2l ":" ++ ks2)
      with (sp :: (s2l "(serial" ++ sp :: n ++ s2l ")" ++ sp :: s2l "CA" ++ sp :: kt2 ++ sp :: h2 ++ s2l ":" ++ ks2)).
    apply (no_later_nowhere_s " (serial ").
    change (s2l " (serial ") with (sp :: s2l "(serial "). nw.
Qed.

Definition fmt_accepted_cert (u s p kt h ks kid n kt2 h2 ks2 : str) : str :=
  key_core u s p kt h ks ++ sp :: cert_tail kid n kt2 h2 ks2.

(* key id: one word that is none of the separators' words *)
Definition plain_keyid (kid : str) : Prop :=
  no_space kid /\ kid <> s2l "from" /\ kid <> s2l "port" /\ has_prefix (s2l "ssh") kid = false.

Lemma find_accepted_cert u s p kt h ks kid n kt2 h2 ks2 :
  no_nl u -> no_space s -> s <> s2l "from" -> digits p ->
  upper_word kt -> upper_word h -> ks <> [] -> no_space ks ->
  plain_keyid kid -> digits n -> upper_word kt2 -> upper_word h2 -> no_space ks2 ->
  find loginRE (fmt_accepted_cert u s p kt h ks kid n kt2 h2 ks2) =
  Some {| m_start := 0; m_end := length (key_core u s p kt h ks);
          m_caps := [(5, ks); (4, kt ++ s2l " " ++ h); (3, p); (2, s); (1, u)] |}.
Proof.
  intros Hu Hs Hsne Hp Hkt Hh Hks0 Hks (Hkid & Kf & Kp & Ks) Hn Hkt2 Hh2 Hks2.
  pose proof (no_space_lacks_sp kid Hkid) as Lkid. pose proof (digits_lacks_sp n Hn) as Ln.
  pose proof (upper_lacks_sp kt2 Hkt2) as Lkt2. pose proof (upper_lacks_sp h2 Hh2) as Lh2.
  pose proof (no_space_lacks_sp ks2 Hks2) as Lks2.
  unfold fmt_accepted_cert.
  assert (E : cert_tail kid n kt2 h2 ks2 =
              s2l "ID" ++ sp :: kid ++ sp :: s2l "(serial" ++ sp :: n ++ s2l ")" ++ sp :: s2l "CA" ++ sp :: kt2 ++ sp :: h2 ++ s2l ":" ++ ks2)
    by reflexivity.
  rewrite E.
  apply find_login_gen; try assumption.
  - reflexivity.
  - change (s2l " from ") with (sp :: s2l "from "). nw.
  - change (s2l " port ") with (sp :: s2l "port "). nw.
  - change (s2l " ssh") with (sp :: s2l "ssh"). nw.
Qed.

(* ================================================================================== *)
(* process level                                                                      *)
(* ================================================================================== *)

(* the key algorithm recorded is "<key type> <hash algorithm>", the key sum is the bare digest *)
Definition ev_accepted_key (c : cfg) (tok u s p alg ks : str) : event :=
  {| ev_ok := true; ev_src := s; ev_port := Some p; ev_dns := None; ev_logged_as := u;
     ev_user_id := s2l "unknown"; ev_pid := tok; ev_file_path := None; ev_key_type := None;
     ev_fingerprint := None; ev_shell := None; ev_data := [("Alg", alg); ("SSHKeySum", ks)];
     ev_host := c_node c; ev_mid := c_mid c |}.

Definition ev_accepted_cert (c : cfg) (tok u s p alg ks kid serial ca : str) : event :=
  {| ev_ok := true; ev_src := s; ev_port := Some p; ev_dns := None; ev_logged_as := u;
     ev_user_id := kid; ev_pid := tok; ev_file_path := None; ev_key_type := None;
     ev_fingerprint := None; ev_shell := None;
     ev_data := [("Alg", alg); ("CA", ca); ("SSHKeySum", ks); ("Serial", serial)];
     ev_host := c_node c; ev_mid := c_mid c |}.

Definition accepted_result (wok ready : bool) (label : string) (pid : Z) (cred : str) (e : event) : result :=
  {| r_writes := [e];
     r_forwards := if wok then (if ready then [{| f_pid := pid; f_cred := cred; f_src := e |}] else []) else [];
     r_metrics := [(label, "Success")];
     r_ret := if wok then RetOk else RetWriteErr |}.

Theorem process_accepted_key_partial c tok pid u s p kt h ks wok ready :
  atoi tok = Some pid ->
  no_nl u -> no_space s -> s <> s2l "from" -> digits p ->
  upper_word kt -> upper_word h -> ks <> [] -> no_space ks ->
  process c tok (fmt_accepted_key u s p kt h ks) wok ready =
  accepted_result wok ready "SSHKeyLogin" pid (s2l "unknown")
    (ev_accepted_key c tok u s p (kt ++ s2l " " ++ h) ks).
Proof.
  intros Hpid Hu Hs Hsne Hp Hkt Hh Hks0 Hks.
  pose proof (find_accepted_key u s p kt h ks Hu Hs Hsne Hp Hkt Hh Hks0 Hks) as Hf.
  unfold process, dispatch. cbn [dispatch_on guard_holds].
  decide_prefixes.
  cbn [add_metrics run_handler]. unfold h_accept_publickey. rewrite Hf, Hpid. cbv zeta.
  cbn [m_end m_start]. rewrite Nat.sub_0_r, Nat.eqb_refl.
  unfold write_forward, accepted_result. destruct wok; reflexivity.
Qed.

Lemma len_eqb_false {A} (a : list A) x b : Nat.eqb (length (a ++ x :: b)) (length a) = false.
Proof. apply Nat.eqb_neq. rewrite app_length. cbn. lia. Qed.

Lemma len_ltb_false {A} (a : list A) x b : Nat.ltb (length (a ++ x :: b)) (length a + 1) = false.
Proof. apply Nat.ltb_ge. rewrite app_length. cbn. lia. Qed.

Lemma skipn_len_1 {A} (a : list A) x b : skipn (length a + 1) (a ++ x :: b) = b.
Proof. rewrite skipn_app_len. reflexivity. Qed.

Theorem process_accepted_cert_partial c tok pid u s p kt h ks kid n kt2 h2 ks2 wok ready :
  atoi tok = Some pid ->
  no_nl u -> no_space s -> s <> s2l "from" -> digits p ->
  upper_word kt -> upper_word h -> ks <> [] -> no_space ks ->
  plain_keyid kid -> digits n -> upper_word kt2 -> upper_word h2 -> no_space ks2 ->
  process c tok (fmt_accepted_cert u s p kt h ks kid n kt2 h2 ks2) wok ready =
  accepted_result wok ready "SSHCertLogin" pid kid
    (ev_accepted_cert c tok u s p (kt ++ s2l " " ++ h) ks kid n (ca_text kt2 h2 ks2)).
Proof.
  intros Hpid Hu Hs Hsne Hp Hkt Hh Hks0 Hks Hkid Hn Hkt2 Hh2 Hks2.
  pose proof (find_accepted_cert u s p kt h ks kid n kt2 h2 ks2 Hu Hs Hsne Hp Hkt Hh Hks0 Hks Hkid Hn Hkt2 Hh2 Hks2) as Hf.
  destruct Hkid as (Hkid & _).
  destruct (find_cert_id kid n kt2 h2 ks2 (no_space_no_nl kid Hkid) Hn Hkt2 Hh2 Hks2) as [e He].
  unfold process, dispatch. cbn [dispatch_on guard_holds].
  decide_prefixes.
  cbn [add_metrics run_handler]. unfold h_accept_publickey. rewrite Hf, Hpid. cbv zeta.
  cbn [m_end m_start]. rewrite Nat.sub_0_r. unfold fmt_accepted_cert.
  rewrite len_eqb_false, len_ltb_false, skipn_len_1, He.
  unfold write_forward, accepted_result. destruct wok; reflexivity.
Qed.
