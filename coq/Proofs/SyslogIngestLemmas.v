From Coq Require Import Ascii String List Bool.
Import ListNotations.
From AM Require Import Lib.Bytes Model.Syslog Proofs.SyslogLemmas Model.SshdProc Model.SyslogIngest.
Open Scope list_scope.

Theorem framed_as_direct c tok n msg wok ready :
  ~ In sp tok -> hd_error msg <> Some sp ->
  via_ingester c (tok ++ sp :: repeat sp n ++ msg ++ [nl]) wok ready = process c tok msg wok ready.
Proof. intros Ht Hm. unfold via_ingester. rewrite (parse_framed tok n msg Ht Hm). reflexivity. Qed.

(* a line without any space is not of the form "<pid> <message>": the processor sees the empty entry *)
Theorem no_space_empty_entry c line wok ready :
  ~ In sp (trim_nl line) -> via_ingester c line wok ready = process c [] [] wok ready.
Proof. intros H. unfold via_ingester, process_line. rewrite (parse_few _ H). reflexivity. Qed.
