From Coq Require Import List Bool Arith ZArith NArith Lia.
Import ListNotations.
From AM Require Import Lib.Assoc Model.Tracker Model.TrackerConc Proofs.TrackerBasics.

Local Notation NS := N.eqb_spec.
Local Notation ZS := Z.eqb_spec.

(* ---------- the blocks of a call, run without interruption, are the sequential step ---------- *)

Lemma ahas_aget_N s (m : list (N * user)) : ahas N.eqb s m = true -> exists u, aget N.eqb s m = Some u.
Proof. unfold ahas. destruct (aget N.eqb s m) as [u|]; [eauto|discriminate]. Qed.

Lemma finish_prog o st : finish (prog_of o) st = tstep st o.
Proof.
  destruct o as [l c|ev now|t|t]; cbn [prog_of tstep].
  - unfold login_prog, remote_login. destruct (negb (validate l)) eqn:Ev; [reflexivity|].
    cbn [finish]. destruct (pick c (candidates (l_pid l) (sess st))) as [[s u]|] eqn:Ep.
    + destruct (write_all (wb st) l (u_cached u)) as [[b' out] ok]. destruct ok; cbn [finish]; rewrite app_nil_r; reflexivity.
    + cbn [finish app]. reflexivity.
  - unfold audit_prog, audit_event. destruct (a_ses ev) as [| |s]; try reflexivity.
    cbn [finish]. unfold ahas. destruct (aget N.eqb s (sess st)) as [u|] eqn:Eg.
    + cbn [finish]. rewrite Eg. destruct (audit_with_session st s u ev) as [[st' out] r]. cbn [finish app].
      rewrite app_nil_r. reflexivity.
    + destruct (negb (is_login (a_type ev))) eqn:El.
      { unfold audit_without_session. rewrite El. reflexivity. }
      destruct (a_pid ev) as [p|] eqn:Epid.
      2:{ unfold audit_without_session. rewrite El, Epid. reflexivity. }
      cbn [finish]. unfold ahas. destruct (aget Z.eqb p (parked st)) as [l|] eqn:Egp.
      * cbn [finish]. rewrite Egp. unfold audit_without_session. rewrite El, Epid, Egp.
        destruct (write1 (wb st)) as [b' [|]]; cbn [finish app]; reflexivity.
      * cbn [finish app]. unfold audit_without_session. rewrite El, Epid, Egp. reflexivity.
  - reflexivity.
  - reflexivity.
Qed.

(* ---------- list update helpers ---------- *)

Lemma set_nth_length {A} n (x : A) l : length (set_nth n x l) = length l.
Proof. revert n. induction l as [|y l IH]; intros [|n]; cbn; auto. Qed.

Lemma nth_error_set_nth_same {A} n (x : A) l : n < length l -> nth_error (set_nth n x l) n = Some x.
Proof.
  revert n. induction l as [|y l IH]; intros [|n] H; cbn in *; try lia; [reflexivity|]. apply IH. lia.
Qed.

Lemma nth_error_set_nth_other {A} n m (x : A) l : n <> m -> nth_error (set_nth n x l) m = nth_error l m.
Proof.
  revert n m. induction l as [|y l IH]; intros [|n] [|m] H; cbn; try reflexivity; try congruence.
  apply IH. congruence.
Qed.

Lemma nth_error_lt {A} (l : list A) n x : nth_error l n = Some x -> n < length l.
Proof. intros H. apply nth_error_Some. congruence. Qed.

(* ---------- sequential reference ---------- *)

Lemma seq_run_snoc order i o :
  seq_run (order ++ [(i, o)]) =
  let '(st1, o1) := seq_run order in let '(st2, out, _) := tstep st1 o in (st2, o1 ++ out).
Proof. unfold seq_run. rewrite map_app. cbn [map snd]. apply trun_snoc. Qed.

Lemma calls_of_snoc_same i order o : calls_of i (order ++ [(i, o)]) = calls_of i order ++ [o].
Proof. unfold calls_of. rewrite filter_app, map_app. cbn. rewrite Nat.eqb_refl. reflexivity. Qed.

Lemma calls_of_snoc_other i j order o : i <> j -> calls_of j (order ++ [(i, o)]) = calls_of j order.
Proof.
  intros H. unfold calls_of. rewrite filter_app, map_app. cbn.
  destruct (Nat.eqb_spec i j); [congruence|]. cbn. apply app_nil_r.
Qed.

(* ---------- invariant of executions under the correlator-wide mutex ---------- *)

Definition pending (s : sys) : tstate * list emitted :=
  match s_owner s with
  | None => (s_state s, s_out s)
  | Some i =>
      match nth_error (s_threads s) i with
      | Some th =>
          match t_cur th with
          | Some k => let '(st_f, o_f, _) := finish k (s_state s) in (st_f, s_out s ++ o_f)
          | None => (s_state s, s_out s)
          end
      | None => (s_state s, s_out s)
      end
  end.

Record LInv (progs : list (list top)) (s : sys) : Prop := {
  li_len : length (s_threads s) = length progs;
  li_others : forall j th, nth_error (s_threads s) j = Some th -> s_owner s <> Some j -> t_cur th = None;
  li_owner : forall i, s_owner s = Some i -> exists th k, nth_error (s_threads s) i = Some th /\ t_cur th = Some k;
  li_seq : pending s = seq_run (s_order s);
  li_prog : forall i th, nth_error (s_threads s) i = Some th -> calls_of i (s_order s) ++ t_todo th = nth i progs []
}.

Lemma LInv_init progs : LInv progs (init_sys progs).
Proof.
  constructor; cbn.
  - apply map_length.
  - intros j th H _. rewrite nth_error_map in H. destruct (nth_error progs j); [|discriminate].
    injection H as <-. reflexivity.
  - intros i H. discriminate.
  - reflexivity.
  - intros i th H. rewrite nth_error_map in H. destruct (nth_error progs i) as [p|] eqn:E; [|discriminate].
    injection H as <-. cbn. symmetry. apply nth_error_nth. exact E.
Qed.

Lemma LInv_step progs s i : LInv progs s -> LInv progs (sched_step true s i).
Proof.
  intros HI. pose proof HI as [Hlen Hoth Hown Hseq Hprog]. unfold sched_step.
  destruct (nth_error (s_threads s) i) as [th|] eqn:Eth; [|exact HI].
  pose proof (nth_error_lt _ _ _ Eth) as Hi.
  cbn [andb].
  destruct (s_owner s) as [j|] eqn:Eo.
  - (* somebody owns the correlator *)
    destruct (Nat.eqb_spec i j) as [->|Hne]; cbn [negb]; [|exact HI].
    destruct (Hown j eq_refl) as (th' & k & Eth' & Ek). rewrite Eth in Eth'. injection Eth' as <-.
    rewrite Ek. unfold pending in Hseq. rewrite Eo, Eth, Ek in Hseq.
    destruct k as [r|f].
    + (* return *)
      cbn [finish] in Hseq. rewrite app_nil_r in Hseq.
      constructor; cbn.
      * rewrite set_nth_length. exact Hlen.
      * intros m thm Hm _. destruct (Nat.eq_dec j m) as [->|Hjm].
        -- rewrite nth_error_set_nth_same in Hm by exact Hi. injection Hm as <-. reflexivity.
        -- rewrite nth_error_set_nth_other in Hm by exact Hjm. apply (Hoth m thm Hm). congruence.
      * intros m H. discriminate.
      * unfold pending. cbn. exact Hseq.
      * intros m thm Hm. destruct (Nat.eq_dec j m) as [->|Hjm].
        -- rewrite nth_error_set_nth_same in Hm by exact Hi. injection Hm as <-. cbn. apply (Hprog m th Eth).
        -- rewrite nth_error_set_nth_other in Hm by exact Hjm. apply (Hprog m thm Hm).
    + (* one more block *)
      cbn [finish] in Hseq. destruct (f (s_state s)) as [[st1 o1] k1] eqn:Ef.
      destruct (finish k1 st1) as [[st2 o2] r] eqn:Efin.
      constructor; cbn.
      * rewrite set_nth_length. exact Hlen.
      * intros m thm Hm Hmo. destruct (Nat.eq_dec j m) as [->|Hjm]; [congruence|].
        rewrite nth_error_set_nth_other in Hm by exact Hjm. apply (Hoth m thm Hm). congruence.
      * intros m [= <-]. eexists. exists k1. rewrite nth_error_set_nth_same by exact Hi. split; reflexivity.
      * unfold pending. cbn. rewrite nth_error_set_nth_same by exact Hi. cbn. rewrite Efin.
        rewrite <- app_assoc. exact Hseq.
      * intros m thm Hm. destruct (Nat.eq_dec j m) as [->|Hjm].
        -- rewrite nth_error_set_nth_same in Hm by exact Hi. injection Hm as <-. cbn. apply (Hprog m th Eth).
        -- rewrite nth_error_set_nth_other in Hm by exact Hjm. apply (Hprog m thm Hm).
  - (* the correlator is free *)
    assert (Ec : t_cur th = None) by (apply (Hoth i th Eth); discriminate).
    rewrite Ec. destruct (t_todo th) as [|o rest] eqn:Etodo; [exact HI|].
    unfold pending in Hseq. rewrite Eo in Hseq.
    constructor; cbn [s_threads s_owner s_order s_state s_out].
    + rewrite set_nth_length. exact Hlen.
    + intros m thm Hm Hmo. destruct (Nat.eq_dec i m) as [->|Him]; [congruence|].
      rewrite nth_error_set_nth_other in Hm by exact Him. apply (Hoth m thm Hm). discriminate.
    + intros m [= <-]. eexists. eexists. rewrite nth_error_set_nth_same by exact Hi. split; reflexivity.
    + unfold pending. cbn [s_threads s_owner s_order s_state s_out]. rewrite nth_error_set_nth_same by exact Hi. cbn [t_cur].
      rewrite finish_prog, seq_run_snoc, <- Hseq.
      destruct (tstep (s_state s) o) as [[st2 out] r]. reflexivity.
    + intros m thm Hm. destruct (Nat.eq_dec i m) as [->|Him].
      * rewrite nth_error_set_nth_same in Hm by exact Hi. injection Hm as <-. cbn [t_todo].
        rewrite calls_of_snoc_same, <- app_assoc. cbn [app]. rewrite <- Etodo. apply (Hprog m th Eth).
      * rewrite nth_error_set_nth_other in Hm by exact Him. rewrite calls_of_snoc_other by exact Him.
        apply (Hprog m thm Hm).
Qed.

Lemma LInv_exec progs sched : LInv progs (exec true progs sched).
Proof.
  unfold exec. generalize (LInv_init progs). generalize (init_sys progs).
  induction sched as [|i r IH]; intros s H; cbn; [exact H|]. apply IH. apply LInv_step. exact H.
Qed.

Lemma all_done_cur s : all_done s = true -> forall i th, nth_error (s_threads s) i = Some th -> t_cur th = None /\ t_todo th = [].
Proof.
  unfold all_done. rewrite forallb_forall. intros H i th Hth.
  specialize (H th (nth_error_In _ _ Hth)). unfold thread_done in H.
  destruct (t_cur th); [discriminate|]. destruct (t_todo th); [tauto|discriminate].
Qed.

(* Under the correlator-wide mutex every complete execution equals the sequential execution of
   the same calls in the order in which they began, and that order respects every thread's
   program order. *)
Theorem locked_linearizable progs sched :
  let s := exec true progs sched in
  all_done s = true ->
  (s_state s, s_out s) = seq_run (s_order s) /\
  (forall i, i < length progs -> calls_of i (s_order s) = nth i progs []).
Proof.
  cbn zeta. intros Hd. destruct (LInv_exec progs sched) as [Hlen Hoth Hown Hseq Hprog].
  pose proof (all_done_cur _ Hd) as Hc.
  split.
  - unfold pending in Hseq. destruct (s_owner (exec true progs sched)) as [i|] eqn:Eo; [|exact Hseq].
    destruct (Hown i eq_refl) as (th & k & Eth & Ek). destruct (Hc i th Eth). congruence.
  - intros i Hi. rewrite <- Hlen in Hi. destruct (nth_error (s_threads (exec true progs sched)) i) as [th|] eqn:Eth.
    + destruct (Hc i th Eth) as [_ Ht]. rewrite <- (Hprog i th Eth), Ht, app_nil_r. reflexivity.
    + apply nth_error_None in Eth. lia.
Qed.

(* At EVERY point of every execution (complete or not): the written events and the state are
   those of a sequential execution of the calls begun so far, the last of them possibly still
   in progress. *)
Theorem locked_prefix_sequential progs sched :
  pending (exec true progs sched) = seq_run (s_order (exec true progs sched)).
Proof. apply (li_seq _ _ (LInv_exec progs sched)). Qed.

(* ---------- no deadlock under the mutex ---------- *)

Definition enabled (s : sys) (i : nat) : Prop :=
  exists th, nth_error (s_threads s) i = Some th /\
    (s_owner s = None \/ s_owner s = Some i) /\ (t_cur th <> None \/ t_todo th <> []).

Lemma forallb_false_ex {A} (f : A -> bool) l : forallb f l = false -> exists x, In x l /\ f x = false.
Proof.
  induction l as [|y l IH]; cbn; [discriminate|]. destruct (f y) eqn:E; cbn.
  - intros H. destruct (IH H) as (x & Hx & Hf). exists x. tauto.
  - intros _. exists y. tauto.
Qed.

Theorem locked_deadlock_free progs sched :
  let s := exec true progs sched in all_done s = false -> exists i, enabled s i.
Proof.
  cbn zeta. intros Hd. destruct (LInv_exec progs sched) as [Hlen Hoth Hown Hseq Hprog].
  destruct (s_owner (exec true progs sched)) as [i|] eqn:Eo.
  - destruct (Hown i eq_refl) as (th & k & Eth & Ek). exists i, th. split; [exact Eth|].
    split; [right; exact Eo|left; congruence].
  - unfold all_done in Hd. apply forallb_false_ex in Hd.
    destruct Hd as (th & Hin & Hth). apply In_nth_error in Hin. destruct Hin as [i Eth].
    exists i, th. split; [exact Eth|]. split; [left; exact Eo|].
    unfold thread_done in Hth. destruct (t_cur th); [left; discriminate|].
    destruct (t_todo th); [discriminate|right; discriminate].
Qed.

(* ---------- without the mutex the lock-granularity decomposition is NOT linearizable ---------- *)

Fixpoint ileave {X} (a : list X) : list X -> list (list X) :=
  fix aux (b : list X) : list (list X) :=
    match a, b with
    | [], _ => [b]
    | _, [] => [a]
    | x :: a', y :: b' => map (cons x) (ileave a' b) ++ map (cons y) (aux b')
    end.

Definition tag (i : nat) (ops : list top) : list (nat * top) := map (pair i) ops.

Definition w_login : login := {| l_id := 0; l_pid := 77; l_at := 0; l_valid := true |}.
Definition w_ev (i : nat) (t : atype) : aev := {| a_id := i; a_ses := SId 1; a_type := t; a_pid := Some 77%Z |}.
Definition w_progs : list (list top) :=
  [[RemoteLogin w_login 0]; [Audit (w_ev 0 TLogin) 1; Audit (w_ev 1 (TOther 5)) 3]].
(* T0 begins and scans (nothing yet); T1 handles the LOGIN record completely (no login parked yet:
   stores the session unbound); T0 then parks its login; T1's follow-up event is held for ever *)
Definition w_sched : list nat := [0; 0; 1; 1; 1; 1; 1; 0; 0; 0; 1; 1; 1; 1].

Theorem unlocked_not_linearizable :
  let s := exec false w_progs w_sched in
  all_done s = true /\
  s_out s = [] /\ length (sess (s_state s)) = 1 /\ length (parked (s_state s)) = 1 /\
  forall order, In order (ileave (tag 0 (nth 0 w_progs [])) (tag 1 (nth 1 w_progs []))) ->
    length (snd (seq_run order)) = 2.
Proof.
  cbn zeta. split; [vm_compute; reflexivity|]. split; [vm_compute; reflexivity|].
  split; [vm_compute; reflexivity|]. split; [vm_compute; reflexivity|].
  intros order H. vm_compute in H. repeat (destruct H as [<-|H]; [vm_compute; reflexivity|]). contradiction.
Qed.

(* the same two programs under the mutex: every schedule of that length gives a sequential outcome *)
Example locked_witness_ok :
  let s := exec true w_progs (w_sched ++ [0; 0; 0; 0; 1; 1; 1; 1; 1; 1; 1; 1]) in
  all_done s = true /\ length (s_out s) = 2.
Proof. vm_compute. split; reflexivity. Qed.
