(* Per-session specification machine and the proof that the correlator refines it.

   For a fixed audit session [s] and sshd process id [p] the behaviour of the correlator,
   projected on the events of [s], is that of a five-phase machine.  All lifecycle
   properties (C02, C09, C16) are then proved on the small machine (TrackerLife.v). *)
From Coq Require Import List Bool Arith ZArith NArith Lia.
Import ListNotations.
From AM Require Import Lib.Assoc Model.Tracker Proofs.TrackerBasics Proofs.TrackerInv.

Local Notation NS := N.eqb_spec.
Local Notation ZS := Z.eqb_spec.

Section Spec.
  Variable s : N.
  Variable p : Z.

  Inductive phase :=
  | PClean                              (* neither half is waiting *)
  | PHeld (a : Z) (evs : list aev)      (* session opened at time a, events held, no login yet *)
  | PParked (l : login)                 (* login waiting, session not opened yet *)
  | PBound (l : login)                  (* correlated *)
  | PEnded.                             (* credential-disposal record emitted *)

  Definition ev_of_s (ev : aev) : bool :=
    match a_ses ev with SId n => N.eqb n s | _ => false end.

  Definition is_rec_p (ev : aev) : bool :=
    is_login (a_type ev) && match a_pid ev with Some q => Z.eqb q p | None => false end.

  Definition login_p (l : login) : bool := validate l && (l_pid l =? p)%Z.

  (* a LOGIN record with pid p that belongs to another (numeric) session *)
  Definition other_rec (ev : aev) : bool :=
    match a_ses ev with SId n => negb (N.eqb n s) && is_rec_p ev | _ => false end.

  Definition pstep (ph : phase) (o : top) : phase * list emitted :=
    match o with
    | Audit ev now =>
        if ev_of_s ev then
          match ph with
          | PClean => if is_rec_p ev then (PHeld now [ev], []) else (PClean, [])
          | PHeld a evs => (PHeld a (evs ++ [ev]), [])
          | PParked l => if is_rec_p ev then (PBound l, [(l, ev)]) else (PParked l, [])
          | PBound l => (if is_disp (a_type ev) then PEnded else PBound l, [(l, ev)])
          | PEnded => (PEnded, [])
          end
        else (ph, [])
    | RemoteLogin l c =>
        if login_p l then
          match ph with
          | PClean => (PParked l, [])
          | PHeld a evs => (if has_disp evs then PEnded else PBound l, map (pair l) evs)
          | _ => (ph, [])
          end
        else (ph, [])
    | CleanSess t =>
        match ph with
        | PHeld a evs => if (a <? t)%Z then (PClean, []) else (ph, [])   (* stale: the held events are dropped *)
        | _ => (ph, [])
        end
    | CleanLogins t =>
        match ph with
        | PParked l => if (l_at l <? t)%Z then (PClean, []) else (ph, [])
        | _ => (ph, [])
        end
    end.

  (* side conditions under which the projection is exact *)
  Definition allowed (ph : phase) (o : top) : Prop :=
    match o with
    | Audit ev now =>
        if ev_of_s ev then
          match ph with
          | PClean | PParked _ =>
              (* LOGIN-type records of s carry pid p (or an unparsable pid, which is rejected) *)
              is_login (a_type ev) = true -> a_pid ev = None \/ a_pid ev = Some p
          | PEnded => is_login (a_type ev) = false \/ a_pid ev = None   (* the session id is not reused *)
          | _ => True
          end
        else
          match ph with
          | PClean | PHeld _ _ | PParked _ => other_rec ev = false   (* no other session opened by pid p meanwhile *)
          | _ => True
          end
    | RemoteLogin l c =>
        match ph with
        | PParked _ => login_p l = false      (* pid p logs in once while its login waits *)
        | _ => True
        end
    | CleanSess _ | CleanLogins _ => True
    end.

  Definition onlycand (st : tstate) : Prop :=
    forall s' u', In (s', u') (sess st) -> unbound u' = true -> u_pid u' = p -> s' = s.

  Definition rel (ph : phase) (st : tstate) : Prop :=
    match ph with
    | PClean => aget N.eqb s (sess st) = None /\ aget Z.eqb p (parked st) = None /\ onlycand st
    | PHeld a evs =>
        aget N.eqb s (sess st) = Some {| u_added := a; u_pid := p; u_login := None; u_cached := evs |} /\
        aget Z.eqb p (parked st) = None /\ onlycand st
    | PParked l => aget N.eqb s (sess st) = None /\ aget Z.eqb p (parked st) = Some l /\ onlycand st
    | PBound l =>
        exists a, aget N.eqb s (sess st) = Some {| u_added := a; u_pid := p; u_login := Some l; u_cached := [] |}
    | PEnded => aget N.eqb s (sess st) = None
    end.

  Definition projs (out : list emitted) : list emitted := filter (fun x => ev_of_s (snd x)) out.

  Lemma ev_of_s_true ev : ev_of_s ev = true <-> a_ses ev = SId s.
  Proof.
    unfold ev_of_s. destruct (a_ses ev) as [| |n]; split; try discriminate.
    - intros H. apply N.eqb_eq in H. congruence.
    - intros [= ->]. apply N.eqb_refl.
  Qed.

  Lemma ev_of_s_false_other ev s' : a_ses ev = SId s' -> s' <> s -> ev_of_s ev = false.
  Proof. intros E Hne. unfold ev_of_s. rewrite E. apply N.eqb_neq. exact Hne. Qed.

  Lemma projs_all out : (forall x, In x out -> ev_of_s (snd x) = true) -> projs out = out.
  Proof.
    induction out as [|x r IH]; cbn; intros H; [reflexivity|].
    rewrite (H x (or_introl eq_refl)). f_equal. apply IH. intros y Hy. apply H. right. exact Hy.
  Qed.

  Lemma projs_none out : (forall x, In x out -> ev_of_s (snd x) = false) -> projs out = [].
  Proof.
    induction out as [|x r IH]; cbn; intros H; [reflexivity|].
    rewrite (H x (or_introl eq_refl)). apply IH. intros y Hy. apply H. right. exact Hy.
  Qed.

  Lemma projs_app a b : projs (a ++ b) = projs a ++ projs b.
  Proof. apply filter_app. Qed.

  (* ---------- only-candidate is preserved by every step that does not open another
                session with pid p ---------- *)

  Definition opens_other (o : top) : Prop :=
    match o with Audit ev _ => other_rec ev = true | _ => False end.

  Lemma onlycand_step st o st' out r :
    tstep st o = (st', out, r) -> onlycand st -> ~ opens_other o -> onlycand st'.
  Proof.
    intros Hs Hoc Hno s' u' Hin Hub Hpid.
    assert (Hold : forall u0, In (s', u0) (sess st) -> unbound u0 = true -> u_pid u0 = p -> s' = s)
      by (intros; eapply Hoc; eauto).
    destruct o as [l c|ev now|t|t]; cbn [tstep] in Hs.
    - apply remote_login_shape in Hs.
      destruct Hs as [(_ & -> & _)|[(_ & s0 & u0 & Hin0 & Hub0 & Hp0 & _ & _ & Hsess)|(_ & _ & Hse & _)]].
      + eapply Hoc; eauto.
      + destruct Hsess as [E|(u1 & E & _ & _ & Hl1 & _)]; rewrite E in Hin.
        * apply (in_adel _ NS) in Hin. eapply Hoc; [apply Hin|assumption|assumption].
        * apply (in_aset _ NS) in Hin. destruct Hin as [[-> ->]|[_ Hin]].
          -- unfold unbound in Hub. rewrite Hl1 in Hub. discriminate.
          -- eapply Hoc; eauto.
      + rewrite Hse in Hin. eapply Hoc; eauto.
    - unfold audit_event in Hs. destruct (a_ses ev) as [| |s0] eqn:Es;
        try (injection Hs as <- <- <-; eapply Hoc; eauto).
      destruct (aget N.eqb s0 (sess st)) as [u0|] eqn:Eg.
      + apply (aget_in _ NS) in Eg. apply with_session_shape in Hs. destruct Hs as (_ & _ & Hsess).
        destruct Hsess as [E|(u1 & E & _ & Hp1 & Hl1 & _)]; rewrite E in Hin.
        * apply (in_adel _ NS) in Hin. eapply Hoc; [apply Hin|assumption|assumption].
        * apply (in_aset _ NS) in Hin. destruct Hin as [[-> ->]|[_ Hin]]; [|eapply Hoc; eauto].
          apply (Hold u0 Eg); [unfold unbound in *; rewrite <- Hl1; exact Hub|congruence].
      + apply without_session_shape in Hs.
        destruct Hs as [(-> & _)|(Ht & q & Hq & [(l & _ & Hsess & _)|(_ & Hsess & _)])].
        * eapply Hoc; eauto.
        * rewrite Hsess in Hin. apply (in_aset _ NS) in Hin. destruct Hin as [[-> ->]|[_ Hin]]; [discriminate|].
          eapply Hoc; eauto.
        * rewrite Hsess in Hin. apply (in_aset _ NS) in Hin. destruct Hin as [[-> ->]|[_ Hin]]; [|eapply Hoc; eauto].
          cbn in Hpid. subst q.
          destruct (N.eq_dec s0 s) as [|Hne]; [assumption|]. exfalso. apply Hno. cbn.
          unfold other_rec, is_rec_p. rewrite Es, Ht, Hq. cbn.
          rewrite Z.eqb_refl. apply N.eqb_neq in Hne. rewrite Hne. reflexivity.
    - injection Hs as <- <- <-. cbn in Hin. apply filter_In in Hin. eapply Hoc; [apply Hin|assumption|assumption].
    - injection Hs as <- <- <-. cbn in Hin. eapply Hoc; eauto.
  Qed.

  (* ---------- frame: steps that do not concern session s ---------- *)

  Lemma cached_not_s h st s0 u0 :
    Inv h st -> In (s0, u0) (sess st) -> s0 <> s -> forall e, In e (u_cached u0) -> ev_of_s e = false.
  Proof.
    intros HI Hin Hne e He. destruct (inv_sess _ _ HI s0 u0 Hin) as (_ & _ & Hc).
    destruct (Hc e He) as [Hs _]. eapply ev_of_s_false_other; eassumption.
  Qed.

  (* an audit event of another session *)
  Lemma frame_audit_other h st ev now st' out r :
    Inv h st -> tstep st (Audit ev now) = (st', out, r) -> ev_of_s ev = false ->
    aget N.eqb s (sess st') = aget N.eqb s (sess st) /\ projs out = [] /\
    (other_rec ev = false -> aget Z.eqb p (parked st') = aget Z.eqb p (parked st)).
  Proof.
    intros HI Hs Hev. cbn [tstep] in Hs. unfold audit_event in Hs.
    destruct (a_ses ev) as [| |s0] eqn:Es; try (injection Hs as <- <- <-; cbn; tauto).
    assert (Hne : s0 <> s).
    { intros ->. unfold ev_of_s in Hev. rewrite Es, N.eqb_refl in Hev. discriminate. }
    destruct (aget N.eqb s0 (sess st)) as [u0|] eqn:Eg.
    - apply (aget_in _ NS) in Eg. apply with_session_shape in Hs. destruct Hs as (Hp & Hout & Hsess).
      split; [|split].
      + destruct Hsess as [->|(u1 & -> & _)];
          [apply (aget_adel_other _ NS)|apply (aget_aset_other _ NS)]; congruence.
      + apply projs_none. intros x Hx. destruct (Hout x Hx) as (l & _ & _ & He).
        apply in_app_or in He. destruct He as [He|[<-|[]]]; [|exact Hev].
        eapply cached_not_s; eassumption.
      + intros _. rewrite Hp. reflexivity.
    - apply without_session_shape in Hs.
      destruct Hs as [(-> & ->)|(Ht & q & Hq & [(l & Hg & Hsess & Hpk & Hout)|(Hg & Hsess & Hpk & _ & -> & _)])].
      + cbn. tauto.
      + split; [|split].
        * rewrite Hsess. apply (aget_aset_other _ NS). congruence.
        * apply projs_none. intros x Hx. destruct Hout as [->| ->]; [|contradiction].
          destruct Hx as [<-|[]]. exact Hev.
        * intros Hr. rewrite Hpk. apply (aget_adel_other _ ZS). intros Heq.
          unfold other_rec, is_rec_p in Hr. rewrite Es, Ht, Hq in Hr. cbn in Hr.
          rewrite <- Heq, Z.eqb_refl in Hr. apply N.eqb_neq in Hne. rewrite Hne in Hr. discriminate.
      + split; [|split].
        * rewrite Hsess. apply (aget_aset_other _ NS). congruence.
        * reflexivity.
        * intros _. rewrite Hpk. reflexivity.
  Qed.

  (* a login that is not bound to session s *)
  Lemma frame_login_other h st l c st' out r :
    Inv h st -> tstep st (RemoteLogin l c) = (st', out, r) ->
    (forall u, aget N.eqb s (sess st) = Some u -> unbound u = false \/ u_pid u <> l_pid l) ->
    aget N.eqb s (sess st') = aget N.eqb s (sess st) /\ projs out = [] /\
    (login_p l = false -> aget Z.eqb p (parked st') = aget Z.eqb p (parked st)).
  Proof.
    intros HI Hs Hns. cbn [tstep] in Hs. apply remote_login_shape in Hs.
    destruct Hs as [(Hv & -> & -> & _)|[(Hv & s0 & u0 & Hin0 & Hub0 & Hp0 & Hpk & Hout & Hsess)|(Hv & _ & Hse & Hpk & _ & -> & _)]].
    - cbn. tauto.
    - assert (Hne : s0 <> s).
      { intros ->. pose proof (in_aget _ NS _ _ _ (inv_nd_s _ _ HI) Hin0) as Hg.
        destruct (Hns u0 Hg) as [Hb|Hp]; congruence. }
      split; [|split].
      + destruct Hsess as [->|(u1 & -> & _)];
          [apply (aget_adel_other _ NS)|apply (aget_aset_other _ NS)]; congruence.
      + apply projs_none. intros x Hx. destruct (Hout x Hx) as [_ He].
        eapply cached_not_s; eassumption.
      + intros _. rewrite Hpk. reflexivity.
    - split; [rewrite Hse; reflexivity|]. split; [reflexivity|].
      intros Hl. rewrite Hpk. apply (aget_aset_other _ ZS). intros Heq.
      unfold login_p in Hl. rewrite Hv, <- Heq, Z.eqb_refl in Hl. discriminate.
  Qed.

  (* ---------- the refinement step ---------- *)

  Lemma held_pick st a evs c :
    NoDup (akeys (sess st)) -> onlycand st ->
    aget N.eqb s (sess st) = Some {| u_added := a; u_pid := p; u_login := None; u_cached := evs |} ->
    pick c (candidates p (sess st)) = Some (s, {| u_added := a; u_pid := p; u_login := None; u_cached := evs |}).
  Proof.
    intros Hnd Hoc Hg.
    assert (Hin : In (s, {| u_added := a; u_pid := p; u_login := None; u_cached := evs |}) (candidates p (sess st))).
    { apply candidates_in. split; [apply (aget_in _ NS); exact Hg|]. cbn. tauto. }
    destruct (pick_some c (candidates p (sess st))) as [[s1 u1] Hp]; [intros E; rewrite E in Hin; contradiction|].
    rewrite Hp. pose proof (pick_in _ _ _ Hp) as H1. apply candidates_in in H1. destruct H1 as (H1 & H2 & H3).
    assert (s1 = s) by (eapply Hoc; eauto). subst s1.
    pose proof (in_aget _ NS _ _ _ Hnd H1) as Hg1. rewrite Hg in Hg1. injection Hg1 as <-. reflexivity.
  Qed.

  Lemma clean_no_cand st : NoDup (akeys (sess st)) -> onlycand st ->
    aget N.eqb s (sess st) = None -> candidates p (sess st) = [].
  Proof.
    intros Hnd Hoc Hg. destruct (candidates p (sess st)) as [|[s1 u1] r] eqn:E; [reflexivity|]. exfalso.
    assert (Hin : In (s1, u1) (candidates p (sess st))) by (rewrite E; left; reflexivity).
    apply candidates_in in Hin. destruct Hin as (H1 & H2 & H3).
    assert (s1 = s) by (eapply Hoc; eauto). subst s1.
    pose proof (in_aget _ NS _ _ _ Hnd H1) as Hg1. congruence.
  Qed.

  Lemma refine_step h st ph o st' out r :
    Inv h st -> wb st = None -> rel ph st -> allowed ph o -> tstep st o = (st', out, r) ->
    rel (fst (pstep ph o)) st' /\ projs out = snd (pstep ph o) /\ wb st' = None.
  Proof.
    intros HI Hwb Hrel Hal Hs.
    pose proof (inv_nd_s _ _ HI) as Hnd.
    assert (Hwb' : wb st' = None) by (eapply step_wb_none; eauto).
    cut (rel (fst (pstep ph o)) st' /\ projs out = snd (pstep ph o)); [tauto|].
    destruct o as [l c|ev now|t|t].
    - (* ---------------- RemoteLogin ---------------- *)
      cbn [pstep]. destruct (login_p l) eqn:Elp.
      + pose proof Elp as Elp'. unfold login_p in Elp. apply andb_true_iff in Elp. destruct Elp as [Hv Hpl].
        apply Z.eqb_eq in Hpl.
        destruct ph as [|a evs|l0|l0|]; cbn [allowed] in Hal; cbn [rel] in Hrel.
        * (* PClean: parks *)
          destruct Hrel as (Hg & Hpk & Hoc). cbn [tstep] in Hs. unfold remote_login in Hs.
          rewrite Hv in Hs. cbn [negb] in Hs. rewrite Hpl, (clean_no_cand st Hnd Hoc Hg) in Hs. cbn [pick] in Hs.
          injection Hs as <- <- <-. cbn [fst snd rel sess parked]. split; [|reflexivity].
          split; [exact Hg|]. split; [apply (aget_aset_same _ ZS)|exact Hoc].
        * (* PHeld: flush *)
          destruct Hrel as (Hg & Hpk & Hoc). cbn [tstep] in Hs. unfold remote_login in Hs.
          rewrite Hv in Hs. cbn [negb] in Hs. rewrite Hpl, (held_pick st a evs c Hnd Hoc Hg) in Hs.
          cbn [u_cached u_added u_pid] in Hs. rewrite Hwb, write_all_none in Hs.
          assert (Hproj : projs (map (pair l) evs) = map (pair l) evs).
          { apply projs_all. intros x Hx. apply in_map_iff in Hx. destruct Hx as (e & <- & He). cbn.
            apply ev_of_s_true. apply (aget_in _ NS) in Hg.
            destruct (inv_sess _ _ HI _ _ Hg) as (_ & _ & Hc). apply Hc. exact He. }
          destruct (has_disp evs); injection Hs as <- <- <-; cbn [fst snd rel sess wb]; (split; [|exact Hproj]).
          -- apply aget_adel_same.
          -- exists a. apply (aget_aset_same _ NS).
        * (* PParked: excluded *)
          congruence.
        * (* PBound: the scan skips bound sessions *)
          destruct Hrel as (a & Hg).
          destruct (frame_login_other h st l c st' out r HI Hs) as (F1 & F2 & _).
          { intros u Hu. rewrite Hg in Hu. injection Hu as <-. left. reflexivity. }
          cbn [fst snd rel]. split; [exists a; congruence|exact F2].
        * (* PEnded *)
          destruct (frame_login_other h st l c st' out r HI Hs) as (F1 & F2 & _).
          { intros u Hu. congruence. }
          cbn [fst snd rel]. split; [congruence|exact F2].
      + (* a login that is invalid or of another pid *)
        assert (Hns : forall u, aget N.eqb s (sess st) = Some u -> unbound u = false \/ u_pid u <> l_pid l \/ validate l = false).
        { intros u Hu. unfold login_p in Elp. apply andb_false_iff in Elp. destruct Elp as [Hv|Hp]; [tauto|].
          apply Z.eqb_neq in Hp.
          destruct ph as [|a evs|l0|l0|]; cbn [rel] in Hrel.
          - destruct Hrel as (Hg & _). congruence.
          - destruct Hrel as (Hg & _). rewrite Hg in Hu. injection Hu as <-. cbn. right. left. congruence.
          - destruct Hrel as (Hg & _). congruence.
          - destruct Hrel as (a & Hg). rewrite Hg in Hu. injection Hu as <-. left. reflexivity.
          - congruence. }
        destruct (validate l) eqn:Hv.
        2:{ cbn [tstep] in Hs. unfold remote_login in Hs. rewrite Hv in Hs. cbn [negb] in Hs.
            injection Hs as <- <- <-. cbn [fst snd projs filter]. tauto. }
        destruct (frame_login_other h st l c st' out r HI Hs) as (F1 & F2 & F3).
        { intros u Hu. destruct (Hns u Hu) as [H|[H|H]]; [tauto|tauto|discriminate]. }
        specialize (F3 Elp).
        assert (Hoc' : onlycand st -> onlycand st').
        { intros Hoc. eapply onlycand_step; [exact Hs|exact Hoc|]. cbn. tauto. }
        cbn [fst snd]. split; [|exact F2].
        destruct ph as [|a evs|l0|l0|]; cbn [rel] in *.
        * destruct Hrel as (Hg & Hpk & Hoc). rewrite F1, F3. auto.
        * destruct Hrel as (Hg & Hpk & Hoc). rewrite F1, F3. auto.
        * destruct Hrel as (Hg & Hpk & Hoc). rewrite F1, F3. auto.
        * destruct Hrel as (a & Hg). exists a. congruence.
        * congruence.
    - (* ---------------- Audit ---------------- *)
      cbn [pstep]. destruct (ev_of_s ev) eqn:Eev.
      + (* an event of session s *)
        pose proof (proj1 (ev_of_s_true ev) Eev) as Es.
        cbn [tstep] in Hs. unfold audit_event in Hs. rewrite Es in Hs.
        cbn [allowed] in Hal. rewrite Eev in Hal.
        destruct ph as [|a evs|l0|l0|]; cbn [rel] in Hrel.
        * (* PClean *)
          destruct Hrel as (Hg & Hpk & Hoc). rewrite Hg in Hs. unfold audit_without_session in Hs.
          unfold is_rec_p. destruct (is_login (a_type ev)) eqn:Et; cbn [negb andb] in *.
          2:{ injection Hs as <- <- <-. cbn [fst snd rel projs filter]. tauto. }
          destruct (Hal eq_refl) as [Hn|Hp]; rewrite ?Hn, ?Hp in *.
          { injection Hs as <- <- <-. cbn [fst snd rel projs filter]. tauto. }
          rewrite Z.eqb_refl. rewrite Hpk in Hs. injection Hs as <- <- <-. cbn [fst snd rel sess parked].
          split; [|reflexivity]. split; [apply (aget_aset_same _ NS)|]. split; [exact Hpk|].
          intros s' u' Hin Hub Hp'. apply (in_aset _ NS) in Hin. destruct Hin as [[-> _]|[_ Hin]]; [reflexivity|].
          eapply Hoc; eauto.
        * (* PHeld *)
          destruct Hrel as (Hg & Hpk & Hoc). rewrite Hg in Hs. unfold audit_with_session in Hs. cbn in Hs.
          injection Hs as <- <- <-. cbn [fst snd rel sess parked].
          split; [|reflexivity]. split; [apply (aget_aset_same _ NS)|]. split; [exact Hpk|].
          intros s' u' Hin Hub Hp'. apply (in_aset _ NS) in Hin. destruct Hin as [[-> _]|[_ Hin]]; [reflexivity|].
          eapply Hoc; eauto.
        * (* PParked *)
          destruct Hrel as (Hg & Hpk & Hoc). rewrite Hg in Hs. unfold audit_without_session in Hs.
          unfold is_rec_p. destruct (is_login (a_type ev)) eqn:Et; cbn [negb andb] in *.
          2:{ injection Hs as <- <- <-. cbn [fst snd rel projs filter]. tauto. }
          destruct (Hal eq_refl) as [Hn|Hp]; rewrite ?Hn, ?Hp in *.
          { injection Hs as <- <- <-. cbn [fst snd rel projs filter]. tauto. }
          rewrite Z.eqb_refl. rewrite Hpk, Hwb in Hs. cbn [write1] in Hs. injection Hs as <- <- <-.
          cbn [fst snd rel sess]. split.
          -- exists now. apply (aget_aset_same _ NS).
          -- cbn. rewrite Eev. reflexivity.
        * (* PBound *)
          destruct Hrel as (a & Hg). rewrite Hg in Hs. unfold audit_with_session in Hs.
          cbn [u_login u_cached u_added u_pid] in Hs. rewrite Hwb in Hs. cbn [write_all write1] in Hs.
          injection Hs as <- <- <-. cbn [fst snd rel sess app]. split.
          -- destruct (is_disp (a_type ev)); cbn [rel].
             ++ apply aget_adel_same.
             ++ exists a. apply (aget_aset_same _ NS).
          -- cbn. rewrite Eev. reflexivity.
        * (* PEnded *)
          rewrite Hrel in Hs. unfold audit_without_session in Hs.
          destruct Hal as [Ht|Hn].
          -- rewrite Ht in Hs. cbn [negb] in Hs. injection Hs as <- <- <-. cbn [fst snd rel projs filter]. tauto.
          -- rewrite Hn in Hs. destruct (negb (is_login (a_type ev))); injection Hs as <- <- <-;
               cbn [fst snd rel projs filter]; tauto.
      + (* an event of another session (or without session) *)
        destruct (frame_audit_other h st ev now st' out r HI Hs Eev) as (F1 & F2 & F3).
        cbn [allowed] in Hal. rewrite Eev in Hal. cbn [fst snd]. split; [|exact F2].
        assert (Hoc' : other_rec ev = false -> onlycand st -> onlycand st').
        { intros Hr Hoc. eapply onlycand_step; [exact Hs|exact Hoc|]. cbn. congruence. }
        destruct ph as [|a evs|l0|l0|]; cbn [rel] in *.
        * destruct Hrel as (Hg & Hpk & Hoc). rewrite F1, (F3 Hal). auto.
        * destruct Hrel as (Hg & Hpk & Hoc). rewrite F1, (F3 Hal). auto.
        * destruct Hrel as (Hg & Hpk & Hoc). rewrite F1, (F3 Hal). auto.
        * destruct Hrel as (a & Hg). exists a. congruence.
        * congruence.
    - (* ---------------- CleanSess ---------------- *)
      cbn [tstep] in Hs. injection Hs as <- <- <-.
      assert (Hoc' : onlycand st -> onlycand (clean_sess st t)).
      { intros Hoc s' u' Hin. cbn in Hin. apply filter_In in Hin. apply Hoc. tauto. }
      destruct ph as [|a evs|l0|l0|]; cbn [rel allowed pstep] in *.
      + cbn [fst snd projs filter rel clean_sess sess parked]. split; [|reflexivity].
        destruct Hrel as (Hg & Hpk & Hoc). split; [apply (aget_filter_none _ NS); exact Hg|]. split; [exact Hpk|].
        apply Hoc'. exact Hoc.
      + destruct Hrel as (Hg & Hpk & Hoc).
        pose proof (aget_filter_some _ NS (fun su => negb (unbound (snd su) && (u_added (snd su) <? t)%Z)) _ _ _ Hnd Hg) as Hf.
        cbn in Hf.
        destruct (a <? t)%Z; cbn [fst snd projs filter rel clean_sess sess parked negb] in *; (split; [|reflexivity]).
        * split; [exact Hf|]. split; [exact Hpk|apply Hoc'; exact Hoc].
        * split; [exact Hf|]. split; [exact Hpk|apply Hoc'; exact Hoc].
      + cbn [fst snd projs filter rel clean_sess sess parked]. split; [|reflexivity].
        destruct Hrel as (Hg & Hpk & Hoc). split; [apply (aget_filter_none _ NS); exact Hg|]. split; [exact Hpk|].
        apply Hoc'. exact Hoc.
      + cbn [fst snd projs filter rel clean_sess sess parked]. split; [|reflexivity].
        destruct Hrel as (a & Hg). exists a. rewrite (aget_filter_some _ NS _ _ _ _ Hnd Hg). reflexivity.
      + cbn [fst snd projs filter rel clean_sess sess parked]. split; [|reflexivity].
        apply (aget_filter_none _ NS). exact Hrel.
    - (* ---------------- CleanLogins ---------------- *)
      cbn [tstep] in Hs. injection Hs as <- <- <-.
      pose proof (inv_nd_p _ _ HI) as Hndp.
      destruct ph as [|a evs|l0|l0|]; cbn [rel allowed pstep] in *.
      + cbn [fst snd projs filter rel clean_logins sess parked]. split; [|reflexivity].
        destruct Hrel as (Hg & Hpk & Hoc). split; [exact Hg|]. split; [apply (aget_filter_none _ ZS); exact Hpk|exact Hoc].
      + cbn [fst snd projs filter rel clean_logins sess parked]. split; [|reflexivity].
        destruct Hrel as (Hg & Hpk & Hoc). split; [exact Hg|]. split; [apply (aget_filter_none _ ZS); exact Hpk|exact Hoc].
      + destruct Hrel as (Hg & Hpk & Hoc).
        pose proof (aget_filter_some _ ZS (fun pl => negb (l_at (snd pl) <? t)%Z) _ _ _ Hndp Hpk) as Hf.
        cbn in Hf.
        destruct (l_at l0 <? t)%Z; cbn [fst snd projs filter rel clean_logins sess parked negb] in *; (split; [|reflexivity]).
        * split; [exact Hg|]. split; [exact Hf|exact Hoc].
        * split; [exact Hg|]. split; [exact Hf|exact Hoc].
      + cbn [fst snd projs filter rel clean_logins sess parked]. split; [|reflexivity]. exact Hrel.
      + cbn [fst snd projs filter rel clean_logins sess parked]. split; [|reflexivity]. exact Hrel.
  Qed.
End Spec.
