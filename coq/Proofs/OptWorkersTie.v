(* What cmd/cmd.go's optional workers do, for EVERY valuation of the flags, derived from the generated programs
   (Gen/OptWorkers.v). *)
From Coq Require Import String List Bool ZArith.
Import ListNotations.
From AM Require Import Model.WorkerWiring Model.OptWorkers Gen.OptWorkers.
Open Scope string_scope.

(* the server both goroutines act on: one object, listening on :2112, its time-outs taken from the configuration *)
Definition the_server : wexp :=
  WLit "http.Server" true [("Addr", WStr ":2112"); ("ReadTimeout", WSel (WVar "mc") "httpServerReadTimeout");
                           ("ReadHeaderTimeout", WSel (WVar "mc") "httpServerReadHeaderTimeout")].

(* serve: the error of ListenAndServe is the goroutine's result (an errgroup member: a failure to listen ends the daemon) *)
Definition g_serve : list ostmt := [OIfErrReturnIt (WMethod the_server "ListenAndServe" []); OReturn WNil].
(* stop: wait for the group context, then shut the server down (which makes ListenAndServe return) *)
Definition g_stop : list ostmt := [OWaitDone; OReturn (WMethod the_server "Shutdown" [WVar "ctx"])].

(* endpoints: /metrics iff -metrics, /readyz iff -healthz, the latter served by the handler of the function's own
   health parameter; nothing else is registered *)
Theorem endpoints_from_source : forall fl : flags,
  option_map handles (effects fl gen_handleMetricsAndHealth) =
  Some (((if fl "enableMetrics" then [(WStr "/metrics", WCall "promhttp.Handler" [])] else []) ++
         (if fl "enableHealthz" then [(WStr "/readyz", WMethod (WVar "h") "ReadyzHandler" [])] else []))%list).
Proof.
  intro fl. unfold effects, gen_handleMetricsAndHealth. simpl.
  destruct (fl "enableMetrics"); destruct (fl "enableHealthz"); reflexivity.
Qed.

(* goroutines: none when both flags are off; otherwise exactly serve and stop, both on the one server *)
Theorem server_goroutines_from_source : forall fl : flags,
  option_map goroutines (effects fl gen_handleMetricsAndHealth) =
  Some (if fl "enableMetrics" || fl "enableHealthz" then [g_serve; g_stop] else []).
Proof.
  intro fl. unfold effects, gen_handleMetricsAndHealth. simpl.
  destruct (fl "enableMetrics"); destruct (fl "enableHealthz"); reflexivity.
Qed.

(* no other call is made by handleMetricsAndHealth *)
Theorem server_no_other_effect : forall fl : flags,
  option_map other_calls (effects fl gen_handleMetricsAndHealth) = Some [].
Proof.
  intro fl. unfold effects, gen_handleMetricsAndHealth. simpl.
  destruct (fl "enableMetrics"); destruct (fl "enableHealthz"); reflexivity.
Qed.

(* the health object whose handler serves /readyz is the function's *health.Health parameter *)
Theorem readyz_health_is_parameter :
  In ("h", "*health.Health") (of_params gen_handleMetricsAndHealth) /\
  In ("eg", "*errgroup.Group") (of_params gen_handleMetricsAndHealth) /\
  In ("ctx", "context.Context") (of_params gen_handleMetricsAndHealth).
Proof. simpl. repeat split; tauto. Qed.

(* the audit.log ticker: started iff -audit-metrics; one goroutine; a passive prologue and a select loop whose
   ctx.Done() arm returns and whose other arm cannot block or leave the loop *)
Theorem audit_metrics_from_source : forall fl : flags,
  match option_map goroutines (effects fl gen_handleAuditLogMetrics) with
  | Some gs => if fl "enableAuditMetrics" then exists g, gs = [g] /\ is_ticker_loop g = true else gs = []
  | None => False
  end.
Proof.
  intro fl. unfold effects, gen_handleAuditLogMetrics. simpl.
  destruct (fl "enableAuditMetrics"); simpl; [|reflexivity].
  eexists. split; [reflexivity|]. vm_compute. reflexivity.
Qed.

(* what the checks above accept and reject *)
Example stop_goroutine_without_wait_rejected : is_ticker_loop [OLoopSelect [ArmRecv "t.C" [OCall WNil]]] = false.
Proof. reflexivity. Qed.
Example blocking_arm_rejected :
  is_ticker_loop [OLoopSelect [ArmRecv "t.C" [OWaitDone]; ArmDone [OReturn WNil]]] = false.
Proof. reflexivity. Qed.
