(* Proofs about Model/Auparse.v: no slice expression panics; clean (panic-free, offset-free) forms of
   parseAuditHeader / GetAuditMessageType / Parse / ParseLogLine; trailing ASCII white space never
   changes the result; exact characterisation of the accepted lines; field extraction on well-formed
   lines; ranges of the results. *)
From Coq Require Import Ascii String List Bool Arith NArith ZArith Lia.
Import ListNotations.
From AM Require Import Lib.Bytes Lib.GoStrings Model.Auparse Proofs.AuparseNum.
Open Scope list_scope.

(* ------------------------------------------------------------------ bytes *)

Lemma space_ascii c : is_space c = true -> non_ascii c = false.
Proof.
  unfold is_space, non_ascii. intros H. apply N.leb_gt.
  apply orb_true_iff in H. destruct H as [H|H].
  - apply andb_true_iff in H. destruct H as [_ H]. apply N.leb_le in H. lia.
  - apply N.eqb_eq in H. lia.
Qed.

Definition all_space (s : str) : bool := forallb is_space s.

Lemma all_space_app a b : all_space (a ++ b) = all_space a && all_space b.
Proof. apply forallb_app. Qed.

Lemma is_space_nl : is_space "010"%char = true. Proof. reflexivity. Qed.

(* ------------------------------------------------------------------ IndexByte and cutting *)

(* cut at the first occurrence of c: (before, after) *)
Fixpoint cut_byte (c : ascii) (s : str) : option (str * str) :=
  match s with
  | [] => None
  | x :: r => if Ascii.eqb x c then Some ([], r)
              else match cut_byte c r with Some (a, b) => Some (x :: a, b) | None => None end
  end.

Lemma cut_byte_spec c s a b : cut_byte c s = Some (a, b) <-> s = a ++ c :: b /\ ~ In c a.
Proof.
  revert a b. induction s as [|x r IH]; intros a b; cbn [cut_byte].
  - split; [discriminate|]. intros [H _]. destruct a; discriminate.
  - destruct (Ascii.eqb_spec x c) as [->|Hx].
    + split.
      * intros [= <- <-]. split; [reflexivity|intros []].
      * intros [H Hn]. destruct a as [|y a'].
        -- cbn in H. injection H as <-. reflexivity.
        -- cbn in H. injection H as <- _. exfalso. apply Hn. left. reflexivity.
    + destruct (cut_byte c r) as [[a' b']|].
      * split.
        -- intros [= <- <-]. destruct (proj1 (IH a' b') eq_refl) as [-> Hn]. split; [reflexivity|].
           intros [H|H]; [congruence|exact (Hn H)].
        -- intros [H Hn]. destruct a as [|y a2]; [cbn in H; congruence|].
           cbn in H. injection H as <- H.
           assert (E2 : Some (a', b') = Some (a2, b)).
           { apply IH. split; [exact H|]. intros Hi. apply Hn. right. exact Hi. }
           injection E2 as -> ->. reflexivity.
      * split; [discriminate|]. intros [H Hn]. destruct a as [|y a2]; [cbn in H; congruence|].
        cbn in H. injection H as <- H.
        assert (E2 : @None (str * str) = Some (a2, b)).
        { apply IH. split; [exact H|]. intros Hi. apply Hn. right. exact Hi. }
        discriminate.
Qed.

Lemma cut_byte_none c s : cut_byte c s = None <-> ~ In c s.
Proof.
  induction s as [|x r IH]; cbn [cut_byte].
  - split; [intros _ []|reflexivity].
  - destruct (Ascii.eqb_spec x c) as [->|Hx].
    + split; [discriminate|]. intros H. exfalso. apply H. left. reflexivity.
    + destruct (cut_byte c r) as [[a b]|].
      * split; [discriminate|]. intros H. exfalso.
        assert (X : Some (a, b) = None) by (apply IH; intros Hi; apply H; right; exact Hi). discriminate.
      * split; [|reflexivity]. intros _ [H|H]; [congruence|]. destruct IH as [IH _]. exact (IH eq_refl H).
Qed.

Lemma cut_byte_app c a b : ~ In c a -> cut_byte c (a ++ c :: b) = Some (a, b).
Proof. intros H. apply cut_byte_spec. split; [reflexivity|exact H]. Qed.

Lemma index_byte_cut s c :
  index_byte s c = match cut_byte c s with Some (a, _) => Some (length a) | None => None end.
Proof.
  induction s as [|x r IH]; cbn [index_byte cut_byte]; [reflexivity|].
  destruct (Ascii.eqb x c); [reflexivity|]. rewrite IH.
  destruct (cut_byte c r) as [[a b]|]; reflexivity.
Qed.

(* index_pred: the first byte satisfying p *)
Lemma index_pred_app p a x b :
  forallb (fun c => negb (p c)) a = true -> p x = true -> index_pred p (a ++ x :: b) = Some (length a).
Proof.
  intros Ha Hx. induction a as [|y a IH]; cbn [app index_pred length].
  - rewrite Hx. reflexivity.
  - cbn in Ha. apply andb_true_iff in Ha. destruct Ha as [Hy Ha].
    apply negb_true_iff in Hy. rewrite Hy, (IH Ha). reflexivity.
Qed.

(* ------------------------------------------------------------------ slices *)

Lemma slice_from_ok {A} (l : list A) a : a <= length l -> go_slice_from l a = Some (skipn a l).
Proof. intros H. unfold go_slice_from. apply Nat.leb_le in H. rewrite H. reflexivity. Qed.

Lemma slice_to_ok {A} (l : list A) b : b <= length l -> go_slice_to l b = Some (firstn b l).
Proof. intros H. unfold go_slice_to. apply Nat.leb_le in H. rewrite H. reflexivity. Qed.

Lemma slice_ok {A} (l : list A) a b :
  a <= b -> b <= length l -> go_slice l a b = Some (firstn (b - a) (skipn a l)).
Proof.
  intros H1 H2. unfold go_slice. apply Nat.leb_le in H1. apply Nat.leb_le in H2. rewrite H1, H2. reflexivity.
Qed.

Lemma skipn_app_len {A} (p s : list A) n : n = length p -> skipn n (p ++ s) = s.
Proof. intros ->. rewrite skipn_app, skipn_all, Nat.sub_diag. reflexivity. Qed.

Lemma firstn_app_len {A} (p s : list A) n : n = length p -> firstn n (p ++ s) = p.
Proof. intros ->. rewrite firstn_app, firstn_all, Nat.sub_diag. cbn. apply app_nil_r. Qed.

Lemma slice_from_app {A} (p s : list A) n : n = length p -> go_slice_from (p ++ s) n = Some s.
Proof.
  intros H. rewrite slice_from_ok by (rewrite app_length; lia). rewrite (skipn_app_len p s n H). reflexivity.
Qed.

Lemma slice_mid {A} (p v q : list A) a b :
  a = length p -> b = length p + length v -> go_slice (p ++ v ++ q) a b = Some v.
Proof.
  intros -> ->. rewrite slice_ok by (rewrite ?app_length; lia).
  rewrite (skipn_app_len p (v ++ q) (length p) eq_refl).
  rewrite firstn_app_len by lia. reflexivity.
Qed.

Ltac norm_app := repeat first [rewrite <- app_assoc | rewrite <- app_comm_cons | progress (cbn [app])].
Ltac lens := repeat first [rewrite app_length | progress (cbn [length])]; lia.

(* ------------------------------------------------------------------ parseAuditHeader *)

(* the same function without offsets and without slices that could panic *)
Definition header_clean (line : str) : hres :=
  match cut_byte c_lparen line with None => HErr | Some (a, r1) =>
  match cut_byte c_dot r1 with None => HErr | Some (s1, r2) =>
  match cut_byte c_colon r2 with None => HErr | Some (s2, r3) =>
  match cut_byte c_rparen r3 with None => HErr | Some (s3, r4) =>
  match parse_int 64 s1 with NumSyntax | NumRange => HErr | NumOk sec =>
  match parse_int 64 s2 with NumSyntax | NumRange => HErr | NumOk msec =>
  match parse_uint 32 s3 with NumSyntax | NumRange => HErr | NumOk sq =>
  HOk sec msec sq (length a + 1 + length s1 + 1 + length s2 + 1 + length s3)
  end end end end end end end.

Lemma index_byte_skip x r c : x <> c ->
  index_byte (x :: r) c = match index_byte r c with Some i => Some (S i) | None => None end.
Proof. intros H. cbn [index_byte]. destruct (Ascii.eqb_spec x c); [congruence|reflexivity]. Qed.

Theorem parse_audit_header_clean line : parse_audit_header line = header_clean line.
Proof.
  unfold parse_audit_header, header_clean.
  rewrite index_byte_cut.
  destruct (cut_byte c_lparen line) as [[a r1]|] eqn:E1; [|reflexivity].
  apply cut_byte_spec in E1. destruct E1 as [-> _].
  rewrite (slice_from_app a (c_lparen :: r1) (length a) eq_refl).
  rewrite index_byte_skip by (intros H; discriminate H). rewrite index_byte_cut.
  destruct (cut_byte c_dot r1) as [[s1 r2]|] eqn:E2; [|reflexivity].
  apply cut_byte_spec in E2. destruct E2 as [-> _].
  (* line = a ++ "(" :: s1 ++ "." :: r2 *)
  replace (a ++ c_lparen :: s1 ++ c_dot :: r2) with ((a ++ c_lparen :: s1) ++ c_dot :: r2)
    by (rewrite <- app_assoc; reflexivity).
  rewrite (slice_from_app (a ++ c_lparen :: s1) (c_dot :: r2)) by lens.
  rewrite index_byte_skip by (intros H; discriminate H). rewrite index_byte_cut.
  destruct (cut_byte c_colon r2) as [[s2 r3]|] eqn:E3; [|reflexivity].
  apply cut_byte_spec in E3. destruct E3 as [-> _].
  replace ((a ++ c_lparen :: s1) ++ c_dot :: s2 ++ c_colon :: r3)
    with (((a ++ c_lparen :: s1) ++ c_dot :: s2) ++ c_colon :: r3)
    by (rewrite <- (app_assoc (a ++ c_lparen :: s1)); reflexivity).
  rewrite (slice_from_app ((a ++ c_lparen :: s1) ++ c_dot :: s2) (c_colon :: r3))
    by lens.
  rewrite index_byte_skip by (intros H; discriminate H). rewrite index_byte_cut.
  destruct (cut_byte c_rparen r3) as [[s3 r4]|] eqn:E4; [|reflexivity].
  apply cut_byte_spec in E4. destruct E4 as [-> _].
  (* the three number slices *)
  assert (L1 : go_slice (((a ++ c_lparen :: s1) ++ c_dot :: s2) ++ c_colon :: s3 ++ c_rparen :: r4)
                 (length a + 1) (S (length s1) + length a) = Some s1).
  { replace (((a ++ c_lparen :: s1) ++ c_dot :: s2) ++ c_colon :: s3 ++ c_rparen :: r4)
      with ((a ++ [c_lparen]) ++ s1 ++ (c_dot :: s2 ++ c_colon :: s3 ++ c_rparen :: r4))
      by (rewrite <- !app_assoc; reflexivity).
    apply slice_mid; lens. }
  rewrite L1.
  destruct (parse_int 64 s1) as [sec| |]; try reflexivity.
  assert (L2 : go_slice (((a ++ c_lparen :: s1) ++ c_dot :: s2) ++ c_colon :: s3 ++ c_rparen :: r4)
                 (S (length s1) + length a + 1) (S (length s2) + (S (length s1) + length a)) = Some s2).
  { replace (((a ++ c_lparen :: s1) ++ c_dot :: s2) ++ c_colon :: s3 ++ c_rparen :: r4)
      with (((a ++ c_lparen :: s1) ++ [c_dot]) ++ s2 ++ (c_colon :: s3 ++ c_rparen :: r4))
      by (rewrite <- !app_assoc; reflexivity).
    apply slice_mid; lens. }
  rewrite L2.
  destruct (parse_int 64 s2) as [msec| |]; try reflexivity.
  assert (L3 : go_slice (((a ++ c_lparen :: s1) ++ c_dot :: s2) ++ c_colon :: s3 ++ c_rparen :: r4)
                 (S (length s2) + (S (length s1) + length a) + 1)
                 (S (length s3) + (S (length s2) + (S (length s1) + length a))) = Some s3).
  { replace (((a ++ c_lparen :: s1) ++ c_dot :: s2) ++ c_colon :: s3 ++ c_rparen :: r4)
      with ((((a ++ c_lparen :: s1) ++ c_dot :: s2) ++ [c_colon]) ++ s3 ++ (c_rparen :: r4))
      by (rewrite <- !app_assoc; reflexivity).
    apply slice_mid; lens. }
  rewrite L3.
  destruct (parse_uint 32 s3) as [sq| |]; try reflexivity.
  f_equal. lia.
Qed.

(* what an accepted header looks like: the text up to the first '(' (anything without '('), then between
   the first '.' after it, the first ':' after that and the first ')' after that three accepted numbers;
   e is the offset of that ')' *)
Definition header_wf (m : str) (sec msec : Z) (sq : N) (e : nat) : Prop :=
  exists a s1 s2 s3 rest,
    m = a ++ c_lparen :: s1 ++ c_dot :: s2 ++ c_colon :: s3 ++ c_rparen :: rest /\
    ~ In c_lparen a /\ ~ In c_dot s1 /\ ~ In c_colon s2 /\ ~ In c_rparen s3 /\
    parse_int 64 s1 = NumOk sec /\ parse_int 64 s2 = NumOk msec /\ parse_uint 32 s3 = NumOk sq /\
    e = length a + 1 + length s1 + 1 + length s2 + 1 + length s3.

Lemma header_clean_ok m sec msec sq e :
  header_clean m = HOk sec msec sq e <-> header_wf m sec msec sq e.
Proof.
  unfold header_clean, header_wf. split.
  - destruct (cut_byte c_lparen m) as [[a r1]|] eqn:E1; [|discriminate].
    destruct (cut_byte c_dot r1) as [[s1 r2]|] eqn:E2; [|discriminate].
    destruct (cut_byte c_colon r2) as [[s2 r3]|] eqn:E3; [|discriminate].
    destruct (cut_byte c_rparen r3) as [[s3 r4]|] eqn:E4; [|discriminate].
    destruct (parse_int 64 s1) as [sec'| |] eqn:P1; try discriminate.
    destruct (parse_int 64 s2) as [msec'| |] eqn:P2; try discriminate.
    destruct (parse_uint 32 s3) as [sq'| |] eqn:P3; try discriminate.
    intros [= <- <- <- <-].
    apply cut_byte_spec in E1, E2, E3, E4.
    destruct E1 as [-> N1]. destruct E2 as [-> N2]. destruct E3 as [-> N3]. destruct E4 as [-> N4].
    exists a, s1, s2, s3, r4. repeat (split; [assumption || reflexivity|]). reflexivity.
  - intros (a & s1 & s2 & s3 & r4 & -> & N1 & N2 & N3 & N4 & P1 & P2 & P3 & ->).
    rewrite (cut_byte_app _ _ _ N1), (cut_byte_app _ _ _ N2), (cut_byte_app _ _ _ N3), (cut_byte_app _ _ _ N4).
    rewrite P1, P2, P3. reflexivity.
Qed.

Lemma header_clean_no_panic m : header_clean m <> HPanic.
Proof.
  unfold header_clean.
  destruct (cut_byte c_lparen m) as [[a r1]|]; [|discriminate].
  destruct (cut_byte c_dot r1) as [[s1 r2]|]; [|discriminate].
  destruct (cut_byte c_colon r2) as [[s2 r3]|]; [|discriminate].
  destruct (cut_byte c_rparen r3) as [[s3 r4]|]; [|discriminate].
  destruct (parse_int 64 s1); try discriminate.
  destruct (parse_int 64 s2); try discriminate.
  destruct (parse_uint 32 s3); discriminate.
Qed.

Lemma header_wf_end m sec msec sq e : header_wf m sec msec sq e -> e < length m.
Proof.
  intros (a & s1 & s2 & s3 & r4 & -> & _ & _ & _ & _ & _ & _ & _ & ->). lens.
Qed.

(* ------------------------------------------------------------------ Parse *)

Definition parse_clean (typ : N) (message : str) : result :=
  match trim_space message with
  | None => PUnmodelled
  | Some m =>
      match header_clean m with
      | HOk sec msec sq e => POk (mkMsg typ sec msec sq (index_of_message (skipn e m)) m)
      | _ => PErrHeader
      end
  end.

Theorem parse_is_clean typ message : parse typ message = parse_clean typ message.
Proof.
  unfold parse, parse_clean. destruct (trim_space message) as [m|]; [|reflexivity].
  rewrite parse_audit_header_clean.
  destruct (header_clean m) as [sec msec sq e| |] eqn:E; [|reflexivity|].
  - apply header_clean_ok in E. apply header_wf_end in E.
    rewrite slice_from_ok by lia. reflexivity.
  - exfalso. exact (header_clean_no_panic m E).
Qed.

(* ------------------------------------------------------------------ GetAuditMessageType *)

Section TableLemmas.
  Variable type_of : str -> option N.

  Definition get_type_clean (name : str) : tyres :=
    if existsb non_ascii name then TyUnmodelled else
    match type_of (to_upper_ascii name) with
    | Some t => TyOk t
    | None =>
    match cut_byte c_lbrack (to_upper_ascii name) with None => TyErr | Some (_, r) =>
    match cut_byte c_rbrack r with None => TyErr | Some (n, _) =>
    match parse_uint 16 n with NumOk v => TyOk v | NumSyntax | NumRange => TyErr end
    end end end.

  Theorem get_type_is_clean name : get_type type_of name = get_type_clean name.
  Proof.
    unfold get_type, get_type_clean. destruct (existsb non_ascii name); [reflexivity|].
    destruct (type_of (to_upper_ascii name)); [reflexivity|].
    rewrite index_byte_cut.
    destruct (cut_byte c_lbrack (to_upper_ascii name)) as [[a r]|] eqn:E1; [|reflexivity].
    apply cut_byte_spec in E1. destruct E1 as [-> _].
    replace (a ++ c_lbrack :: r) with ((a ++ [c_lbrack]) ++ r) by (rewrite <- app_assoc; reflexivity).
    rewrite (slice_from_app (a ++ [c_lbrack]) r) by lens.
    rewrite index_byte_cut.
    destruct (cut_byte c_rbrack r) as [[n b]|] eqn:E2; [|reflexivity].
    apply cut_byte_spec in E2. destruct E2 as [-> _].
    rewrite slice_to_ok by lens. rewrite firstn_app_len by reflexivity. reflexivity.
  Qed.

  Lemma get_type_no_panic name : get_type type_of name <> TyPanic.
  Proof.
    rewrite get_type_is_clean. unfold get_type_clean.
    destruct (existsb non_ascii name); [discriminate|].
    destruct (type_of (to_upper_ascii name)); [discriminate|].
    destruct (cut_byte c_lbrack (to_upper_ascii name)) as [[a r]|]; [|discriminate].
    destruct (cut_byte c_rbrack r) as [[n b]|]; [|discriminate].
    destruct (parse_uint 16 n); discriminate.
  Qed.

  (* which names are types: ASCII only, and, upper-cased, either in the table or of the form
     <anything without '['> '[' <digits, value < 65536> ']' <anything> *)
  Theorem get_type_ok_iff name t :
    get_type type_of name = TyOk t <->
    existsb non_ascii name = false /\
    (type_of (to_upper_ascii name) = Some t \/
     type_of (to_upper_ascii name) = None /\
     exists a n b, to_upper_ascii name = a ++ c_lbrack :: n ++ c_rbrack :: b /\
                   ~ In c_lbrack a /\ ~ In c_rbrack n /\ parse_uint 16 n = NumOk t).
  Proof.
    rewrite get_type_is_clean. unfold get_type_clean.
    destruct (existsb non_ascii name); [split; [discriminate|intros [H _]; discriminate]|].
    destruct (type_of (to_upper_ascii name)) as [t'|].
    - split.
      + intros [= ->]. split; [reflexivity|left; reflexivity].
      + intros [_ [[= ->]|[H _]]]; [reflexivity|discriminate].
    - split.
      + destruct (cut_byte c_lbrack (to_upper_ascii name)) as [[a r]|] eqn:E1; [|discriminate].
        destruct (cut_byte c_rbrack r) as [[n b]|] eqn:E2; [|discriminate].
        destruct (parse_uint 16 n) as [v| |] eqn:P; try discriminate.
        intros [= ->]. apply cut_byte_spec in E1, E2. destruct E1 as [E1 N1]. destruct E2 as [-> N2].
        split; [reflexivity|]. right. split; [reflexivity|]. exists a, n, b. repeat split; assumption.
      + intros [_ [H|[_ (a & n & b & E & N1 & N2 & P)]]]; [discriminate|].
        rewrite E, (cut_byte_app _ _ _ N1), (cut_byte_app _ _ _ N2), P. reflexivity.
  Qed.

  Lemma get_type_unmodelled_iff name :
    get_type type_of name = TyUnmodelled <-> existsb non_ascii name = true.
  Proof.
    rewrite get_type_is_clean. unfold get_type_clean.
    destruct (existsb non_ascii name); [split; reflexivity|].
    split; [|discriminate].
    destruct (type_of (to_upper_ascii name)); [discriminate|].
    destruct (cut_byte c_lbrack (to_upper_ascii name)) as [[a r]|]; [|discriminate].
    destruct (cut_byte c_rbrack r) as [[n b]|]; [|discriminate].
    destruct (parse_uint 16 n); discriminate.
  Qed.
End TableLemmas.

(* ------------------------------------------------------------------ strings.Index *)

Lemma go_index_unfold s sep :
  go_index s sep =
  if has_prefix sep s then Some 0
  else match s with
       | [] => None
       | _ :: r => match go_index r sep with Some i => Some (S i) | None => None end
       end.
Proof. destruct s; reflexivity. Qed.

Lemma has_prefix_true p s : has_prefix p s = true <-> exists t, s = p ++ t.
Proof.
  unfold has_prefix. split.
  - destruct (strip_prefix p s) as [t|] eqn:E; [|discriminate]. intros _. exists t.
    apply strip_prefix_some. exact E.
  - intros [t ->]. rewrite strip_prefix_app. reflexivity.
Qed.

Lemma has_prefix_len p s : has_prefix p s = true -> length p <= length s.
Proof. intros H. apply has_prefix_true in H. destruct H as [t ->]. rewrite app_length. lia. Qed.

(* has_prefix looks at the first (length p) bytes only *)
Lemma has_prefix_app_long p : forall s x, length p <= length s -> has_prefix p (s ++ x) = has_prefix p s.
Proof.
  unfold has_prefix. induction p as [|c p IH]; intros s x H; [reflexivity|].
  destruct s as [|y s]; [cbn in H; lia|]. cbn [app strip_prefix].
  destruct (Ascii.eqb c y); [|reflexivity]. apply IH. cbn in H. lia.
Qed.

Lemma has_prefix_firstn p : forall s n, length p <= n -> has_prefix p (firstn n s) = has_prefix p s.
Proof.
  unfold has_prefix. induction p as [|c p IH]; intros s n H; [reflexivity|].
  destruct n as [|n]; [cbn in H; lia|]. destruct s as [|y s]; [reflexivity|].
  cbn [firstn strip_prefix]. destruct (Ascii.eqb c y); [|reflexivity]. apply IH. cbn in H. lia.
Qed.

(* appending bytes that do not occur in p creates no occurrence of p *)
Lemma has_prefix_app_fresh p : forall s x,
  (forall c, In c x -> ~ In c p) -> has_prefix p (s ++ x) = has_prefix p s.
Proof.
  unfold has_prefix. induction p as [|c p IH]; intros s x H; [reflexivity|].
  destruct s as [|y s].
  - cbn [app]. destruct x as [|w x]; [reflexivity|]. cbn [strip_prefix].
    destruct (Ascii.eqb_spec c w) as [->|_]; [|reflexivity].
    exfalso. apply (H w); left; reflexivity.
  - cbn [app strip_prefix]. destruct (Ascii.eqb c y); [|reflexivity].
    apply IH. intros d Hd Hp. apply (H d Hd). right. exact Hp.
Qed.

Lemma go_index_some_len p : forall s i, go_index s p = Some i -> i + length p <= length s.
Proof.
  induction s as [|y s IH]; intros i; rewrite go_index_unfold.
  - destruct (has_prefix p []) eqn:E; [|discriminate]. intros [= <-]. apply has_prefix_len in E. cbn in *. lia.
  - destruct (has_prefix p (y :: s)) eqn:E.
    + intros [= <-]. apply has_prefix_len in E. lia.
    + destruct (go_index s p) as [j|] eqn:G; [|discriminate]. intros [= <-].
      specialize (IH j eq_refl). cbn [length]. lia.
Qed.

(* go_index s p = Some i: p occurs at i and at no smaller offset *)
Definition first_at (p s : str) (i : nat) : Prop :=
  has_prefix p (skipn i s) = true /\ forall j, j < i -> has_prefix p (skipn j s) = false.

Lemma go_index_first_at p : forall s i, go_index s p = Some i <-> first_at p s i.
Proof.
  induction s as [|y s IH]; intros i; rewrite go_index_unfold.
  - destruct (has_prefix p []) eqn:E.
    + split.
      * intros [= <-]. split; [exact E|intros j Hj; lia].
      * intros [H1 H2]. destruct i as [|i]; [reflexivity|]. specialize (H2 0 (Nat.lt_0_succ i)).
        cbn in H2. congruence.
    + split; [discriminate|]. intros [H1 _]. rewrite skipn_nil in H1. congruence.
  - destruct (has_prefix p (y :: s)) eqn:E.
    + split.
      * intros [= <-]. split; [exact E|intros j Hj; lia].
      * intros [H1 H2]. destruct i as [|i]; [reflexivity|]. specialize (H2 0 (Nat.lt_0_succ i)).
        cbn in H2. congruence.
    + destruct (go_index s p) as [k|] eqn:G.
      * split.
        -- intros [= <-]. destruct (proj1 (IH k) eq_refl) as [H1 H2]. split; [exact H1|].
           intros [|j] Hj; [exact E|]. cbn [skipn]. apply H2. lia.
        -- intros [H1 H2]. destruct i as [|i]; [cbn in H1; congruence|]. f_equal.
           assert (X : Some k = Some i).
           { apply IH. split; [exact H1|]. intros j Hj. apply (H2 (S j)). lia. }
           congruence.
      * split; [discriminate|]. intros [H1 H2]. destruct i as [|i]; [cbn in H1; congruence|].
        assert (X : @None nat = Some i).
        { apply IH. split; [exact H1|]. intros j Hj. apply (H2 (S j)). lia. }
        discriminate.
Qed.

(* an existing first occurrence stays the first one whatever is appended *)
Lemma go_index_app_stable p : forall s i x, go_index s p = Some i -> go_index (s ++ x) p = Some i.
Proof.
  induction s as [|y s IH]; intros i x; rewrite go_index_unfold.
  - destruct (has_prefix p []) eqn:E; [|discriminate]. intros [= <-].
    rewrite go_index_unfold. rewrite has_prefix_app_long by (apply has_prefix_len; exact E).
    rewrite E. reflexivity.
  - destruct (has_prefix p (y :: s)) eqn:E.
    + intros [= <-]. rewrite go_index_unfold, has_prefix_app_long by (apply has_prefix_len; exact E).
      rewrite E. reflexivity.
    + destruct (go_index s p) as [j|] eqn:G; [|discriminate]. intros [= <-].
      rewrite go_index_unfold. cbn [app].
      change (y :: s ++ x) with ((y :: s) ++ x).
      rewrite has_prefix_app_long by (apply go_index_some_len in G; cbn [length]; lia).
      rewrite E. cbn [app]. rewrite (IH j x eq_refl). reflexivity.
Qed.

(* ... and depends only on the bytes up to its end *)
Lemma go_index_firstn p : forall s i, go_index s p = Some i -> go_index (firstn (i + length p) s) p = Some i.
Proof.
  induction s as [|y s IH]; intros i; rewrite go_index_unfold.
  - destruct (has_prefix p []) eqn:E; [|discriminate]. intros [= <-]. rewrite firstn_nil, go_index_unfold, E. reflexivity.
  - destruct (has_prefix p (y :: s)) eqn:E.
    + intros [= <-]. rewrite go_index_unfold, has_prefix_firstn by lia. rewrite E. reflexivity.
    + destruct (go_index s p) as [j|] eqn:G; [|discriminate]. intros [= <-].
      cbn [Nat.add firstn]. rewrite go_index_unfold.
      change (y :: firstn (j + length p) s) with (firstn (S (j + length p)) (y :: s)).
      rewrite has_prefix_firstn by lia. rewrite E. cbn [firstn]. rewrite (IH j eq_refl). reflexivity.
Qed.

(* appending bytes foreign to p (p non-empty) does not change Index at all *)
Lemma go_index_fresh_nil p x : p <> [] -> (forall c, In c x -> ~ In c p) -> go_index x p = None.
Proof.
  intros Hp. induction x as [|w x IH]; intros H; rewrite go_index_unfold.
  - destruct p; [congruence|reflexivity].
  - assert (E : has_prefix p (w :: x) = false).
    { change (w :: x) with ([] ++ w :: x). rewrite has_prefix_app_fresh by exact H. destruct p; [congruence|reflexivity]. }
    rewrite E, IH; [reflexivity|]. intros c Hc. apply H. right. exact Hc.
Qed.

Lemma go_index_app_fresh p : forall s x,
  p <> [] -> (forall c, In c x -> ~ In c p) -> go_index (s ++ x) p = go_index s p.
Proof.
  intros s x Hp H. induction s as [|y s IH].
  - cbn [app]. rewrite (go_index_fresh_nil p x Hp H). destruct p; [congruence|reflexivity].
  - rewrite (go_index_unfold (y :: s)). cbn [app]. rewrite go_index_unfold.
    change (y :: s ++ x) with ((y :: s) ++ x). rewrite has_prefix_app_fresh by exact H.
    cbn [app]. rewrite IH. reflexivity.
Qed.

(* a decomposition pre ++ p ++ rest in which p does not begin inside pre *)
Lemma go_index_decomp p pre rest :
  (forall j, j < length pre -> has_prefix p (skipn j (pre ++ p ++ rest)) = false) ->
  go_index (pre ++ p ++ rest) p = Some (length pre).
Proof.
  intros H. apply go_index_first_at. split; [|exact H].
  rewrite (skipn_app_len pre (p ++ rest) (length pre) eq_refl). apply has_prefix_true. exists rest. reflexivity.
Qed.

(* ------------------------------------------------------------------ strings.TrimSpace *)

Lemma trim_start_cons c r :
  trim_start (c :: r) = if non_ascii c then None else if is_space c then trim_start r else Some (c :: r).
Proof. reflexivity. Qed.

Lemma trim_stop_cons c r :
  trim_stop (c :: r) =
  match trim_stop r with
  | None => None
  | Some [] => if non_ascii c then None else if is_space c then Some [] else Some [c]
  | Some (x :: r') => Some (c :: x :: r')
  end.
Proof. reflexivity. Qed.

Lemma trim_start_spaces ws : all_space ws = true -> trim_start ws = Some [].
Proof.
  induction ws as [|c r IH]; [reflexivity|]. cbn [all_space forallb]. intros H.
  apply andb_true_iff in H. destruct H as [Hc Hr].
  rewrite trim_start_cons, (space_ascii c Hc), Hc. apply IH. exact Hr.
Qed.

Lemma trim_stop_spaces ws : all_space ws = true -> trim_stop ws = Some [].
Proof.
  induction ws as [|c r IH]; [reflexivity|]. cbn [all_space forallb]. intros H.
  apply andb_true_iff in H. destruct H as [Hc Hr].
  rewrite trim_stop_cons, (IH Hr), (space_ascii c Hc), Hc. reflexivity.
Qed.

(* leading ASCII white space is dropped *)
Lemma trim_start_lead ws s : all_space ws = true -> trim_start (ws ++ s) = trim_start s.
Proof.
  induction ws as [|c r IH]; [reflexivity|]. cbn [all_space forallb app]. intros H.
  apply andb_true_iff in H. destruct H as [Hc Hr].
  rewrite trim_start_cons, (space_ascii c Hc), Hc. apply IH. exact Hr.
Qed.

(* trailing ASCII white space is dropped *)
Lemma trim_stop_trail s ws : all_space ws = true -> trim_stop (s ++ ws) = trim_stop s.
Proof.
  intros H. induction s as [|c r IH].
  - cbn [app]. apply trim_stop_spaces. exact H.
  - cbn [app]. rewrite !trim_stop_cons, IH. reflexivity.
Qed.

Lemma trim_start_trail s ws : all_space ws = true ->
  trim_start (s ++ ws) = match trim_start s with
                         | None => None
                         | Some [] => Some []
                         | Some (x :: t) => Some ((x :: t) ++ ws)
                         end.
Proof.
  intros H. induction s as [|c r IH].
  - cbn [app]. rewrite (trim_start_spaces ws H). reflexivity.
  - cbn [app]. rewrite !trim_start_cons. destruct (non_ascii c); [reflexivity|].
    destruct (is_space c); [exact IH|reflexivity].
Qed.

Theorem trim_space_trail s ws : all_space ws = true -> trim_space (s ++ ws) = trim_space s.
Proof.
  intros H. unfold trim_space. rewrite (trim_start_trail s ws H).
  destruct (trim_start s) as [[|x t]|]; [reflexivity| |reflexivity].
  apply trim_stop_trail. exact H.
Qed.

Theorem trim_space_lead ws s : all_space ws = true -> trim_space (ws ++ s) = trim_space s.
Proof. intros H. unfold trim_space. rewrite (trim_start_lead ws s H). reflexivity. Qed.

(* a text whose first and last bytes are ASCII and not white space is left as it is *)
Definition edge_ok (c : ascii) : bool := negb (is_space c) && negb (non_ascii c).

Lemma trim_stop_last t c : edge_ok c = true -> trim_stop (t ++ [c]) = Some (t ++ [c]).
Proof.
  intros H. apply andb_true_iff in H. destruct H as [H1 H2].
  apply negb_true_iff in H1. apply negb_true_iff in H2.
  induction t as [|x t IH].
  - cbn [app]. rewrite trim_stop_cons. cbn [trim_stop]. rewrite H1, H2. reflexivity.
  - cbn [app]. rewrite trim_stop_cons, IH. destruct (t ++ [c]) eqn:E; [destruct t; discriminate|reflexivity].
Qed.

Lemma trim_space_core c t d :
  edge_ok c = true -> edge_ok d = true -> trim_space (c :: t ++ [d]) = Some (c :: t ++ [d]).
Proof.
  intros Hc Hd. unfold trim_space. rewrite trim_start_cons.
  apply andb_true_iff in Hc. destruct Hc as [H1 H2].
  apply negb_true_iff in H1. apply negb_true_iff in H2. rewrite H1, H2.
  change (c :: t ++ [d]) with ((c :: t) ++ [d]). apply trim_stop_last. exact Hd.
Qed.

Lemma trim_space_single c : edge_ok c = true -> trim_space [c] = Some [c].
Proof.
  intros Hc. unfold trim_space. rewrite trim_start_cons.
  pose proof Hc as Hc'. apply andb_true_iff in Hc. destruct Hc as [H1 H2].
  apply negb_true_iff in H1. apply negb_true_iff in H2. rewrite H1, H2.
  apply (trim_stop_last [] c Hc').
Qed.

(* the non-empty texts TrimSpace returns unchanged *)
Definition trimmed_text (t : str) : Prop :=
  match t with
  | [] => True
  | c :: r => edge_ok c = true /\ edge_ok (last r c) = true
  end.

Lemma trimmed_fix t : trimmed_text t -> trim_space t = Some t.
Proof.
  destruct t as [|c r]; [reflexivity|]. intros [Hc Hl].
  destruct r as [|x r'] using rev_ind.
  - apply trim_space_single. exact Hc.
  - rewrite last_last in Hl. apply trim_space_core; assumption.
Qed.

Lemma last_cons {A} (r : list A) : forall x c, last (x :: r) c = last r x.
Proof.
  induction r as [|y r IH]; intros x c; [reflexivity|].
  change (last (x :: y :: r) c) with (last (y :: r) c). rewrite (IH y c), (IH y x). reflexivity.
Qed.

Lemma trim_start_some s t : trim_start s = Some t ->
  exists ws, s = ws ++ t /\ all_space ws = true /\
             match t with [] => True | c :: _ => is_space c = false /\ non_ascii c = false end.
Proof.
  revert t. induction s as [|c r IH]; intros t.
  - intros [= <-]. exists []. repeat split.
  - rewrite trim_start_cons. destruct (non_ascii c) eqn:Hn; [discriminate|].
    destruct (is_space c) eqn:Hs.
    + intros H. destruct (IH t H) as (ws & -> & Hw & Ht). exists (c :: ws). split; [reflexivity|]. split; [|exact Ht].
      cbn. rewrite Hs. exact Hw.
    + intros [= <-]. exists []. split; [reflexivity|]. split; [reflexivity|]. split; assumption.
Qed.

Lemma trim_stop_some s t : trim_stop s = Some t ->
  exists ws, s = t ++ ws /\ all_space ws = true /\
             match t with [] => True | c :: r => is_space (last r c) = false /\ non_ascii (last r c) = false end.
Proof.
  revert t. induction s as [|c r IH]; intros t.
  - intros [= <-]. exists []. repeat split.
  - rewrite trim_stop_cons. destruct (trim_stop r) as [[|x r']|] eqn:E; [| |discriminate].
    + destruct (IH [] eq_refl) as (ws & -> & Hw & _).
      destruct (non_ascii c) eqn:Hn; [discriminate|]. destruct (is_space c) eqn:Hs.
      * intros [= <-]. exists (c :: ws). split; [reflexivity|]. split; [|exact I]. cbn. rewrite Hs. exact Hw.
      * intros [= <-]. exists ws. split; [reflexivity|]. split; [exact Hw|]. cbn. split; assumption.
    + intros [= <-]. destruct (IH (x :: r') eq_refl) as (ws & -> & Hw & Ht).
      exists ws. split; [reflexivity|]. split; [exact Hw|]. rewrite last_cons. exact Ht.
Qed.

(* exactly which texts TrimSpace (inside the modelled domain) maps to t *)
Theorem trim_space_some_iff s t :
  trim_space s = Some t <->
  exists ws1 ws2, s = ws1 ++ t ++ ws2 /\ all_space ws1 = true /\ all_space ws2 = true /\ trimmed_text t.
Proof.
  split.
  - unfold trim_space. destruct (trim_start s) as [s1|] eqn:E1; [|discriminate]. intros E2.
    destruct (trim_start_some s s1 E1) as (ws1 & -> & H1 & F).
    destruct (trim_stop_some s1 t E2) as (ws2 & -> & H2 & L).
    exists ws1, ws2. repeat (split; [assumption || reflexivity|]).
    destruct t as [|c r]; [exact I|]. cbn [app] in F. destruct F as [F1 F2]. destruct L as [L1 L2].
    unfold trimmed_text, edge_ok. rewrite F1, F2, L1, L2. split; reflexivity.
  - intros (ws1 & ws2 & -> & H1 & H2 & T). rewrite (trim_space_lead ws1 _ H1), (trim_space_trail t ws2 H2).
    apply trimmed_fix. exact T.
Qed.


(* ---- the texts on which TrimSpace leaves ASCII (trim_space = None), exactly ---- *)

Fixpoint drop_ws (s : str) : str :=
  match s with
  | [] => []
  | c :: r => if is_space c then drop_ws r else s
  end.

(* s without its leading and trailing ASCII white space *)
Definition strip_ws (s : str) : str := rev (drop_ws (rev (drop_ws s))).

Lemma drop_ws_decomp s :
  exists ws, s = ws ++ drop_ws s /\ all_space ws = true /\
             match drop_ws s with [] => True | c :: _ => is_space c = false end.
Proof.
  induction s as [|c r IH].
  - exists []. repeat split.
  - cbn [drop_ws]. destruct (is_space c) eqn:Hc.
    + destruct IH as (ws & E & W & F). exists (c :: ws). split; [cbn [app]; rewrite <- E; reflexivity|].
      split; [cbn; rewrite Hc; exact W|exact F].
    + exists []. split; [reflexivity|]. split; [reflexivity|exact Hc].
Qed.

Lemma all_space_rev ws : all_space (rev ws) = all_space ws.
Proof.
  induction ws as [|c r IH]; [reflexivity|]. cbn [rev]. rewrite all_space_app, IH. cbn. rewrite andb_true_r. apply andb_comm.
Qed.

(* s = ws1 ++ strip_ws s ++ ws2, and the stripped text is empty or begins and ends with non-white bytes *)
Lemma strip_ws_decomp s :
  exists ws1 ws2, s = ws1 ++ strip_ws s ++ ws2 /\ all_space ws1 = true /\ all_space ws2 = true /\
    match strip_ws s with [] => True | c :: r => is_space c = false /\ is_space (last r c) = false end.
Proof.
  destruct (drop_ws_decomp s) as (ws1 & E1 & W1 & F1).
  destruct (drop_ws_decomp (rev (drop_ws s))) as (ws2 & E2 & W2 & F2).
  unfold strip_ws. set (u := drop_ws s) in *. set (v := drop_ws (rev u)) in *.
  assert (EU : u = rev v ++ rev ws2).
  { rewrite <- rev_app_distr, <- E2, rev_involutive. reflexivity. }
  exists ws1, (rev ws2). split; [rewrite <- EU; exact E1|]. split; [exact W1|]. split; [rewrite all_space_rev; exact W2|].
  destruct v as [|d v']; [exact I|]. cbn [rev].
  destruct (rev v' ++ [d]) as [|c r] eqn:ET; [destruct (rev v'); discriminate|].
  split.
  - rewrite EU in F1. cbn [rev] in F1. rewrite ET in F1. cbn [app] in F1. exact F1.
  - assert (L : last (c :: r) c = d) by (rewrite <- ET; apply last_last).
    destruct r as [|y r']; [cbn in L; subst c; exact F2|].
    rewrite last_cons in L. rewrite L. exact F2.
Qed.

Lemma trim_stop_last_gen t d : is_space d = false ->
  trim_stop (t ++ [d]) = if non_ascii d then None else Some (t ++ [d]).
Proof.
  intros Hd. induction t as [|x t IH].
  - cbn [app]. rewrite trim_stop_cons. cbn [trim_stop]. rewrite Hd. reflexivity.
  - cbn [app]. rewrite trim_stop_cons, IH. destruct (non_ascii d); [reflexivity|].
    destruct (t ++ [d]) eqn:E; [destruct t; discriminate|reflexivity].
Qed.

(* TrimSpace in one equation: the ASCII-stripped text, unless that text begins or ends with a byte >= 0x80 *)
Theorem trim_space_strip s :
  trim_space s = match strip_ws s with
                 | [] => Some []
                 | c :: r => if non_ascii c || non_ascii (last r c) then None else Some (c :: r)
                 end.
Proof.
  destruct (strip_ws_decomp s) as (ws1 & ws2 & E & W1 & W2 & F).
  rewrite E at 1. rewrite (trim_space_lead ws1 _ W1), (trim_space_trail _ ws2 W2).
  destruct (strip_ws s) as [|c r]; [reflexivity|]. destruct F as [Fc Fl].
  unfold trim_space. rewrite trim_start_cons, Fc. destruct (non_ascii c) eqn:Nc; [reflexivity|]. cbn [orb].
  destruct r as [|y r'] using rev_ind.
  - cbn [last]. rewrite Nc. pose proof (trim_stop_last_gen [] c Fc) as X. cbn [app] in X. rewrite Nc in X. exact X.
  - rewrite last_last in *. change (c :: r' ++ [y]) with ((c :: r') ++ [y]). apply trim_stop_last_gen. exact Fl.
Qed.

Corollary trim_space_none_iff s :
  trim_space s = None <->
  exists c r, strip_ws s = c :: r /\ (non_ascii c = true \/ non_ascii (last r c) = true).
Proof.
  rewrite trim_space_strip. destruct (strip_ws s) as [|c r].
  - split; [discriminate|]. intros (c & r & H & _). discriminate.
  - destruct (non_ascii c || non_ascii (last r c)) eqn:E.
    + split; [|reflexivity]. intros _. exists c, r. split; [reflexivity|]. apply orb_true_iff. exact E.
    + split; [discriminate|]. intros (c' & r' & [= <- <-] & H). apply orb_true_iff in H. congruence.
Qed.

Lemma firstn_skipn_app_left {A} (l x : list A) a n :
  a + n <= length l -> firstn n (skipn a (l ++ x)) = firstn n (skipn a l).
Proof.
  intros H. rewrite skipn_app. replace (a - length l) with 0 by lia. rewrite skipn_O.
  rewrite firstn_app. replace (n - length (skipn a l)) with 0 by (rewrite skipn_length; lia).
  rewrite firstn_O. apply app_nil_r.
Qed.

Lemma skipn_app_left {A} (l x : list A) a : a <= length l -> skipn a (l ++ x) = skipn a l ++ x.
Proof. intros H. rewrite skipn_app. replace (a - length l) with 0 by lia. rewrite skipn_O. reflexivity. Qed.

(* ------------------------------------------------------------------ ParseLogLine *)

Lemma msg_token_len : length msg_token = 4. Proof. reflexivity. Qed.
Lemma type_token_len : length type_token = 5. Proof. reflexivity. Qed.

Lemma space_not_in_msg_token ws :
  all_space ws = true -> forall c, In c ws -> ~ In c msg_token.
Proof.
  intros H c Hc. unfold all_space in H. rewrite forallb_forall in H. specialize (H c Hc).
  intros Hin. cbn in Hin. destruct Hin as [<-|[<-|[<-|[<-|[]]]]]; vm_compute in H; discriminate.
Qed.

Section LineLemmas.
  Variable type_of : str -> option N.

  (* the type name of a line whose first "msg=" is at i >= 6: the bytes [5, i-1) *)
  Definition type_name (l : str) (i : nat) : str := firstn (i - 6) (skipn 5 l).
  (* the text behind that "msg=" *)
  Definition msg_text (l : str) (i : nat) : str := skipn (i + 4) l.

  Definition parse_log_line_clean (l : str) : result :=
    match go_index l msg_token with
    | None => PErrHeader
    | Some i =>
        if i <? 6 then PErrHeader
        else match get_type type_of (type_name l i) with
             | TyOk t => parse_clean t (msg_text l i)
             | TyErr => PErrType
             | TyPanic => PPanic
             | TyUnmodelled => PUnmodelled
             end
    end.

  Theorem parse_log_line_is_clean l : parse_log_line type_of l = parse_log_line_clean l.
  Proof.
    unfold parse_log_line, parse_log_line_clean.
    destruct (go_index l msg_token) as [i|] eqn:E; [|reflexivity].
    rewrite type_token_len, msg_token_len. change (5 + 1) with 6.
    destruct (Nat.ltb_spec i 6) as [H|H]; [reflexivity|].
    apply go_index_some_len in E. rewrite msg_token_len in E.
    rewrite slice_ok by lia. replace (i - 1 - 5) with (i - 6) by lia. fold (type_name l i).
    destruct (get_type type_of (type_name l i)); try reflexivity.
    rewrite slice_from_ok by lia. apply parse_is_clean.
  Qed.

  (* no slice expression of ParseLogLine, GetAuditMessageType, Parse or parseAuditHeader is ever out of range *)
  Theorem parse_log_line_never_panics l : parse_log_line type_of l <> PPanic.
  Proof.
    rewrite parse_log_line_is_clean. unfold parse_log_line_clean.
    destruct (go_index l msg_token) as [i|]; [|discriminate].
    destruct (i <? 6); [discriminate|].
    destruct (get_type type_of (type_name l i)) eqn:E; try discriminate.
    - unfold parse_clean. destruct (trim_space (msg_text l i)); [|discriminate].
      destruct (header_clean s); discriminate.
    - exfalso. exact (get_type_no_panic type_of _ E).
  Qed.

  (* ---------------------------------------------------------------- trailing ASCII white space *)

  Theorem parse_log_line_trailing_ws l ws :
    all_space ws = true -> parse_log_line type_of (l ++ ws) = parse_log_line type_of l.
  Proof.
    intros H. rewrite !parse_log_line_is_clean. unfold parse_log_line_clean.
    rewrite go_index_app_fresh by (try discriminate; apply space_not_in_msg_token; exact H).
    destruct (go_index l msg_token) as [i|] eqn:E; [|reflexivity].
    destruct (i <? 6) eqn:E6; [reflexivity|]. apply Nat.ltb_ge in E6.
    apply go_index_some_len in E. rewrite msg_token_len in E.
    assert (T : type_name (l ++ ws) i = type_name l i).
    { unfold type_name. apply firstn_skipn_app_left. lia. }
    assert (M : msg_text (l ++ ws) i = msg_text l i ++ ws).
    { unfold msg_text. apply skipn_app_left. lia. }
    rewrite T, M. destruct (get_type type_of (type_name l i)); try reflexivity.
    unfold parse_clean. rewrite (trim_space_trail _ ws H). reflexivity.
  Qed.

  Corollary parse_log_line_newline l : parse_log_line type_of (l ++ ["010"%char]) = parse_log_line type_of l.
  Proof. apply parse_log_line_trailing_ws. reflexivity. Qed.

  Corollary parse_log_line_crlf l :
    parse_log_line type_of (l ++ ["013"%char; "010"%char]) = parse_log_line type_of l.
  Proof. apply parse_log_line_trailing_ws. reflexivity. Qed.

  (* ---------------------------------------------------------------- ASCII white space directly behind "msg=" *)

  Theorem parse_log_line_ws_after_msg l i ws :
    go_index l msg_token = Some i -> all_space ws = true ->
    parse_log_line type_of (firstn (i + 4) l ++ ws ++ skipn (i + 4) l) = parse_log_line type_of l.
  Proof.
    intros E H. rewrite !parse_log_line_is_clean. unfold parse_log_line_clean.
    pose proof (go_index_firstn msg_token l i E) as F. rewrite msg_token_len in F.
    rewrite (go_index_app_stable msg_token _ i (ws ++ skipn (i + 4) l) F), E.
    destruct (i <? 6) eqn:E6; [reflexivity|]. apply Nat.ltb_ge in E6.
    apply go_index_some_len in E. rewrite msg_token_len in E.
    assert (L : length (firstn (i + 4) l) = i + 4) by (apply firstn_length_le; lia).
    assert (T : type_name (firstn (i + 4) l ++ ws ++ skipn (i + 4) l) i = type_name l i).
    { unfold type_name. rewrite firstn_skipn_app_left by lia.
      rewrite <- (firstn_skipn (i + 4) l) at 2. rewrite firstn_skipn_app_left by lia. reflexivity. }
    assert (M : msg_text (firstn (i + 4) l ++ ws ++ skipn (i + 4) l) i = ws ++ msg_text l i).
    { unfold msg_text. apply skipn_app_len. lia. }
    rewrite T, M. destruct (get_type type_of (type_name l i)); try reflexivity.
    unfold parse_clean. rewrite (trim_space_lead ws _ H). reflexivity.
  Qed.

  (* ---------------------------------------------------------------- which lines are accepted *)

  Theorem parse_log_line_ok_iff l m :
    parse_log_line type_of l = POk m <->
    exists i t sec msec sq e raw,
      go_index l msg_token = Some i /\ 6 <= i /\
      get_type type_of (type_name l i) = TyOk t /\
      trim_space (msg_text l i) = Some raw /\
      header_wf raw sec msec sq e /\
      m = mkMsg t sec msec sq (index_of_message (skipn e raw)) raw.
  Proof.
    rewrite parse_log_line_is_clean. unfold parse_log_line_clean. split.
    - destruct (go_index l msg_token) as [i|]; [|discriminate].
      destruct (Nat.ltb_spec i 6) as [H6|H6]; [discriminate|].
      destruct (get_type type_of (type_name l i)) as [t| | |] eqn:ET; try discriminate.
      unfold parse_clean. destruct (trim_space (msg_text l i)) as [raw|] eqn:ER; [|discriminate].
      destruct (header_clean raw) as [sec msec sq e| |] eqn:EH; try discriminate.
      intros [= <-]. apply header_clean_ok in EH.
      exists i, t, sec, msec, sq, e, raw. repeat (split; [assumption || reflexivity|]). reflexivity.
    - intros (i & t & sec & msec & sq & e & raw & -> & H6 & -> & ER & EH & ->).
      destruct (Nat.ltb_spec i 6) as [H|_]; [lia|].
      unfold parse_clean. rewrite ER. apply header_clean_ok in EH. rewrite EH. reflexivity.
  Qed.

  (* the four outcomes partition the lines; which error when *)
  Theorem parse_log_line_err_header_iff l :
    parse_log_line type_of l = PErrHeader <->
    go_index l msg_token = None \/
    (exists i, go_index l msg_token = Some i /\ i < 6) \/
    (exists i t raw, go_index l msg_token = Some i /\ 6 <= i /\ get_type type_of (type_name l i) = TyOk t /\
                     trim_space (msg_text l i) = Some raw /\ forall sec msec sq e, ~ header_wf raw sec msec sq e).
  Proof.
    rewrite parse_log_line_is_clean. unfold parse_log_line_clean. split.
    - destruct (go_index l msg_token) as [i|]; [|left; reflexivity].
      destruct (Nat.ltb_spec i 6) as [H6|H6]; [intros _; right; left; exists i; split; [reflexivity|exact H6]|].
      destruct (get_type type_of (type_name l i)) as [t| | |] eqn:ET; try discriminate.
      unfold parse_clean. destruct (trim_space (msg_text l i)) as [raw|] eqn:ER; [|discriminate].
      destruct (header_clean raw) as [sec msec sq e| |] eqn:EH; try discriminate.
      + intros _. right. right. exists i, t, raw. repeat (split; [assumption || reflexivity|]).
        intros sec msec sq e W. apply header_clean_ok in W. congruence.
      + exfalso. exact (header_clean_no_panic raw EH).
    - intros [->|[(i & -> & H6)|(i & t & raw & -> & H6 & -> & ER & NW)]]; [reflexivity| |].
      + destruct (Nat.ltb_spec i 6); [reflexivity|lia].
      + destruct (Nat.ltb_spec i 6); [lia|]. unfold parse_clean. rewrite ER.
        destruct (header_clean raw) as [sec msec sq e| |] eqn:EH; try reflexivity.
        apply header_clean_ok in EH. exfalso. exact (NW _ _ _ _ EH).
  Qed.

  Theorem parse_log_line_err_type_iff l :
    parse_log_line type_of l = PErrType <->
    exists i, go_index l msg_token = Some i /\ 6 <= i /\ get_type type_of (type_name l i) = TyErr.
  Proof.
    rewrite parse_log_line_is_clean. unfold parse_log_line_clean. split.
    - destruct (go_index l msg_token) as [i|]; [|discriminate].
      destruct (Nat.ltb_spec i 6) as [H6|H6]; [discriminate|].
      destruct (get_type type_of (type_name l i)) as [t| | |] eqn:ET; try discriminate.
      + unfold parse_clean. destruct (trim_space (msg_text l i)); [|discriminate]. destruct (header_clean s); discriminate.
      + intros _. exists i. repeat split; assumption.
    - intros (i & -> & H6 & ->). destruct (Nat.ltb_spec i 6); [lia|reflexivity].
  Qed.

  Theorem parse_log_line_unmodelled_iff l :
    parse_log_line type_of l = PUnmodelled <->
    exists i, go_index l msg_token = Some i /\ 6 <= i /\
      (existsb non_ascii (type_name l i) = true \/
       exists t, get_type type_of (type_name l i) = TyOk t /\ trim_space (msg_text l i) = None).
  Proof.
    rewrite parse_log_line_is_clean. unfold parse_log_line_clean. split.
    - destruct (go_index l msg_token) as [i|]; [|discriminate].
      destruct (Nat.ltb_spec i 6) as [H6|H6]; [discriminate|].
      destruct (get_type type_of (type_name l i)) as [t| | |] eqn:ET; try discriminate.
      + unfold parse_clean. destruct (trim_space (msg_text l i)) eqn:ER.
        * destruct (header_clean s); discriminate.
        * intros _. exists i. split; [reflexivity|]. split; [exact H6|]. right. exists t. split; assumption.
      + intros _. exists i. split; [reflexivity|]. split; [exact H6|]. left.
        apply (get_type_unmodelled_iff type_of). exact ET.
    - intros (i & -> & H6 & [H|(t & -> & ER)]); destruct (Nat.ltb_spec i 6); try lia.
      + apply (get_type_unmodelled_iff type_of) in H. rewrite H. reflexivity.
      + unfold parse_clean. rewrite ER. reflexivity.
  Qed.

  (* ---------------------------------------------------------------- ranges *)

  Theorem parse_log_line_ranges l m :
    parse_log_line type_of l = POk m ->
    (a_seq m < 4294967296)%N /\
    (- 9223372036854775808 <= a_sec m < 9223372036854775808)%Z /\
    (- 9223372036854775808 <= a_msec m < 9223372036854775808)%Z /\
    (-1 <= a_offset m)%Z /\
    ((forall n t, type_of n = Some t -> (t < 65536)%N) -> (a_typ m < 65536)%N).
  Proof.
    intros H. apply parse_log_line_ok_iff in H.
    destruct H as (i & t & sec & msec & sq & e & raw & _ & _ & ET & _ & W & ->).
    destruct W as (a & s1 & s2 & s3 & rest & _ & _ & _ & _ & _ & P1 & P2 & P3 & _).
    cbn [a_seq a_sec a_msec a_offset a_typ].
    split; [exact (parse_uint_range 32 s3 sq ltac:(lia) P3)|].
    split; [exact (parse_int_range 64 s1 sec ltac:(lia) P1)|].
    split; [exact (parse_int_range 64 s2 msec ltac:(lia) P2)|].
    split.
    - unfold index_of_message. destruct (index_pred is_msg_start (skipn e raw)); lia.
    - intros HT. apply get_type_ok_iff in ET. destruct ET as [_ [ET|[_ (a' & n & b & _ & _ & _ & P)]]].
      + exact (HT _ _ ET).
      + exact (parse_uint_range 16 n t ltac:(lia) P).
  Qed.
End LineLemmas.

(* ------------------------------------------------------------------ well-formed lines *)

Definition c_eq : ascii := "="%char.
Definition c_sp : ascii := " "%char.

(* "audit(" s1 "." s2 ":" s3 ")" *)
Definition header_text (s1 s2 s3 : str) : str :=
  s2l "audit" ++ c_lparen :: s1 ++ c_dot :: s2 ++ c_colon :: s3 ++ [c_rparen].

(* a body that TrimSpace leaves alone at its end: empty, or ending in an ASCII byte that is not white space *)
Definition clean_end (b : str) : Prop :=
  match b with [] => True | c :: r => edge_ok (last r c) = true end.

Lemma last_app_cons {A} (x : list A) : forall y b d, last (x ++ y :: b) d = last b y.
Proof.
  induction x as [|z x IH]; intros y b d.
  - cbn [app]. apply last_cons.
  - cbn [app]. rewrite last_cons. apply IH.
Qed.

Lemma int_bytes_not s z c :
  parse_int 64 s = NumOk z -> is_digit c = false -> c <> c_plus -> c <> c_minus -> ~ In c s.
Proof.
  intros P D H1 H2 Hin. destruct (parse_int_ok_bytes 64 s z c ltac:(lia) P Hin) as [H|[H|H]]; congruence.
Qed.

Lemma uint_bytes_not bits s v c :
  (bits <= 64)%N -> parse_uint bits s = NumOk v -> is_digit c = false -> ~ In c s.
Proof. intros Hb P D Hin. rewrite (parse_uint_ok_bytes bits s v c Hb P Hin) in D. discriminate. Qed.

Lemma header_text_wf s1 s2 s3 sec msec sq b :
  parse_int 64 s1 = NumOk sec -> parse_int 64 s2 = NumOk msec -> parse_uint 32 s3 = NumOk sq ->
  header_wf (header_text s1 s2 s3 ++ b) sec msec sq (5 + 1 + length s1 + 1 + length s2 + 1 + length s3).
Proof.
  intros P1 P2 P3. exists (s2l "audit"), s1, s2, s3, b.
  split; [unfold header_text; norm_app; reflexivity|].
  split; [intros H; cbn in H; repeat (destruct H as [H|H]; [discriminate H|]); exact H|].
  split; [apply (int_bytes_not s1 sec c_dot P1); [reflexivity|discriminate|discriminate]|].
  split; [apply (int_bytes_not s2 msec c_colon P2); [reflexivity|discriminate|discriminate]|].
  split; [apply (uint_bytes_not 32 s3 sq c_rparen ltac:(lia) P3); reflexivity|].
  repeat (split; [assumption|]). reflexivity.
Qed.

Lemma header_text_trimmed s1 s2 s3 b : clean_end b -> trimmed_text (header_text s1 s2 s3 ++ b).
Proof.
  intros H.
  assert (E : header_text s1 s2 s3 ++ b =
              "a"%char :: (s2l "udit" ++ c_lparen :: s1 ++ c_dot :: s2 ++ c_colon :: s3) ++ c_rparen :: b).
  { unfold header_text. cbn [s2l list_ascii_of_string]. norm_app. reflexivity. }
  rewrite E. split; [reflexivity|]. rewrite last_app_cons.
  destruct b as [|c r]; [reflexivity|]. rewrite last_cons. exact H.
Qed.

Lemma header_text_tail s1 s2 s3 b :
  skipn (5 + 1 + length s1 + 1 + length s2 + 1 + length s3) (header_text s1 s2 s3 ++ b) = c_rparen :: b.
Proof.
  replace (header_text s1 s2 s3 ++ b)
    with ((s2l "audit" ++ c_lparen :: s1 ++ c_dot :: s2 ++ c_colon :: s3) ++ c_rparen :: b).
  - apply skipn_app_len. cbn [s2l list_ascii_of_string]. lens.
  - unfold header_text. norm_app. reflexivity.
Qed.

Section WellFormed.
  Variable type_of : str -> option N.

  (* Field extraction.  P: the first five bytes (never looked at); T: the type name; lead / trail: ASCII white
     space; s1, s2, s3: any strings the number parsers accept (sign and leading zeros included for s1, s2; leading
     zeros for s3); b: the rest of the record.  Hypothesis [Hfirst]: in  P T " msg="  the final "msg=" is the
     first one (see type_prefix_first for "type=" and a T without '='). *)
  Theorem wf_line_parses P T t lead s1 s2 s3 sec msec sq b trail :
    length P = 5 ->
    go_index (P ++ T ++ c_sp :: msg_token) msg_token = Some (6 + length T) ->
    get_type type_of T = TyOk t ->
    all_space lead = true -> all_space trail = true ->
    parse_int 64 s1 = NumOk sec -> parse_int 64 s2 = NumOk msec -> parse_uint 32 s3 = NumOk sq ->
    clean_end b ->
    parse_log_line type_of (P ++ T ++ c_sp :: msg_token ++ lead ++ header_text s1 s2 s3 ++ b ++ trail)
    = POk (mkMsg t sec msec sq (index_of_message (c_rparen :: b)) (header_text s1 s2 s3 ++ b)).
  Proof.
    intros HP Hfirst HT Hl Htr P1 P2 P3 Hb.
    set (rest := lead ++ header_text s1 s2 s3 ++ b ++ trail).
    assert (EL : P ++ T ++ c_sp :: msg_token ++ rest = (P ++ T ++ c_sp :: msg_token) ++ rest).
    { norm_app. reflexivity. }
    rewrite EL.
    pose proof (go_index_app_stable msg_token _ _ rest Hfirst) as GI.
    apply parse_log_line_ok_iff.
    exists (6 + length T), t, sec, msec, sq, (5 + 1 + length s1 + 1 + length s2 + 1 + length s3), (header_text s1 s2 s3 ++ b).
    split; [exact GI|]. split; [lia|].
    assert (TN : type_name ((P ++ T ++ c_sp :: msg_token) ++ rest) (6 + length T) = T).
    { unfold type_name. rewrite <- !app_assoc. rewrite (skipn_app_len P _ 5 (eq_sym HP)).
      replace (6 + length T - 6) with (length T) by lia. apply firstn_app_len. reflexivity. }
    rewrite TN. split; [exact HT|].
    assert (MT : msg_text ((P ++ T ++ c_sp :: msg_token) ++ rest) (6 + length T) = rest).
    { unfold msg_text. apply skipn_app_len. rewrite !app_length. cbn [length]. rewrite msg_token_len. lia. }
    rewrite MT. split.
    - unfold rest. rewrite (trim_space_lead lead _ Hl). rewrite app_assoc. rewrite (trim_space_trail _ trail Htr).
      apply trimmed_fix. apply header_text_trimmed. exact Hb.
    - split; [apply header_text_wf; assumption|]. rewrite header_text_tail. reflexivity.
  Qed.

  (* "msg=" cannot begin inside a stretch without '=' that is followed by "msg=" *)
  Lemma has_prefix_msg_no_eq a rest :
    a <> [] -> ~ In c_eq a -> has_prefix msg_token (a ++ msg_token ++ rest) = false.
  Proof.
    intros Ha Hn. unfold has_prefix, msg_token. cbn [s2l list_ascii_of_string].
    destruct a as [|x [|y [|z [|w a']]]]; [congruence| | | |]; cbn [app strip_prefix].
    - destruct (Ascii.eqb "m" x); reflexivity.
    - destruct (Ascii.eqb "m" x); [|reflexivity]. destruct (Ascii.eqb "s" y); reflexivity.
    - destruct (Ascii.eqb "m" x); [|reflexivity]. destruct (Ascii.eqb "s" y); [|reflexivity].
      destruct (Ascii.eqb "g" z); reflexivity.
    - destruct (Ascii.eqb "m" x); [|reflexivity]. destruct (Ascii.eqb "s" y); [|reflexivity].
      destruct (Ascii.eqb "g" z); [|reflexivity].
      destruct (Ascii.eqb_spec "="%char w) as [<-|_]; [|reflexivity].
      exfalso. apply Hn. right. right. right. left. reflexivity.
  Qed.

  Lemma go_index_no_eq a rest : ~ In c_eq a -> go_index (a ++ msg_token ++ rest) msg_token = Some (length a).
  Proof.
    induction a as [|x a IH]; intros Hn.
    - cbn [app length]. rewrite go_index_unfold.
      assert (E : has_prefix msg_token (msg_token ++ rest) = true) by (apply has_prefix_true; exists rest; reflexivity).
      rewrite E. reflexivity.
    - rewrite go_index_unfold. rewrite (has_prefix_msg_no_eq (x :: a) rest) by (try exact Hn; discriminate).
      cbn [app]. rewrite IH by (intros H; apply Hn; right; exact H). reflexivity.
  Qed.

  Lemma type_prefix_first T :
    ~ In c_eq T -> go_index (type_token ++ T ++ c_sp :: msg_token) msg_token = Some (6 + length T).
  Proof.
    intros Hn.
    assert (G : go_index ((T ++ [c_sp]) ++ msg_token ++ []) msg_token = Some (length (T ++ [c_sp]))).
    { apply go_index_no_eq. intros H. apply in_app_or in H. destruct H as [H|[H|[]]]; [exact (Hn H)|discriminate H]. }
    rewrite app_nil_r, <- app_assoc in G. cbn [app] in G. rewrite app_length in G. cbn [length] in G.
    unfold type_token. cbn [s2l list_ascii_of_string app].
    do 5 (rewrite go_index_unfold; unfold has_prefix at 1, msg_token at 1; cbn [s2l list_ascii_of_string strip_prefix Ascii.eqb Bool.eqb]).
    rewrite G. f_equal. lia.
  Qed.

  (* the record as auditd writes it *)
  Corollary wf_type_line_parses T t lead s1 s2 s3 sec msec sq b trail :
    ~ In c_eq T -> get_type type_of T = TyOk t ->
    all_space lead = true -> all_space trail = true ->
    parse_int 64 s1 = NumOk sec -> parse_int 64 s2 = NumOk msec -> parse_uint 32 s3 = NumOk sq ->
    clean_end b ->
    parse_log_line type_of (type_token ++ T ++ c_sp :: msg_token ++ lead ++ header_text s1 s2 s3 ++ b ++ trail)
    = POk (mkMsg t sec msec sq (index_of_message (c_rparen :: b)) (header_text s1 s2 s3 ++ b)).
  Proof.
    intros Hn. apply wf_line_parses; [reflexivity|apply type_prefix_first; exact Hn].
  Qed.

  (* one more byte in front of "type=": the type name is read one byte late ("=" ++ T) *)
  Corollary shifted_line_parses x T t lead s1 s2 s3 sec msec sq b trail :
    ~ In c_eq T -> get_type type_of (c_eq :: T) = TyOk t ->
    all_space lead = true -> all_space trail = true ->
    parse_int 64 s1 = NumOk sec -> parse_int 64 s2 = NumOk msec -> parse_uint 32 s3 = NumOk sq ->
    clean_end b ->
    parse_log_line type_of (x :: type_token ++ T ++ c_sp :: msg_token ++ lead ++ header_text s1 s2 s3 ++ b ++ trail)
    = POk (mkMsg t sec msec sq (index_of_message (c_rparen :: b)) (header_text s1 s2 s3 ++ b)).
  Proof.
    intros Hn HT. 
    change (x :: type_token ++ T ++ c_sp :: msg_token ++ lead ++ header_text s1 s2 s3 ++ b ++ trail)
      with ((x :: s2l "type") ++ (c_eq :: T) ++ c_sp :: msg_token ++ lead ++ header_text s1 s2 s3 ++ b ++ trail).
    apply wf_line_parses; [reflexivity| |exact HT].
    pose proof (type_prefix_first T Hn) as G.
    change ((x :: s2l "type") ++ (c_eq :: T) ++ c_sp :: msg_token) with (x :: type_token ++ T ++ c_sp :: msg_token).
    rewrite go_index_unfold.
    assert (E : has_prefix msg_token (x :: type_token ++ T ++ c_sp :: msg_token) = false).
    { unfold has_prefix, msg_token, type_token. cbn [s2l list_ascii_of_string app strip_prefix].
      destruct (Ascii.eqb "m" x); reflexivity. }
    rewrite E, G. cbn [length]. f_equal.
  Qed.

  Lemma shifted_line_err x T lead s1 s2 s3 b trail :
    ~ In c_eq T -> get_type type_of (c_eq :: T) = TyErr ->
    parse_log_line type_of (x :: type_token ++ T ++ c_sp :: msg_token ++ lead ++ header_text s1 s2 s3 ++ b ++ trail)
    = PErrType.
  Proof.
    intros Hn HT. apply parse_log_line_err_type_iff.
    set (rest := lead ++ header_text s1 s2 s3 ++ b ++ trail).
    exists (7 + length T).
    assert (GI : go_index (x :: type_token ++ T ++ c_sp :: msg_token) msg_token = Some (7 + length T)).
    { rewrite go_index_unfold.
      assert (E : has_prefix msg_token (x :: type_token ++ T ++ c_sp :: msg_token) = false).
      { unfold has_prefix, msg_token, type_token. cbn [s2l list_ascii_of_string app strip_prefix].
        destruct (Ascii.eqb "m" x); reflexivity. }
      rewrite E, (type_prefix_first T Hn). reflexivity. }
    assert (EL : x :: type_token ++ T ++ c_sp :: msg_token ++ rest = (x :: type_token ++ T ++ c_sp :: msg_token) ++ rest).
    { norm_app. reflexivity. }
    rewrite EL. split; [apply go_index_app_stable; exact GI|]. split; [lia|].
    assert (TN : type_name ((x :: type_token ++ T ++ c_sp :: msg_token) ++ rest) (7 + length T) = c_eq :: T).
    { unfold type_name.
      replace ((x :: type_token ++ T ++ c_sp :: msg_token) ++ rest)
        with ((x :: s2l "type") ++ ((c_eq :: T) ++ (c_sp :: msg_token) ++ rest))
        by (unfold type_token; cbn [s2l list_ascii_of_string]; norm_app; reflexivity).
      rewrite (skipn_app_len (x :: s2l "type") _ 5 eq_refl).
      replace (7 + length T - 6) with (length (c_eq :: T)) by (cbn [length]; lia). apply firstn_app_len. reflexivity. }
    rewrite TN. exact HT.
  Qed.
  Theorem leading_byte_shifts_type x T lead s1 s2 s3 b trail :
    ~ In c_eq T ->
    (forall t sec msec sq,
       get_type type_of (c_eq :: T) = TyOk t -> all_space lead = true -> all_space trail = true ->
       parse_int 64 s1 = NumOk sec -> parse_int 64 s2 = NumOk msec -> parse_uint 32 s3 = NumOk sq -> clean_end b ->
       parse_log_line type_of (x :: type_token ++ T ++ c_sp :: msg_token ++ lead ++ header_text s1 s2 s3 ++ b ++ trail)
       = POk (mkMsg t sec msec sq (index_of_message (c_rparen :: b)) (header_text s1 s2 s3 ++ b))) /\
    (get_type type_of (c_eq :: T) = TyErr ->
     parse_log_line type_of (x :: type_token ++ T ++ c_sp :: msg_token ++ lead ++ header_text s1 s2 s3 ++ b ++ trail)
     = PErrType).
  Proof.
    intros Hn. split.
    - intros t sec msec sq. apply shifted_line_parses. exact Hn.
    - apply shifted_line_err. exact Hn.
  Qed.
End WellFormed.

(* ------------------------------------------------------------------ time *)

(* a millisecond field 0..999 (what auditd writes) is the time sec + msec/1000 exactly *)
Lemma time_unix_plain sec msec : (0 <= msec < 1000)%Z -> time_unix sec msec = (sec, (msec * 1000000)%Z).
Proof.
  intros H. unfold time_unix.
  assert (W : wrap64 (msec * 1000000) = (msec * 1000000)%Z).
  { unfold wrap64. rewrite Z.mod_small by lia. lia. }
  rewrite W.
  destruct (Z.ltb_spec (msec * 1000000) 0) as [H1|H1]; [lia|].
  destruct (Z.leb_spec 1000000000 (msec * 1000000)) as [H2|H2]; [lia|]. reflexivity.
Qed.

(* ------------------------------------------------------------------ parseAuditLogs *)
From AM Require Import Model.AuditProc Proofs.AuditProcLemmas.

Section Loop.
  Variable type_of : str -> option N.

  (* a line of ASCII white space only - the blank line "\n" in particular - is NOT skipped by parseAuditLogs
     (only "" is) and is rejected by the parser *)
  Lemma white_line_rejected l : all_space l = true -> parse_log_line type_of l = PErrHeader.
  Proof.
    intros H. apply parse_log_line_err_header_iff. left.
    apply go_index_fresh_nil; [discriminate|]. apply space_not_in_msg_token. exact H.
  Qed.

  Lemma white_line_fate ws : ws <> [] -> all_space ws = true ->
    audit_is_empty ws = false /\ parse_log_line type_of ws = PErrHeader /\
    audit_line_fate type_of ws = LStops PErrHeader /\ audit_line_fate type_of [] = LSkipped.
  Proof.
    intros Hne Hws. assert (E : audit_is_empty ws = false) by (destruct ws; [congruence|reflexivity]).
    split; [exact E|]. split; [exact (white_line_rejected ws Hws)|]. split; [|reflexivity].
    unfold audit_line_fate. rewrite E, (white_line_rejected ws Hws). reflexivity.
  Qed.

  Lemma parse_opt_some l m : parse_opt type_of l = Some m <-> parse_log_line type_of l = POk m.
  Proof.
    unfold parse_opt. destruct (parse_log_line type_of l); split; try discriminate; intros [= ->]; reflexivity.
  Qed.

  Lemma parse_opt_none l :
    parse_log_line type_of l <> PUnmodelled ->
    (parse_opt type_of l = None <-> parse_log_line type_of l = PErrHeader \/ parse_log_line type_of l = PErrType).
  Proof.
    intros HU. pose proof (parse_log_line_never_panics type_of l) as HP. unfold parse_opt.
    destruct (parse_log_line type_of l); split; try discriminate; try congruence; try tauto;
      try (intros [H|H]; discriminate).
  Qed.

  Lemma audit_is_empty_false l : audit_is_empty l = false <-> l <> [].
  Proof. destruct l; cbn; split; congruence. Qed.

  (* C15_parse_first with the parser inside the model: the loop stops at the first non-empty line that
     ParseLogLine rejects, and which lines those are is parse_log_line_ok_iff / _err_header_iff / _err_type_iff *)
  Theorem parse_stops_at ls :
    (forall l, In l ls -> parse_log_line type_of l <> PUnmodelled) ->
    match snd (parse_loop str amsg audit_is_empty (parse_opt type_of) ls) with
    | Some l => exists pre post, ls = pre ++ l :: post /\ l <> [] /\
                  (parse_log_line type_of l = PErrHeader \/ parse_log_line type_of l = PErrType) /\
                  (forall x, In x pre -> x <> [] -> exists m, parse_log_line type_of x = POk m) /\
                  fst (parse_loop str amsg audit_is_empty (parse_opt type_of) ls)
                  = pushes str amsg audit_is_empty (parse_opt type_of) pre
    | None => (forall x, In x ls -> x <> [] -> exists m, parse_log_line type_of x = POk m) /\
              fst (parse_loop str amsg audit_is_empty (parse_opt type_of) ls)
              = pushes str amsg audit_is_empty (parse_opt type_of) ls
    end.
  Proof.
    intros HU. pose proof (parse_loop_spec str amsg audit_is_empty (parse_opt type_of) ls) as S.
    destruct (snd (parse_loop str amsg audit_is_empty (parse_opt type_of) ls)) as [l|].
    - destruct S as (pre & post & E & H1 & H2 & H3 & H4). exists pre, post.
      split; [exact E|]. split; [apply audit_is_empty_false; exact H1|].
      split; [apply parse_opt_none; [apply HU; rewrite E; apply in_or_app; right; left; reflexivity|exact H2]|].
      split; [|exact H4]. intros x Hx Hne.
      specialize (H3 x Hx (proj2 (audit_is_empty_false x) Hne)).
      destruct (parse_opt type_of x) as [m|] eqn:Em; [|congruence]. exists m. apply parse_opt_some. exact Em.
    - destruct S as [H3 H4]. split; [|exact H4]. intros x Hx Hne.
      specialize (H3 x Hx (proj2 (audit_is_empty_false x) Hne)).
      destruct (parse_opt type_of x) as [m|] eqn:Em; [|congruence]. exists m. apply parse_opt_some. exact Em.
  Qed.

  (* what the parser hands to the reassembler has a uint32 sequence number: the hypothesis (mseq m < two32) of
     the reassembler tie (the C15_reassembler_from_source theorems) holds of every pushed message *)
  Lemma pushed_seq_u32 l m : parse_opt type_of l = Some m -> (a_seq m < 4294967296)%N.
  Proof. intros H. apply parse_opt_some in H. apply (parse_log_line_ranges type_of l m H). Qed.
End Loop.

(* ------------------------------------------------------------------ the record as auditd prints it *)

(* "type=" T " msg=audit(" sec "." msec (three digits, zero padded) ":" seq ")" b "\n"  with the numbers in plain
   decimal: exactly those values come back, and RawData is the text from "audit(" on without the newline *)
Theorem wf_decimal_line_parses (type_of : str -> option N) T t sec msec sq b :
  ~ In c_eq T -> get_type type_of T = TyOk t ->
  (sec < 2 ^ 63)%N -> (msec < 2 ^ 63)%N -> (sq < 2 ^ 32)%N -> clean_end b ->
  parse_log_line type_of (type_token ++ T ++ c_sp :: msg_token ++ header_text (dec sec) (dec3 msec) (dec sq) ++ b ++ ["010"%char])
  = POk (mkMsg t (Z.of_N sec) (Z.of_N msec) sq (index_of_message (c_rparen :: b))
               (header_text (dec sec) (dec3 msec) (dec sq) ++ b)).
Proof.
  intros Hn HT H1 H2 H3 Hb.
  destruct (dec_spec sec) as (A1 & A2 & A3). destruct (dec3_spec msec) as (B1 & B2 & B3).
  destruct (dec_spec sq) as (C1 & C2 & C3).
  apply (wf_type_line_parses type_of T t [] (dec sec) (dec3 msec) (dec sq) (Z.of_N sec) (Z.of_N msec) sq b ["010"%char] Hn HT eq_refl eq_refl).
  - rewrite <- A3 at 2. apply parse_int_digits; try assumption; [lia|rewrite A3; exact H1].
  - rewrite <- B3 at 2. apply parse_int_digits; try assumption; [lia|rewrite B3; exact H2].
  - rewrite <- C3 at 2. apply parse_uint_digits; try assumption; [lia|rewrite C3; exact H3].
  - exact Hb.
Qed.
