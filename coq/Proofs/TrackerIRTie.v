(* The hand-written sequential model of the session correlator (Model/Tracker.v: tstep, on which the
   Tracker* theorems rest) IS the interpretation (Model/TrackerIR.v) of the programs go2v translates from
   processors/auditd/sessiontracker/sessiontracker.go (Gen/TrackerProg.v), for all states and operations.
   A change of the Go source that changes a generated program makes this file fail to compile.

   Method: the interpreter is unfolded on the concrete programs (cbn), then case analysis on exactly the
   conditions the model branches on.  Three places where the source and the model are written differently
   but mean the same are bridged by lemmas: the loop of writeAndClearCache vs [write_all] ([loop_spec],
   [helper_spec]); Has followed by WithLockedValueDo vs one [aget] (case analysis on the [aget]);
   !u.hasRUL vs [unbound] ([cand_eq], [clean_eq]). *)
From Coq Require Import List Bool Arith ZArith NArith String Lia.
Import ListNotations.
From AM Require Import Lib.Assoc Model.Tracker Model.TrackerIR Gen.TrackerProg.

(* one call of the API, as the generated programs say *)
Definition run_generated (st : tstate) (o : top) : option (tstate * list emitted * tres) :=
  match o with
  | RemoteLogin l c => run_prog prog_RemoteLogin st (args_login l c)
  | Audit ev now => run_prog prog_AuditdEvent st (args_event ev now)
  | CleanSess t => run_prog prog_DeleteUsersWithoutLoginsBefore st (args_time t)
  | CleanLogins t => run_prog prog_DeleteRemoteUserLoginsBefore st (args_time t)
  end.

(* the map library is as the interpreter assumes (checked by the generator) *)
Lemma syncmap_checked : syncmap_as_assumed = tt.
Proof. reflexivity. Qed.

Lemma filter_opt_some {A} (f : A -> bool) l : filter_opt (fun x => Some (f x)) l = Some (filter f l).
Proof. induction l as [|x r IH]; cbn; [reflexivity|]. rewrite IH. destruct (f x); reflexivity. Qed.

Lemma existsb_opt_some {A} (f : A -> bool) l : existsb_opt (fun x => Some (f x)) l = Some (existsb f l).
Proof. induction l as [|x r IH]; cbn; [reflexivity|]. rewrite IH. reflexivity. Qed.

Notation mk := Build_istate.
Notation mkst := Build_tstate.

Ltac norm_state :=
  cbv [bind_var set_out set_st set_elem set_wb set_env set_user set_login set_key set_defers set_sess set_parked
       i_st i_out i_env i_user i_login i_key i_elem i_defers sess parked wb init_istate bind_session bind_login];
  cbn [fst snd].

Definition loop_body : stmt :=
  (SWrite "err" EvElem ;; SIf (BNot (BErrIsNil "err")) (SReturn (RErrVar "err")) SSkip)%tir.

Lemma loop_spec a l f :
  (forall e s, f e s = run_stmt a loop_body (set_elem s (Some e))) ->
  forall evs ss pk b out env u lk lg ky el df,
  u_login u = Some l ->
  exists env' el',
  for_each f evs (mk (mkst ss pk b) out env (Some (u, lk)) lg ky el df) =
  match write_all b l evs with
  | (b', o, true) => Norm (mk (mkst ss pk b') (out ++ o) env' (Some (u, lk)) lg ky el' df)
  | (b', o, false) => Ret (mk (mkst ss pk b') (out ++ o) env' (Some (u, lk)) lg ky el' df) (RvRaw FromWrite)
  end.
Proof.
  intros Hf.
  induction evs as [|e r IH]; intros ss pk b out env u lk lg ky el df Hl.
  - exists env, el. cbn. rewrite app_nil_r. reflexivity.
  - cbn [for_each write_all]. rewrite Hf.
    destruct u as [ad pd ul ca]. cbn in Hl. subst ul.
    cbn. destruct (write1 b) as [b' [|]]; cbn.
    + norm_state.
      match goal with |- context [for_each f r (Build_istate (Build_tstate ?ss ?pk ?b) ?o ?env (Some (?u, ?lk)) ?lg ?ky ?el ?df)] =>
        destruct (IH ss pk b o env u lk lg ky el df eq_refl) as [env' [el' H]] end.
      norm_state. exists env', el'. rewrite H.
      destruct (write_all b' l r) as [[b'' o] [|]]; cbn; rewrite <- app_assoc; reflexivity.
    + eexists. eexists. rewrite app_nil_r. reflexivity.
Qed.

Lemma helper_is : helper_writeAndClearCache =
  (SIf BCachedIsEmpty (SReturn RNil) SSkip ;; SForCached loop_body ;; SUserCacheClear ;; SReturn RNil)%tir.
Proof. reflexivity. Qed.

Lemma helper_spec a ss pk b out u lk lg ky el l :
  u_login u = Some l -> lk <> Published ->
  exists env',
  run_stmt a helper_writeAndClearCache (mk (mkst ss pk b) out [] (Some (u, lk)) lg ky el []) =
  match write_all b l (u_cached u) with
  | (b', o, true) => Ret (mk (mkst ss pk b') (out ++ o) env' (Some (user_with_cached u [], lk)) lg ky el []) RvNil
  | (b', o, false) => Ret (mk (mkst ss pk b') (out ++ o) env' (Some (u, lk)) lg ky el []) (RvRaw FromWrite)
  end.
Proof.
  intros Hl Hlk. rewrite helper_is.
  destruct (u_cached u) as [|e r] eqn:Hc.
  - exists []. cbn. rewrite Hc. cbn. rewrite app_nil_r.
    destruct u as [ad pd ul ca]. cbn in Hc. subst ca. reflexivity.
  - cbn [run_stmt eval_b]. norm_state. rewrite Hc. cbn [is_empty].
    cbn [run_stmt]. norm_state. rewrite Hc.
    match goal with |- context [for_each ?f (e :: r) _] =>
      destruct (loop_spec a l f (fun _ _ => eq_refl) (e :: r) ss pk b out [] u lk lg ky el [] Hl) as [env' [el' H]] end.
    rewrite H.
    destruct (write_all b l (e :: r)) as [[b' o] [|]]; exists env'.
    + cbn. norm_state. destruct lk; try congruence; reflexivity.
    + reflexivity.
Qed.

#[local] Opaque helper_writeAndClearCache.

Ltac use_helper l :=
  match goal with
  | |- context [run_stmt ?a helper_writeAndClearCache
                  (Build_istate (Build_tstate ?ss ?pk ?b) ?out [] (Some (?u, ?lk)) ?lg ?ky ?el [])] =>
      let env' := fresh "env'" in let H := fresh "H" in
      destruct (helper_spec a ss pk b out u lk lg ky el l eq_refl ltac:(discriminate)) as [env' H];
      rewrite H; clear H
  end.

Lemma cand_eq p ss :
  filter (fun kv : N * user => negb (has_rul (snd kv)) && (u_pid (snd kv) =? p)%Z) ss =
  filter (fun su : N * user => unbound (snd su) && (u_pid (snd su) =? p)%Z) ss.
Proof.
  apply filter_ext. intros [k u]. unfold has_rul, unbound. cbn. destruct (u_login u); reflexivity.
Qed.

Lemma clean_eq t ss :
  filter (fun x : N * user => negb (negb (has_rul (snd x)) && (u_added (snd x) <? t)%Z)) ss =
  filter (fun su : N * user => negb (unbound (snd su) && (u_added (snd su) <? t)%Z)) ss.
Proof.
  apply filter_ext. intros [k u]. unfold has_rul, unbound. cbn. destruct (u_login u); reflexivity.
Qed.

Lemma clean_sess_from_source st t :
  run_prog prog_DeleteUsersWithoutLoginsBefore st (args_time t) = Some (clean_sess st t, [], ROk).
Proof.
  destruct st as [ss pk b]. unfold run_prog, prog_DeleteUsersWithoutLoginsBefore. cbn.
  rewrite filter_opt_some, clean_eq. reflexivity.
Qed.

Lemma clean_logins_from_source st t :
  run_prog prog_DeleteRemoteUserLoginsBefore st (args_time t) = Some (clean_logins st t, [], ROk).
Proof.
  destruct st as [ss pk b]. unfold run_prog, prog_DeleteRemoteUserLoginsBefore. cbn.
  rewrite filter_opt_some. reflexivity.
Qed.

(* [del_key] on the session the current user is the entry of: evaluated by these equations (letting cbn unfold it
   would leave the test [N.eqb n n] stuck in the middle of the state and duplicate the state at every update) *)
Lemma del_key_linked n ss pk b o e u lg k el d :
  del_key MSessions (KeyN n) (mk (mkst ss pk b) o e (Some (u, Linked n)) lg k el d) =
  Some (mk (mkst (adel N.eqb n ss) pk b) o e (Some (u, Detached)) lg k el d).
Proof. cbn. unfold unlink. cbn. rewrite N.eqb_refl. reflexivity. Qed.

Lemma del_key_logins z ss pk b o e u lg k el d :
  del_key MLogins (KeyZ z) (mk (mkst ss pk b) o e u lg k el d) =
  Some (mk (mkst ss (adel Z.eqb z pk) b) o e u lg k el d).
Proof. reflexivity. Qed.

#[local] Arguments del_key : simpl never.

Ltac use_del := norm_state; cbn; norm_state; cbv [fn_exit run_defers]; norm_state; first [rewrite del_key_linked | rewrite del_key_logins].

(* closes a goal whose two sides are the same once the state constructors are normalised; never falls back on
   an expensive conversion *)
Ltac same :=
  cbn; norm_state; cbn; norm_state;
  lazymatch goal with
  | |- context [fn_result] => fail "interpreter not evaluated"
  | |- context [run_stmt] => fail "interpreter not evaluated"
  | |- context [fn_exit] => fail "interpreter not evaluated"
  | |- context [del_key] => fail "interpreter not evaluated"
  | |- _ => reflexivity
  end.

Lemma remote_login_from_source st l c :
  run_prog prog_RemoteLogin st (args_login l c) = Some (remote_login st l c).
Proof.
  destruct st as [ss pk b]. unfold run_prog, prog_RemoteLogin, remote_login. cbn.
  destruct (validate l); cbn; [|same].
  rewrite filter_opt_some, cand_eq.
  match goal with |- context [pick c ?m] => destruct (pick c m) as [[k u]|]; cbn; [|same] end.
  rewrite existsb_opt_some. cbn. norm_state. use_helper l.
  unfold has_disp. cbn.
  destruct (write_all b l (u_cached u)) as [[b' o] [|]]; cbn.
  - destruct (existsb (fun x : aev => is_disp (a_type x)) (u_cached u)); cbn.
    + use_del. same.
    + same.
  - rewrite andb_false_r. same.
Qed.

Lemma audit_from_source st ev now :
  run_prog prog_AuditdEvent st (args_event ev now) = Some (audit_event st ev now).
Proof.
  destruct st as [ss pk b]. destruct ev as [id se ty pid].
  unfold run_prog, prog_AuditdEvent, audit_event. cbn.
  destruct se as [| |n]; cbn; try reflexivity.
  unfold ahas. destruct (aget N.eqb n ss) as [u|] eqn:E; cbn.
  - (* auditEventWithSession *)
    unfold audit_with_session. destruct u as [ad pd [l|] ca]; cbn; [|same].
    destruct ty as [| |k]; cbn; norm_state; use_helper l; cbn;
      (destruct (write_all b l ca) as [[b' o] [|]]; cbn;
       [destruct (write1 b') as [b'' [|]]; cbn|]);
      try use_del; same.
  - (* auditEventWithoutSession *)
    unfold audit_without_session. cbn.
    destruct ty as [| |k]; cbn; try same.
    destruct pid as [p|]; cbn; [|same].
    unfold ahas. destruct (aget Z.eqb p pk) as [l|] eqn:Ep; cbn; [|same].
    use_del. cbn. destruct (write1 b) as [b1 [|]]; same.
Qed.

(* MAIN TIE: for all states and operations, interpreting the program generated from the Go source of the
   method is the model's step; in particular the interpretation is never stuck. *)
Theorem tracker_from_source : forall st o, run_generated st o = Some (tstep st o).
Proof.
  intros st o. destruct o as [l c|ev now|t|t]; unfold run_generated, tstep.
  - apply remote_login_from_source.
  - apply audit_from_source.
  - apply clean_sess_from_source.
  - apply clean_logins_from_source.
Qed.

(* the same, read from the model's side *)
Corollary tstep_is_generated : forall st o r, tstep st o = r <-> run_generated st o = Some r.
Proof.
  intros st o r. rewrite tracker_from_source. split; [intros ->; reflexivity|intros [= ->]; reflexivity].
Qed.

Print Assumptions tracker_from_source.
