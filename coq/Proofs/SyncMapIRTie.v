(* The GenericSyncMap methods, as regenerated from internal/common/genericsyncmap.go (Gen/SyncMapProg.v), ARE the
   association-list operations the models are written with; and the two ways the correlator uses Iterate — act on
   the first entry satisfying a condition, delete every entry satisfying a condition — mean, for EVERY enumeration
   order Go may choose, what Model/Tracker.v / Model/TrackerIR.v say: some candidate is picked (any of them can
   be), respectively exactly the entries satisfying the condition are removed. *)
From Coq Require Import String List Bool Arith Lia Permutation.
Import ListNotations.
From AM Require Import Lib.Assoc Model.SyncMapIR Gen.SyncMapProg.
From AM Require Model.Tracker.
Open Scope string_scope.

Section Tie.
  Variables K V E : Type.
  Variable eqb : K -> K -> bool.
  Hypothesis eqb_spec : forall a b, reflect (a = b) (eqb a b).
  Notation amap := (list (K * V)).
  Notation run := (run_method K V E eqb gen_syncmap_methods).
  Notation mval := (mval K V E).

  (* ---------- each method is one association-list operation ---------- *)

  Theorem ctor_from_source : ctor_map K V gen_syncmap_ctor = [].
  Proof. reflexivity. Qed.

  Theorem load_from_source : forall k (m : amap),
    run [] [] "Load" [VKey k] m = Some (m, [VVal (aget eqb k m); VBool (ahas eqb k m)]).
  Proof. reflexivity. Qed.

  Theorem has_from_source : forall k (m : amap),
    run [] [] "Has" [VKey k] m = Some (m, [VBool (ahas eqb k m)]).
  Proof. reflexivity. Qed.

  Theorem store_from_source : forall k v (m : amap),
    run [] [] "Store" [VKey k; VVal (Some v)] m = Some (aset eqb k v m, []).
  Proof. reflexivity. Qed.

  Theorem delete_from_source : forall k (m : amap),
    run [] [] "Delete" [VKey k] m = Some (adel eqb k m, []).
  Proof. reflexivity. Qed.

  Theorem delete_unsafe_from_source : forall k (m : amap),
    run [] [] "DeleteUnsafe" [VKey k] m = Some (adel eqb k m, []).
  Proof. reflexivity. Qed.

  Theorem len_from_source : forall (m : amap),
    run [] [] "Len" [] m = Some (m, [VLen (length m)]).
  Proof. reflexivity. Qed.

  Lemma range_until_iter : forall f ord (m : amap),
    range_until K V E eqb (iter_cb K V E f) ord m = Some (iter K V eqb f ord m).
  Proof.
    intros f ord. induction ord as [|k r IH]; intro m; simpl; [reflexivity|].
    destruct (aget eqb k m) as [v|]; [|apply IH].
    destruct (f k v m) as [m' b]. destruct b; [apply IH|reflexivity].
  Qed.

  (* Iterate(cb): the callback runs on the entries in SOME order until it returns false *)
  Theorem iterate_from_source : forall f ord (m : amap),
    run [("cb", iter_cb K V E f)] ord "Iterate" [VCb "cb"] m = Some (iter K V eqb f ord m, []).
  Proof.
    intros f ord m. unfold run_method. simpl.
    rewrite range_until_iter. reflexivity.
  Qed.

  (* WithLockedValueDo(key, cb): cb on the stored value and its error, or nil when the key is absent *)
  Theorem with_locked_from_source : forall f k (m : amap),
    run [("cb", value_cb K V E f)] [] "WithLockedValueDo" [VKey k; VCb "cb"] m =
    Some (match aget eqb k m with
          | Some v => let '(m', e) := f v m in (m', [VErr e])
          | None => (m, [VErr None])
          end).
  Proof.
    intros f k m. unfold run_method. simpl. unfold lookup_stmt. simpl. unfold ahas.
    destruct (aget eqb k m) as [v|]; simpl; [|reflexivity].
    destruct (f v m) as [m' e]. reflexivity.
  Qed.

  (* every method but DeleteUnsafe is one critical section *)
  Theorem locked_from_source :
    map (fun x => (mm_name x, mm_locked x)) gen_syncmap_methods =
    [("Load", true); ("Has", true); ("Store", true); ("Delete", true); ("DeleteUnsafe", false); ("Len", true);
     ("Iterate", true); ("WithLockedValueDo", true)].
  Proof. reflexivity. Qed.

  (* ---------- "act on the first entry satisfying c" ---------- *)

  Definition scan_cb (c : K -> V -> bool) (act : K -> V -> amap -> amap) : K -> V -> amap -> amap * bool :=
    fun k v m => if c k v then (act k v m, false) else (m, true).

  Fixpoint first_hit (c : K -> V -> bool) (ord : list K) (m : amap) : option (K * V) :=
    match ord with
    | [] => None
    | k :: r => match aget eqb k m with
                | Some v => if c k v then Some (k, v) else first_hit c r m
                | None => first_hit c r m
                end
    end.

  Lemma iter_scan : forall c act ord (m : amap),
    iter K V eqb (scan_cb c act) ord m =
    match first_hit c ord m with Some (k, v) => act k v m | None => m end.
  Proof.
    intros c act ord m. induction ord as [|k r IH]; simpl; [reflexivity|].
    destruct (aget eqb k m) as [v|]; [|exact IH].
    unfold scan_cb at 1. destruct (c k v); [reflexivity|exact IH].
  Qed.

  Definition cands (c : K -> V -> bool) (m : amap) : amap := filter (fun kv => c (fst kv) (snd kv)) m.

  Lemma first_hit_cand : forall c ord (m : amap) kv, first_hit c ord m = Some kv -> In kv (cands c m).
  Proof.
    intros c ord m kv. induction ord as [|k r IH]; simpl; [discriminate|].
    destruct (aget eqb k m) as [v|] eqn:G; [|exact IH].
    destruct (c k v) eqn:C; [|exact IH].
    intro H; inversion H; subst. apply filter_In. split; [apply (aget_in eqb eqb_spec); exact G|exact C].
  Qed.

  Lemma first_hit_none : forall c ord (m : amap), NoDup (akeys m) -> incl (akeys m) ord ->
    first_hit c ord m = None -> cands c m = [].
  Proof.
    intros c ord m ND INC H.
    assert (A : forall k v, In k ord -> aget eqb k m = Some v -> c k v = false).
    { clear INC. induction ord as [|k r IH]; intros k0 v0 I G; [destruct I|].
      simpl in H. destruct I as [->|I].
      - rewrite G in H. destruct (c k0 v0); [discriminate|reflexivity].
      - apply IH with (k := k0); try assumption.
        destruct (aget eqb k m) as [v|]; [destruct (c k v); [discriminate|exact H]|exact H]. }
    unfold cands. destruct (filter _ m) as [|[k v] t] eqn:F; [reflexivity|].
    assert (I : In (k, v) (filter (fun kv => c (fst kv) (snd kv)) m)) by (rewrite F; left; reflexivity).
    apply filter_In in I. destruct I as [I C]. simpl in C.
    rewrite (A k v) in C; [discriminate| |].
    - apply INC. apply (in_akeys k v m I).
    - apply (in_aget eqb eqb_spec); assumption.
  Qed.

  (* whatever order Go enumerates the map in, the entry acted upon is a candidate, i.e. the model's
     [pick choice] for some choice; and no entry is acted upon only if there is no candidate *)
  Theorem scan_first_is_some_choice : forall c act ord (m : amap), NoDup (akeys m) -> incl (akeys m) ord ->
    exists choice,
      iter K V eqb (scan_cb c act) ord m =
      match Model.Tracker.pick choice (cands c m) with Some (k, v) => act k v m | None => m end.
  Proof.
    intros c act ord m ND INC. rewrite iter_scan.
    destruct (first_hit c ord m) as [[k v]|] eqn:H.
    - apply first_hit_cand in H. destruct (In_nth _ _ (k, v) H) as [n [Hn Hnth]].
      exists n. unfold Model.Tracker.pick. destruct (cands c m) as [|x t] eqn:Cs; [destruct H|].
      rewrite Nat.mod_small by exact Hn.
      rewrite (nth_indep _ x (k, v)) by exact Hn. rewrite Hnth. reflexivity.
    - exists 0. rewrite (first_hit_none c ord m ND INC H). reflexivity.
  Qed.

  Lemma perm_move_front : forall (l : list K) k, NoDup l -> In k l ->
    Permutation (k :: filter (fun x => negb (eqb x k)) l) l.
  Proof.
    induction l as [|a l IH]; intros k ND I; [destruct I|].
    inversion ND as [|? ? NI ND']; subst. simpl. destruct (eqb_spec a k) as [->|NE]; simpl.
    - constructor.
      assert (F : forall l', ~ In k l' -> filter (fun x => negb (eqb x k)) l' = l').
      { induction l' as [|b l' IH']; intro N; simpl; [reflexivity|].
        destruct (eqb_spec b k) as [->|_]; simpl; [exfalso; apply N; left; reflexivity|].
        rewrite IH'; [reflexivity|]. intro; apply N; right; assumption. }
      rewrite F by exact NI. apply Permutation_refl.
    - destruct I as [->|I]; [congruence|].
      apply perm_trans with (a :: k :: filter (fun x => negb (eqb x k)) l); [apply perm_swap|].
      constructor. apply IH; assumption.
  Qed.

  (* conversely every candidate is the one acted upon under some enumeration order (a permutation of the keys) *)
  Theorem every_choice_is_some_order : forall c (m : amap) choice kv, NoDup (akeys m) ->
    Model.Tracker.pick choice (cands c m) = Some kv ->
    exists ord, Permutation ord (akeys m) /\ first_hit c ord m = Some kv.
  Proof.
    intros c m choice [k v] ND P.
    assert (I : In (k, v) (cands c m)).
    { unfold Model.Tracker.pick in P. destruct (cands c m) as [|x t] eqn:Cs; [discriminate|].
      assert (P' : nth (choice mod length (x :: t)) (x :: t) x = (k, v)) by congruence.
      rewrite <- P'. apply nth_In. apply Nat.mod_upper_bound. simpl. lia. }
    apply filter_In in I. destruct I as [I C]. simpl in C.
    exists (k :: filter (fun x => negb (eqb x k)) (akeys m)). split.
    - apply perm_move_front; [exact ND|apply (in_akeys k v m I)].
    - simpl. rewrite (in_aget eqb eqb_spec k v m ND I). rewrite C. reflexivity.
  Qed.

  (* ---------- "delete every entry satisfying c" ---------- *)

  Definition del_cb (c : K -> V -> bool) : K -> V -> amap -> amap * bool :=
    fun k v m => ((if c k v then adel eqb k m else m), true).

  Lemma adel_filter : forall k (m : amap), adel eqb k m = filter (fun kv => negb (eqb (fst kv) k)) m.
  Proof.
    intros k m. induction m as [|[a v] m IH]; simpl; [reflexivity|].
    destruct (eqb a k); simpl; [exact IH|rewrite IH; reflexivity].
  Qed.

  Lemma filter_filter' : forall (A : Type) (p q : A -> bool) (l : list A),
    filter p (filter q l) = filter (fun x => q x && p x) l.
  Proof.
    intros A p q l. induction l as [|a l IH]; simpl; [reflexivity|].
    destruct (q a); simpl; [destruct (p a); rewrite IH; reflexivity|exact IH].
  Qed.

  Definition keep (c : K -> V -> bool) (ord : list K) (kv : K * V) : bool :=
    negb (existsb (eqb (fst kv)) ord && c (fst kv) (snd kv)).

  Lemma iter_delete_general : forall c ord (m : amap), NoDup (akeys m) ->
    iter K V eqb (del_cb c) ord m = filter (keep c ord) m.
  Proof.
    intros c ord. induction ord as [|k r IH]; intros m ND; simpl.
    - symmetry. unfold keep. simpl.
      induction m as [|a m IHm]; simpl; [reflexivity|].
      inversion ND; subst. rewrite IHm by assumption. reflexivity.
    - destruct (aget eqb k m) as [v|] eqn:G.
      + unfold del_cb at 1. destruct (c k v) eqn:C.
        * rewrite IH by (apply (nodup_adel eqb eqb_spec); exact ND).
          rewrite adel_filter, filter_filter'. apply filter_ext_in.
          intros [a x] I. unfold keep. simpl.
          destruct (eqb_spec a k) as [->|NE]; simpl.
          -- assert (x = v).
             { pose proof (in_aget eqb eqb_spec k x m ND I) as G'. congruence. }
             subst. rewrite C. simpl. rewrite ?andb_true_r, ?andb_false_r. reflexivity.
          -- reflexivity.
        * rewrite IH by exact ND. apply filter_ext_in.
          intros [a x] I. unfold keep. simpl.
          destruct (eqb_spec a k) as [->|NE]; simpl; [|reflexivity].
          assert (x = v).
          { pose proof (in_aget eqb eqb_spec k x m ND I) as G'. congruence. }
          subst. rewrite C. simpl. rewrite ?andb_true_r, ?andb_false_r. reflexivity.
      + rewrite IH by exact ND. apply filter_ext_in.
        intros [a x] I. unfold keep. simpl.
        destruct (eqb_spec a k) as [->|NE]; simpl; [|reflexivity].
        pose proof (in_aget eqb eqb_spec k x m ND I) as G'. congruence.
  Qed.

  (* whatever the enumeration order (every key occurs in it), exactly the entries satisfying c are removed, the
     others stay as they are and in their order: the model's filter *)
  Theorem delete_where_is_filter : forall c ord (m : amap), NoDup (akeys m) -> incl (akeys m) ord ->
    iter K V eqb (del_cb c) ord m = filter (fun kv => negb (c (fst kv) (snd kv))) m.
  Proof.
    intros c ord m ND INC. rewrite iter_delete_general by exact ND.
    apply filter_ext_in. intros [a x] I. unfold keep. simpl.
    assert (Ex : existsb (eqb a) ord = true).
    { apply existsb_exists. exists a. split; [apply INC; apply (in_akeys a x m I)|].
      destruct (eqb_spec a a); congruence. }
    rewrite Ex. reflexivity.
  Qed.
End Tie.

(* ---------- the two maps of the correlator ---------- *)
From Coq Require Import NArith ZArith.
From AM Require Model.TrackerIR.

Lemma filter_opt_total : forall (A : Type) (f : A -> option bool) (l l' : list A),
  Model.TrackerIR.filter_opt f l = Some l' ->
  (forall x, In x l -> f x <> None) /\ l' = filter (fun x => match f x with Some b => b | None => false end) l.
Proof.
  intros A f l. induction l as [|a l IH]; intros l' H; simpl in H.
  - inversion H. split; [intros x []|reflexivity].
  - destruct (f a) as [b|] eqn:Fa; [|discriminate].
    destruct (Model.TrackerIR.filter_opt f l) as [r|] eqn:Fr; [|discriminate].
    destruct (IH r eq_refl) as [T Eq]. inversion H; subst. split.
    + intros x [->|I]; [congruence|apply T; exact I].
    + simpl. rewrite Fa. destruct b; reflexivity.
Qed.

(* the session map (keys: session ids) and the parked-login map (keys: pids), any value types *)
Theorem sessions_cleanup_any_order : forall (V : Type) (c : N -> V -> bool) (ord : list N) (m : list (N * V)),
  NoDup (akeys m) -> incl (akeys m) ord ->
  SyncMapIR.iter N V N.eqb (del_cb N V N.eqb c) ord m = filter (fun kv => negb (c (fst kv) (snd kv))) m.
Proof. intros V. exact (delete_where_is_filter N V N.eqb N.eqb_spec). Qed.

Theorem logins_cleanup_any_order : forall (V : Type) (c : Z -> V -> bool) (ord : list Z) (m : list (Z * V)),
  NoDup (akeys m) -> incl (akeys m) ord ->
  SyncMapIR.iter Z V Z.eqb (del_cb Z V Z.eqb c) ord m = filter (fun kv => negb (c (fst kv) (snd kv))) m.
Proof. intros V. exact (delete_where_is_filter Z V Z.eqb Z.eqb_spec). Qed.

Theorem sessions_scan_any_order : forall (V : Type) (c : N -> V -> bool) (act : N -> V -> list (N * V) -> list (N * V))
  (ord : list N) (m : list (N * V)),
  NoDup (akeys m) -> incl (akeys m) ord ->
  exists choice,
    SyncMapIR.iter N V N.eqb (scan_cb N V c act) ord m =
    match Model.Tracker.pick choice (cands N V c m) with Some (k, v) => act k v m | None => m end.
Proof. intros V. exact (scan_first_is_some_choice N V N.eqb N.eqb_spec). Qed.

(* ---------- the statements of Props/C03.v ---------- *)
Lemma syncmap_methods_from_source :
  forall (K V E : Type) (eqb : K -> K -> bool), (forall a b, reflect (a = b) (eqb a b)) ->
  let run := run_method K V E eqb gen_syncmap_methods in
  ctor_map K V gen_syncmap_ctor = [] /\
  (forall k m, run [] [] "Load" [VKey k] m = Some (m, [VVal (aget eqb k m); VBool (ahas eqb k m)])) /\
  (forall k m, run [] [] "Has" [VKey k] m = Some (m, [VBool (ahas eqb k m)])) /\
  (forall k v m, run [] [] "Store" [VKey k; VVal (Some v)] m = Some (aset eqb k v m, [])) /\
  (forall k m, run [] [] "Delete" [VKey k] m = Some (adel eqb k m, [])) /\
  (forall k m, run [] [] "DeleteUnsafe" [VKey k] m = Some (adel eqb k m, [])) /\
  (forall m, run [] [] "Len" [] m = Some (m, [VLen (List.length m)])) /\
  (forall f ord m, run [("cb", iter_cb K V E f)] ord "Iterate" [VCb "cb"] m =
                   Some (SyncMapIR.iter K V eqb f ord m, [])) /\
  (forall f k m, run [("cb", value_cb K V E f)] [] "WithLockedValueDo" [VKey k; VCb "cb"] m =
                 Some (match aget eqb k m with
                       | Some v => let '(m', e) := f v m in (m', [VErr e])
                       | None => (m, [VErr None])
                       end)).
Proof.
  intros K V E eqb sp run. unfold run.
  split; [apply ctor_from_source|].
  split; [intros; apply load_from_source|].
  split; [intros; apply has_from_source|].
  split; [intros; apply store_from_source|].
  split; [intros; apply delete_from_source|].
  split; [intros; apply delete_unsafe_from_source|].
  split; [intros; apply len_from_source|].
  split; [intros; apply iterate_from_source|].
  intros; apply with_locked_from_source.
Qed.

Lemma iteration_order_is_the_scan_choice :
  forall (K V : Type) (eqb : K -> K -> bool), (forall a b, reflect (a = b) (eqb a b)) ->
  (forall c act ord (m : list (K * V)), NoDup (akeys m) -> incl (akeys m) ord ->
     exists choice, SyncMapIR.iter K V eqb (scan_cb K V c act) ord m =
                    match Model.Tracker.pick choice (cands K V c m) with Some (k, v) => act k v m | None => m end) /\
  (forall c (m : list (K * V)) choice kv, NoDup (akeys m) -> Model.Tracker.pick choice (cands K V c m) = Some kv ->
     exists ord, Permutation.Permutation ord (akeys m) /\ first_hit K V eqb c ord m = Some kv) /\
  (forall c ord (m : list (K * V)), NoDup (akeys m) -> incl (akeys m) ord ->
     SyncMapIR.iter K V eqb (del_cb K V eqb c) ord m = filter (fun kv => negb (c (fst kv) (snd kv))) m).
Proof.
  intros K V eqb sp. split; [|split].
  - exact (scan_first_is_some_choice K V eqb sp).
  - exact (every_choice_is_some_order K V eqb sp).
  - exact (delete_where_is_filter K V eqb sp).
Qed.
