(* Proofs about the rendering of UserAction events (Model/ToEvent.v) and its composition
   with the correlator model (Model/Tracker.v): C14. *)
From Coq Require Import Ascii String List Bool Arith ZArith NArith.
Import ListNotations.
From AM Require Import Lib.Bytes Lib.Assoc Model.Tracker Model.ToEvent
  Proofs.TrackerBasics Proofs.TrackerInv Proofs.TrackerSpec Proofs.TrackerLife.

Local Notation NS := N.eqb_spec.

(* ---------- the rendering, field by field ---------- *)

Lemma outcome_succeeded_iff r : outcome_of r = outcome_succeeded <-> r = result_success.
Proof.
  unfold outcome_of. destruct (seqb r result_success) eqn:E.
  - apply seqb_eq in E. tauto.
  - split; [discriminate|]. intros ->. rewrite seqb_refl in E. discriminate.
Qed.

Lemma outcome_failed_iff r : outcome_of r = outcome_failed <-> r <> result_success.
Proof.
  unfold outcome_of. destruct (seqb r result_success) eqn:E.
  - apply seqb_eq in E. split; [discriminate|]. intros H. contradiction.
  - split; [|reflexivity]. intros _ ->. rewrite seqb_refl in E. discriminate.
Qed.

Lemma args_present_iff a : (exists x, args_of a = Some x) <-> a <> [].
Proof.
  destruct a; cbn; split.
  - intros [x H]. discriminate.
  - intros H. contradiction.
  - discriminate.
  - intros _. eexists. reflexivity.
Qed.

Theorem render_spec (l : login_ident) (e : cevent) :
  let u := to_event l e in
  ua_type u = s2l "UserAction" /\
  ua_component u = s2l "auditd" /\
  ua_logged_at u = ce_time e /\
  ua_audit_id u = ce_session e /\
  (ua_outcome u = s2l "succeeded" <-> ce_result e = s2l "success") /\
  (ua_outcome u = s2l "failed" <-> ce_result e <> s2l "success") /\
  ua_action u = ce_action e /\ ua_how u = ce_how e /\ ua_object u = ce_object e /\
  ((exists a, ua_args u = Some a) <-> ce_args e <> []) /\
  (forall a, ua_args u = Some a -> a = ce_args e) /\
  ua_ident u = l.
Proof.
  cbn. repeat split; try reflexivity.
  - apply outcome_succeeded_iff.
  - apply outcome_succeeded_iff.
  - apply outcome_failed_iff.
  - apply outcome_failed_iff.
  - apply args_present_iff.
  - apply args_present_iff.
  - intros a. destruct (ce_args e); cbn; [discriminate|]. intros [= <-]. reflexivity.
Qed.

(* rendering is a function of (identity content, coalesced event) alone; in particular two
   events rendered from the same login differ only in what comes from the audit event *)
Theorem render_identity_only_from_login (l : login_ident) (e1 e2 : cevent) :
  ua_ident (to_event l e1) = ua_ident (to_event l e2).
Proof. reflexivity. Qed.

(* ---------- composition with the correlator ---------- *)

(* What the daemon writes for the emitted pair (login, audit event): [ident] gives the
   identity content of a login, [cev] the coalesced form of an audit event.  Both are
   arbitrary functions: the statement holds for every such assignment. *)
Definition render (ident : login -> login_ident) (cev : aev -> cevent) (x : emitted) : uaction :=
  to_event (ident (fst x)) (cev (snd x)).

Theorem same_identity (ident : login -> login_ident) (cev : aev -> cevent) (s : N) (p : Z) (h : list top) :
  allowed_run s p PClean h -> keeps_run s p PClean h ->
  let R := map (render ident cev) (projs s (outs h)) in
  (forall u1 u2, In u1 R -> In u2 R -> ua_ident u1 = ua_ident u2) /\
  (rec_seen s p h && login_seen p h = false -> R = []) /\
  (rec_seen s p h && login_seen p h = true ->
     exists l k, In_login l h /\ login_p p l = true /\
       R = map (fun e => to_event (ident l) (cev e)) (firstn k (events_from_rec s p h)) /\
       forall u, In u R -> ua_ident u = ident l).
Proof.
  intros Hal Hk. cbn zeta.
  destruct (once_in_order s p h Hal Hk) as [H0 H1].
  destruct (rec_seen s p h && login_seen p h) eqn:E.
  - destruct (H1 eq_refl) as (l & k & Hin & Hp & Hout & _).
    assert (HR : map (render ident cev) (projs s (outs h))
                 = map (fun e => to_event (ident l) (cev e)) (firstn k (events_from_rec s p h))).
    { rewrite Hout, map_map. reflexivity. }
    assert (Hid : forall u, In u (map (render ident cev) (projs s (outs h))) -> ua_ident u = ident l).
    { intros u Hu. rewrite HR in Hu. apply in_map_iff in Hu. destruct Hu as (e & <- & _). reflexivity. }
    split; [|split].
    + intros u1 u2 Hu1 Hu2. rewrite (Hid _ Hu1), (Hid _ Hu2). reflexivity.
    + discriminate.
    + intros _. exists l, k. repeat split; assumption.
  - rewrite (H0 eq_refl). cbn. split; [|split].
    + intros u1 u2 [].
    + reflexivity.
    + discriminate.
Qed.

(* ---------- the stored login is not an output of emitting ---------- *)

(* In the model, processing an audit event (which is what emits) never changes the login
   stored for any session: afterwards the session is gone (its disposal record was written)
   or still holds the same login; and everything the step writes for the event's own
   session is written with that stored login. *)
Theorem audit_keeps_login st ev now st' out r :
  tstep st (Audit ev now) = (st', out, r) ->
  forall s u l, aget N.eqb s (sess st) = Some u -> u_login u = Some l ->
    (a_ses ev = SId s -> forall x, In x out -> fst x = l) /\
    (aget N.eqb s (sess st') = None \/
     exists u', aget N.eqb s (sess st') = Some u' /\ u_login u' = Some l).
Proof.
  cbn [tstep]. unfold audit_event. intros Hs s u l Hg Hl.
  destruct (a_ses ev) as [| |s0] eqn:Es.
  - injection Hs as <- <- <-. split; [discriminate|]. right. exists u. tauto.
  - injection Hs as <- <- <-. split; [discriminate|]. right. exists u. tauto.
  - destruct (aget N.eqb s0 (sess st)) as [u0|] eqn:Eg0.
    + destruct (with_session_shape _ _ _ _ _ _ _ Hs) as (_ & Hout & Hsess).
      split.
      * intros [= ->] x Hx. rewrite Hg in Eg0. injection Eg0 as <-.
        destruct (Hout x Hx) as (l' & Hl' & Hf & _). congruence.
      * destruct (N.eq_dec s s0) as [->|Hne].
        -- rewrite Hg in Eg0. injection Eg0 as <-.
           destruct Hsess as [->|(u' & -> & _ & _ & Hlu & _)].
           ++ left. apply aget_adel_same.
           ++ right. exists u'. rewrite (aget_aset_same N.eqb NS). split; [reflexivity|congruence].
        -- right. exists u. split; [|assumption].
           destruct Hsess as [->|(u' & -> & _)].
           ++ rewrite (aget_adel_other N.eqb NS); assumption.
           ++ rewrite (aget_aset_other N.eqb NS); assumption.
    + assert (Hne : s <> s0) by (intros ->; congruence).
      split; [intros [= E]; congruence|].
      right. exists u. split; [|assumption].
      destruct (without_session_shape _ _ _ _ _ _ _ Hs) as [[-> _]|(_ & p & _ & [(l0 & _ & -> & _)|(_ & -> & _)])].
      * assumption.
      * rewrite (aget_aset_other N.eqb NS); assumption.
      * rewrite (aget_aset_other N.eqb NS); assumption.
Qed.
